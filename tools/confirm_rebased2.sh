#!/bin/sh
# Round-13 seeds: applies each in a scratch worktree of /repo, runs the existing suite (must pass), and runs the demonstration - a test
# file (copied into assert-struct/tests/) or a script (demo.sh, which locates the worktree as the parent of its own directory) - with the
# change (must fail) and without it (must pass).   Output: /verif/seeded/CONFIRM-rebased-F9.log
export CARGO_NET_OFFLINE=true
W=/tmp/confirm-wtreb2
git -C /repo worktree remove --force $W 2>/dev/null
git -C /repo worktree add -q --detach $W HEAD || exit 2
export CARGO_TARGET_DIR=$W/target
: > /verif/seeded/CONFIRM-rebased-F9.log
for d in /verif/seeded/C07-11 /verif/seeded/C07-12 /verif/seeded/C12-1 /verif/seeded/C12-5 /verif/seeded/C12-11 /verif/seeded/C12-13 /verif/seeded/C14-2 /verif/seeded/C14-6 /verif/seeded/C14-7; do
  n=$(basename $d)
  cd $W && git checkout -q -- . && git clean -fdq -e target
  if ! git apply $d/patch.diff; then echo "$n: PATCH DOES NOT APPLY" >> /verif/seeded/CONFIRM-rebased-F9.log; continue; fi
  suite=$(cargo test --workspace --no-fail-fast --offline 2>&1 | grep -E "^test result" | awk '{p+=$4; f+=$6} END {print p"/"f}')
  if [ -f $d/demo.sh ]; then
    mkdir -p $W/seeded && cp -r $d/. $W/seeded/
    (cd $W && timeout 900 bash seeded/demo.sh > /dev/null 2>&1); with="script exit $?"
    git apply -R $d/patch.diff
    (cd $W && timeout 900 bash seeded/demo.sh > /dev/null 2>&1); without="script exit $?"
  else
    cp $d/seeded_demo.rs assert-struct/tests/seeded_demo.rs
    for sub in seeded_demo_cases seeded_cases seeded_demo seeded_demo_case; do [ -d $d/$sub ] && cp -r $d/$sub assert-struct/tests/; done
    with=$(cargo test --offline -p assert-struct --test seeded_demo 2>&1 | grep -E "^test result|error: could not compile|error\[" | head -1 | cut -c1-80)
    git apply -R $d/patch.diff
    without=$(cargo test --offline -p assert-struct --test seeded_demo 2>&1 | grep -E "^test result|error: could not compile|error\[" | head -1 | cut -c1-80)
  fi
  echo "$n: suite(passed/failed)=$suite | demo with change: $with | demo without: $without" >> /verif/seeded/CONFIRM-rebased-F9.log
done
cd / && git -C /repo worktree remove --force $W
echo done >> /verif/seeded/CONFIRM-rebased-F9.log
