import sys, time
sys.path.insert(0,'/verif/lib')
import vlib, t3
ck=vlib.Check('C01','quick',int(sys.argv[2]) if len(sys.argv)>2 else 1)
n=int(sys.argv[1]) if len(sys.argv)>1 else 60
t0=time.time()
cases=t3.run_corpus(ck,'mixed',n,use_cache=False)
stats,mism=t3.compare(ck,cases,'mixed')
print(stats, 'mismatches',len(mism), '%.0fs'%(time.time()-t0))
from collections import Counter
print(Counter(m['kind'] for m in mism))
shown=Counter()
for m in mism:
    if shown[m['kind']]>=3: continue
    shown[m['kind']]+=1
    d=t3.describe(m['case']); print('----',m['kind']); print(d['decls']); print(d['type'],'=',d['value']); print(d['invocation']); print(' spec',d['spec']); print(' impl',d['impl'], d['message'][:300])
forms=Counter()
for c in cases:
    for k,v in c.forms.items(): forms[k]+=v
print(forms)
