#!/bin/sh
# tools/seedtest.sh <seeded dir name> <check id>...   (applies the seeded change to /repo, runs the checks, reverts)
d=/verif/seeded/$1; shift
git -C /repo apply "$d/patch.diff" || exit 2
for c in "$@"; do
  (cd /verif && ./check $c 2>&1 | grep -v "^  " | cut -c1-230 | tail -5)
done
git -C /repo checkout -- . ; git -C /repo clean -fdq
# evidence written while a seeded change was applied is not evidence about the tree: restore the committed files
git -C /verif checkout -- evidence/ 2>/dev/null
git -C /repo status --short
