import sys
sys.path.insert(0,'/verif/lib')
import corpus, vlib
def sh(ts): 
    r=[]
    for t in ts:
        h,sp=t.split('@'); 
        r.append((('s:'+vlib.unhexs(h[2:])) if h.startswith('s:') else vlib.unhexs(h))+'@'+sp)
    return ' '.join(r)
def main(texts):
    ck=vlib.Check('C14','quick',1)
    reqs=["run "+vlib.hexs(t) for t in texts]
    out=ck.rt_batch(reqs,binary='inproc',harness='inproc')
    lreq=[]; idx=[]
    for k,o in enumerate(out):
        f=o.split('\t')
        if f[0]=='ok':
            lreq.append("expand\t%s\t%s"%(f[1],f[2])); idx.append(k)
        else: print('IMPL',f[0],texts[k][:80].replace('\n',' '), vlib.unhexs(f[1]) if f[0]=='err' else f[1:3])
    lout=ck.lean_batch(lreq)
    nbad=0
    for k,lo in zip(idx,lout):
        f=out[k].split('\t'); g=lo.split('\t')
        if f[5]!='valid-block': print('INVALID RUST', texts[k][:100])
        if g[0]!='ok': 
            nbad+=1
            if nbad<8: print('LEAN',g[0],texts[k][:100])
            continue
        if g[1]!=f[4]:
            nbad+=1
            if nbad<8: print('LOC', texts[k][:80].replace('\n',' '), '\n  impl',f[4],'\n  model',g[1])
            continue
        a=f[6][6:-1].split(' '); b=g[2][6:-1].split(' ')
        if a!=b:
            nbad+=1
            if nbad<8:
                i=next((i for i,(x,y) in enumerate(zip(a,b)) if x!=y), min(len(a),len(b)))
                print('TOK', texts[k][:80].replace('\n',' '), 'at',i,len(a),len(b),'\n  impl ',sh(a[max(0,i-8):i+8]),'\n  model',sh(b[max(0,i-8):i+8]))
    print('mismatches',nbad,'of',len(idx))
if __name__=='__main__':
    if len(sys.argv)>1: main(sys.argv[1:])
    else: main([t for _,t in corpus.repo_invocations()])
