#!/usr/bin/env python3
"""Regenerates /verif/MANIFEST.json from the table below (kept valid at all times)."""
import json, os
ROOT = os.path.dirname(os.path.dirname(os.path.abspath(__file__)))
ALL = ["C%02d" % i for i in range(1, 21)]

CLAIMED = {
 "C10": dict(
   text="Proof (Lean 4 kernel): the model of set_match/set_backtrack pushes nothing iff the length rule holds and an injective assignment of patterns to matching elements exists, for every Boolean match matrix of every size; a failed search restores its scratch state; the verdict is invariant under any permutation of elements or of patterns; termination is structural. The model is tied to the real function on every run by exhaustive differential execution (all matrices up to 4x4 x both rest values) plus random larger ones, and the real verdict is compared with an independent matching algorithm.",
   note="Trusted: Lean kernel (+ propext, Classical.choice, Quot.sound); the hand-written model of set_match is tied to the code by differential execution only (exhaustive for small sizes); predicates are modelled as a pure Boolean matrix.",
   technique="Lean 4 proof (induction on remaining patterns with a frame lemma for the undo) + exhaustive small-size correspondence with the real set_match",
   design="5/C10"),
 "C18": dict(
   text="Proof (Lean 4 kernel) over lists of path components of any length: the overlap stripped by absolute_source_path is the longest suffix/prefix overlap; for every layout cargo produces (manifest dir = wsroot/pkg, file = pkg/src) with no spurious longer overlap the resolved path is wsroot/pkg/src; the result is always the file path appended to a prefix of the manifest dir obtained by stripping a genuine overlap. The unguarded statement is refuted by a kernel-checked counterexample (known finding: a package directory named like the first component of the source path). Tied to the real function by exhaustive differential execution over all layouts of depth <= 2-3 over a 3-name alphabet, absolute compiler paths, and real files on disk whose snippet must be shown.",
   note="Trusted: Lean kernel; the model of Unix Path::components / PathBuf::push (validated differentially on every run); cargo's conventions for CARGO_MANIFEST_DIR and file!() are modelled, not verified (mini-workspaces built by cargo are a thorough-tier growth item).",
   technique="Lean 4 proof about longest-overlap stripping over component lists + exhaustive small-layout correspondence with the real function and real files",
   design="5/C18"),
 "C04": dict(
   text="Proof (Lean 4 kernel), for every source text and every character position: the byte offset the runtime computes from the compiler's (line, character column) of a character is that character's byte position (C04_offset_roundtrip), so a node whose tokens are characters i..j is annotated with exactly the bytes of those characters, and the range is non-empty (C04_span_exact, C04_span_nonempty). The pinned code did not have this property (kernel-checked counterexample; repaired by a fix: commit). Tied to the real byte_offset_of and to the spans the real Display hands to the renderer by differential execution on random Unicode / tab / CRLF texts. The anchor-selection half (which tokens a node's location covers) is tied structurally through the in-process parser harness.",
   note="Trusted: Lean kernel; rustc/proc-macro2's (line, column) convention is modelled by posOf (columns = Unicode scalar values since line start; BOM and bare CR outside the model); correspondence is sampled.",
   technique="Lean 4 proof (round trip posOf / byteOffsetOf by induction on the text) + differential execution against the real function and Display",
   design="5/C04"),
 "C06": dict(
   text="Proof (Lean 4 kernel), for every source text and every recorded (line, column) range including ranges outside the text: the spans the crate hands to the renderer are non-empty, start on a character boundary, end on a boundary or exactly one past the end, i.e. they satisfy the renderer's observed no-panic contract (C06_spans_meet_contract, C06_rendererOk); the fallback listing has the header and one located entry per mismatch. The pinned code violated the contract (kernel-checked counterexample; the process aborted; repaired by a fix: commit). Tied to the code by formatting real ErrorReports over files in every state (normal, non-ASCII, CRLF, empty, truncated, edited, missing, directory, not UTF-8) under catch_unwind, and the renderer contract itself is validated against the real annotate-snippets on every run.",
   note="Trusted: Lean kernel; annotate-snippets is represented by its observed contract (validated differentially, not proved); file-system faults are modelled as 'read fails -> None'; that the expansion raises exactly one panic after all pushes is tied structurally (expansion tokens) and by compiled programs.",
   technique="Lean 4 proof that every produced span meets the renderer's contract + differential execution of the real Display over faulted source files",
   design="5/C06"),
 "C01": dict(
   text="Proof (Lean 4 kernel). C01_sound: if the expansion pushes no entry then sat (the documented meaning, Sat.lean) holds, via run_eq_frontier and frontier_agree. The backbone is the refinement theorem (Theorems/Refine.lean): for every pattern satisfying the decidable guard Pat.safe, every value, every environment and every interpretation of user expressions / Debug / comparison / matchers, the model of the generated code run under the model of Rust's match semantics pushes exactly the entries of the specification's failure frontier (mutual structural induction over the pattern tree; no bound on depth or size). The model of the code generator is tied to the real expand::expand output token by token and span by span on every run (T2: every invocation in the repository plus generated patterns), and the specification is compared with compiled programs on generated (type, value, pattern) triples (T3). Per-form meaning lemmas state the documented meaning outright; C01_binding_path_is_vacuous records the known vacuous form (a path that resolves to nothing binds).",
   note="Trusted: Lean kernel; Rust's dynamic semantics for the generated constructs are modelled (Exec.lean) and validated by T3, not proved; user expressions are opaque parameters; guard Pat.safe excludes the known-finding shapes (deref followed by postfix operations, deref in wildcard structs).",
   technique="Lean 4 refinement proof (expansion model = failure-frontier specification) + token-exact correspondence with the real code generator + compiled-program differential against the specification",
   design="5/C01"),
 "C02": dict(
   text="Proof (Lean 4 kernel). C02_complete: if the pair type-checks and sat holds, the expansion pushes nothing; corollaries proved separately: wildcard, #{..}, #(..), struct rest, field order and field repetition irrelevance, slice rest. The backbone is the refinement theorem (Theorems/Refine.lean): for every pattern satisfying the decidable guard Pat.safe, every value, every environment and every interpretation of user expressions / Debug / comparison / matchers, the model of the generated code run under the model of Rust's match semantics pushes exactly the entries of the specification's failure frontier (mutual structural induction over the pattern tree; no bound on depth or size). The model of the code generator is tied to the real expand::expand output token by token and span by span on every run (T2: every invocation in the repository plus generated patterns), and the specification is compared with compiled programs on generated (type, value, pattern) triples (T3).",
   note="Same trusted base as C01.",
   technique="Lean 4 refinement proof + frontier/sat agreement + T2/T3 correspondence (matching stream: every generated matching triple must return)",
   design="5/C02"),
 "C03": dict(
   text="Proof (Lean 4 kernel). C03_frontier: the entries pushed are exactly the specification's frontier (same nodes, order, texts); lemmas: a matched sub-pattern has no entry, sibling entries concatenate (a failing sibling never hides another), wrong variant / slice length yield one entry and nothing from inside, a set yields at most one entry for its own node (via the C10 theorems), each missing key yields one entry on the map node. The backbone is the refinement theorem (Theorems/Refine.lean): for every pattern satisfying the decidable guard Pat.safe, every value, every environment and every interpretation of user expressions / Debug / comparison / matchers, the model of the generated code run under the model of Rust's match semantics pushes exactly the entries of the specification's failure frontier (mutual structural induction over the pattern tree; no bound on depth or size). The model of the code generator is tied to the real expand::expand output token by token and span by span on every run (T2: every invocation in the repository plus generated patterns), and the specification is compared with compiled programs on generated (type, value, pattern) triples (T3).",
   note="Same trusted base as C01. Reading fixed in DESIGN.md: a map's length failure does not stop present keys from being examined.",
   technique="Lean 4 refinement proof + T2/T3 correspondence (near-miss stream with 1..n simultaneous failures: recorded entries (location, label) vs the frontier)",
   design="5/C03"),
 "C05": dict(
   text="Proof (Lean 4 kernel). C05_push_formats_tested_value: in every template of every expansion the expression passed to format!(\"{:?}\", ..) is the expression that template tested (mutual induction over the generator model); C05_leaf_actual_is_debug, C05_set_summary_true, C05_map_summary_true: the actual texts are Debug of the sub-value reached / true summaries, for any Debug function. The backbone is the refinement theorem (Theorems/Refine.lean): for every pattern satisfying the decidable guard Pat.safe, every value, every environment and every interpretation of user expressions / Debug / comparison / matchers, the model of the generated code run under the model of Rust's match semantics pushes exactly the entries of the specification's failure frontier (mutual structural induction over the pattern tree; no bound on depth or size). The model of the code generator is tied to the real expand::expand output token by token and span by span on every run (T2: every invocation in the repository plus generated patterns), and the specification is compared with compiled programs on generated (type, value, pattern) triples (T3). T4 additionally checks the real set_match summaries.",
   note="Same trusted base as C01; Debug is an uninterpreted parameter in the theorems and emulated (validated by T3) for predictions. The strong form (effectful expressions evaluated twice) is C08's subject.",
   technique="Lean 4 proof over the generator model + refinement + T2/T3/T4 correspondence on actual texts",
   design="5/C05"),
 "C09": dict(
   text="Proof (Lean 4 kernel). C09_borrow_only: for every pattern the expansion never takes the asserted expression by value (the consumesRoot judgment is false for expand p; mutual induction over the generator model): its tokens occur only in `let __assert_struct_value = &(expr);`. The pinned tree violated this (kernel-checked counterexample; repaired by two fix: commits). Tied to the code by T2 and by a position sweep of generated programs that use the asserted value after the assertion, with rustc's move checker as the oracle.",
   note="Trusted: Lean kernel; `consumes` is a small syntactic judgment standing in for rustc's move rules, validated against rustc cell by cell (T3). Open finding: closure patterns after field operations that yield a place.",
   technique="Lean 4 proof over the generator model + T2 token correspondence + rustc accept/reject and before/after comparison on generated programs",
   design="5/C09"),
 "C11": dict(
   text="Verdict half: proof (Lean 4 kernel) via the refinement theorem - positions only decide which sub-value a pattern is applied to (C11_variant_elem and the refine* lemmas for every position constructor). Acceptance half: decided by rustc itself on a systematic sweep - every atom form, every range shape and every compound type, with matching and bound-crossing values, wrapped in 16 positions; acceptance and verdict compared with the struct-field position and with the specification. Labelled partial for the acceptance half (rustc's typing is an oracle, not modelled). Open findings are keyed by (position class, form).",
   note="Trusted: Lean kernel for the verdict half; rustc as oracle for acceptance; generator coverage bounds what the sweep sees (distribution in evidence).",
   technique="Lean 4 refinement proof (verdict) + exhaustive form x position sweep through rustc (acceptance)",
   design="5/C11"),
 "C07": dict(
   text="Proof (Lean 4 kernel). C07_every_binder_reserved / C07_binders_reserved: every name the expansion binds around user expressions is rendered with a reserved double-underscore prefix (positional binders, map/set binders, the root binding and, since a fix: commit, the bindings of destructured struct fields `__assert_struct_field_<field>`), so no caller variable with an ordinary name - in particular none named like a field or sibling field - can be captured. The pinned tree bound fields under their own names (`User { name: == name }` compared the field with itself); repaired. Tied to the code by T2 (binder tokens) and by twin programs through rustc: 60 (hole kind x colliding name) pairs, each compiled under the colliding name and under a fresh name; outcomes must agree. Open finding: reserved `__` helper names themselves have call-site hygiene.",
   note="Trusted: Lean kernel; proc-macro hygiene is modelled as call-site for quote! identifiers; rustc's name resolution is the oracle in the twin programs.",
   technique="Lean 4 proof over binder names of the generator model + token-exact T2 + twin programs through rustc",
   design="5/C07"),
 "C08": dict(
   text="Proof (Lean 4 kernel) of the syntactic facts: the root pattern is expanded on the binding `__assert_struct_value` (the asserted expression's tokens occur once, in the let - C08_root_bound_once, with T2 tying the let to the real tokens); per-template evaluation counts on the passing / failing path (C08_string_once, C08_comparison_twice_on_failure); no push is evaluated when a test passes (C08_debug_only_on_failure). Checked against compiled programs with counting wrappers around the asserted expression and around a getter in a field path, for every form, passing and failing. Open findings (kernel-stated, replayed): chains re-evaluated on the failing path, per-entry evaluation for maps / wildcard structs, zero evaluations for assertion-free patterns.",
   note="Trusted: Lean kernel; evaluation counts are syntactic occurrence counts in the IR, validated by the counters; `.await` and custom Index impls are not instrumented.",
   technique="Lean 4 proof of syntactic evaluation counts + T2 + instrumented programs (counters)",
   design="5/C08"),
 "C12": dict(
   text="Proof (Lean 4 kernel). C12_struct_pat_faithful: the native pattern lists exactly the deduplicated written fields and `..` iff written; C12_omitted_field_rejected, C12_unknown_field_rejected, C12_rest_allows_omission, C12_variant_arity, C12_tuple_arity: in the model of rustc's destructuring rules an omitted or unknown field / wrong arity has no verdict (rejected). Tied by T2 and by an exhaustive accept/reject matrix through rustc: every subset of the fields of 5 struct / struct-variant shapes with and without `..`, unknown fields, wrong type / variant names, wildcard structs with and without `..`, tuple and variant arities 0-5. A defect found by the matrix (`Path { .. }` expanded to invalid Rust) was repaired.",
   note="Trusted: Lean kernel; rustc's E0026/E0027/E0023/E0308 rules are modelled (the `none` cases of exec/frontier) and validated on the matrix; the wildcard-struct `..` requirement is a parser property (tied by T1).",
   technique="Lean 4 proof over the generator model and the destructuring judgment + exhaustive accept/reject matrix through rustc",
   design="5/C12"),
 "C14": dict(
   text="Proof (Lean 4 kernel). genNodes_ids: the emitted node definitions are exactly the pattern's nodes in pattern order (a bare `..` in a slice has none); C14_ids_nodup: defined once given distinct ids; C14_refs_defined: every node the assertion code refers to is defined (mutual induction over the generator model); C14_root_node / C14_root_def. Tied by T2 (node definition tokens, references, locations; every expansion parsed with syn as a Rust block) and by T1 histories: every invocation expanded in two different histories on one thread (the second interleaved with rejected inputs), outputs compared byte for byte. Two defects found (slice tree, `Path { .. }` invalid Rust) were repaired.",
   note="Trusted: Lean kernel; uniqueness of parser-assigned ids is a hypothesis here (counter behaviour is observed by the history check; the parser model is a growth item).",
   technique="Lean 4 proof over the node-table model + token-exact T2 + history differential in process",
   design="5/C14"),
 "C19": dict(
   text="Proof (Lean 4 kernel). C19_slice_wording: a slice pattern with `..` is never described as exact and an exact one is described with the number of elements written (`..` is not counted: C19_slice_node, sliceChildIds_length, hasSliceRest_iff); C19_set_exactness; C19_eq_expected_text; C19_variant_text; C19_map_entries. The pinned tree violated the slice statements (repaired). Tied by T2 (node definitions), T4 (real error_label over every node kind and arity) and T3 (every position of `..` x arity 0-4 x vector length 0-5, set patterns: label wording vs the pattern as written; generated corpora: labels vs the model).",
   note="Trusted: Lean kernel; correspondence sampled / exhaustive as described.",
   technique="Lean 4 proof over the node-kind and label models + exhaustive T4/T3 label matrices",
   design="5/C19"),
 "C16": dict(
   text="Proof (Lean 4 kernel) about a model that is REGENERATED from the source on every run: tools/gen_wiring.py translates the feature tables and the dependency line of the two Cargo.toml files into Generated/Wiring.lean; resolve implements cargo's additive feature resolution for this graph. C16_macro_cfg_constant / C16_dead_branch: for every selection a dependent can make the macro crate's regex cfg is on, so the parser and code generator are the same function in both configurations; C16_runtime_delta; C16_literal_rejected; C16_unaffected. The translator and resolve are compared with `cargo tree -e features` on every run; one generated corpus without regex forms is built in both configurations (verdicts and entries must be identical); five Like programs per configuration are accepted / rejected by rustc as the property states.",
   note="Trusted: Lean kernel; the translator (checked against cargo on every run); the item lists (gated items, template needs) are hand-written from lib.rs / expand.rs and tied by the accept/reject programs.",
   technique="Lean 4 proof over a wiring model regenerated from the manifests + cargo feature-resolution cross-check + two-configuration differential",
   design="5/C16"),
 "C17": dict(
   text="Proof (Lean 4 kernel) over a transition system of cached_source for any number of threads: C17_cache_inv (the cache only ever holds the file's real content) and C17_own_result (every thread gets exactly its own file's content or None) hold in every reachable state for EVERY interleaving (induction over the schedule), from any initial cache consistent with the file system (cold or warm); C17_no_deadlock; C17_colour (styled iff no live guard, NO_COLOR unset, stderr a terminal); C17_guard (the counter is positive exactly while a guard is alive, for every nested history); the pinned flag implementation is refuted (kernel-checked; repaired by a fix: commit). Tied behaviourally: 16 barrier-released threads x same/different files x cold/warm vs the same failure alone; 4 working directories; a 41-failure history; the full tty x NO_COLOR x guard-scenario matrix in child processes with stderr on a pty. Labelled partial for real schedules (sampled on the implementation).",
   note="Trusted: Lean kernel; RwLock / thread-local / file system as atomic steps (lock poisoning ignored, as in the code); the hand-written protocol model is tied only behaviourally (schedule replay through yield points is a growth item).",
   technique="Lean 4 invariant proof over all interleavings of a protocol model + behavioural concurrency / environment / pty correspondence",
   design="5/C17"),
 "C20": dict(
   text="Proof (Lean 4 kernel). C20_stamp_is_own_span: the template generated for a leaf, enum or named-struct pattern is stamped with that pattern's own span whatever value expression (position, depth) it is expanded on; C20_push_span; C20_field_op_span. T2 ties every token's span to the real expansion. Where rustc then puts the primary span is observed, not modelled: 14 single type faults (wrong literal / operand / range / closure-parameter types, missing Like impl, wrong variant, unknown field / nested field / method, wrong index type) injected at each of 16 positions; some error's primary span must lie on the faulty sub-pattern. Labelled partial: rustc's span placement is an oracle.",
   note="Trusted: Lean kernel for the stamping statements; rustc is the oracle for diagnostic placement; fault list is finite.",
   technique="Lean 4 proof of context-free span stamping + token-span T2 + rustc JSON diagnostics on a fault x position matrix",
   design="5/C20"),
 "C13": dict(
   text="Partial. Proved (Lean 4 kernel): C13_expand_no_panic - the code generator's panic sites (root_field_name's panic!/expect, tail_operations' expect, syn::Index::from's assertion) are unreachable for every pattern whose field operations have the shape the parser produces (mutual induction over the expansion model); T2 compares the model's panic prediction with the real generator on every input. The parser's own totality (termination, no panic, full consumption, located errors) is NOT yet a theorem: it is tied differentially (T1) - the real parser and generator run in process under catch_unwind on every repository invocation, edge patterns, generated patterns, every truncation and single-token deletion / duplication / swap / foreign insertion of them and random token sequences (14k inputs in the quick tier); any panic is a violation with the input as replay. A defect found this way (tuple index >= u32::MAX) was repaired.",
   note="Trusted: Lean kernel for the expansion half; syn's own parsers; the parser is covered by differential execution only (its Lean model with oracle tables for syn is the next growth item); stack exhaustion is not explored.",
   technique="Lean 4 proof that expansion panic sites are unreachable on parser-shaped ASTs + in-process mutation differential of the real parser (T1)",
   design="5/C13"),
 "C15": dict(
   text="Partial. Proved (Lean 4 kernel): C15_slice_multi_rest (a slice with more than one `..` has no verdict: the native pattern is rejected) on top of C13's expansion theorem. The parser's rejection of the listed malformed classes is NOT yet a theorem: every class (`..` not last in struct / set / map, index differing from position, closure arity, `=` followed by neither `=` nor `~`, operator without operand, trailing tokens, wildcard struct without `..`, missing pattern, malformed field operations) is instantiated by construction in 8 positions and must be rejected by the real parser, with well-formed controls in the same positions; token retention (every identifier of an accepted input reappears in the parsed pattern) is checked on the whole T1 input set. Open finding: `path()` drops its empty parentheses.",
   note="Trusted: Lean kernel for the AST-level statement; the malformed classes are enumerated by hand (checks/c15.py); the parser model is a growth item.",
   technique="Lean 4 proof at AST level + by-construction malformed-class enumeration against the real parser (T1)",
   design="5/C15"),
}

def main():
    checks = []
    for p in ALL:
        if p not in CLAIMED:
            continue
        c = CLAIMED[p]
        checks.append(dict(
            property_id=p,
            quick_cmd="./check %s --tier quick" % p,
            thorough_cmd="./check %s --tier thorough" % p,
            evidence_file="/verif/evidence/%s.json" % p,
            replay_cmd_template="./check %s --replay {path}" % p,
            engine="lean4+correspondence",
            level_claimed=dict(category="proof", text=c["text"], design_ref="DESIGN.md section " + c["design"]),
            level_note=c["note"],
            technique=c["technique"]))
    na = [dict(property_id=p, reason="check under construction in this build phase (DESIGN.md section 11 gives the order); no technique other than Lean proof + correspondence will be substituted") for p in ALL if p not in CLAIMED]
    m = dict(
        version=1,
        setup_cmd="./setup.sh",
        hooks=dict(
            guard="--cfg assert_struct_verif",
            enable="harness crates under /verif/harness set rustflags = [\"--cfg\", \"assert_struct_verif\"] in their .cargo/config.toml and depend on /repo/assert-struct by path; the macro crate's sources are copied from /repo at run time for the in-process harness",
            baseline_off_cmd="cd /repo && cargo test --workspace --no-fail-fast --offline",
            source_commits=json.load(open(os.path.join(ROOT, "tools", "hook_commits.json"))),
            add_only=True),
        engines=[dict(name="lean4+correspondence", path="/verif/check",
                      serves_properties=[c["property_id"] for c in checks],
                      kind_free_text="Lean 4 theorems about a hand-written executable model (lean/AsModel), tied to /repo's current source on every run by differential execution of model and implementation (harness/*), with an impl-vs-spec violation search on the same inputs")],
        checks=checks,
        notes="See DESIGN.md. Known findings: known_findings.json. Seeded changes used to validate the checks: seeded/.",
        not_applicable=na)
    json.dump(m, open(os.path.join(ROOT, "MANIFEST.json"), "w"), indent=1)

if __name__ == "__main__":
    main()
