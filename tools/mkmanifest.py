#!/usr/bin/env python3
"""Regenerates /verif/MANIFEST.json from the table below (kept valid at all times)."""
import json, os
ROOT = os.path.dirname(os.path.dirname(os.path.abspath(__file__)))
ALL = ["C%02d" % i for i in range(1, 21)]

CLAIMED = {
 "C10": dict(
   text="Proof (Lean 4 kernel): the model of set_match/set_backtrack pushes nothing iff the length rule holds and an injective assignment of patterns to matching elements exists, for every Boolean match matrix of every size; a failed search restores its scratch state; the verdict is invariant under any permutation of elements or of patterns; termination is structural. The model is tied to the real function on every run by exhaustive differential execution (all matrices up to 4x4 x both rest values) plus random larger ones, and the real verdict is compared with an independent matching algorithm.",
   note="Trusted: Lean kernel (+ propext, Classical.choice, Quot.sound); the hand-written model of set_match is tied to the code by differential execution only (exhaustive for small sizes); predicates are modelled as a pure Boolean matrix.",
   technique="Lean 4 proof (induction on remaining patterns with a frame lemma for the undo) + exhaustive small-size correspondence with the real set_match",
   design="5/C10"),
 "C18": dict(
   text="Proof (Lean 4 kernel) over lists of path components of any length: the overlap stripped by absolute_source_path is the longest suffix/prefix overlap; for every layout cargo produces (manifest dir = wsroot/pkg, file = pkg/src) with no spurious longer overlap the resolved path is wsroot/pkg/src; the result is always the file path appended to a prefix of the manifest dir obtained by stripping a genuine overlap. The unguarded statement is refuted by a kernel-checked counterexample (known finding: a package directory named like the first component of the source path). Tied to the real function by exhaustive differential execution over all layouts of depth <= 2-3 over a 3-name alphabet, absolute compiler paths, and real files on disk whose snippet must be shown.",
   note="Trusted: Lean kernel; the model of Unix Path::components / PathBuf::push (validated differentially on every run); cargo's conventions for CARGO_MANIFEST_DIR and file!() are modelled, not verified (mini-workspaces built by cargo are a thorough-tier growth item).",
   technique="Lean 4 proof about longest-overlap stripping over component lists + exhaustive small-layout correspondence with the real function and real files",
   design="5/C18"),
 "C04": dict(
   text="Proof (Lean 4 kernel), for every source text and every character position: the byte offset the runtime computes from the compiler's (line, character column) of a character is that character's byte position (C04_offset_roundtrip), so a node whose tokens are characters i..j is annotated with exactly the bytes of those characters, and the range is non-empty (C04_span_exact, C04_span_nonempty). The pinned code did not have this property (kernel-checked counterexample; repaired by a fix: commit). Tied to the real byte_offset_of and to the spans the real Display hands to the renderer by differential execution on random Unicode / tab / CRLF texts. The anchor-selection half (which tokens a node's location covers) is tied structurally through the in-process parser harness.",
   note="Trusted: Lean kernel; rustc/proc-macro2's (line, column) convention is modelled by posOf (columns = Unicode scalar values since line start; BOM and bare CR outside the model); correspondence is sampled.",
   technique="Lean 4 proof (round trip posOf / byteOffsetOf by induction on the text) + differential execution against the real function and Display",
   design="5/C04"),
 "C06": dict(
   text="Proof (Lean 4 kernel), for every source text and every recorded (line, column) range including ranges outside the text: the spans the crate hands to the renderer are non-empty, start on a character boundary, end on a boundary or exactly one past the end, i.e. they satisfy the renderer's observed no-panic contract (C06_spans_meet_contract, C06_rendererOk); the fallback listing has the header and one located entry per mismatch. The pinned code violated the contract (kernel-checked counterexample; the process aborted; repaired by a fix: commit). Tied to the code by formatting real ErrorReports over files in every state (normal, non-ASCII, CRLF, empty, truncated, edited, missing, directory, not UTF-8) under catch_unwind, and the renderer contract itself is validated against the real annotate-snippets on every run.",
   note="Trusted: Lean kernel; annotate-snippets is represented by its observed contract (validated differentially, not proved); file-system faults are modelled as 'read fails -> None'; that the expansion raises exactly one panic after all pushes is tied structurally (expansion tokens) and by compiled programs.",
   technique="Lean 4 proof that every produced span meets the renderer's contract + differential execution of the real Display over faulted source files",
   design="5/C06"),
}

def main():
    checks = []
    for p in ALL:
        if p not in CLAIMED:
            continue
        c = CLAIMED[p]
        checks.append(dict(
            property_id=p,
            quick_cmd="./check %s --tier quick" % p,
            thorough_cmd="./check %s --tier thorough" % p,
            evidence_file="/verif/evidence/%s.json" % p,
            replay_cmd_template="./check %s --replay {path}" % p,
            engine="lean4+correspondence",
            level_claimed=dict(category="proof", text=c["text"], design_ref="DESIGN.md section " + c["design"]),
            level_note=c["note"],
            technique=c["technique"]))
    na = [dict(property_id=p, reason="check under construction in this build phase (DESIGN.md section 11 gives the order); no technique other than Lean proof + correspondence will be substituted") for p in ALL if p not in CLAIMED]
    m = dict(
        version=1,
        setup_cmd="./setup.sh",
        hooks=dict(
            guard="--cfg assert_struct_verif",
            enable="harness crates under /verif/harness set rustflags = [\"--cfg\", \"assert_struct_verif\"] in their .cargo/config.toml and depend on /repo/assert-struct by path; the macro crate's sources are copied from /repo at run time for the in-process harness",
            baseline_off_cmd="cd /repo && cargo test --workspace --no-fail-fast --offline",
            source_commits=json.load(open(os.path.join(ROOT, "tools", "hook_commits.json"))),
            add_only=True),
        engines=[dict(name="lean4+correspondence", path="/verif/check",
                      serves_properties=[c["property_id"] for c in checks],
                      kind_free_text="Lean 4 theorems about a hand-written executable model (lean/AsModel), tied to /repo's current source on every run by differential execution of model and implementation (harness/*), with an impl-vs-spec violation search on the same inputs")],
        checks=checks,
        notes="See DESIGN.md. Known findings: known_findings.json. Seeded changes used to validate the checks: seeded/.",
        not_applicable=na)
    json.dump(m, open(os.path.join(ROOT, "MANIFEST.json"), "w"), indent=1)

if __name__ == "__main__":
    main()
