#!/usr/bin/env python3
"""Regenerates /verif/MANIFEST.json from the table below (kept valid at all times)."""
import json, os
ROOT = os.path.dirname(os.path.dirname(os.path.abspath(__file__)))
ALL = ["C%02d" % i for i in range(1, 21)]

CLAIMED = {
 "C10": dict(
   text="Proof (Lean 4 kernel): the model of set_match/set_backtrack pushes nothing iff the length rule holds and an injective assignment of patterns to matching elements exists, for every Boolean match matrix of every size; a failed search restores its scratch state; the verdict is invariant under any permutation of elements or of patterns; termination is structural. The model is tied to the real function on every run by exhaustive differential execution (all matrices up to 4x4 x both rest values) plus random larger ones, and the real verdict is compared with an independent matching algorithm.",
   note="Trusted: Lean kernel (+ propext, Classical.choice, Quot.sound); the hand-written model of set_match is tied to the code by differential execution only (exhaustive for small sizes); predicates are modelled as a pure Boolean matrix.",
   technique="Lean 4 proof (induction on remaining patterns with a frame lemma for the undo) + exhaustive small-size correspondence with the real set_match",
   design="5/C10"),
}

def main():
    checks = []
    for p in ALL:
        if p not in CLAIMED:
            continue
        c = CLAIMED[p]
        checks.append(dict(
            property_id=p,
            quick_cmd="./check %s --tier quick" % p,
            thorough_cmd="./check %s --tier thorough" % p,
            evidence_file="/verif/evidence/%s.json" % p,
            replay_cmd_template="./check %s --replay {path}" % p,
            engine="lean4+correspondence",
            level_claimed=dict(category="proof", text=c["text"], design_ref="DESIGN.md section " + c["design"]),
            level_note=c["note"],
            technique=c["technique"]))
    na = [dict(property_id=p, reason="check under construction in this build phase (DESIGN.md section 11 gives the order); no technique other than Lean proof + correspondence will be substituted") for p in ALL if p not in CLAIMED]
    m = dict(
        version=1,
        setup_cmd="./setup.sh",
        hooks=dict(
            guard="--cfg assert_struct_verif",
            enable="harness crates under /verif/harness set rustflags = [\"--cfg\", \"assert_struct_verif\"] in their .cargo/config.toml and depend on /repo/assert-struct by path; the macro crate's sources are copied from /repo at run time for the in-process harness",
            baseline_off_cmd="cd /repo && cargo test --workspace --no-fail-fast --offline",
            source_commits=json.load(open(os.path.join(ROOT, "tools", "hook_commits.json"))),
            add_only=True),
        engines=[dict(name="lean4+correspondence", path="/verif/check",
                      serves_properties=[c["property_id"] for c in checks],
                      kind_free_text="Lean 4 theorems about a hand-written executable model (lean/AsModel), tied to /repo's current source on every run by differential execution of model and implementation (harness/*), with an impl-vs-spec violation search on the same inputs")],
        checks=checks,
        notes="See DESIGN.md. Known findings: known_findings.json. Seeded changes used to validate the checks: seeded/.",
        not_applicable=na)
    json.dump(m, open(os.path.join(ROOT, "MANIFEST.json"), "w"), indent=1)

if __name__ == "__main__":
    main()
