#!/bin/sh
# Confirms every seeded change in a scratch worktree of /repo: applies, builds, runs the existing
# suite (must pass), runs the demonstration with the change (must fail) and without it (must pass).
# Output: one line per seed in /verif/seeded/CONFIRM.log
export CARGO_NET_OFFLINE=true
W=/tmp/confirm-wt
git -C /repo worktree remove --force $W 2>/dev/null
git -C /repo worktree add -q --detach $W HEAD || exit 2
export CARGO_TARGET_DIR=$W/target
: > /verif/seeded/CONFIRM.log
for d in /verif/seeded/C*-1; do
  n=$(basename $d)
  cd $W && git checkout -q -- . && git clean -fdq -e target
  if ! git apply $d/patch.diff; then echo "$n: PATCH DOES NOT APPLY" >> /verif/seeded/CONFIRM.log; continue; fi
  suite=$(cargo test --workspace --no-fail-fast --offline 2>&1 | grep -E "^test result" | awk '{p+=$4; f+=$6} END {print p"/"f}')
  cp $d/seeded_demo.rs assert-struct/tests/seeded_demo.rs
  [ -d $d/demo ] && cp -r $d/demo $W/demo
  with=$(cargo test --offline -p assert-struct --test seeded_demo 2>&1 | grep -E "^test result|error: could not compile|error\[" | head -1 | cut -c1-80)
  git apply -R $d/patch.diff
  without=$(cargo test --offline -p assert-struct --test seeded_demo 2>&1 | grep -E "^test result|error: could not compile|error\[" | head -1 | cut -c1-80)
  echo "$n: suite(passed/failed)=$suite | demo with change: $with | demo without: $without" >> /verif/seeded/CONFIRM.log
done
cd / && git -C /repo worktree remove --force $W
echo done >> /verif/seeded/CONFIRM.log
