#!/bin/sh
# tools/take_seed.sh <round> Cxx [checks...] : copy a seeded change from its worktree (/tmp/wt<round>-Cxx/seeded) into
# /verif/seeded/Cxx-<round> and run the given checks on it (tools/seedtest.sh)
r=$1; id=$2; shift; shift
src=/tmp/wt$r-$id/seeded
dst=/verif/seeded/$id-$r
mkdir -p $dst
cp $src/patch.diff $dst/patch.diff || exit 2
rsync -a --exclude target --exclude '*.log' --exclude logs --exclude patch.diff --max-size=200k $src/ $dst/
git -C /repo apply --check $dst/patch.diff || { echo "PATCH DOES NOT APPLY"; exit 2; }
[ $# -gt 0 ] && /verif/tools/seedtest.sh $id-$r "$@"
