#!/bin/sh
# tools/round_first.sh <round> [Cxx...] : take each finished seed of the round from its worktree and run the targeted property's quick check on it
# (first results, before any strengthening).  Log: /verif/.cache/round<r>-first.log
r=$1; shift
ids="$@"; [ -z "$ids" ] && ids="C01 C02 C03 C04 C05 C06 C07 C08 C09 C10 C11 C12 C13 C14 C15 C16 C17 C18 C19 C20"
mkdir -p /verif/.cache
for id in $ids; do
  [ -f /tmp/wt$r-$id/seeded/patch.diff ] || { echo "== $id-$r: no patch yet"; continue; }
  echo "== $id-$r"
  /verif/tools/take_seed.sh $r $id $id 2>&1 | tail -8
done
