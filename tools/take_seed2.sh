#!/bin/sh
# tools/take_seed2.sh Cxx [checks...] : copy the round-2 seeded change from its worktree into /verif/seeded/Cxx-2 and run the checks on it
id=$1; shift
src=/tmp/wt2-$id/seeded
dst=/verif/seeded/$id-2
mkdir -p $dst
cp $src/patch.diff $dst/patch.diff
[ -f $src/seeded_demo.rs ] && cp $src/seeded_demo.rs $dst/
[ -f $src/README.txt ] && cp $src/README.txt $dst/
for f in $src/*; do case "$f" in *.log|*/target) ;; *) [ -f "$f" ] && [ $(stat -c %s "$f") -lt 200000 ] && cp -n "$f" $dst/ ;; esac; done
git -C /repo apply --check $dst/patch.diff || { echo "PATCH DOES NOT APPLY"; exit 2; }
[ $# -gt 0 ] && /verif/tools/seedtest.sh $id-2 "$@"
