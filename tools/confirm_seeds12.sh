#!/bin/sh
# Round-10 (and the seeds of earlier rounds rebased onto fix f5121f2) seeds: applies each in a scratch worktree of /repo, runs the existing suite (must pass), and where
# the demonstration is a test file runs it with the change (must fail) and without it (must pass).
# Output: /verif/seeded/CONFIRM12.log
export CARGO_NET_OFFLINE=true
W=/tmp/confirm-wt12
git -C /repo worktree remove --force $W 2>/dev/null
git -C /repo worktree add -q --detach $W HEAD || exit 2
export CARGO_TARGET_DIR=$W/target
: > /verif/seeded/CONFIRM12.log
for d in /verif/seeded/C*-12; do
  n=$(basename $d)
  cd $W && git checkout -q -- . && git clean -fdq -e target
  if ! git apply $d/patch.diff; then echo "$n: PATCH DOES NOT APPLY" >> /verif/seeded/CONFIRM12.log; continue; fi
  suite=$(cargo test --workspace --no-fail-fast --offline 2>&1 | grep -E "^test result" | awk '{p+=$4; f+=$6} END {print p"/"f}')
  with="(demo is a script / separate crate: see README.txt)"; without="$with"
  if [ -f $d/seeded_demo.rs ] && ! grep -q "run_demo\|#\[path" $d/seeded_demo.rs 2>/dev/null && [ ! -f $d/run_demo.sh -o -d $d/seeded_cases ]; then
    cp $d/seeded_demo.rs assert-struct/tests/seeded_demo.rs
    for sub in seeded_demo_cases seeded_cases seeded_demo seeded_demo_case; do [ -d $d/$sub ] && cp -r $d/$sub assert-struct/tests/; done
    with=$(cargo test --offline -p assert-struct --test seeded_demo 2>&1 | grep -E "^test result|error: could not compile|error\[" | head -1 | cut -c1-80)
    git apply -R $d/patch.diff
    without=$(cargo test --offline -p assert-struct --test seeded_demo 2>&1 | grep -E "^test result|error: could not compile|error\[" | head -1 | cut -c1-80)
  fi
  echo "$n: suite(passed/failed)=$suite | demo with change: $with | demo without: $without" >> /verif/seeded/CONFIRM12.log
done
cd / && git -C /repo worktree remove --force $W
echo done >> /verif/seeded/CONFIRM12.log
