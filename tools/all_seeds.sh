#!/bin/sh
# Applies every seeded change in turn to /repo, runs the quick check of its property, reverts; one line per seed in
# /verif/seeded/REGRESSION.log: caught with a failing input / only as a broken tie / missed.
out=/verif/seeded/REGRESSION.log
: > $out
for d in ${SEEDS:-/verif/seeded/C??-?}; do
  n=$(basename $d); p=${n%%-*}
  git -C /repo apply $d/patch.diff 2>/dev/null || { echo "$n: PATCH DOES NOT APPLY" >> $out; continue; }
  res=$(cd /verif && ./check $p --tier quick 2>&1 | grep "^VIOLATION" )
  git -C /repo checkout -- . ; git -C /repo clean -fdq
  if echo "$res" | grep -qv "no-failing-input-found$" && [ -n "$res" ]; then echo "$n: caught with a failing input ($(echo "$res" | grep -v 'no-failing-input-found$' | head -1 | sed 's/.*replay=//'))" >> $out
  elif [ -n "$res" ]; then echo "$n: ONLY no-failing-input-found" >> $out
  else echo "$n: MISSED" >> $out; fi
done
git -C /verif checkout -- evidence/ 2>/dev/null
echo done >> $out
