import sys
sys.path.insert(0, '/verif/lib')
import vlib, parsetie
def main(texts):
    ck = vlib.Check('C13', 'quick', 1)
    bad, dist = parsetie.compare(ck, texts)
    print(dist)
    for k, kind, d in bad[:25]:
        print(kind, '|', texts[k][:100].replace('\n', ' '), '|', d[:400])
    print('disagreements', len(bad), 'of', len(texts))
if __name__ == '__main__':
    if len(sys.argv) > 1 and sys.argv[1] == 'corpus':
        import corpus, t2
        main([t for _, t in corpus.repo_invocations()] + t2.EDGE)
    elif len(sys.argv) > 1 and sys.argv[1] == 't1':
        import t1
        ck = vlib.Check('C13', 'quick', 1)
        inputs = t1.build_inputs(ck, int(sys.argv[2]) if len(sys.argv) > 2 else 120, 6)
        main([t for _, t in inputs])
    else:
        main(sys.argv[1:])
