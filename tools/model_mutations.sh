#!/bin/sh
# tools/model_mutations.sh : three edits of Render.lean of the kind a model "repaired to follow" a broken generator would contain; each
# must BREAK a token-level theorem (before the fourth session the property theorems spoke about the IR only and survived all three).
# Works on a scratch copy of /verif/lean under /tmp; prints one line per mutation.
S=/tmp/leanmut.$$; mkdir -p $S; rsync -a --exclude .lake/build/ir /verif/lean/ $S/; cd $S || exit 2
mut() { # name, python replace old, new, target module
  cp /verif/lean/AsModel/Render.lean AsModel/Render.lean
  python3 - "$2" "$3" <<'PY'
import sys
p='AsModel/Render.lean'; s=open(p).read(); old,new=sys.argv[1],sys.argv[2]
assert old in s, old
open(p,'w').write(s.replace(old,new,1))
PY
  if lake build $4 2>&1 | grep -q "^error"; then echo "$1: theorem module $4 no longer builds (as it must)"; else echo "$1: STILL BUILDS - the theorems do not constrain this"; fi
}
mut "comparison template's method call stamped with the call site" 'tq sp s!") . {CmpOp.method op} ( & ("' 'tq cs s!") . {CmpOp.method op} ( & ("' AsModel.Theorems.C20Tokens
mut "closure template splices the asserted expression itself" 'tq sp "check_closure_condition (" ++ v.toks value' 'tq sp "check_closure_condition (" ++ value' AsModel.Theorems.C09Tokens
mut "tuple index literal back at the call site (the code before /repo 04cedd8)" 'tq sp "." ++ tq isp (toString i)' 'tq sp "." ++ tq cs (toString i)' AsModel.Theorems.C20Tokens
cd /; rm -rf $S
