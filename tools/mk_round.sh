#!/bin/sh
# tools/mk_round.sh <round> : one scratch worktree of /repo per property under /tmp/wt<round>-Cxx (for the seeding sub-agents)
r=$1
for i in 01 02 03 04 05 06 07 08 09 10 11 12 13 14 15 16 17 18 19 20; do
  W=/tmp/wt$r-C$i
  git -C /repo worktree remove --force $W 2>/dev/null
  git -C /repo worktree add -q --detach $W HEAD || exit 2
  mkdir -p $W/seeded
done
git -C /repo worktree list | wc -l
