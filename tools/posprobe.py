import sys, time
sys.path.insert(0,'/verif/lib')
import vlib, t3, positions
from collections import Counter, defaultdict
ck=vlib.Check('C11','quick',int(sys.argv[2]) if len(sys.argv)>2 else 1)
n=int(sys.argv[1]) if len(sys.argv)>1 else 20
t0=time.time()
cases=t3.run_corpus(ck,'positions',n,use_cache=False,positions=positions.POSITIONS, per_bin=16)
stats,mism=t3.compare(ck,cases,'positions')
print(stats,'mismatches',len(mism),'%.0fs'%(time.time()-t0))
print(Counter((m['kind'],m['case'].position) for m in mism))
tab=defaultdict(Counter)
for c in cases: tab[c.position][c.got[0]+'/'+c.expect[0]]+=1
for p in positions.POSITIONS: print('%-22s'%p, dict(tab[p]))
shown=Counter()
for m in mism:
    k=(m['kind'],m['case'].position)
    if shown[k]>=1: continue
    shown[k]+=1
    d=t3.describe(m['case']); print('----',k); print(d['decls']); print(d['type'],'=',d['value']); print(d['invocation']); print(' spec',d['spec']); print(' impl',d['impl'], d['message'][:300])
