#!/usr/bin/env python3
"""tools/mkmeta.py <Cxx> <round> <change> <needs> <first_result> <strengthening|-> [caught_by...]  -> seeded/<Cxx>-<round>/meta.json"""
import json, os, sys
ORIGIN = {
    13: "written by a fresh sub-agent given only the property text and its own scratch worktree (at /repo commit f5121f2); the agent was asked for a change that needs a HISTORY (state carried from an earlier assertion / macro invocation), a CONJUNCTION of independent features at different places, a particular SIZE / COUNT / BOUNDARY, or two cooperating edits to manifest, listed at least fourteen candidates and was told which numbered one (9-14) to realise; applied unchanged",
    11: "written by a fresh sub-agent given only the property text and its own scratch worktree (at /repo commit f5121f2); the agent was asked for a REFACTORING / clean-up / performance commit ('no behaviour change intended') made of two cooperating sites that each look fine alone, listed at least fourteen candidates and was told which numbered one (6-12) to realise; applied unchanged",
    12: "written by a fresh sub-agent given only the property text and its own scratch worktree (at /repo commit f5121f2); the agent was asked for a BUG-FIX / robustness / compatibility commit whose fix - correct for the case its author had in mind - breaks the property in another corner, listed at least fourteen candidates and was told which numbered one (8-12) to realise; applied unchanged",
    10: "written by a fresh sub-agent given only the property text and its own scratch worktree (at /repo commit fc05304); the agent was asked for a small FEATURE or behaviour improvement - with a CHANGELOG entry and a working example - whose natural implementation breaks the property as a side effect, listed at least fourteen candidates and was told which numbered one (5-13) to realise; applied unchanged (C10-10 rebased onto fix f5121f2, original kept as patch.orig-fc05304.diff)",
    5: "written by a fresh sub-agent given only the property text and its own scratch worktree (at /repo commit fc05304); the agent listed a dozen candidate mechanisms first and was told which numbered one to realise, so that rounds do not converge on the obvious one; applied unchanged",
    6: "written by a fresh sub-agent given only the property text and its own scratch worktree (at /repo commit fc05304); the agent listed at least fifteen candidate mechanisms and was told which numbered one (8-14) to realise; applied unchanged",
    9: "written by a fresh sub-agent given only the property text and its own scratch worktree (at /repo commit fc05304); the agent was told to prefer the runtime crate outside the Display impl, expand/nodes.rs, the small helpers of expand.rs, macros/lib.rs and the manifests, listed at least fifteen candidates and was told which numbered one (7-15) to realise; applied unchanged",
    8: "written by a fresh sub-agent given only the property text and its own scratch worktree (at /repo commit fc05304); the agent was told to make the change in the PARSING LAYER of the macro crate wherever the property allows (else outside expand.rs and the Display impl), listed at least fifteen candidates and was told which numbered one (6-14) to realise; applied unchanged",
    7: "written by a fresh sub-agent given only the property text and its own scratch worktree (at /repo commit fc05304); the agent listed at least twenty candidate mechanisms and was told which numbered one (10-18) to realise; applied unchanged",
}
pid, rnd, change, needs, first, strength = sys.argv[1:7]
caught = sys.argv[7:] or [pid]
rnd = int(rnd)
d = "/verif/seeded/%s-%d" % (pid, rnd)
meta = dict(property=pid, round=rnd, change=change, needs_to_manifest=needs, origin=ORIGIN[rnd],
            confirmed=["agent: suite 424/0 with the change, demonstration fails with it and passes without (README.txt)",
                       "re-run here: `tools/seedtest.sh %s-%d %s` reports VIOLATION with a failing input as replay" % (pid, rnd, caught[0]),
                       "suite and demonstration re-confirmed in a scratch worktree: seeded/CONFIRM%d.log" % rnd],
            first_result=first, strengthening=None if strength == "-" else strength, caught_by=caught,
            files=sorted(f for f in os.listdir(d) if f != "meta.json"))
json.dump(meta, open(d + "/meta.json", "w"), indent=1)
print(d)
