#!/usr/bin/env python3
"""tools/cost_table.py <quick evidence dir> <thorough evidence dir>: prints the table of DESIGN.md section 0.55 from evidence files."""
import json, os, sys
q, t = sys.argv[1], sys.argv[2]
print("| id | theorems audited | quick: evaluations / wall | thorough: evaluations / wall |")
print("|---|---|---|---|")
for i in range(1, 21):
    pid = "C%02d" % i
    a = json.load(open(os.path.join(q, pid + ".json")))
    b = json.load(open(os.path.join(t, pid + ".json")))
    assert a["tier"] == "quick" and b["tier"] == "thorough", (pid, a["tier"], b["tier"])
    print("| %s | %d | %d / %.1fs | %d / %.1fs |" % (pid, a["coverage"]["obligations"], a["coverage"]["evaluations"], a["wall_s"], b["coverage"]["evaluations"], b["wall_s"]))
