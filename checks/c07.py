"""C07 - user expressions keep their call-site meaning (no identifier capture)."""
import t2
import t3

HEADER_DECLS = """
#[derive(Debug)] pub struct S { pub f: i32, pub g: i32, pub s: String, pub xs: Vec<i32>, pub m: BTreeMap<String, i32>, pub k: String, pub i: usize, pub o: Option<i32>, pub t: (i32, i32), pub big: BTreeMap<String, i32>, pub bxs: Vec<i32>, pub t9: (i32, i32, i32, i32, i32, i32, i32, i32, i32) }
impl S { pub fn pick(&self, j: usize) -> &i32 { &self.xs[j] } }
pub fn mk() -> S { S { f: 3, g: 4, s: "abc".to_string(), xs: vec![10, 20, 30], m: BTreeMap::from([("a".to_string(), 1), ("b".to_string(), 2)]), k: "b".to_string(), i: 2, o: Some(3), t: (3, 9), big: "abcdefghij".chars().enumerate().map(|(i, c)| (c.to_string(), i as i32 + 1)).collect(), bxs: (0..17).collect(), t9: (0, 1, 2, 3, 4, 5, 6, 7, 8) } }
pub struct Num(pub i32);
impl Like<Num> for i32 { fn like(&self, p: &Num) -> bool { *self == p.0 } }
"""
# (hole kind, what the caller variable is, pattern template with {N} for the variable name, caller value expression, names to try)
# Values are chosen so that the correct verdict (caller's meaning) differs from the captured one.
FIELD_HOLES = [
    ("cmp-operand", "own field", "S {{ f: == {N}, .. }}", "99i32", ["f"]),
    ("cmp-operand", "sibling field", "S {{ f: == {N}, g: _, .. }}", "3i32", ["g"]),
    ("cmp-operand", "sibling field", "S {{ g: _, f: < {N}, .. }}", "0i32", ["g"]),
    ("like-expr", "sibling field", "S {{ f: =~ Num({N}), g: _, .. }}", "3i32", ["g"]),
    ("closure-body", "sibling field", "S {{ f: |x| *x == {N}, g: _, .. }}", "3i32", ["g"]),
    ("closure-body", "own field", "S {{ f: |x| *x == {N} + 0, .. }}", "99i32", ["f"]),
    ("index", "sibling field", "S {{ xs[{N}]: 10, i: _, .. }}", "0usize", ["i"]),
    ("method-arg", "sibling field", "S {{ xs.get({N}): Some(10), i: _, .. }}", "0usize", ["i"]),
    ("map-key", "sibling field", "S {{ m: #{{ {N}: 1, .. }}, k: _, .. }}", '"a".to_string()', ["k"]),
    ("range-bound-expr", "own field", "S {{ f: == {N} - 96, .. }}", "99i32", ["f"]),
    ("nested", "outer field", "S {{ o: Some(== {N}), f: _, .. }}", "99i32", ["f"]),
    ("nested-tuple", "outer field", "S {{ t: (== {N}, _), f: _, .. }}", "99i32", ["f"]),
    # other ways of REFERRING to the caller's variable than its plain identifier token: the raw spelling, a block, an inline format
    # argument (the name then occurs inside a string literal only) - seed C07-12 counted identifier tokens to decide what is safe
    ("cmp-operand-raw-spelling", "own field", "S {{ f: == r#{N}, .. }}", "99i32", ["f"]),
    ("cmp-operand-raw-spelling", "sibling field", "S {{ f: == r#{N}, g: _, .. }}", "3i32", ["g"]),
    ("cmp-operand-block", "sibling field", "S {{ f: == {{ {N} }}, g: _, .. }}", "3i32", ["g"]),
    ("cmp-operand-format-capture", "sibling field", 'S {{ s: == format!("{{{N}}}"), k: _, .. }}', '"abc".to_string()', ["k"]),
    ("cmp-operand-format-capture", "own field", 'S {{ s: == format!("{{{N}}}c"), .. }}', '"ab".to_string()', ["s"]),
    ("closure-body-format-capture", "sibling field", 'S {{ s: |x| *x == format!("{{{N}}}"), k: _, .. }}', '"abc".to_string()', ["k"]),
    ("index-raw-spelling", "sibling field", "S {{ xs[r#{N}]: 10, i: _, .. }}", "0usize", ["i"]),
]
HELPER_HOLES = [
    ("cmp-operand", 'S {{ o: Some(== {N}), .. }}', "99i32", ["__elem_0", "__elem_1"]),
    ("cmp-operand", 'S {{ xs: [== {N}, ..], .. }}', "99i32", ["__elem_0"]),
    ("cmp-operand", 'S {{ t: (== {N}, _), .. }}', "99i32", ["__tuple_elem_0", "__tuple_elem_1"]),
    ("cmp-operand", 'S {{ m: #{{ "a": == {N}, .. }}, .. }}', "99i32", ["__map_value"]),
    ("cmp-operand", 'S {{ xs: #(== {N}, ..), .. }}', "99i32", ["__set_elem", "__set_idx", "__set_coll", "__set_pred_0", "__set_preds"]),
    ("cmp-operand", 'S {{ f: == {N}, .. }}', "99i32", ["__report", "__assert_struct_value", "__assert_struct_tmp", "actual", "re", "__assert_struct_result", "__PATTERN_TREE", "__PATTERN_NODE_0"]),
    ("method-arg", 'S {{ s: "abc", xs.get({N}): Some(10), .. }}', "0usize", ["actual", "__assert_struct_tmp"]),
    ("method-arg-under-regex", 'S {{ s.get({N}..).unwrap(): =~ "bc", .. }}', "1usize", ["re"]),
    ("method-arg-under-string", 'S {{ s.get({N}..).unwrap(): "bc", .. }}', "1usize", ["actual", "__assert_struct_tmp"]),
    ("cmp-operand-after-string", 'S {{ s: "abc", f: == {N}, .. }}', "3i32", ["actual", "__assert_struct_tmp"]),
    ("cmp-operand-after-regex", 'S {{ s: =~ "a.c", f: == {N}, .. }}', "3i32", ["re"]),
]
# a user expression written AFTER a sibling of each template kind, in the same scope: whatever that sibling's template
# bound must not be visible there (plain-looking names a template might use for its locals)
PLAIN_NAMES = ["actual", "expected", "re", "tmp", "value", "result", "pattern", "elem", "__assert_struct_tmp", "pat", "expr", "lhs", "rhs", "left", "right", "regex", "lit", "val",
               "slice", "items", "elems", "len", "idx", "key", "keys", "entry", "map", "set", "coll", "iter", "it", "e", "node", "report", "matched", "found", "label", "text", "src", "this", "other", "got", "want", "res", "ok", "cond"]
# (not `x` and not `v`: the templates below bind `x` themselves as a closure parameter and the generated program binds `v` - a caller
#  variable of that name is shadowed by the caller's own code, which is not capture by the expansion)
for _kind, _sib in [("simple", "g: 4"), ("comparison", "g: > 0"), ("range", "g: 1..=9"), ("variant", "o: Some(3)"), ("slice", "xs: [10, ..]"),
                    ("tuple", "t: (3, _)"), ("set", "xs: #(10, ..)"), ("map", 'm: #{{ "a": 1, .. }}'), ("closure", "g: |x| *x > 0"),
                    ("like", "g: =~ Num(4)"), ("index", "xs[0]: 10"), ("method", "xs.len(): 3"), ("wildcard-struct", "t: _ {{ 0: 3, .. }}")]:
    HELPER_HOLES.append(("cmp-operand-after-" + _kind, "S {{ " + _sib + ", f: == {N}, .. }}", "3i32", PLAIN_NAMES))
# a user expression INSIDE each composite template (whatever the template binds around its elements must not be visible)
for _kind, _templ, _val in [("slice", "S {{ xs: [== {N}, ..], .. }}", "99i32"), ("slice-closure", "S {{ xs: [|x| *x == {N} - 89, ..], .. }}", "99i32"),
                            ("tuple", "S {{ t: (== {N}, _), .. }}", "99i32"), ("variant", "S {{ o: Some(== {N}), .. }}", "99i32"),
                            ("set", "S {{ xs: #(== {N}, ..), .. }}", "99i32"), ("map", 'S {{ m: #{{ "a": == {N}, .. }}, .. }}', "99i32"),
                            ("wildcard-struct", "S {{ t: _ {{ 0: == {N}, .. }}, .. }}", "99i32"), ("nested-slice", "S {{ o: Some(== {N}), xs: [10, ..], .. }}", "99i32")]:
    HELPER_HOLES.append(("operand-inside-" + _kind, _templ, _val, PLAIN_NAMES))


# a user expression in the FIELD PATH (index, method argument) of a field whose pattern is of each leaf / composite kind: whatever the
# pattern's template binds before it evaluates the path must not be visible in the path
for _kind, _pat in [("simple", "10"), ("comparison", "== 10"), ("comparison-ne", "!= 11"), ("range", "5..=15"), ("like", "=~ Num(10)"), ("closure", "|x| x == 10"),
                    ("like-expr-operand", "=~ Num(5 + 5)")]:
    HELPER_HOLES.append(("index-under-" + _kind, "S {{ xs[{N}]: " + _pat + ", .. }}", "0usize", PLAIN_NAMES))
    HELPER_HOLES.append(("method-arg-under-" + _kind, "S {{ xs.get({N}).unwrap(): " + _pat.replace("|x| x ==", "|x| *x ==") + ", .. }}", "0usize", PLAIN_NAMES))
for _kind, _pat in [("string", '"bc"'), ("regex", '=~ "b."'), ("closure-str", "|x| x.len() == 2")]:
    HELPER_HOLES.append(("method-arg-under-" + _kind + "-all-names", "S {{ s.get({N}..).unwrap(): " + _pat + ", .. }}", "1usize", PLAIN_NAMES))

# a user expression inside a LARGE composite (8, 9, 10, 16, 17 entries / elements / fields): a template that treats composites above a
# size threshold differently (binds the collection once, switches to a loop, chunks the arms) must still not let anything it binds be
# visible to the user's expressions (seed C07-13 bound the map to a local `map` for 8 entries and more)
SIZE_NAMES = ["map", "set", "slice", "items", "elems", "len", "keys", "entry", "coll", "iter", "value", "tmp", "elem", "key", "idx", "node", "m", "big", "src", "this"]
for _n in (8, 9, 10):
    _ks = "abcdefghij"[:_n]
    HELPER_HOLES.append(("operand-inside-map-of-%d-first" % _n, "S {{ big: #{{ " + ", ".join(('"%s": == {N}' % c) if i == 0 else ('"%s": %d' % (c, i + 1)) for i, c in enumerate(_ks)) + ", .. }}, .. }}", "1i32", SIZE_NAMES))
    HELPER_HOLES.append(("operand-inside-map-of-%d-last" % _n, "S {{ big: #{{ " + ", ".join(('"%s": == {N}' % c) if i == _n - 1 else ('"%s": %d' % (c, i + 1)) for i, c in enumerate(_ks)) + ", .. }}, .. }}", "%di32" % _n, SIZE_NAMES))
for _n in (8, 9, 16, 17):
    HELPER_HOLES.append(("operand-inside-slice-of-%d" % _n, "S {{ bxs: [" + ", ".join("== {N}" if i == _n - 1 else str(i) for i in range(_n)) + ", ..], .. }}", "%di32" % (_n - 1), SIZE_NAMES))
    HELPER_HOLES.append(("operand-inside-set-of-%d" % _n, "S {{ bxs: #(" + ", ".join("== {N}" if i == _n - 1 else str(i) for i in range(_n)) + ", ..), .. }}", "%di32" % (_n - 1), SIZE_NAMES))
HELPER_HOLES.append(("operand-inside-tuple-of-9", "S {{ t9: (0, 1, 2, 3, 4, 5, 6, 7, == {N}), .. }}", "8i32", SIZE_NAMES))
HELPER_HOLES.append(("operand-inside-struct-of-9-fields", "S {{ g: _, s: _, xs: _, m: _, k: _, i: _, o: _, t: _, f: == {N}, .. }}", "3i32", SIZE_NAMES))


def make_cases(rng, _n):
    cases = []
    k = 0

    def add(kind, who, templ, val, name, renamed):
        nonlocal k
        c = t3.Case()
        c.id = k
        k += 1
        c.kind, c.who, c.name, c.renamed = kind, who, name, renamed
        c.forms = {kind: 1}
        c.meanings = "(meanings)"
        n = "caller_fresh_name" if renamed else name
        pat = templ.format(N=n)
        t3.finish_case(c, HEADER_DECLS, "S", "mk()", "(int 0)", pat)
        c.setup = "#[allow(non_upper_case_globals, non_snake_case)] let %s = %s;" % (n, val)
        c.template = templ
        cases.append(c)

    for (kind, who, templ, val, names) in FIELD_HOLES:
        for name in names:
            add(kind, who, templ, val, name, False)
            add(kind, who, templ, val, name, True)
    for (kind, templ, val, names) in HELPER_HOLES:
        for name in names:
            add(kind, "helper local", templ, val, name, False)
            add(kind, "helper local", templ, val, name, True)
    return cases


FIELD_NAMES = ["kind", "r#type", "r#match", "r#fn", "r#ref", "r#async", "actual", "value", "pattern", "expected", "r#kind", "__report", "__assert_struct_value", "f", "self_", "Some_"]
FIELD_TEMPLATES = ["FN {{ {F}: == {F}, other: 1 }}", "FN {{ {F}: 5, .. }}", "_ {{ {F}: > 4, .. }}", "FN {{ other: 1, {F}: |x| *x == 5 }}", "EN::V {{ {F}: 5 }}", "FN {{ {F}.clone(): == 5, .. }}"]


def field_name_twins(ck):
    """The same program with the struct's field (and a caller local) named differently - ordinary names, raw identifiers whose plain
    spelling is a keyword, names the expansion uses itself: the name must not change the outcome, and a valid assertion compiles."""
    def make(rng, _n):
        cases = []
        k = 0
        for name in FIELD_NAMES:
            for ti, templ in enumerate(FIELD_TEMPLATES):
                c = t3.Case()
                c.id = k
                k += 1
                c.fname, c.templ = name, ti
                c.forms = {"field-name": 1}
                c.meanings = "(meanings)"
                decl = "#[derive(Debug)] pub struct FN { pub %s: i32, pub other: i32 }\n#[derive(Debug)] pub enum EN { V { %s: i32 }, W }" % (name, name)
                if ti == 4:
                    t3.finish_case(c, decl, "EN", "EN::V { %s: 5 }" % name, "(int 0)", templ.format(F=name))
                else:
                    t3.finish_case(c, decl, "FN", "FN { %s: 5, other: 1 }" % name, "(int 0)", templ.format(F=name))
                c.setup = "#[allow(non_snake_case, unused_variables)] let %s = 5i32;" % name
                cases.append(c)
        return cases

    cases = t3.run_corpus(ck, "c07-field-names", 0, per_bin=12, positions=make)
    ref = {c.templ: c for c in cases if c.fname == "kind"}
    dist = {}
    for c in cases:
        r = ref[c.templ]
        same = c.got[0] == r.got[0]
        dist["%s: %s" % (c.fname, "same outcome as `kind`" if same else "DIFFERENT outcome")] = dist.get("%s: %s" % (c.fname, "same outcome as `kind`" if same else "DIFFERENT outcome"), 0) + 1
        if r.got[0] not in ("pass", "fail"):
            ck.report("twin-broken:field-name:%d" % c.templ, "the reference program of the field-name family does not run", dict(t3.describe(r)), no_input=True)
        elif not same:
            ck.report(("capture:helper:%s" % c.fname) if c.fname.startswith("__") else ("field-name:%s" % c.fname), "naming the matched struct's field `%s` instead of `kind` changes the outcome (%s instead of %s): the name of a field makes a valid assertion fail to compile or changes its verdict" % (c.fname, c.got[0], r.got[0]),
                      dict(with_name=t3.describe(c), reference=t3.describe(r), rustc=c.got[2][:300]))
    ck.corr_record("T3 field-name twins (the same struct, value, caller local and pattern with the field named differently: ordinary names, raw identifiers of keywords, the expansion's own names)",
                   len(cases), len(cases), 0, dist, samples=[dict(invocation="assert_struct!(%s)" % cases[1].text, setup=cases[1].setup)], exhaustive=True,
                   rule="%d names x %d pattern templates" % (len(FIELD_NAMES), len(FIELD_TEMPLATES)))


def run(ck):
    ck.prove(["AsModel.Theorems.C07"])
    ck.build_harness("inproc")
    res = t2.run(ck)
    t2_mm = t2.record(ck, res, ("body",), "binder names and scopes")
    cases = t3.run_corpus(ck, "c07", 0, per_bin=12, positions=make_cases)
    pairs = {}
    for c in cases:
        pairs.setdefault((c.kind, c.who, c.name, c.template), {})[c.renamed] = c
    dist = {}
    found = False
    for (kind, who, name, templ), pr in pairs.items():
        a, b = pr[False], pr[True]
        oa = a.got[0] if a.got[0] != "rejected" else "rejected"
        ob = b.got[0]
        dist["%s:%s=%s" % (who, "same" if oa == ob else "differs", oa)] = dist.get("%s:%s=%s" % (who, "same" if oa == ob else "differs", oa), 0) + 1
        if ob not in ("pass", "fail"):
            ck.report("twin-broken:%s:%s" % (kind, name), "the renamed twin does not run (the check's own program is wrong)", dict(t3.describe(b)), no_input=True)
            continue
        if oa != ob:
            if who == "helper local":
                key = "capture:helper:%s" % name   # names starting with `__` are the reserved class
            else:
                key = "capture:field-name:%s" % kind
            if not ck.finding_for(key):
                found = True
            ck.report(key, "renaming a caller variable changes the outcome: a name introduced by the expansion captures the caller's `%s` (%s, hole: %s)" % (name, who, kind),
                      dict(with_name=t3.describe(a), renamed=t3.describe(b), setup=a.setup, outcome_with_name=oa, outcome_renamed=ob))
    ck.corr_record("T3 twin programs (a caller variable used inside a pattern under a colliding name vs under a fresh name; same outcome required)",
                   len(cases), len(cases), 0, dist,
                   samples=[dict(setup=c.setup, invocation="assert_struct!(%s)" % c.text, outcome=c.got[0]) for c in cases[:4]],
                   rule="%d (hole kind x colliding name) pairs: own field / sibling field / outer field names in 9 hole kinds, and every helper local of the expansion in a context where it is in scope; every program distinct" % len(pairs))
    if t2_mm and not found:
        ck.report("corr:T2-body", "the model of the code generator no longer matches the real expansion (%d inputs differ)" % len(t2_mm),
                  dict(broken="correspondence T2 (expansion tokens)", theorems=["C07_binders_reserved"], first=t2_mm[:3]), no_input=True)
    field_name_twins(ck)
    import parsetie
    parsetie.light_tie(ck, "C07: the compiled programs' expectations read patterns with the model parser")
    ck.assumptions += ["proc-macro hygiene is modelled as call-site for every identifier the expansion creates (quote! semantics); rustc's name resolution is the oracle in the twin programs"]
