"""C10 - set patterns succeed exactly when a one-to-one assignment exists."""
import itertools


def spec_pass(rest, P, E, rows):
    """Independent specification: length rule + existence of an injective assignment."""
    if (rest and E < P) or (not rest and E != P):
        return False
    # bipartite matching by augmenting paths (independent of the code's backtracking)
    match = [-1] * E

    def aug(k, seen):
        for i in range(E):
            if rows[k][i] and i not in seen:
                seen.add(i)
                if match[i] < 0 or aug(match[i], seen):
                    match[i] = k
                    return True
        return False

    return all(aug(k, set()) for k in range(P))


def line(rest, P, E, rows):
    rs = " ".join(("".join("1" if b else "0" for b in r) if E else "-") for r in rows)
    return ("setmatch %d %d %d %s" % (1 if rest else 0, P, E, rs)).rstrip()


def run(ck):
    ck.prove(["AsModel.Theorems.C10"])
    ck.build_harness("rt")
    cases = []
    maxdim = 4
    for P in range(maxdim + 1):
        for E in range(maxdim + 1):
            if ck.tier == "quick" and P * E > 12:
                continue  # 4x4 (2*65536 matrices) is in the thorough tier
            for bits in range(1 << (P * E)):
                rows = [[bool((bits >> (k * E + i)) & 1) for i in range(E)] for k in range(P)]
                for rest in (False, True):
                    cases.append((rest, P, E, rows))
    n_exh = len(cases)
    nrand = 3000 if ck.tier == "quick" else 60000
    for _ in range(nrand):
        P = ck.rng.randint(0, 8)
        E = ck.rng.randint(max(0, P - 2), 9)
        dens = ck.rng.choice([0.15, 0.3, 0.5, 0.8])
        rows = [[ck.rng.random() < dens for _ in range(E)] for _ in range(P)]
        cases.append((ck.rng.random() < 0.5, P, E, rows))
    if ck.tier == "thorough":
        # every permutation of elements and of patterns of random 4x4 / 3x5 matrices
        for _ in range(150):
            P, E = ck.rng.choice([(3, 3), (4, 4), (3, 5), (2, 4)])
            rows = [[ck.rng.random() < 0.45 for _ in range(E)] for _ in range(P)]
            for pe in itertools.permutations(range(E)):
                cases.append((E > P, P, E, [[r[i] for i in pe] for r in rows]))
            for pp in itertools.permutations(range(P)):
                cases.append((E > P, P, E, [rows[k] for k in pp]))
    lines = [line(*c) for c in cases]
    model = ck.lean_batch(lines)
    impl = ck.rt_batch(lines)
    disagree = 0
    dist = {}
    nontrivial = set()
    for c, ln, m, i in zip(cases, lines, model, impl):
        rest, P, E, rows = c
        want = spec_pass(rest, P, E, rows)
        got = (i == "[]")
        kind = "pass" if got else ("len" if "|<none>" not in i else "noassign")
        dist[kind] = dist.get(kind, 0) + 1
        if P >= 2 and E >= 2:
            nontrivial.add(ln)
        if got != want:
            ck.report("verdict:%s" % ln.replace(" ", "_"),
                      "set_match verdict differs from 'length rule and a one-to-one assignment exists'",
                      dict(request=ln, impl=i, model=m, spec_pass=want))
        elif not got and len(i.split(";")) != 1:
            ck.report("entries:%s" % ln.replace(" ", "_"), "a failing set pattern pushed %d entries, not exactly one" % len(i.split(";")),
                      dict(request=ln, impl=i, model=m))
        if m != i:
            disagree += 1
            if disagree <= 3:
                ck.report("corr:%s" % ln.replace(" ", "_"), "model and implementation of set_match disagree (verdict matches the specification)",
                          dict(request=ln, impl=i, model=m, spec_pass=want,
                               broken="correspondence T4/set_match; theorems C10_setMatch_iff, C10_perm_* depend on it"), no_input=(got == want))
    ck.corr_record("T4 set_match (real function via harness/rt vs AsModel.Runtime.setMatch)",
                   len(cases), len(nontrivial), disagree, dist,
                   samples=[dict(request=lines[k], impl=impl[k], model=model[k]) for k in (n_exh - 1, n_exh + 1, len(lines) - 1)],
                   exhaustive=True,
                   rule="all Boolean matrices with P,E<=4 (quick: P*E<=12) x both rest values, exhaustively; plus seeded random matrices up to 8x9 with densities 0.15..0.8; thorough adds every permutation of rows/columns of random matrices. distinct = distinct request lines; non-trivial = at least 2 patterns and 2 elements")
    ck.assumptions += [
        "predicates are modelled as a pure Boolean matrix M k i (the macro's probe closures are deterministic functions of the element; tied at macro level by C01-C03's correspondence)",
    ]
