"""C10 - set patterns succeed exactly when a one-to-one assignment exists."""
import itertools


def spec_pass(rest, P, E, rows):
    """Independent specification: length rule + existence of an injective assignment."""
    if (rest and E < P) or (not rest and E != P):
        return False
    # bipartite matching by augmenting paths (independent of the code's backtracking)
    match = [-1] * E

    def aug(k, seen):
        for i in range(E):
            if rows[k][i] and i not in seen:
                seen.add(i)
                if match[i] < 0 or aug(match[i], seen):
                    match[i] = k
                    return True
        return False

    return all(aug(k, set()) for k in range(P))


def line(rest, P, E, rows):
    rs = " ".join(("".join("1" if b else "0" for b in r) if E else "-") for r in rows)
    return ("setmatch %d %d %d %s" % (1 if rest else 0, P, E, rs)).rstrip()


ELEM_PATS = [("_", lambda x: True), ("3", lambda x: x == 3), ("> 5", lambda x: x > 5), ("== 1", lambda x: x == 1), ("1..=3", lambda x: 1 <= x <= 3), ("!= 7", lambda x: x != 7),
             ("5..", lambda x: x >= 5), ("1..3", lambda x: 1 <= x < 3)]


VALUE_PATS = [("1 | 2", lambda x: x in (1, 2)), ("1", lambda x: x == 1), ("3", lambda x: x == 3), ("1 | 3 | 7", lambda x: x in (1, 3, 7)), ("2 | 7", lambda x: x in (2, 7))]


def macro_cases(rng, _n):
    """Through the macro: set patterns over small integer collections, elements drawn from a fixed palette
    (wildcard, literal, comparisons, range), every order of the collection: the verdict must be the existence
    of a one-to-one assignment (computed here by bipartite matching, independently of the code and the model)."""
    import t3
    import tgen
    cases = []
    k = 0
    meanings = "(meanings (v %s (int 3)) (v %s (int 5)) (v %s (int 1)) (v %s (int 7)) (r %s (int 1) (int 3) true) (r %s (int 5) none false) (r %s (int 1) (int 3) false) (p %s (anyof (int 1) (int 2))) (p %s (anyof (int 1) (int 3) (int 7))) (p %s (anyof (int 2) (int 7))))" % (
        tgen.hexs("3"), tgen.hexs("5"), tgen.hexs("1"), tgen.hexs("7"), tgen.hexs("1..=3"), tgen.hexs("5.."), tgen.hexs("1..3"), tgen.hexs("1|2"), tgen.hexs("1|3|7"), tgen.hexs("2|7"))
    multisets = [[3, 1], [1, 3], [7, 3, 1], [1, 2, 7], [7, 2, 1], [2, 7, 1], [6, 6], [3], [], [3, 3, 9], [9, 3, 3], [1, 3, 7, 9], [0, 7, 9], [3, 0, 1, 0, 0, 7], [7, 8, 9, 6, 1], [1, 8, 3, 9]]
    # deterministic: every pattern list of length 1 and 2 over the whole palette, every list of length 3 over four patterns of different
    # behaviour (a sample that changes with the generator's random stream once let a seeded change slip back out of reach)
    combos = []
    for n in (1, 2):
        for c in itertools.product(range(len(ELEM_PATS)), repeat=n):
            combos.append(list(c))
    for c in itertools.product((0, 1, 2, 4), repeat=3):
        combos.append(list(c))
    # sets made of plain-value patterns only, some of which accept SEVERAL values (or-patterns are simple patterns) and overlap partially:
    # first-fit without backtracking is wrong on them (seed C10-11 took that short cut for all-value sets)
    base = len(ELEM_PATS)
    for c in itertools.product(range(base, base + len(VALUE_PATS)), repeat=2):
        combos.append(list(c))
    for c in itertools.product((base, base + 1, base + 4), repeat=3):
        combos.append(list(c))
    pats = ELEM_PATS + VALUE_PATS
    for c in combos:
        for rest in (False, True):
            for val in multisets:
                if not rest and len(val) != len(c) and (len(val) + len(c)) % 3 != 0:
                    continue       # a deterministic third of the length failures
                if rest and len(val) < len(c) and (len(val) + len(c)) % 3 != 0:
                    continue
                pat = "#(%s%s)" % (", ".join(pats[i][0] for i in c), (", .." if c else "..") if rest else "")
                case = t3.Case()
                case.id = k
                k += 1
                case.forms = {"set-macro": 1}
                case.perturbed = False
                case.meanings = meanings
                rows = [[pats[i][1](x) for x in val] for i in c]
                case.want_pass = spec_pass(rest, len(c), len(val), rows)
                t3.finish_case(case, "", "Vec<i32>", ("vec![%s]" % ", ".join("%di32" % x for x in val)) if val else "Vec::<i32>::new()",
                               "(seq %s)" % " ".join("(int %d)" % x for x in val), pat)
                cases.append(case)
    return cases


def macro_part(ck):
    import t3
    ck.build_harness("inproc")
    cases = t3.run_corpus(ck, "c10-macro", 0, per_bin=60, positions=macro_cases)
    stats, mism = t3.compare(ck, cases, "c10-macro")
    bad = 0
    dist = {"spec-pass": 0, "spec-fail": 0}
    for c in cases:
        gk = c.got[0]
        dist["spec-pass" if c.want_pass else "spec-fail"] += 1
        if gk not in ("pass", "fail"):
            ck.report("macro-set-not-run", "a set pattern over integers does not compile / run: " + gk, dict(t3.describe(c)))
            continue
        if (gk == "pass") != c.want_pass:
            bad += 1
            ck.report("macro-verdict:%s" % ("false-failure" if c.want_pass else "false-success"),
                      "a set assertion's verdict is not the existence of a one-to-one assignment of patterns to matching elements",
                      dict(t3.describe(c), assignment_exists=c.want_pass))
        elif c.expect[0] == "ok" and ((c.expect[1] == []) != c.want_pass):
            ck.report("model:set-macro", "the Lean specification's verdict differs from the bipartite-matching specification", dict(t3.describe(c), assignment_exists=c.want_pass), no_input=True)
    ck.corr_record("T3 set patterns through the macro (palette of element patterns incl. `_`, every listed order of small collections, with and without `..`): verdict vs bipartite matching and vs the Lean specification",
                   len(cases), len(cases), bad, dist, samples=[dict(invocation="assert_struct!(%s)" % c.text, value=c.value_text, got=c.got[0], assignment_exists=c.want_pass) for c in cases[:3]],
                   rule="70 seeded combinations of 1-3 element patterns from a palette of 6 x {exact, `..`} x 12 collections (orders of the same multiset included); every case distinct")


def run(ck):
    ck.prove(["AsModel.Theorems.C10"])
    ck.build_harness("rt")
    cases = []
    maxdim = 4
    for P in range(maxdim + 1):
        for E in range(maxdim + 1):
            if ck.tier == "quick" and P * E > 12:
                continue  # 4x4 (2*65536 matrices) is in the thorough tier
            for bits in range(1 << (P * E)):
                rows = [[bool((bits >> (k * E + i)) & 1) for i in range(E)] for k in range(P)]
                for rest in (False, True):
                    cases.append((rest, P, E, rows))
    n_exh = len(cases)
    nrand = 3000 if ck.tier == "quick" else 60000
    for _ in range(nrand):
        P = ck.rng.randint(0, 8)
        E = ck.rng.randint(max(0, P - 2), 9)
        dens = ck.rng.choice([0.15, 0.3, 0.5, 0.8])
        rows = [[ck.rng.random() < dens for _ in range(E)] for _ in range(P)]
        cases.append((ck.rng.random() < 0.5, P, E, rows))
    # sizes on machine boundaries: few patterns, one to three matching positions chosen among the first, the last and the
    # positions around every multiple of 32 (an implementation keeping per-element state in a machine word is wrong only here)
    n_boundary = 0
    for E in (31, 32, 33, 63, 64, 65, 127, 128, 129, 255, 256, 257):
        marks = sorted({0, E - 1, E - 2, E // 2} | {m for m in (31, 32, 63, 64, 65, 127, 128) if m < E})
        for P in (1, 2, 3):
            for _ in range(6 if ck.tier == "quick" else 40):
                rows = []
                for _k in range(P):
                    on = set(ck.rng.sample(marks, ck.rng.randint(1, min(3, len(marks)))))
                    rows.append([i in on for i in range(E)])
                cases.append((True, P, E, rows))
                n_boundary += 1
        # exact size: a permutation matrix (every pattern matches exactly one element)
        perm = list(range(E))
        ck.rng.shuffle(perm)
        cases.append((False, E, E, [[i == perm[k] for i in range(E)] for k in range(E)]))
        cases.append((True, E - 1, E, [[i == perm[k] for i in range(E)] for k in range(E - 1)]))
        n_boundary += 2
    if ck.tier == "thorough":
        # every permutation of elements and of patterns of random 4x4 / 3x5 matrices
        for _ in range(150):
            P, E = ck.rng.choice([(3, 3), (4, 4), (3, 5), (2, 4)])
            rows = [[ck.rng.random() < 0.45 for _ in range(E)] for _ in range(P)]
            for pe in itertools.permutations(range(E)):
                cases.append((E > P, P, E, [[r[i] for i in pe] for r in rows]))
            for pp in itertools.permutations(range(P)):
                cases.append((E > P, P, E, [rows[k] for k in pp]))
    lines = [line(*c) for c in cases]
    model = ck.lean_batch(lines)
    impl = ck.rt_batch(lines)
    disagree = 0
    dist = {}
    nontrivial = set()
    for c, ln, m, i in zip(cases, lines, model, impl):
        rest, P, E, rows = c
        want = spec_pass(rest, P, E, rows)
        got = (i == "[]")
        kind = "pass" if got else ("len" if "|<none>" not in i else "noassign")
        dist[kind] = dist.get(kind, 0) + 1
        if P >= 2 and E >= 2:
            nontrivial.add(ln)
        if got != want:
            ck.report("verdict:%s" % ln.replace(" ", "_"),
                      "set_match verdict differs from 'length rule and a one-to-one assignment exists'",
                      dict(request=ln, impl=i, model=m, spec_pass=want))
        elif not got and len(i.split(";")) != 1:
            ck.report("entries:%s" % ln.replace(" ", "_"), "a failing set pattern pushed %d entries, not exactly one" % len(i.split(";")),
                      dict(request=ln, impl=i, model=m))
        if m != i:
            disagree += 1
            if disagree <= 3:
                ck.report("corr:%s" % ln.replace(" ", "_"), "model and implementation of set_match disagree (verdict matches the specification)",
                          dict(request=ln, impl=i, model=m, spec_pass=want,
                               broken="correspondence T4/set_match; theorems C10_setMatch_iff, C10_perm_* depend on it"), no_input=(got == want))
    ck.corr_record("T4 set_match (real function via harness/rt vs AsModel.Runtime.setMatch)",
                   len(cases), len(nontrivial), disagree, dist,
                   samples=[dict(request=lines[k][:200], impl=impl[k], model=model[k]) for k in (n_exh - 1, n_exh + 1, len(lines) - 1)],
                   exhaustive=True,
                   rule="all Boolean matrices with P,E<=4 (quick: P*E<=12) x both rest values, exhaustively; plus seeded random matrices up to 8x9 with densities 0.15..0.8; thorough adds every permutation of rows/columns of random matrices; plus %d matrices with 31-33 / 63-65 / 127-129 / 255-257 elements (1-3 patterns matching only at the first, last and word-boundary positions, with `..`; a permutation matrix of the full size, exact and with one pattern fewer). distinct" % n_boundary + " = distinct request lines; non-trivial = at least 2 patterns and 2 elements")
    # the same requests against the runtime crate built WITHOUT debug assertions / overflow checks
    impl2 = ck.rt_batch(lines, profile="nodebug")
    d2 = 0
    for c, ln, i, i2 in zip(cases, lines, impl, impl2):
        if i != i2:
            d2 += 1
            rest, P, E, rows = c
            want = spec_pass(rest, P, E, rows)
            if d2 <= 3:
                ck.report("profile-dependent:%s" % ("verdict" if (i2 == "[]") != want else "entries"),
                          "set_match behaves differently when the crate is built without debug assertions" + ("" if (i2 == "[]") == want else ": the verdict is not 'length rule and a one-to-one assignment exists'"),
                          dict(request=ln, with_debug_assertions=i, without_debug_assertions=i2, spec_pass=want), no_input=((i2 == "[]") == want and len(i2.split(";")) <= 1))
    ck.corr_record("T4 set_match in two build profiles (the same requests against the harness built with and without debug assertions / overflow checks)",
                   len(lines), len(nontrivial), d2, {}, samples=[dict(request=lines[0])], exhaustive=True, rule="same request set as above")
    import parsetie
    parsetie.light_tie(ck, "C10: the compiled programs' expectations read patterns with the model parser")
    ck.assumptions += [
        "predicates are modelled as a pure Boolean matrix M k i (the macro's probe closures are deterministic functions of the element; tied at macro level by C01-C03's correspondence)",
    ]
    macro_part(ck)
    # C10_macro_level lifts the theorems through the set template (probe predicates + one call of set_match): tie the template to
    # the real generator, token for token (a generator that calls another matcher for some sets is at least a broken correspondence)
    import t2
    res = t2.run(ck)
    mm = t2.record(ck, res, ("body", "status"), "the set template: probe predicates, the length / rest arguments and the call of set_match")
    if mm and not [v for v in ck.violations if not v["no_input"]]:
        ck.report("corr:T2-body", "the model of the code generator no longer matches the real expansion (%d inputs differ)" % len(mm),
                  dict(broken="correspondence T2 (expansion tokens)", theorems=["C10_setMatch_iff (macro level)", "refine"], first=mm[:3]), no_input=True)
