"""C05 - the 'got' text is the Debug form of the value that was tested."""
import rendered
import verdicts


def set_summaries(ck):
    """T4: the element-count summary pushed by the real set_match is true of the collection."""
    ck.build_harness("rt")
    reqs, meta = [], []
    for _ in range(1500 if ck.tier == "quick" else 30000):
        P = ck.rng.randint(0, 5)
        E = ck.rng.randint(0, 7)
        rest = ck.rng.random() < 0.5
        dens = ck.rng.choice([0.0, 0.2, 0.5])
        rows = [("".join("1" if ck.rng.random() < dens else "0" for _ in range(E)) if E else "-") for _ in range(P)]
        reqs.append(("setmatch %d %d %d %s" % (1 if rest else 0, P, E, " ".join(rows))).rstrip())
        meta.append((rest, P, E))
    impl = ck.rt_batch(reqs)
    model = ck.lean_batch(reqs)
    bad = 0
    dist = {}
    for ln, im, md, (rest, P, E) in zip(reqs, impl, model, meta):
        if im == "[]":
            dist["pass"] = dist.get("pass", 0) + 1
            continue
        for pu in im.split(";"):
            _, actual, expected = pu.split("|")
            kind = "length" if expected != "<none>" else "no-assignment"
            dist[kind + ("-rest" if rest else "")] = dist.get(kind + ("-rest" if rest else ""), 0) + 1
            if actual != "%d element(s)" % E:
                bad += 1
                ck.report("set-summary:%s" % kind, "the element-count summary of a failing set pattern is not true of the collection",
                          dict(request=ln, elements=E, patterns=P, rest=rest, impl_actual=actual, model=md))
    ck.corr_record("T4 set summaries (real set_match: the 'got' text of a failing set pattern must be '<number of elements> element(s)')",
                   len(reqs), len(set(reqs)), bad, dist, samples=[dict(request=reqs[0], impl=impl[0])],
                   rule="seeded random match matrices (0-5 patterns x 0-7 elements, both rest settings, densities 0/0.2/0.5 so that length failures and assignment failures with surplus elements both occur); distinct = distinct request")


def run(ck):
    verdicts.check(ck, "C05", ["AsModel.Theorems.C05"])
    set_summaries(ck)
    rendered.run(ck, "C05")
