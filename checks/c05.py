"""C05 - see properties.jsonl; shared machinery in lib/verdicts.py."""
import verdicts


def run(ck):
    verdicts.check(ck, "C05", ["AsModel.Theorems.C05"])
