"""C05 - the 'got' text is the Debug form of the value that was tested."""
import rendered
import verdicts


def set_summaries(ck):
    """T4: the element-count summary pushed by the real set_match is true of the collection."""
    ck.build_harness("rt")
    reqs, meta = [], []
    for _ in range(1500 if ck.tier == "quick" else 30000):
        P = ck.rng.randint(0, 5)
        E = ck.rng.randint(0, 7)
        rest = ck.rng.random() < 0.5
        dens = ck.rng.choice([0.0, 0.2, 0.5])
        rows = [("".join("1" if ck.rng.random() < dens else "0" for _ in range(E)) if E else "-") for _ in range(P)]
        reqs.append(("setmatch %d %d %d %s" % (1 if rest else 0, P, E, " ".join(rows))).rstrip())
        meta.append((rest, P, E))
    impl = ck.rt_batch(reqs)
    model = ck.lean_batch(reqs)
    bad = 0
    dist = {}
    for ln, im, md, (rest, P, E) in zip(reqs, impl, model, meta):
        if im == "[]":
            dist["pass"] = dist.get("pass", 0) + 1
            continue
        for pu in im.split(";"):
            _, actual, expected = pu.split("|")
            kind = "length" if expected != "<none>" else "no-assignment"
            dist[kind + ("-rest" if rest else "")] = dist.get(kind + ("-rest" if rest else ""), 0) + 1
            if actual != "%d element(s)" % E:
                bad += 1
                ck.report("set-summary:%s" % kind, "the element-count summary of a failing set pattern is not true of the collection",
                          dict(request=ln, elements=E, patterns=P, rest=rest, impl_actual=actual, model=md))
    ck.corr_record("T4 set summaries (real set_match: the 'got' text of a failing set pattern must be '<number of elements> element(s)')",
                   len(reqs), len(set(reqs)), bad, dist, samples=[dict(request=reqs[0], impl=impl[0])],
                   rule="seeded random match matrices (0-5 patterns x 0-7 elements, both rest settings, densities 0/0.2/0.5 so that length failures and assignment failures with surplus elements both occur); distinct = distinct request")


VIEW_DECLS = """
#[derive(Debug, Clone)] pub struct Stack(pub Vec<i32>);
impl Stack { pub fn as_slice(&self) -> &[i32] { &self.0 } pub fn len(&self) -> usize { self.0.len() } pub fn get(&self, k: &usize) -> Option<&i32> { self.0.get(*k) } }
impl<'a> IntoIterator for &'a Stack { type Item = &'a i32; type IntoIter = std::slice::Iter<'a, i32>; fn into_iter(self) -> Self::IntoIter { self.0.iter() } }
#[derive(Debug)] pub struct Holder { pub st: Stack, pub it: std::vec::IntoIter<i32>, pub arr: [i32; 3], pub bx: Box<Vec<i32>>, pub rc: std::rc::Rc<Vec<i32>>, pub os: Option<Stack>, pub pair: (Stack, u8) }
pub fn mk() -> Holder { Holder { st: Stack(vec![1, 2, 3]), it: vec![1, 2, 3].into_iter(), arr: [1, 2, 3], bx: Box::new(vec![1, 2, 3]), rc: std::rc::Rc::new(vec![1, 2, 3]), os: Some(Stack(vec![1, 2, 3])), pair: (Stack(vec![1, 2, 3]), 0) } }
pub fn hexd<T: std::fmt::Debug>(x: &T) -> String { format!("{:?}", x).bytes().map(|b| format!("{:02x}", b)).collect() }
"""
# (asserted expression, pattern, the expression whose Debug form the single entry must show)
VIEW_CASES = [
    ("v.st", "[1, 2]", "v.st"), ("v", "Holder { st: [1, 2], .. }", "v.st"), ("v", "Holder { st: [1, .., 7, 8, 9], .. }", "v.st"), ("v", "_ { st: [9], .. }", "v.st"),
    ("v", "Holder { it: [9], .. }", "v.it"), ("v.it", "[1, 2, 3, 4]", "v.it"), ("v", "Holder { arr: [1, 2], .. }", "v.arr"), ("v", "Holder { bx: [1], .. }", "v.bx"),
    ("v", "Holder { rc: [1, 2, 3, 4], .. }", "v.rc"), ("v", "Holder { os: Some([1]), .. }", "v.os.as_ref().unwrap()"), ("v", "Holder { pair: ([1], _), .. }", "v.pair.0"),
    ("v", "Holder { pair.0: [1], .. }", "v.pair.0"), ("v", "Holder { st.clone(): [1], .. }", "v.st"),
]


def slice_views(ck):
    """The 'got' text of a failed slice shape is the Debug form of the VALUE at that path - for values that are not a Vec (a user
    collection with `as_slice()`, `vec::IntoIter`, arrays, Box / Rc of a Vec) as well.  The program prints the Debug form itself."""
    import t3

    def make(rng, _n):
        cases = []
        for k, (asserted, pat, shown) in enumerate(VIEW_CASES):
            c = t3.Case()
            c.id = k
            c.forms = {"slice-view": 1}
            c.meanings = "(meanings)"
            t3.finish_case(c, VIEW_DECLS, "Holder", "mk()", "(int 0)", pat)
            c.text = asserted + ", " + pat
            c.shown = shown
            c.post = 'println!("X %d dbg={}", hexd(&%s));' % (k, shown)
            cases.append(c)
        return cases

    cases = t3.run_corpus(ck, "c05-views", 0, per_bin=20, positions=make)
    dist = {}
    for c in cases:
        gk = c.got[0]
        want = bytes.fromhex(getattr(c, "extra", {}).get("dbg", "")).decode("utf-8", "replace") if getattr(c, "extra", {}).get("dbg") else None
        if gk != "fail" or want is None or len(c.got[1]) != 1:
            dist["not-a-single-failure:" + gk] = dist.get("not-a-single-failure:" + gk, 0) + 1
            ck.report("view-case-broken", "a program of the slice-view family does not fail with exactly one entry (%s)" % gk, dict(t3.describe(c)), no_input=True)
            continue
        actual = c.got[1][0][2]
        ok = actual == want
        dist["got = Debug of the value" if ok else "got is NOT the Debug of the value"] = dist.get("got = Debug of the value" if ok else "got is NOT the Debug of the value", 0) + 1
        if not ok:
            ck.report("view:" + c.shown, "the 'got' text of a failed slice pattern is not the Debug form of the value at that path",
                      dict(t3.describe(c), value_expression=c.shown, debug_of_the_value=want, got_text=actual))
    ck.corr_record("T3 slice views (failed slice shapes on values that are not a Vec: user collection with as_slice(), vec::IntoIter, array, Box / Rc of a Vec; the program prints the value's own Debug form)",
                   len(cases), len(cases), 0, dist, samples=[dict(invocation="assert_struct!(%s)" % cases[0].text)], exhaustive=True, rule="%d fixed programs" % len(VIEW_CASES))


def run(ck):
    verdicts.check(ck, "C05", ["AsModel.Theorems.C05", "AsModel.Theorems.C05Report"])
    slice_views(ck)
    set_summaries(ck)
    rendered.run(ck, "C05")
