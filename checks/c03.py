"""C03 - see properties.jsonl; shared machinery in lib/verdicts.py."""
import rendered
import verdicts


def run(ck):
    verdicts.check(ck, "C03", ["AsModel.Theorems.C03", "AsModel.Theorems.C05Report"])
    ck.build_harness("rt")
    rendered.run(ck, "C03")
