"""C03 - see properties.jsonl; shared machinery in lib/verdicts.py."""
import verdicts


def run(ck):
    verdicts.check(ck, "C03", ["AsModel.Theorems.C03"])
