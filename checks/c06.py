"""C06 - a failed assertion is always one ordinary, catchable panic with the report."""
import os
import shutil
from vlib import hexs, unhexs, CACHE
import gen

KINDS = ["simple:%s" % hexs("42"), "cmp:gt:%s" % hexs("5"), "cmp:eq:%s" % hexs("x + 1"), "slice:2:0", "slice:1:1",
         "set:2:0", "set:3:1", "enum:%s:1" % hexs("Some"), "enum:%s:0" % hexs("Status::Active"), "closure:%s" % hexs("|x| x > 1"),
         "range:%s" % hexs("1..=3"), "regex:%s" % hexs('r"a.c"'), "like:%s" % hexs("pat"), "map:2:0", "struct:%s:1" % hexs("User")]


def renderer_contract(ck):
    n = 3000 if ck.tier == "quick" else 60000
    reqs = []
    for _ in range(n):
        s = gen.rand_text(ck.rng, max_lines=4, max_cols=12, unicode_p=0.5)
        L = len(s.encode("utf-8"))
        a = ck.rng.randint(0, L + 2)
        b = ck.rng.randint(a + 1, L + 4)
        reqs.append("render %s %d %d" % (hexs(s), a, b))
    model = ck.lean_batch(reqs)
    impl = ck.rt_batch(reqs)
    dis = 0
    dist = {}
    for ln, md, im in zip(reqs, model, impl):
        dist[im] = dist.get(im, 0) + 1
        if md != im:
            dis += 1
            if dis <= 3:
                # the renderer panics where the modelled contract says it is safe (or vice versa):
                # the contract under which C06_spans_meet_contract was stated no longer describes the renderer
                ck.report("corr:renderer-contract:" + ln[:50],
                          "annotate-snippets' behaviour differs from the modelled contract (panic iff an in-range offset is not a character boundary)",
                          dict(request=ln, impl=im, model=md, broken="renderer contract assumed by C06_rendererOk"), no_input=True)
    ck.corr_record("T4 renderer contract (annotate-snippets rendered under catch_unwind vs AsModel.Runtime.rendererOk)",
                   len(reqs), len(set(reqs)), dis, dist,
                   samples=[dict(request=reqs[0], impl=impl[0]), dict(request=reqs[1], impl=impl[1])],
                   rule="seeded random texts x random byte spans a<b, offsets inside characters, on boundaries and past the end; distinct = distinct request")


def display_matrix(ck):
    scratch = os.path.join(CACHE, "scratch", "c06-%d" % os.getpid())
    shutil.rmtree(scratch, ignore_errors=True)
    os.makedirs(scratch)
    try:
        n = 400 if ck.tier == "quick" else 5000
        reqs, meta = [], []
        states = ["normal", "normal", "normal", "nonascii", "crlf", "empty", "truncated", "edited", "missing", "directory", "notutf8", "bom", "bom-short-nonascii-tail"]
        for k in range(n):
            st = states[k % len(states)]
            s = gen.rand_text(ck.rng, max_lines=6, unicode_p=0.6 if st == "nonascii" else 0.3, crlf_p=1.0 if st == "crlf" else 0.1)
            fn = "f%d.rs" % k
            path = os.path.join(scratch, fn)
            on_disk = s
            if st == "empty":
                on_disk = ""
            elif st == "truncated":
                on_disk = s[: len(s) // 2]
            elif st == "edited":
                on_disk = "// é inserted later\n" + s[::-1]
            elif st == "bom":
                on_disk = "\ufeff" + s
            elif st == "bom-short-nonascii-tail":
                # a file with a byte-order mark that is shorter than at compile time and ends in multi-byte characters
                on_disk = "\ufeff" + s[: len(s) // 3] + ck.rng.choice(["🎉\n", "日\n", "éé", "x日本"])
            if st == "missing":
                on_disk = None
            elif st == "directory":
                os.makedirs(path)
                on_disk = None
            elif st == "notutf8":
                open(path, "wb").write(b"\xff\xfe" + s.encode("utf-8") + b"\xc3")
                on_disk = None
            else:
                open(path, "wb").write(on_disk.encode("utf-8"))
            ne = ck.rng.randint(1, 4)
            ents = []
            for _ in range(ne):
                if ck.rng.random() < 0.5 and s:
                    i = ck.rng.randint(0, max(0, len(s) - 1))
                    j = ck.rng.randint(i, len(s))
                    ls, cs, _ = gen.pos_of(s, i)
                    le, ce, _ = gen.pos_of(s, j)
                else:
                    ls, cs, le, ce = ck.rng.randint(0, 9), ck.rng.randint(0, 60), ck.rng.randint(0, 9), ck.rng.randint(0, 60)
                kind = ck.rng.choice(KINDS)
                actual = ck.rng.choice(["3", '"a\\"b"', "None", "[1, 2]", "Étoile { x: 1 }", "2 element(s)"])
                if ck.rng.random() < 0.2:
                    # long values, ASCII and multi-byte, of lengths around every plausible cut-off; values with line breaks and escapes
                    ch = ck.rng.choice(["a", "é", "日", "😀", "ж", "x日"])
                    actual = ck.rng.choice(['"%s"', "[%s]", "S { name: \"%s\" }"]) % (ch * ck.rng.choice([30, 40, 41, 59, 60, 63, 64, 79, 80, 100, 119, 120, 121, 127, 128, 200, 255, 256, 1000]))
                elif ck.rng.random() < 0.05:
                    actual = ck.rng.choice(["line one\nline two", "\ttabbed", "", " ", "e\u0301", "\u200bzero-width", "a\rb", "\x1b[31mred\x1b[0m", "{}", "{:?}", "%s"])
                exp = ck.rng.choice(["none", "none", hexs("x + 1"), hexs("2 entries")])
                ents.append("%d %d %d %d %s %s %s" % (ls, cs, le, ce, kind, hexs(actual), exp))
            reqs.append("display %s %s 1 %s %d %s" % (hexs(scratch), hexs(fn), "none" if on_disk is None else hexs(on_disk), ne, " ".join(ents)))
            meta.append((st, ne))
        model = ck.lean_batch(reqs)
        impl = ck.rt_batch(reqs)
        dis = 0
        dist = {}
        for ln, md, im, (st, ne) in zip(reqs, model, impl, meta):
            dist[st] = dist.get(st, 0) + 1
            f = dict(x.split("=", 1) for x in im.split(" ")[1:])
            g = dict(x.split("=", 1) for x in md.split(" ")[1:])
            status = im.split(" ")[0]
            out = unhexs(f.get("out", "-")) if status == "ok" else ""
            labels = [unhexs(h) for h in f["labels"].split(",")] if f.get("labels", "-") != "-" else []
            # --- impl vs spec (the property itself)
            if status != "ok":
                ck.report("display-panics:" + st, "formatting the report panicked (inside panic!() this aborts the process)",
                          dict(request=ln, file_state=st, impl=im[:300]))
                continue
            if "assert_struct! failed" not in out:
                ck.report("no-header:" + st, "the message does not carry the assert_struct failure header", dict(request=ln, file_state=st, output=out))
            missing = [l for l in labels if l not in out]
            if len(labels) != ne or missing:
                ck.report("entries-dropped:" + st, "the message does not carry one entry per mismatch",
                          dict(request=ln, file_state=st, output=out, labels=labels, expected_entries=ne))
            # --- impl vs model
            same = (status == md.split(" ")[0] and f.get("labels") == g.get("labels") and f.get("spans") == g.get("spans")
                    and (g.get("out") == "*" or g.get("out") == f.get("out")))
            if not same:
                dis += 1
                if dis <= 3:
                    ck.report("corr:display:" + st + ":" + str(dis), "model and implementation of Display for ErrorReport disagree",
                              dict(request=ln, file_state=st, impl=im[:400], model=md[:400], broken="correspondence T4/display; C06_spans_meet_contract, C06_fallback_lists_every_entry depend on it"), no_input=True)
        ck.corr_record("T4 Display (ErrorReport built through the public API over files in every state vs the model's labels, spans and fallback text; header + one label per entry required)",
                       len(reqs), len(set(reqs)), dis, dist,
                       samples=[dict(file_state=meta[k][0], request=reqs[k][:200], impl=impl[k][:200]) for k in (0, 5, 8)],
                       rule="files that are normal / non-ASCII / CRLF / empty / truncated / edited after the positions were taken / missing / a directory / not UTF-8, with 1-4 entries each located at a real character range or at an arbitrary (line, col) range incl. outside the text; distinct = distinct request")
    finally:
        shutil.rmtree(scratch, ignore_errors=True)


EDITION_PROGRAM = """%(imports)s
#[derive(Debug)] struct P { x: i32, name: String }
fn main() {
    let r = std::panic::catch_unwind(|| {
        let p = P { x: 1, name: "n".to_string() };
        assert_struct!(p, P { x: > 5, name: "m" });
    });
    match r {
        Ok(()) => println!("RESULT no-panic"),
        Err(e) => {
            let msg = if let Some(s) = e.downcast_ref::<String>() { s.clone() } else if let Some(s) = e.downcast_ref::<&str>() { s.to_string() } else { "<payload is neither String nor &str>".to_string() };
            println!("RESULT panic\\n{}\\nEND", msg);
        }
    }
}
"""


def editions(ck):
    """The calling crate's edition must not matter: one ordinary catchable panic whose message is the report
    (`panic!` with a single literal is a format string only from edition 2021 on)."""
    import e2e
    dist = {}
    eds = ["2015", "2018", "2021", "2024"]
    for ed in eds:
        proj = e2e.Project("c06ed" + ed, edition=ed, prelude=False)
        try:
            imports = "#[macro_use] extern crate assert_struct;" if ed == "2015" else "use assert_struct::assert_struct;"
            proj.add_bin("ed", EDITION_PROGRAM % dict(imports=imports))
            res = proj.build()
            if not res["ed"]["ok"]:
                dist[ed + ": does not compile"] = 1
                ck.report("edition-rejected:" + ed, "a failing assertion does not compile in a crate of edition " + ed,
                          dict(edition=ed, rustc=[(d["code"], d["message"]) for d in res["ed"]["diags"]][:3]))
                continue
            rc, out, err = proj.run("ed")
            msg = out.split("RESULT panic\n", 1)[1].split("\nEND", 1)[0] if "RESULT panic\n" in out else None
            ok = msg is not None and "assert_struct! failed" in msg and "got 1" in msg and 'got "n"' in msg
            dist[ed + (": report in the panic message" if ok else ": NO report")] = 1
            if not ok:
                ck.report("no-report:edition-" + ed, "a failing assertion in a crate of edition %s does not panic with the report as its message" % ed,
                          dict(edition=ed, stdout=out[:600], stderr=err[-400:]))
        finally:
            proj.cleanup()
    ck.corr_record("T3 editions (a dependent crate of each edition with one failing assertion under catch_unwind: the payload must be the report)",
                   len(eds), len(eds), 0, dist, samples=[dict(edition="2018")], exhaustive=True, rule="editions 2015, 2018, 2021, 2024")


WRAP_DECL = """
#[derive(Debug)] pub struct S2 { pub a: i32, pub b: i32, pub s: String, pub o: Option<i32>, pub e: Ev2 }
#[derive(Debug, PartialEq)] pub enum Ev2 { On, Off(i32) }
"""
# (name, macro definition before main, invocation, macro definition AFTER main (exported, reached by path))
WRAPPERS = [
    ("operands-from-caller", "macro_rules! m { ($v:expr, $x:expr, $y:expr) => { assert_struct!($v, S2 { a: == $x, b: > $y, .. }) }; }", "m!(&v, 5, 6)", ""),
    ("literal-from-caller", "macro_rules! m { ($v:expr, $l:literal) => { assert_struct!($v, S2 { a: $l, .. }) }; }", "m!(&v, 5)", ""),
    ("field-names-from-caller", "macro_rules! m { ($v:expr, $f:ident, $g:ident) => { assert_struct!($v, S2 { $f: 5, $g: 7, .. }) }; }", "m!(&v, a, b)", ""),
    ("range-bounds-from-caller", "macro_rules! m { ($v:expr, $lo:expr, $hi:expr) => { assert_struct!($v, S2 { a: $lo..=$hi, .. }) }; }", "m!(&v, 5, 9)", ""),
    ("pattern-in-definition", 'macro_rules! m { ($v:expr) => { assert_struct!($v, S2 { a: 5, b: > 6, s: "abc", o: Some(3), e: Ev2::Off(2) }) }; }', "m!(&v)", ""),
    ("value-through-macro", "macro_rules! m { ($v:expr) => { $v }; }", 'assert_struct!(m!(&v), S2 { a: 5, b: > 6, s: "abc", .. })', ""),
    ("variant-name-from-caller", "macro_rules! m { ($v:expr, $variant:ident) => { assert_struct!($v, S2 { e: Ev2::$variant(2), .. }) }; }", "m!(&v, Off)", ""),
    ("variant-name-from-caller-definition-below", "", "crate::m_late!(&v, Off)", "#[macro_export] macro_rules! m_late { ($v:expr, $variant:ident) => { assert_struct!($v, S2 { e: Ev2::$variant(2), .. }) }; }"),
    ("unit-variant-from-caller-definition-below", "", "crate::m_late!(&v, On)", "#[macro_export] macro_rules! m_late { ($v:expr, $variant:ident) => { assert_struct!($v, S2 { e: Ev2::$variant, .. }) }; }"),
    ("struct-name-from-caller-definition-below", "", "crate::m_late!(&v, S2)", "#[macro_export] macro_rules! m_late { ($v:expr, $name:ident) => { assert_struct!($v, crate::$name { a: 5, .. }) }; }"),
    ("definition-and-call-over-several-lines", "macro_rules! m { ($v:expr, $x:expr,\n $y:expr) => { assert_struct!($v,\n S2 {\n a: == $x,\n b: >\n $y,\n .. }) }; }", "m!(&v,\n 5,\n 6)", ""),
    ("operands-from-caller-definition-below", "", "crate::m_late!(&v, 5)", "#[macro_export] macro_rules! m_late { ($v:expr, $x:expr) => { assert_struct!($v, S2 { a: >= $x, b: == $x + 2, .. }) }; }"),
    ("range-from-caller-definition-below", "", "crate::m_late!(&v, 5, 9)", "#[macro_export] macro_rules! m_late { ($v:expr, $lo:expr, $hi:expr) => { assert_struct!($v, S2 { a: $lo..=$hi, .. }) }; }"),
    ("field-path-from-caller-definition-below", "", "crate::m_late!(&v, a, b)", "#[macro_export] macro_rules! m_late { ($v:expr, $f:ident, $g:ident) => { assert_struct!($v, S2 { $f: 5, $g.clone(): 7, .. }) }; }"),
    # a text that is not a valid regex reaching `=~` through a fragment / parentheses is an ordinary Like mismatch (the String impl
    # answers false), with the other entries kept: not a panic of its own half-way through the assertion
    ("invalid-regex-text-through-a-literal-fragment", 'macro_rules! m { ($v:expr, $re:literal) => { assert_struct!($v, S2 { a: 5, s: =~ $re, .. }) }; }', 'm!(&v, "(")', ""),
    ("invalid-regex-text-through-an-expr-fragment", 'macro_rules! m { ($v:expr, $re:expr) => { assert_struct!($v, S2 { a: 5, s: =~ $re, .. }) }; }', 'm!(&v, "[a-")', ""),
    ("invalid-regex-text-in-parentheses", "", 'assert_struct!(&v, S2 { a: 5, s: =~ ("("), .. })', ""),
    ("invalid-regex-text-in-a-variable", "", 'let re = "("; assert_struct!(&v, S2 { a: 5, s: =~ re, .. })', ""),
    ("definition-in-another-module-file-order-reversed", "", "crate::zz::m_in_mod!(&v, On, 5)", "pub mod zz { #[macro_export] macro_rules! m_in_mod_impl { ($v:expr, $variant:ident, $x:expr) => {\n\n\n assert_struct!($v, crate::S2 { e: crate::Ev2::$variant, a: == $x, .. }) }; } pub use m_in_mod_impl as m_in_mod; }"),
]


def wrappers(ck):
    """assert_struct! invoked from inside the user's own macro_rules! helpers: the tokens of one pattern then come partly from the helper's
    definition and partly from its call, on unrelated lines (the definition may even sit below the call).  Whatever the recorded
    positions look like, a failing assertion is one ordinary panic whose message is the report."""
    import e2e
    import t3
    proj = e2e.Project("c06wrap")
    dist = {}
    try:
        for k, (name, before, inv, after) in enumerate(WRAPPERS):
            src = t3.HEADER + WRAP_DECL + before + '\nfn main() {\n let v = S2 { a: 4, b: 6, s: "abd".to_string(), o: Some(4), e: Ev2::Off(3) };\n' \
                ' let r = std::panic::catch_unwind(|| { %s; });\n match r { Ok(_) => println!("RESULT returned"), Err(e) => println!("RESULT panic\\n{}\\nEND", ' \
                'e.downcast_ref::<String>().cloned().unwrap_or_else(|| "<payload is not a String>".to_string())) }\n}\n%s\n' % (inv, after)
            proj.add_bin("w%02d" % k, src)
        res = proj.build()
        for k, (name, before, inv, after) in enumerate(WRAPPERS):
            r = res["w%02d" % k]
            if not r["ok"]:
                # not this property's business (hygiene of spanned templates under macro_rules is outside the property list, DESIGN section 9):
                # the list above holds shapes that compile on the tree the check was written against
                dist[name + ": does not compile"] = 1
                ck.report("wrapper-rejected:" + name, "an assertion written through a macro_rules! helper no longer compiles (it did when the check was written)",
                          dict(wrapper=name, definition=before or after, invocation=inv, rustc=[(d["code"], d["message"]) for d in r["diags"]][:3]), no_input=True)
                continue
            rc, out, err = proj.run("w%02d" % k)
            msg = out.split("RESULT panic\n", 1)[1].split("\nEND", 1)[0] if "RESULT panic\n" in out else None
            ok = rc == 0 and msg is not None and "assert_struct! failed" in msg and "got" in msg
            dist[name + (": report in the panic message" if ok else ": NO report")] = 1
            if not ok:
                ck.report("no-report:wrapper:" + name, "a failing assertion written through a macro_rules! helper does not end in one ordinary panic with the report as its message (exit status %s)" % rc,
                          dict(wrapper=name, definition=before or after, invocation=inv, exit_status=rc, stdout=out[:800], stderr=err[-600:]))
    finally:
        proj.cleanup()
    ck.corr_record("T3 assertions written through the user's own macro_rules! helpers (pattern tokens partly from the helper's definition, partly from its call; definitions above and below the call, on one and on several lines): one ordinary panic with the report",
                   len(WRAPPERS), len(WRAPPERS), 0, dist, samples=[dict(wrapper=WRAPPERS[8][0], definition=WRAPPERS[8][3], invocation=WRAPPERS[8][2])], exhaustive=True,
                   rule="%d fixed programs, every one distinct" % len(WRAPPERS))


def run(ck):
    ck.prove(["AsModel.Theorems.C06", "AsModel.Theorems.C06Report"])
    ck.build_harness("rt")
    renderer_contract(ck)
    display_matrix(ck)
    editions(ck)
    wrappers(ck)
    ck.assumptions += [
        "annotate-snippets is represented by its observed contract (no panic iff every in-range offset is a char boundary), validated against the real renderer on every run",
        "file-system faults are modelled as 'read_to_string fails -> None' (missing, directory, not UTF-8); permission faults are not exercised (the sandbox runs as root)",
    ]
    ck.trusted.append("the renderer contract (validated by T4 on every run, not proved)")
