"""C19 - what a report says about the pattern is true."""
import re
import t2
import t3
import tgen
import verdicts
from vlib import hexs, unhexs


def label_tie(ck):
    """T4: the real error_label vs the model, over every node kind and arity."""
    ck.build_harness("rt")
    reqs = []
    for n in range(0, 6):
        for r in (0, 1):
            reqs += ["label slice:%d:%d %s none" % (n, r, hexs("[1, 2]")), "label set:%d:%d %s %s" % (n, r, hexs("2 element(s)"), hexs("3 element(s)")),
                     "label map:%d:%d %s %s" % (n, r, hexs("map with 1 entries"), hexs("2 entries"))]
        reqs.append("label tuple:%d %s none" % (n, hexs("(1,)")))
    for op in ("lt", "le", "gt", "ge", "eq", "ne"):
        reqs += ["label cmp:%s:%s %s %s" % (op, hexs("x + 1"), hexs("3"), hexs("x + 1")), "label cmp:%s:%s %s none" % (op, hexs("5"), hexs("3"))]
    for k in ("simple", "range", "regex", "like", "closure"):
        reqs.append("label %s:%s %s none" % (k, hexs("pat \"q\""), hexs("v")))
    reqs += ["label enum:%s:1 %s none" % (hexs("Option::Some"), hexs("None")), "label enum:%s:0 %s none" % (hexs("Status::Active"), hexs("Inactive")),
             "label struct:%s:1 %s none" % (hexs("User"), hexs("X")), "label wildcard %s none" % hexs("v")]
    model = ck.lean_batch(reqs)
    impl = ck.rt_batch(reqs)
    dis = 0
    for ln, md, im in zip(reqs, model, impl):
        if md != im:
            dis += 1
            ck.report("corr:label:" + ln.split(" ")[1], "model and implementation of error_label disagree",
                      dict(request=ln, impl=unhexs(im), model=unhexs(md), broken="correspondence T4/error_label; C19_label_* theorems depend on it"), no_input=True)
    ck.corr_record("T4 error_label (real function via hook vs AsModel.Runtime.errorLabel)", len(reqs), len(reqs), dis, {},
                   samples=[dict(request=reqs[0], label=unhexs(impl[0]))], exhaustive=True,
                   rule="every node kind; slice / set / map arities 0-5 x both rest flags; all six comparison operators with and without expected text; every request distinct")


def slice_cases(rng, _n):
    """Every position of `..` and every arity 0-4, against vectors of every length 0-5 whose
    elements all differ from the pattern's literals (so a fitting length still fails inside)."""
    cases = []
    k = 0
    for n in range(0, 5):
        for rest_at in [None] + list(range(n + 1)):
            parts = ["%d" % (i + 1) for i in range(n)]
            if rest_at is not None:
                parts.insert(rest_at, "..")
            pat = "[%s]" % ", ".join(parts)
            for length in range(0, 6):
                c = t3.Case()
                c.id = k
                k += 1
                c.n, c.rest, c.length = n, rest_at is not None, length
                c.forms = {"slice": 1}
                c.meanings = "(meanings %s)" % " ".join("(v %s (int %d))" % (hexs(str(i + 1)), i + 1) for i in range(n))
                t3.finish_case(c, "", "Vec<i32>", "vec![%s]" % ", ".join("7" for _ in range(length)), "(seq %s)" % " ".join("(int 7)" for _ in range(length)), pat)
                cases.append(c)
    # the same slice patterns reaching the macro THROUGH THE CALLER'S OWN macro_rules! helper, each element forwarded as an `expr` /
    # `tt` fragment (an `expr` fragment arrives in an invisible group; today a forwarded `..` is then rejected by rustc - should a tree
    # accept it, what the label says must still agree with the pattern: seed C19-12)
    helper = ("macro_rules! items_e { ($v:expr, $($p:expr),*) => { assert_struct!($v, [$($p),*]) } }\n"
              "macro_rules! items_t { ($v:expr, $($p:tt),*) => { assert_struct!($v, [$($p),*]) } }\n")
    for frag in ("e", "t"):
        for n in range(1, 4):
            for rest_at in [None] + list(range(n + 1)):
                parts = ["%d" % (i + 1) for i in range(n)]
                if rest_at is not None:
                    parts.insert(rest_at, "..")
                for length in (0, 1, 2, 5):
                    c = t3.Case()
                    c.id = k
                    k += 1
                    c.n, c.rest, c.length = n, rest_at is not None, length
                    c.forms = {"slice": 1, "through-macro_rules-" + ("expr" if frag == "e" else "tt"): 1}
                    c.meanings = "(meanings %s)" % " ".join("(v %s (int %d))" % (hexs(str(i + 1)), i + 1) for i in range(n))
                    t3.finish_case(c, helper, "Vec<i32>", "vec![%s]" % ", ".join("7" for _ in range(length)), "(seq %s)" % " ".join("(int 7)" for _ in range(length)), "[%s]" % ", ".join(parts))
                    c.custom_invocation = "items_%s!(v, %s)" % (frag, ", ".join(parts))
                    cases.append(c)
    for (pat, n, rest, val, sexp, ty) in [
        ("#(1, 2)", 2, False, "vec![7, 7, 7]", "(seq (int 7) (int 7) (int 7))", "Vec<i32>"),
        ("#(1, 2, ..)", 2, True, "vec![7]", "(seq (int 7))", "Vec<i32>"),
        ("#(1, 2, ..)", 2, True, "vec![7, 7, 7]", "(seq (int 7) (int 7) (int 7))", "Vec<i32>"),
        ("#(1, 2)", 2, False, "vec![7, 7]", "(seq (int 7) (int 7))", "Vec<i32>"),
    ]:
        c = t3.Case()
        c.id = k
        k += 1
        c.n, c.rest, c.length = n, rest, -1
        c.forms = {"set": 1}
        c.meanings = "(meanings (v %s (int 1)) (v %s (int 2)))" % (hexs("1"), hexs("2"))
        t3.finish_case(c, "", ty, val, sexp, pat)
        cases.append(c)
    return cases


def run(ck):
    verdicts.check(ck, "C19", ["AsModel.Theorems.C19", "AsModel.Theorems.C14NoJoin"], t2_parts=("nodes",))
    label_tie(ck)
    cases = t3.run_corpus(ck, "c19", 0, per_bin=20, positions=slice_cases)
    dist = {}
    for c in cases:
        if c.got[0] != "fail":
            dist[c.got[0]] = dist.get(c.got[0], 0) + 1
            continue
        for (loc, label, actual, exp) in [e[:4] for e in c.got[1]]:
            m = re.match(r"expected slice with (\d+) elements?", label)
            kind = "exact-wording" if m else ("partial-wording" if label.startswith("slice pattern mismatch") else ("set" if label.startswith("set pattern") else "other"))
            dist[kind] = dist.get(kind, 0) + 1
            desc = dict(t3.describe(c), label=label, pattern_elements=c.n, pattern_has_rest=c.rest)
            if "slice" in c.forms:
                if m and c.rest:
                    ck.report("slice-partial-described-as-exact", "a slice pattern with `..` is described as an exact-length pattern (and `..` is counted as an element)", desc)
                elif m and int(m.group(1)) != c.n:
                    ck.report("slice-count-wrong", "the expected slice length in the label is not the number of elements written", desc)
                elif not m and kind == "partial-wording" and not c.rest and loc == c.got[1][0][0] and label.startswith("slice"):
                    ck.report("slice-exact-described-as-partial", "an exact slice pattern is described as partial", desc)
            if "set" in c.forms and label.startswith("set pattern"):
                if ("(exact)" in label) == c.rest:
                    ck.report("set-exactness-wrong", "the label's exact/partial wording does not agree with the set pattern", desc)
    ck.corr_record("T3 shape labels (every position of `..` x arity 0-4 x vector length 0-5, and set patterns): what the label says about the expected shape vs the pattern as written",
                   len(cases), len(cases), 0, dist,
                   samples=[dict(invocation="assert_struct!(%s)" % c.text, value=c.value_text, got=str(c.got[1])[:160]) for c in cases[:2]],
                   exhaustive=True, rule="exhaustive over the listed shapes; every case distinct")
