"""C14 - accepted input yields a well-formed, reproducible expansion."""
import random
import corpus
import parsetie
import t1
import t2
from vlib import hexs


def histories(ck):
    """The same invocation expanded after different histories (accepted, rejected and panicking
    earlier invocations) on the same thread must give the same output, node ids included."""
    rng = random.Random("c14/%d" % ck.seed)
    texts = [t for _, t in corpus.repo_invocations()] + t2.EDGE + t2.gen_texts(rng, 150 if ck.tier == "quick" else 3000)
    rejected = ["x, [1, 2", "x, S { a: }", "x, = 5", "x, _ { a: 1 }", "x, #(.., 1)", "x", "x, (1, 2) trailing", "x, |a, b| a", "x, S { a: 1 .. }"]
    order1 = list(texts)
    order2 = list(texts)
    rng.shuffle(order2)
    # interleave rejected inputs into the second history
    h2 = []
    for t in order2:
        if rng.random() < 0.3:
            h2.append(rng.choice(rejected))
        h2.append(t)
    out1 = ck.rt_batch(["runq " + hexs(t) for t in order1], binary="inproc", harness="inproc")
    out2 = ck.rt_batch(["runq " + hexs(t) for t in h2], binary="inproc", harness="inproc")
    by_text = {}
    for t, o in zip(h2, out2):
        by_text.setdefault(t, []).append(o)
    diff = 0
    for t, o in zip(order1, out1):
        for o2 in by_text.get(t, []):
            if o2 != o:
                diff += 1
                f1, f2 = o.split("\t"), o2.split("\t")
                ck.report("history-dependent:" + hexs(t)[:40], "the expansion of an invocation depends on which invocations were expanded before it on the same thread",
                          dict(invocation=t, first_history=dict(status=f1[0], ast=f1[1][:300] if len(f1) > 1 else ""), second_history=dict(status=f2[0], ast=f2[1][:300] if len(f2) > 1 else "")))
    ck.corr_record("T1 histories (every invocation expanded in two different histories on one thread, the second interleaved with rejected invocations; outputs compared byte for byte)",
                   len(order1) + len(h2), len(set(order1)), diff, {"first_history": len(order1), "second_history": len(h2), "rejected_interleaved": len(h2) - len(order2)},
                   samples=[dict(invocation=order1[0][:120])],
                   rule="repository corpus + edge patterns + seeded generated patterns; second history = random permutation with rejected inputs interleaved (30%); distinct = distinct texts")


def range_with_expression_bound(ast):
    """Does the accepted pattern contain a range whose bound is not something a Rust range PATTERN can hold (a literal, a negated
    literal, a path)?  Read off the harness's AST dump: `(range id (e (range ..) span text (toks hex@span ...)))`."""
    import re
    for m in re.finditer(r"\(range \d+ \(e \(range [^)]*\) \S+ \S+ \(toks ([^)]*)\)", ast):
        toks = [bytes.fromhex(t.split("@")[0][2:] if t.startswith("s:") else t.split("@")[0]).decode("utf-8", "replace") if t.split("@")[0] != "-" else "" for t in m.group(1).split(" ") if t]
        # split at the range operator (`..` or `..=`, the first two adjacent dots that are not part of a bound)
        k = next((i for i in range(len(toks) - 1) if toks[i] == "." and toks[i + 1] == "."), None)
        if k is None:
            return True
        lo, hi = toks[:k], toks[k + 2:]
        if hi[:1] == ["="]:
            hi = hi[1:]
        for b in (lo, hi):
            if not b:
                continue
            if b[0] == "-":
                b = b[1:]
            is_lit = len(b) == 1 and re.match(r"^([0-9]|'|b'|\"|r\"|r#|b\")", b[0])
            kw = {"break", "return", "continue", "loop", "if", "match", "while", "for", "unsafe", "async", "move", "as", "let", "fn", "struct", "enum", "impl", "trait", "mod", "use", "where", "yield", "await", "dyn", "ref", "mut", "in", "else", "true", "false", "const", "static", "type", "pub", "extern"}
            bb = b[2:] if b[:2] == [":", ":"] else b
            is_path = len(bb) % 3 == 1 and all((re.match(r"^(r#)?[A-Za-z_][A-Za-z0-9_]*$", x) and x not in kw) if i % 3 == 0 else x == ":" for i, x in enumerate(bb))
            if not (is_lit or is_path):
                return True
    return False


def run(ck):
    ck.prove(["AsModel.Theorems.C14", "AsModel.Theorems.C14Parse", "AsModel.Theorems.C14NoJoin"])
    ck.build_harness("inproc")
    res = t2.run(ck)
    mm = t2.record(ck, res, ("nodes", "body", "validity", "status", "locations", "wellformed", "tree"), "node definitions, node references and syntactic validity")
    for m in mm:
        if m["part"] == "wellformed":
            ck.report("node-refs:" + hexs(m["text"])[:40], "the generated code refers to a pattern-tree node that is not defined exactly once", dict(invocation=m["text"], detail=m["detail"]))
        if m["part"] == "validity" and range_with_expression_bound(m.get("ast", "")):
            ck.report("invalid-rust:range-bound-expression", "the macro accepts a range pattern whose bound is an expression (a call, an operator, a block ..) and splices it into a native range pattern: the generated code is not syntactically valid Rust",
                      dict(invocation=m["text"], detail=m["detail"]))
        elif m["part"] == "validity":
            ck.report("invalid-rust:" + hexs(m["text"])[:40], "the macro accepts the invocation but the generated code is not syntactically valid Rust", dict(invocation=m["text"], detail=m["detail"]))
    # node kinds / child order / rest flags / positions: the model parser is sound for the declarative grammar (C15_accepted_in_grammar),
    # i.e. its tree IS the written pattern; a real tree that differs on an accepted input does not mirror what was written
    for m in mm:
        if m["part"] == "tree":
            ck.report("tree-differs:" + hexs(m["text"])[:40], "the pattern tree the macro records for an accepted invocation (node kinds, child order, rest flags, source positions) is not the tree of the pattern as written",
                      dict(invocation="assert_struct!(%s)" % m["text"], part=m["part"], detail=m["detail"][:1500]))
    histories(ck)
    inputs, outs = t1.run(ck)
    parsetie.record(ck, [t for _, t in inputs], outs, "C14: node ids handed out by the parser, speculative parses included")
    parsetie.tree_violations(ck, [t for _, t in inputs], "C14")
    others = [m for m in mm if m["part"] not in ("validity", "wellformed", "tree")]
    if others and not [v for v in ck.violations if not v["no_input"]]:
        ck.report("corr:T2", "the model of the node tree / code generator no longer matches the real expansion (%d inputs differ)" % len(others),
                  dict(broken="correspondence T2", theorems=["C14_ids_nodup", "C14_refs_defined", "C14_root_node"], first=others[:3]), no_input=True)
    ck.assumptions += ["'syntactically valid Rust' is observed on the implementation by parsing every expansion with syn as a block; the model's output is valid by construction of the IR"]
