"""C17 - reports are independent of environment, history and concurrency."""
import os
import pty
import shutil
import subprocess
from vlib import hexs, unhexs, CACHE, ENV
import gen
import schedreplay


def run_lines_with_tty(exe, lines, env):
    """Runs the harness on several requests in ONE process with stderr attached to a pty."""
    master, slave = pty.openpty()
    p = subprocess.Popen([exe], stdin=subprocess.PIPE, stdout=subprocess.PIPE, stderr=slave, env=env, text=True)
    os.close(slave)
    out, _ = p.communicate("\n".join(lines) + "\n", timeout=120)
    os.close(master)
    return out.strip().split("\n")


def run_with_tty(exe, line, tty, env):
    """Runs the harness on one request with stderr attached to a pty (or a pipe)."""
    e = dict(ENV)
    e.update(env)
    if tty:
        master, slave = pty.openpty()
        p = subprocess.Popen([exe], stdin=subprocess.PIPE, stdout=subprocess.PIPE, stderr=slave, env=e, text=True)
        os.close(slave)
        out, _ = p.communicate(line + "\n", timeout=120)
        os.close(master)
    else:
        p = subprocess.Popen([exe], stdin=subprocess.PIPE, stdout=subprocess.PIPE, stderr=subprocess.PIPE, env=e, text=True)
        out, _ = p.communicate(line + "\n", timeout=120)
    return out.strip().split("\n")[-1]


def run_with_ttys(exe, line, ttys, env):
    """Runs the harness on one request with each of stdin / stdout / stderr attached to a pty of its own (if named in `ttys`) or to a
    pipe.  Returns the harness's answer line."""
    e = dict(ENV)
    e.update(env)
    masters, kw = {}, {}
    for name in ("stdin", "stdout", "stderr"):
        if name in ttys:
            m, sl = pty.openpty()
            masters[name] = (m, sl)
            kw[name] = sl
        else:
            kw[name] = subprocess.PIPE
    p = subprocess.Popen([exe], env=e, **kw)
    for m, sl in masters.values():
        os.close(sl)
    data = (line + "\n").encode()
    assert len(data) < 3500, "request too long for a canonical-mode terminal line"
    if "stdin" in ttys:
        os.write(masters["stdin"][0], data + b"\x04")     # ^D at the start of a line: end of input
    else:
        p.stdin.write(data)
        p.stdin.close()
    if "stdout" in ttys:
        buf = b""
        while True:
            try:
                chunk = os.read(masters["stdout"][0], 65536)
            except OSError:
                break
            if not chunk:
                break
            buf += chunk
        out = buf.decode("utf-8", "replace").replace("\r\n", "\n")
    else:
        out = p.stdout.read().decode("utf-8", "replace")
    p.wait(timeout=120)
    for m, _ in masters.values():
        os.close(m)
    for name in ("stdout", "stderr"):
        f = getattr(p, name)
        if f is not None:
            f.close()
    lines = [l for l in out.strip().split("\n") if l.startswith(("ok", "panic", "err", "abort")) or " out=" in l]
    return lines[-1] if lines else out.strip().split("\n")[-1]


def run(ck):
    ck.prove(["AsModel.Theorems.C17", "AsModel.Theorems.C06Report"])
    ck.build_harness("rt")
    exe = os.path.join(CACHE, "target", "rt", "release", "rt")
    scratch = os.path.join(CACHE, "scratch", "c17-%d" % os.getpid())
    shutil.rmtree(scratch, ignore_errors=True)
    os.makedirs(scratch)
    try:
        # --- concurrency: barrier-synchronised threads, same / different files, cold then warm
        threads = 16
        rounds = 12 if ck.tier == "quick" else 200
        dist = {}
        for shared in (0, 1):
            d = os.path.join(scratch, "conc%d" % shared)
            os.makedirs(d)
            res = ck.rt_batch(["conc %s %d %d %d" % (hexs(d), threads, rounds, shared)])[0]
            dist[("shared-file:" if shared else "own-files:") + res.split(" ")[0]] = threads * rounds * 2
            if res != "ok":
                ck.report("crosstalk:%s" % ("shared" if shared else "separate"),
                          "a report formatted while other threads fail at the same time differs from the same failure formatted alone",
                          dict(threads=threads, rounds=rounds, shared_file=bool(shared), detail=res[:500]))
        ck.corr_record("T5 concurrency (16 threads released by a barrier each format their own failing report, cold then warm cache; every message compared with the same failure formatted alone)",
                       2 * threads * rounds * 2, 2 * threads * rounds, 0, dist,
                       samples=[dict(threads=threads, rounds=rounds)],
                       rule="rounds x threads x {same file, different files} x {cold, warm}; real schedules are sampled, not enumerated (the Lean model covers every interleaving of the protocol)")
        # --- working directory and history independence
        src = "fn main() {\n    let é = 1;\n    assert_struct!(v, S { a: > 5, b: \"x\" });\n}\n"
        fn = "hist.rs"
        open(os.path.join(scratch, fn), "w").write(src)
        req = "display %s %s 1 %s 2 3 26 3 29 cmp:gt:%s %s none 3 34 3 37 simple:%s %s none" % (
            hexs(scratch), hexs(fn), hexs(src), hexs("5"), hexs("3"), hexs('"x"'), hexs('"y"'))
        alone = ck.rt_batch([req])[0]
        outs = {}
        for cwd in ("/", scratch, os.path.dirname(exe), "/tmp"):
            outs[cwd] = ck.rt_batch([req], cwd=cwd)[0]
        for cwd, o in outs.items():
            if o != alone:
                ck.report("cwd-dependent", "the report depends on the working directory", dict(cwd=cwd, alone=alone[:300], got=o[:300]))
        # ... also when the file is no longer where it was compiled (a moved checkout, a binary run elsewhere) while the working
        # directory happens to contain a file under the compiler's relative path
        gone = req.replace(hexs(scratch), hexs("/nonexistent/checkout"), 1)
        gone_outs = {cwd: ck.rt_batch([gone], cwd=cwd)[0] for cwd in ("/", scratch, "/tmp")}
        if len(set(gone_outs.values())) != 1:
            ck.report("cwd-dependent:moved-checkout", "the report depends on the working directory when the source is no longer at its compile-time location",
                      dict(outputs={k: v[:300] for k, v in gone_outs.items()}))
        # the process environment: nothing in it but NO_COLOR (for the colour decision) may change the report - in particular not the
        # variables cargo exports to the processes it starts, which name the RUNNING package, not the one the assertion was compiled in
        other = os.path.join(scratch, "otherpkg")
        os.makedirs(os.path.join(other, "src"), exist_ok=True)
        open(os.path.join(other, fn), "w").write("// a different file of the same name in another package\n" * 6)
        envs = {"CARGO_MANIFEST_DIR=<another package>": {"CARGO_MANIFEST_DIR": other}, "CARGO_MANIFEST_DIR=<missing directory>": {"CARGO_MANIFEST_DIR": "/nonexistent/pkg"},
                "CARGO_MANIFEST_DIR=<empty>": {"CARGO_MANIFEST_DIR": ""}, "cargo's other variables": {"CARGO": "/usr/bin/cargo", "CARGO_PKG_NAME": "otherpkg", "CARGO_CRATE_NAME": "otherpkg", "CARGO_WORKSPACE_DIR": other, "CARGO_TARGET_DIR": other, "OUT_DIR": other},
                "PWD / HOME / TMPDIR": {"PWD": other, "HOME": other, "TMPDIR": other}, "TERM=dumb": {"TERM": "dumb"}, "TERM=xterm-256color COLORTERM=truecolor": {"TERM": "xterm-256color", "COLORTERM": "truecolor"},
                "CLICOLOR_FORCE=1 FORCE_COLOR=1 CARGO_TERM_COLOR=always": {"CLICOLOR_FORCE": "1", "FORCE_COLOR": "1", "CARGO_TERM_COLOR": "always", "CLICOLOR": "1"},
                "RUST_BACKTRACE=full RUST_LOG=trace": {"RUST_BACKTRACE": "full", "RUST_LOG": "trace"}, "LANG=tr_TR.UTF-8 LC_ALL=C": {"LANG": "tr_TR.UTF-8", "LC_ALL": "C"},
                "RUST_TEST_THREADS NEXTEST": {"RUST_TEST_THREADS": "1", "NEXTEST": "1", "NEXTEST_RUN_ID": "x"}}
        envs.update({"COLUMNS=60 LINES=20": {"COLUMNS": "60", "LINES": "20"}, "COLUMNS=250": {"COLUMNS": "250"}, "COLUMNS=20": {"COLUMNS": "20"}, "COLUMNS=<not a number>": {"COLUMNS": "wide"},
                     "TERM_PROGRAM / CI / GITHUB_ACTIONS": {"TERM_PROGRAM": "vscode", "CI": "true", "GITHUB_ACTIONS": "true"}, "NO_COLOR unset, CLICOLOR=0": {"CLICOLOR": "0"},
                     "RUST_MIN_STACK / RUST_LIB_BACKTRACE": {"RUST_MIN_STACK": "8388608", "RUST_LIB_BACKTRACE": "1"}, "ASSERT_STRUCT_* (names a future knob might take)": {"ASSERT_STRUCT_COLOR": "always", "ASSERT_STRUCT_WIDTH": "40", "ASSERT_STRUCT_CONTEXT": "0"}})
        # a second failure whose source lines are long (wider than any terminal): width-dependent trimming would show here
        wide_src = "fn main() {\n    assert_struct!(v, S { %s, a: > 5 });\n}\n" % ", ".join("field_number_%d: %d" % (i, i) for i in range(30))
        wide_fn = "wide.rs"
        open(os.path.join(scratch, wide_fn), "w").write(wide_src)
        col = wide_src.split("\n")[1].index("> 5")
        wide_req = "display %s %s 1 %s 1 2 %d 2 %d cmp:gt:%s %s none" % (hexs(scratch), hexs(wide_fn), hexs(wide_src), col, col + 3, hexs("5"), hexs("3"))
        wide_alone = ck.rt_batch([wide_req])[0]
        edist = {}
        for ename, extra_env in envs.items():
            e2 = dict(ENV)
            e2.update(extra_env)
            o = ck.rt_batch([req], env=e2)[0]
            ow = ck.rt_batch([wide_req], env=e2)[0]
            if o == alone and ow != wide_alone:
                o, alone_cmp = ow, wide_alone
            else:
                alone_cmp = alone
            edist[ename + (": same report" if o == alone_cmp else ": DIFFERENT report")] = 1
            if o != alone_cmp:
                ck.report("environment-dependent:" + ename.split("=")[0].split(" ")[0], "the report depends on the environment of the process (%s)" % ename,
                          dict(environment=extra_env, alone=alone_cmp[:600], got=o[:600]))
        ck.corr_record("T5 process environment (the same failure formatted with cargo's run-time variables naming another package, other terminal / colour-forcing / locale variables): identical report",
                       len(envs), len(envs), 0, edist, samples=[dict(environment=list(envs)[0])], exhaustive=True, rule="%d environments x {a short source, a source with a 600-column line}, stderr not a terminal" % len(envs))
        # history: the same failure after many other failures (other files, same file with other entries, unreadable files)
        hist = []
        for k in range(40):
            s2 = gen.rand_text(ck.rng)
            f2 = "h%d.rs" % k
            if k % 5 != 4:
                open(os.path.join(scratch, f2), "w").write(s2)
            hist.append("display %s %s 1 %s 1 %d %d %d %d simple:%s %s none" % (hexs(scratch), hexs(f2), "none" if k % 5 == 4 else hexs(s2), ck.rng.randint(0, 5), ck.rng.randint(0, 9), ck.rng.randint(0, 5), ck.rng.randint(0, 9), hexs("p"), hexs("v")))
        hist.append("display %s %s 1 %s 1 2 8 2 9 simple:%s %s none" % (hexs(scratch), hexs(fn), hexs(src), hexs("q"), hexs("w")))
        after = ck.rt_batch(hist + [req])[-1]
        if after != alone:
            ck.report("history-dependent", "the report depends on which assertions failed earlier in the process", dict(alone=alone[:300], after_history=after[:300]))
        ck.corr_record("T5 environment and history (the same failure formatted from 4 working directories and after 41 earlier failures, compared with the failure formatted alone in a fresh process)",
                       6, 6, 0, {"cwds": 4, "history_length": 41}, samples=[dict(request=req[:160])], rule="one report, five environments; all distinct")
        # cold vs warm cache per kind of file content: the same failure formatted three times in ONE process (the first time the source
        # comes from the file system, afterwards from the cache; another failure of the same file in between) and once alone in a
        # fresh process - all four reports must be identical, whatever the line endings / encoding quirks of the file (seed C17-11
        # normalised line endings on the way INTO the cache only)
        classes = {"lf": src, "crlf": src.replace("\n", "\r\n"),
                   "mixed-endings": "fn main() {\r\n    let é = 1;\n    assert_struct!(v, S { a: > 5, b: \"x\" });\r\n}\n",
                   "bare-cr-inside-a-line": src.replace("let é", "let\ré"), "no-final-newline": src.rstrip("\n"), "bom": "\ufeff" + src,
                   "tabs": src.replace("    ", "\t"), "crlf-blank-lines": "\r\n\r\n" + src.replace("\n", "\r\n"), "form-feed-and-nel": src.replace("fn main", "\x0c\u0085fn main")}
        cwdist = {}
        for cname, text in classes.items():
            f3 = "cw_%s.rs" % cname.replace("-", "_")
            with open(os.path.join(scratch, f3), "w", newline="", encoding="utf-8") as fh:
                fh.write(text)
            extra_lines = text.count("\n") - src.count("\n")
            l = 3 + extra_lines
            r1 = "display %s %s 1 %s 2 %d 26 %d 29 cmp:gt:%s %s none %d 34 %d 37 simple:%s %s none" % (
                hexs(scratch), hexs(f3), hexs(text), l, l, hexs("5"), hexs("3"), l, l, hexs('"x"'), hexs('"y"'))
            r2 = "display %s %s 1 %s 1 %d 4 %d 9 simple:%s %s none" % (hexs(scratch), hexs(f3), hexs(text), l - 1, l - 1, hexs("q"), hexs("w"))
            fresh = ck.rt_batch([r1])[0]
            seq = ck.rt_batch([r1, r2, r1])
            same = fresh == seq[0] == seq[2]
            cwdist["%s: %s" % (cname, "same report cold and warm" if same else "DIFFERENT")] = 1
            if not same:
                ck.report("history-dependent:cold-vs-warm:" + cname, "the report of a failure differs between the first time its file is read (cold source cache) and later failures of the same file in the same process (file content: %s)" % cname,
                          dict(file_content_class=cname, file_text=text, request=r1[:300], alone_in_fresh_process=fresh[:500], first_in_process=seq[0][:500], third_in_process=seq[2][:500]))
        ck.corr_record("T5 cold vs warm source cache per kind of file content (LF, CRLF, mixed endings, a bare CR, no final newline, BOM, tabs, leading blank CRLF lines, form feed / NEL): the same failure formatted alone, first, and third in one process",
                       4 * len(classes), len(classes), 0, cwdist, samples=[dict(classes=list(classes))], exhaustive=True, rule="%d content classes x {fresh process, 1st and 3rd report of one process}" % len(classes))
        # --- colour: styled iff stderr is a terminal, NO_COLOR is unset and no guard is alive
        cdist = {}
        for tty in (False, True):
            # NO_COLOR: unset, "1", and set to the empty string / to "0" (set is set: the variable's value plays no part)
            for nocolor in (False, True, "", "0"):
                for guard in ((0, 1, 2, 3, 4, 5, 6, 7) if nocolor in (False, True) else (0,)):
                    r = req.replace(" 1 %s 2 " % hexs(src), " %d %s 2 " % (guard, hexs(src)), 1)
                    env = {} if nocolor is False else {"NO_COLOR": "1" if nocolor is True else nocolor}
                    envp = {k: v for k, v in ENV.items() if k != "NO_COLOR"}
                    envp.update(env)
                    o = run_with_tty(exe, r, tty, envp)
                    f = dict(x.split("=", 1) for x in o.split(" ")[1:]) if " " in o else {}
                    text = unhexs(f.get("out", "-")) if f.get("out") else ""
                    styled = "\x1b[" in text
                    guard_alive = guard in (1, 2, 4, 6, 7)   # = 0 < liveGuards of the scenario's history of creations and drops (C17_guard)
                    want = tty and nocolor is False and not guard_alive
                    cdist["tty=%d NO_COLOR=%s guard=%d styled=%d" % (tty, {False: "unset", True: "1"}.get(nocolor, repr(nocolor)), guard, styled)] = 1
                    if styled != want:
                        key = "colour:nested-guard" if guard == 2 else "colour:tty=%d:nocolor=%s:guard=%d" % (tty, nocolor, guard)
                        ck.report(key, "colour escapes %s although stderr %s a terminal, NO_COLOR is %s and %s" % (
                            "appear" if styled else "are missing", "is" if tty else "is not", "unset" if nocolor is False else "set (to %r)" % ("1" if nocolor is True else nocolor),
                            {0: "no guard exists", 1: "a plain-output guard is alive", 2: "an outer plain-output guard is alive (an inner one was dropped)", 3: "a guard was created and dropped before",
                             4: "of two overlapping guards the first was dropped (not in LIFO order) and the second is alive", 5: "two overlapping guards were dropped, the first one first",
                             6: "of three guards the middle one was dropped, two are alive", 7: "of two guards the first was dropped, a third was created and dropped, the second is alive"}[guard]),
                                  dict(tty=tty, NO_COLOR=nocolor, guard_scenario=guard, styled=styled, expected_styled=want, output=text[:300],
                                       note=None if styled else "the statement only forbids colour where it must not appear; missing colour breaks the model's 'iff' (C17_colour), not the property"),
                                  no_input=not styled)
        # which stream is the terminal: only stderr counts (the report goes there); stdin or stdout on a terminal decide nothing
        envp = {k: v for k, v in ENV.items() if k != "NO_COLOR"}
        for ttys in [(), ("stdin",), ("stdout",), ("stderr",), ("stdin", "stdout"), ("stdin", "stderr"), ("stdout", "stderr"), ("stdin", "stdout", "stderr")]:
            for guard in (0, 1):
                r = req.replace(" 1 %s 2 " % hexs(src), " %d %s 2 " % (guard, hexs(src)), 1)
                o = run_with_ttys(exe, r, ttys, envp)
                f = dict(x.split("=", 1) for x in o.split(" ")[1:]) if " " in o else {}
                text = unhexs(f.get("out", "-")) if f.get("out") else ""
                if not text:
                    raise RuntimeError("C17 terminal matrix: no answer from the harness with terminals on %r: %r" % (ttys, o[:200]))
                styled = "\x1b[" in text
                want = "stderr" in ttys and guard == 0
                cdist["terminals=%s guard=%d styled=%d" % ("+".join(ttys) or "none", guard, styled)] = 1
                if styled != want:
                    ck.report("colour:terminals=%s:guard=%d" % ("+".join(ttys) or "none", guard),
                              "colour escapes %s with terminals on {%s} (stderr %s a terminal), NO_COLOR unset, %s" % (
                                  "appear" if styled else "are missing", ", ".join(ttys), "is" if "stderr" in ttys else "is not", "a plain-output guard alive" if guard else "no guard"),
                              dict(terminals=list(ttys), guard_scenario=guard, styled=styled, expected_styled=want, output=text[:300],
                                   note=None if styled else "the statement only forbids colour where it must not appear; missing colour breaks the model's 'iff' (C17_colour), not the property"),
                              no_input=not styled)
        # colour must follow the environment at the time of each failure, whatever failed before
        envp = {k: v for k, v in ENV.items() if k != "NO_COLOR"}
        r0 = req.replace(" 1 %s 2 " % hexs(src), " 0 %s 2 " % hexs(src), 1)
        r1 = req.replace(" 1 %s 2 " % hexs(src), " 1 %s 2 " % hexs(src), 1)
        seqs = {
            "styled-then-NO_COLOR": ([r0, "setenv %s %s" % (hexs("NO_COLOR"), hexs("1")), r0, "unsetenv %s" % hexs("NO_COLOR"), r0], [True, None, False, None, True]),
            "guard-then-none-then-NO_COLOR": ([r1, r0, "setenv %s %s" % (hexs("NO_COLOR"), hexs("1")), r1, r0], [False, True, None, False, False]),
        }
        for name, (lines, wants) in seqs.items():
            outs2 = run_lines_with_tty(exe, lines, envp)
            for step, (o, want) in enumerate(zip(outs2, wants)):
                if want is None:
                    continue
                f = dict(x.split("=", 1) for x in o.split(" ")[1:]) if " " in o else {}
                text = unhexs(f.get("out", "-")) if f.get("out") else ""
                styled = "\x1b[" in text
                cdist["history %s step %d styled=%d" % (name, step, styled)] = 1
                if styled != want:
                    ck.report("colour:history:%s" % name, "the colour decision of a report depends on earlier reports in the process (step %d of the sequence: %s)" % (step, "styled" if styled else "plain"),
                              dict(sequence=name, step=step, styled=styled, expected_styled=want, requests=[l[:60] for l in lines]), no_input=not styled)
        ck.corr_record("T5 colour matrix (child processes with stderr on a pty / a pipe x NO_COLOR x {no guard, guard alive, outer guard alive + inner dropped, guard dropped, overlapping guards dropped out of LIFO order: first of two dropped / both dropped first-first / middle of three dropped / first dropped + a third created and dropped}): styled iff terminal, NO_COLOR unset and no live guard",
                       len(cdist), len(cdist), 0, cdist, samples=[dict(tty=True, NO_COLOR=False, guard=2)], exhaustive=True, rule="the full 2 x 2 x 8 matrix plus NO_COLOR set to the empty string and to 0, plus every subset of {stdin, stdout, stderr} on a terminal x {no guard, guard alive}; all distinct")
    finally:
        shutil.rmtree(scratch, ignore_errors=True)
    schedreplay.run(ck)
    ck.assumptions += ["RwLock, thread-locals and the file system are atomic steps of the Lean transition system; lock poisoning is modelled as ignored (as the code does); the model lets a reader in while a writer waits, std's RwLock may make it wait (fewer behaviours, same safety; the replay does not release readers while a writer waits)"]
    ck.trusted.append("the transition-system model of cached_source / PlainOutputGuard (hand-written from error.rs; tied by schedule replay on every interleaving of the two-thread configurations, and by stress runs)")
