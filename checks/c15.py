"""C15 - malformed patterns are rejected, not reinterpreted."""
import parsetie
import t1
import t2
from vlib import hexs, unhexs

CONTEXTS = [("root", "{P}"), ("field", "S {{ f: {P}, .. }}"), ("variant-elem", "Some({P})"), ("slice-elem", "[{P}, 1]"),
            ("set-elem", "#({P}, ..)"), ("map-value", '#{{ "k": {P}, .. }}'), ("tuple-elem", "(1, {P})"), ("nested", "S {{ a: Some([{P}]), .. }}")]

MALFORMED = [
    # `..` anywhere but last
    ("rest-not-last-struct", "S { .., a: 1 }"), ("rest-not-last-struct", "S { a: 1, .., b: 2 }"), ("rest-not-last-struct", "S { a: 1, .. b: 2 }"),
    ("rest-not-last-struct", "S { .., .. }"), ("rest-not-last-struct", "_ { .., a: 1 }"), ("rest-not-last-struct", "E::V { a: 1, .., b: 2 }"),
    ("rest-not-last-set", "#(.., 1, 2)"), ("rest-not-last-set", "#(1, .., 2)"), ("rest-not-last-set", "#(.., ..)"), ("rest-not-last-set", "#(.. 1)"),
    ("rest-not-last-set", "#(1, .., .., )"), ("rest-not-last-map", '#{ .., "a": 1 }'), ("rest-not-last-map", '#{ "a": 1, .., "b": 2 }'), ("rest-not-last-map", "#{ .., .. }"),
    # index differs from position
    ("index-position", "(1: 5)"), ("index-position", "(0: 1, 2: 3)"), ("index-position", "(*1: 5, 2)"), ("index-position", "Some(1: 5)"), ("index-position", "(5, 0: 1)"),
    ("index-position", "(a: 1)"), ("index-position", "(*a: 1)"),
    # closure arity
    ("closure-arity", "|a, b| a > b"), ("closure-arity", "|| true"), ("closure-arity", "move |a, b, c| true"),
    # `=` followed by neither `=` nor `~`
    ("eq-then-other", "= 5"), ("eq-then-other", "=! 5"), ("eq-then-other", "= = 5"), ("eq-then-other", "= > 5"), ("eq-then-other", "="),
    # operator without operand
    ("operator-without-operand", ">"), ("operator-without-operand", "<="), ("operator-without-operand", "=="), ("operator-without-operand", "=~"), ("operator-without-operand", "!="),
    ("operator-without-operand", "!"), ("operator-without-operand", "#"), ("operator-without-operand", "*"),
    # tokens trailing a complete pattern
    ("trailing-tokens", "5 6"), ("trailing-tokens", "S { a: 1 } x"), ("trailing-tokens", "Some(1) 2"), ("trailing-tokens", "[1] [2]"), ("trailing-tokens", '"s" "t"'),
    ("trailing-tokens", "_ x"), ("trailing-tokens", "#(1) ,,"), ("trailing-tokens", "(1, 2) .."), ("trailing-tokens", "1..=2 3"), ("trailing-tokens", "> 1 2"),
    # wildcard struct without rest; missing colon / pattern
    ("wildcard-needs-rest", "_ { a: 1 }"), ("wildcard-needs-rest", "_ { }"),
    ("missing-pattern", "S { a: }"), ("missing-pattern", "S { a }"), ("missing-pattern", "S { : 1 }"), ("missing-pattern", '#{ "k" }'), ("missing-pattern", '#{ "k": }'),
    ("bad-field-op", "S { a.: 1 }"), ("bad-field-op", "S { a..b: 1 }"), ("bad-field-op", "S { a[]: 1 }"), ("bad-field-op", "S { .a: 1 }"), ("bad-field-op", "S { a.m(1 2): 1 }"),
    ("bad-field-op", "S { a.0.x.: 1 }"), ("bad-field-op", "S { *: 1 }"),
]
WELLFORMED_CONTROLS = ["S { a: 1, .. }", "> 1 > 2", "#(1, 2, ..)", "#(..)", "#(.., )", '#{ "a": 1, .. }', "#{ .. }", "(0: 1, 1: 2)", "(*0: 1, 2)", "|a| a > 1",
                       "== 5", "=~ x", "> 1", "_ { a: 1, .. }", "[1, .., 2]", "S { a.m(1, 2): 1, .. }", "S { a.0.1: 1, .. }"]


MULTI_REST = ["[.., ..]", "[.., .., ..]", "[1, .., 2, ..]", "[.., 1, ..]", "[.., .., 1]", "[1, .., ..]", "[..,..,]"]
SINGLE_REST_CONTROLS = ["[..]", "[.., ]", "[1, ..]", "[.., 2]", "[1, .., 2]"]


def compiler_raised(ck):
    """Malformations only the compiler can reject (the macro's parser accepts them): more than one `..` in a slice pattern,
    in every position; rustc must reject the program (and accept the single-`..` controls)."""
    import t3
    import tgen

    def make(rng, _n):
        cases = []
        k = 0
        for group, pats in (("multi-rest", MULTI_REST), ("control", SINGLE_REST_CONTROLS)):
            for pat in pats:
                for (ctx, ty, val, sx) in (("%s", "Vec<i32>", "vec![1, 2]", "(seq (int 1) (int 2))"),
                                          ("W { xs: %s }", "W", "W { xs: vec![1, 2] }", "(adt %s (names %s) (vals (seq (int 1) (int 2))))" % (tgen.hexs("W"), tgen.hexs("xs"))),
                                          ("Some(%s)", "Option<Vec<i32>>", "Some(vec![1, 2])", "(adt %s (names) (vals (seq (int 1) (int 2))))" % tgen.hexs("Some")),
                                          ("[%s, ..]", "Vec<Vec<i32>>", "vec![vec![1, 2]]", "(seq (seq (int 1) (int 2)))")):
                    c = t3.Case()
                    c.id = k
                    k += 1
                    c.group = group
                    c.forms = {group: 1}
                    c.meanings = "(meanings (v %s (int 1)) (v %s (int 2)))" % (tgen.hexs("1"), tgen.hexs("2"))
                    t3.finish_case(c, "#[derive(Debug)] pub struct W { pub xs: Vec<i32> }", ty, val, sx, ctx % pat)
                    cases.append(c)
        return cases

    cases = t3.run_corpus(ck, "c15-compiler", 0, per_bin=4, positions=make)
    dist = {}
    for c in cases:
        accepted = c.got[0] in ("pass", "fail")
        dist["%s:%s" % (c.group, "accepted" if accepted else "rejected")] = dist.get("%s:%s" % (c.group, "accepted" if accepted else "rejected"), 0) + 1
        if c.group == "multi-rest" and accepted:
            ck.report("accepted:slice-multi-rest", "a slice pattern with more than one `..` is accepted (and reinterpreted)", dict(t3.describe(c)))
        elif c.group == "control" and not accepted:
            ck.report("control-rejected:slice-rest", "a well-formed slice pattern with one `..` is rejected", dict(t3.describe(c), rustc=c.got[2][:300]))
    ck.corr_record("T3 compiler-raised malformations (more than one `..` in a slice pattern x 4 positions, single-`..` controls): rustc must reject / accept",
                   len(cases), len(cases), 0, dist, samples=[dict(invocation="assert_struct!(%s)" % cases[0].text)], exhaustive=True,
                   rule="%d multi-rest shapes and %d controls x 4 positions" % (len(MULTI_REST), len(SINGLE_REST_CONTROLS)))


ENTRY_DECL = """
#[derive(Debug)] pub struct SE { pub a: i32, pub b: i32, pub s: String, pub xs: Vec<i32>, pub m: BTreeMap<String, i32>, pub o: Option<i32>, pub t: (i32, i32), pub inner: In2 }
#[derive(Debug)] pub struct In2 { pub value: i32, pub list: Vec<i32> }
pub fn mk() -> SE { SE { a: 1, b: 2, s: "hello".to_string(), xs: vec![5, 6, 7], m: BTreeMap::from([("a".to_string(), 1), ("b".to_string(), 2)]), o: Some(3), t: (1, 2), inner: In2 { value: 1, list: vec![1] } } }
"""
# well-typed programs whose ONLY defect is a token the grammar has no place for; were that token dropped they would compile (and pass or fail at run time)
ENTRY_MALFORMED = ['SE { a: 1, .., b: 99 }', 'SE { xs: #(5, .., 99), .. }', 'SE { m: #{ "a": 1, .., "b": 99 }, .. }', 'SE { s.starts_with("he" "llo-not"): true, .. }', 'SE { xs[0 1]: 5, .. }',
                   'SE { a: 1 .. }', 'SE { o: Some(3 4), .. }', 'SE { xs: [5 6, ..], .. }', 'SE { a: 1, b: 2 c: 3, .. }', 'SE { t: (1, 2 3), .. }', 'SE { xs: #(5, 6, 7 8), .. }', 'SE { m: #{ "a": 1 2, .. }, .. }',
                   'SE { xs.len() 0: 3, .. }', 'SE { a: > 0 1, .. }', 'SE { a: 1, .. } trailing', 'SE { a: 1, .. }, extra', '_ { a: 1, .., b: 99 }', 'SE { o: Some(3, ), b: 2 2, .. }', 'SE { a: == 1 2, .. }', 'SE { s: =~ "h" "x", .. }',
                   # stray tokens after a step of a field path (type arguments without a call, operators, casts)
                   'SE { inner.value::<u64>: 1, .. }', 'SE { inner.list::<i32>.len(): 1, .. }', 'SE { inner.value?: 1, .. }', 'SE { inner.value as i64: 1, .. }', 'SE { inner.value!: 1, .. }', 'SE { inner.value.: 1, .. }',
                   'SE { inner..value: 1, .. }', 'SE { inner.value + 0: 1, .. }', 'SE { inner.list[0] 0: 1, .. }', 'SE { t.0::<i32>: 1, .. }', '_ { inner.value::<u64>: 1, .. }']
ENTRY_CONTROLS = ['SE { inner.value: 1, inner.list.len(): 1, t.0: 1, .. }', 'SE { a: 1, b: 2, .. }', 'SE { xs: #(5, ..), m: #{ "a": 1, .. }, .. }', 'SE { s.starts_with("he"): true, xs[0]: 5, .. }', '_ { a: 1, .. }']


def malformed_compiled(ck):
    """Malformed inputs through the macro AS INVOKED (rustc, the real proc-macro entry point in lib.rs, which the in-process harness does not
    run): well-typed programs whose only defect is a token the grammar has no place for must not compile; the controls must."""
    import e2e
    import t3
    proj = e2e.Project("c15entry")
    progs = [(p_, False) for p_ in ENTRY_MALFORMED] + [(p_, True) for p_ in ENTRY_CONTROLS]
    try:
        for k, (pat, want) in enumerate(progs):
            proj.add_bin("m%03d" % k, t3.HEADER + ENTRY_DECL + "fn main() {\n let v = mk();\n assert_struct!(v, %s);\n}\n" % pat)
        res = proj.build(check_only=True)
    finally:
        proj.cleanup()
    dist = {}
    for k, (pat, want) in enumerate(progs):
        r = res["m%03d" % k]
        dist["%s: %s" % ("control" if want else "malformed", "compiles" if r["ok"] else "rejected")] = dist.get("%s: %s" % ("control" if want else "malformed", "compiles" if r["ok"] else "rejected"), 0) + 1
        if not want and r["ok"]:
            ck.report("accepted-by-the-macro-as-invoked:" + hexs(pat)[:40], "an input outside the grammar compiles when the macro is invoked for real: tokens the parser left unread were dropped instead of being reported",
                      dict(invocation="assert_struct!(v, %s)" % pat))
        elif want and not r["ok"]:
            ck.report("entry-control-rejected:" + hexs(pat)[:40], "a well-formed control program of the entry-point family does not compile", dict(invocation="assert_struct!(v, %s)" % pat, rustc=[(d["code"], d["message"]) for d in r["diags"]][:3]), no_input=True)
    ck.corr_record("T3 malformed inputs through the real entry point (well-typed programs whose only defect is a token the grammar has no place for: must not compile)",
                   len(progs), len(progs), 0, dist, samples=[dict(invocation="assert_struct!(v, %s)" % progs[0][0])], exhaustive=True, rule="%d malformed programs + %d controls" % (len(ENTRY_MALFORMED), len(ENTRY_CONTROLS)))


def run(ck):
    ck.prove(["AsModel.Theorems.C15", "AsModel.Theorems.C15Parse"])
    ck.build_harness("inproc")
    cases = []
    for (cls, bad) in MALFORMED:
        for (cname, ctx) in CONTEXTS:
            if cls == "trailing-tokens" and cname in ("root",) or cls != "trailing-tokens" or True:
                cases.append((cls, cname, "x, " + ctx.format(P=bad), False))
    for good in WELLFORMED_CONTROLS:
        for (cname, ctx) in CONTEXTS:
            cases.append(("control", cname, "x, " + ctx.format(P=good), True))
    outs = ck.rt_batch(["run " + hexs(t) for _, _, t, _ in cases], binary="inproc", harness="inproc")
    dist = {}
    for (cls, cname, text, want_ok), o in zip(cases, outs):
        st = o.split("\t")[0]
        dist["%s:%s" % (cls, st)] = dist.get("%s:%s" % (cls, st), 0) + 1
        if st in ("lexerr", "unavailable"):
            continue
        accepted = st == "ok"
        if accepted and not want_ok:
            ck.report("accepted:%s:%s" % (cls, cname), "an input outside the grammar is accepted and reinterpreted (%s, in %s position)" % (cls, cname),
                      dict(invocation="assert_struct!(%s)" % text, ast=o.split("\t")[1][:600]))
        elif not accepted and want_ok:
            ck.report("control-rejected:%s" % cname, "a well-formed pattern is rejected", dict(invocation="assert_struct!(%s)" % text, status=o[:300]))
    ck.corr_record("T1 malformed classes (each listed corruption class, several instances, in 8 positions; well-formed controls in the same positions): the real parser must reject / accept",
                   len(cases), len(cases), 0, dist, samples=[dict(cls=c[0], position=c[1], invocation=c[2]) for c in cases[:3]], exhaustive=True,
                   rule="%d malformed instances x 8 contexts + %d controls x 8 contexts; every input distinct" % (len(MALFORMED), len(WELLFORMED_CONTROLS)))
    # no token of an accepted pattern is silently dropped: identifiers and string literals of the input reappear in the AST
    inputs, outs2 = t1.run(ck)
    parsetie.record(ck, [t for _, t, _ in [(c[0], c[2], 0) for c in cases]], outs, "C15: the listed malformed classes and controls")
    parsetie.record(ck, [t for _, t in inputs], outs2, "C15: single-edit corruptions")
    toks = t1.tokenize(ck, [t for _, t in inputs])
    dropped = 0
    checked = 0
    import re
    for (kind, text), o, tk in zip(inputs, outs2, toks):
        f = o.split("\t")
        if f[0] != "ok" or tk is None:
            continue
        checked += 1
        ast = f[1] + " " + f[2]
        ast_words = set()
        for h in re.findall(r"(?:^|[ (])(?:s:)?([0-9a-f]{2,})(?:@|[ )])", ast):
            try:
                ast_words.add(unhexs(h))
            except Exception:
                pass
        ast_text = " ".join(ast_words)
        missing = []
        for (t, _) in tk:
            if re.match(r"^[A-Za-z_][A-Za-z0-9_]*$", t) and t not in ("await", "_") or t.startswith('"'):
                word = t if not t.startswith('"') else None
                if word is not None and word not in ast_words and ("r#" + word) not in ast_words:
                    missing.append(t)
        if missing:
            dropped += 1
            ck.report("token-dropped:" + hexs(text)[:30], "the macro accepts the input but a token of it does not appear in the parsed pattern", dict(invocation=text, missing=missing[:5], ast=f[1][:400]))
        # `path()`: the empty parentheses are dropped (known finding)
        if re.search(r"[A-Za-z_][A-Za-z0-9_]*\s*\(\s*\)", text.split(",", 1)[1] if "," in text else "") and "(enum" in f[1] and "(elems)" in f[1]:
            ck.report("empty-parens-dropped", "`path()` is accepted and the empty parentheses are dropped: the pattern is treated as the bare path", dict(invocation=text, ast=f[1][:300]))
    ck.corr_record("T1 token retention (every accepted valid / mutated / random input: each identifier of the input must reappear in the parsed pattern)",
                   checked, checked, dropped, {"accepted_inputs": checked}, samples=[dict(invocation=inputs[0][1][:120])],
                   rule="the T1 input set (valid inputs, truncations, single-token edits, random sequences); accepted inputs only")
    malformed_compiled(ck)
    ck.assumptions += ["the malformed classes are instantiated by construction (the instances are listed in checks/c15.py); the parser itself is tied differentially, its Lean model is a growth item"]
    compiler_raised(ck)
