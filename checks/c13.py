"""C13 - the macro front-end is total."""
import parsetie
import t1
import t2
from vlib import hexs, unhexs


def run(ck):
    ck.prove(["AsModel.Theorems.C13", "AsModel.Theorems.C13Parse", "AsModel.Theorems.C13Term"])
    ck.build_harness("inproc")
    inputs, outs = t1.run(ck)
    dist = {}
    nontriv = 0
    for (kind, text), o in zip(inputs, outs):
        f = o.split("\t")
        st = f[0]
        dist["%s:%s" % (kind, st)] = dist.get("%s:%s" % (kind, st), 0) + 1
        if kind != "valid":
            nontriv += 1
        if st == "panic":
            stage = f[1] if len(f) > 1 else "?"
            msg = unhexs(f[2]) if len(f) > 2 else ""
            ck.report("panic:%s:%s" % (stage, re_key(msg)), "the macro panics ('proc macro panicked') instead of producing an expansion or a compile error",
                      dict(invocation="assert_struct!(%s)" % text, stage=stage, panic_message=msg, input_kind=kind))
        elif st == "err":
            # the error must be attached to a token of the invocation (or to the call as a whole)
            sp = [int(x) for x in f[2].split(".")]
            lines = (" " + text).split("\n")
            ok = (sp == [1, 0, 1, 0]) or (1 <= sp[0] <= len(lines) and sp[2] <= len(lines) + 1)
            if not ok:
                ck.report("error-span-outside:" + hexs(text)[:30], "a compile error of the macro is not attached to a token of the invocation", dict(invocation=text, span=f[2], message=unhexs(f[1])))
        elif st == "ok":
            if len(f) > 5 and f[5] != "valid-block":
                pass  # C14's subject
    ck.corr_record("T1 totality (real parser + code generator in process under catch_unwind: valid inputs, every truncation and single-token deletion / duplication / swap / foreign insertion of them, random token sequences)",
                   len(inputs), nontriv, 0, dist,
                   samples=[dict(kind=k, invocation=t[:120], status=o.split("\t")[0]) for (k, t), o in list(zip(inputs, outs))[:1] + list(zip(inputs, outs))[-2:]],
                   rule="repository corpus + edge patterns + seeded generated patterns, all truncations and single-token edits (sampled per input in the quick tier), random token soup; distinct = distinct texts; non-trivial = not an unmodified valid input")
    parsetie.record(ck, [t for _, t in inputs], outs, "C13: which inputs are accepted, and with which AST")
    res = t2.run(ck)
    mm = t2.record(ck, res, ("status",), "which accepted inputs reach a panic site during expansion")
    if mm and not [v for v in ck.violations if not v["no_input"]]:
        ck.report("corr:T2-status", "the model's panic-site prediction no longer matches the implementation", dict(first=mm[:3], broken="correspondence T2/status; C13_expand_no_panic depends on it"), no_input=True)
    compiler_histories(ck)
    ck.assumptions += ["syn's own parsers (Expr, Path, ExprClosure, literals) are trusted not to panic; stack exhaustion on deeply nested input is not explored; the parser is modelled (Parse.lean, with syn's answers as oracle tables quantified universally in the theorems) and tied on every T1 input; None-delimited groups (macro_rules fragments) are not in the parser model; the model parser recurses on fuel; C13_no_out_of_fuel proves that 2 x tokens + 8 suffices for every token stream and oracle (the driver uses 2 x tokens + 16)"]


REJECTED = ['v, S { s: =~ r"a(b" }', 'v, S { s: =~ r"[z-a]" }', 'v, S { s: =~ r"*x" }', 'v, S { a: 1, b: }', 'v, S { a: }', 'v, (1: 1, 2)', 'v, S { a: == }', 'v, #( .., 1)', 'v, [1, 2',
            'v, S { a: 1 .. }', 'v', 'v, S { 4294967295: 1, .. }', 'v, S { a: |x, y| true }', 'v, #{ "k" 1 }', 'v, _ { a: 1 }']
ACCEPTED = ['v, S { s: =~ r"a(b)", .. }', 'v, S { a: 1, .. }', 'v, S { a: > 0, s: "x", .. }']


def compiler_histories(ck):
    """The macro as invoked by rustc, on invocations it must reject, ALONE and REPEATED within one compilation (the same rejected
    invocation two and three times, two different ones, a rejected one before and after an accepted one): whatever an earlier
    invocation left behind in the macro's process (thread-locals, caches of errors, counters), every invocation ends in ordinary
    compile errors - never in `proc macro panicked`, an internal compiler error or a crash of the compiler."""
    import e2e
    import t3
    decl = "#[derive(Debug)] pub struct S { pub a: i32, pub b: i32, pub s: String }\npub fn mk() -> S { S { a: 1, b: 2, s: \"x\".to_string() } }\n"
    progs = []
    for r in REJECTED:
        progs.append(("alone", [r]))
        progs.append(("same-twice", [r, r]))
        progs.append(("same-thrice", [r, r, r]))
        progs.append(("after-accepted", [ACCEPTED[0], r, ACCEPTED[1]]))
    for i in range(len(REJECTED) - 1):
        progs.append(("two-different", [REJECTED[i], REJECTED[i + 1], REJECTED[i]]))
    proj = e2e.Project("c13hist")
    try:
        for k, (kind, invs) in enumerate(progs):
            body = "".join(" { let v = mk(); assert_struct!(%s); }\n" % inv for inv in invs)
            proj.add_bin("h%03d" % k, t3.HEADER + decl + "fn main() {\n" + body + "}\n")
        res = proj.build(check_only=True)
    finally:
        proj.cleanup()
    dist = {}
    for k, (kind, invs) in enumerate(progs):
        r = res["h%03d" % k]
        msgs = [(d.get("message") or "") + " " + (d.get("rendered") or "") for d in r["diags"]]
        bad = [m for m in msgs if "proc macro panicked" in m or "internal compiler error" in m or "use-after-free" in m or "panicked at" in m]
        key = "%s: %s" % (kind, "panicked" if bad else ("compiles" if r["ok"] else "rejected with compile errors"))
        dist[key] = dist.get(key, 0) + 1
        if bad:
            ck.report("panic-under-rustc:%s:%s" % (kind, hexs(invs[-1])[:30]), "the macro as invoked by the compiler panics / crashes the compiler on a rejected invocation (%s in one compilation)" % kind,
                      dict(invocations=["assert_struct!(%s)" % i for i in invs], history=kind, rustc=bad[0][:600]))
        elif r["ok"]:
            ck.report("corr:rejected-compiles:%s" % hexs(invs[-1])[:30], "an invocation of the rejected family compiles under rustc", dict(invocations=invs, history=kind), no_input=True)
    ck.corr_record("T3 rejected invocations under rustc, alone and repeated in one compilation (same one twice / three times, two different ones, before and after accepted ones): ordinary compile errors, never a panic of the macro",
                   len(progs), len(progs), 0, dist, samples=[dict(history=progs[1][0], invocations=progs[1][1])], exhaustive=True,
                   rule="%d rejected invocations (invalid regex literals, missing patterns, index mismatch, closure arity, misplaced `..`, unbalanced group, index out of range, wildcard struct without `..`) x 4 histories + adjacent pairs" % len(REJECTED))


def re_key(msg):
    import re
    return re.sub(r"[^a-z]+", "-", msg.lower())[:40]
