"""C13 - the macro front-end is total."""
import parsetie
import t1
import t2
from vlib import hexs, unhexs


def run(ck):
    ck.prove(["AsModel.Theorems.C13", "AsModel.Theorems.C13Parse", "AsModel.Theorems.C13Term"])
    ck.build_harness("inproc")
    inputs, outs = t1.run(ck)
    dist = {}
    nontriv = 0
    for (kind, text), o in zip(inputs, outs):
        f = o.split("\t")
        st = f[0]
        dist["%s:%s" % (kind, st)] = dist.get("%s:%s" % (kind, st), 0) + 1
        if kind != "valid":
            nontriv += 1
        if st == "panic":
            stage = f[1] if len(f) > 1 else "?"
            msg = unhexs(f[2]) if len(f) > 2 else ""
            ck.report("panic:%s:%s" % (stage, re_key(msg)), "the macro panics ('proc macro panicked') instead of producing an expansion or a compile error",
                      dict(invocation="assert_struct!(%s)" % text, stage=stage, panic_message=msg, input_kind=kind))
        elif st == "err":
            # the error must be attached to a token of the invocation (or to the call as a whole)
            sp = [int(x) for x in f[2].split(".")]
            lines = (" " + text).split("\n")
            ok = (sp == [1, 0, 1, 0]) or (1 <= sp[0] <= len(lines) and sp[2] <= len(lines) + 1)
            if not ok:
                ck.report("error-span-outside:" + hexs(text)[:30], "a compile error of the macro is not attached to a token of the invocation", dict(invocation=text, span=f[2], message=unhexs(f[1])))
        elif st == "ok":
            if len(f) > 5 and f[5] != "valid-block":
                pass  # C14's subject
    ck.corr_record("T1 totality (real parser + code generator in process under catch_unwind: valid inputs, every truncation and single-token deletion / duplication / swap / foreign insertion of them, random token sequences)",
                   len(inputs), nontriv, 0, dist,
                   samples=[dict(kind=k, invocation=t[:120], status=o.split("\t")[0]) for (k, t), o in list(zip(inputs, outs))[:1] + list(zip(inputs, outs))[-2:]],
                   rule="repository corpus + edge patterns + seeded generated patterns, all truncations and single-token edits (sampled per input in the quick tier), random token soup; distinct = distinct texts; non-trivial = not an unmodified valid input")
    parsetie.record(ck, [t for _, t in inputs], outs, "C13: which inputs are accepted, and with which AST")
    res = t2.run(ck)
    mm = t2.record(ck, res, ("status",), "which accepted inputs reach a panic site during expansion")
    if mm and not [v for v in ck.violations if not v["no_input"]]:
        ck.report("corr:T2-status", "the model's panic-site prediction no longer matches the implementation", dict(first=mm[:3], broken="correspondence T2/status; C13_expand_no_panic depends on it"), no_input=True)
    ck.assumptions += ["syn's own parsers (Expr, Path, ExprClosure, literals) are trusted not to panic; stack exhaustion on deeply nested input is not explored; the parser is modelled (Parse.lean, with syn's answers as oracle tables quantified universally in the theorems) and tied on every T1 input; None-delimited groups (macro_rules fragments) are not in the parser model; the model parser recurses on fuel; C13_no_out_of_fuel proves that 2 x tokens + 8 suffices for every token stream and oracle (the driver uses 2 x tokens + 16)"]


def re_key(msg):
    import re
    return re.sub(r"[^a-z]+", "-", msg.lower())[:40]
