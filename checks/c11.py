"""C11 - a pattern means the same in every position."""
import t2
import t3
import tgen
import positions as P


ATOM_FORMS = [
    (("int", "i32"), "simple", None), (("int", "i32"), "eq", None), (("int", "i32"), "ne", None), (("int", "i32"), "lt", None),
    (("int", "i32"), "le", None), (("int", "i32"), "gt", None), (("int", "i32"), "ge", None), (("int", "i32"), "closure", None),
    (("int", "i32"), "range", "closed"), (("int", "i32"), "range", "half"), (("int", "i32"), "range", "from"),
    (("int", "i32"), "range", "to"), (("int", "i32"), "range", "toincl"), (("int", "u8"), "range", "from"), (("int", "i64"), "lt", None),
    (("string",), "string", None), (("string",), "eq", None), (("string",), "ne", None), (("string",), "regex", None),
    (("string",), "like", None), (("string",), "closure", None), (("strref",), "string", None), (("strref",), "eq", None),
    (("bool",), "simple", None), (("bool",), "eq", None), (("char",), "simple", None), (("char",), "range", "closed"),
    (("f64",), "gt", None), (("f64",), "range", "half"), (("f64",), "eq", None), (("po",), "lt", None), (("po",), "ge", None),
    (("int", "i32"), "closure", "typed"), (("f64",), "closure", "typed"),
]
COMPOUND = ["option", "vec", "tuple", "struct", "enum", "result", "set", "map"]


def far_values(v, t):
    """Values on both sides of v, near and far, so that every bound of a range / comparison is crossed."""
    k = t[0]
    if k == "int":
        lo = 0 if t[1] == "u8" else -10**6
        hi = 255 if t[1] == "u8" else 10**6
        return [("int", max(lo, min(hi, v[1] + d))) for d in (-30, -2, 2, 30)]
    if k == "f64":
        return [("dec", v[1] + d) for d in (-3000, -50, 50, 3000)]
    if k == "char":
        return [("chr", c) for c in "0Az~" if c != v[1]][:3]
    if k in ("string", "strref"):
        return [("str", v[1] + "x"), ("str", "zz" + v[1]), ("str", "")] if v[1] else [("str", "x"), ("str", "hello")]
    if k == "bool":
        return [("bool", not v[1])]
    if k == "po":
        a, b = v[3][0][1], v[3][1][1]
        return [("adt", "Po", [], [("int", max(0, a + da)), ("int", max(0, b + db))], "Po", "tuple") for da, db in ((2, 2), (-2, -2), (2, -2), (-2, 2))]
    return []


N_SYSTEMATIC = [0]


def make_cases(rng, nbase):
    """Systematic: every atom form (and every range shape) and every compound type, each with a
    matching and a non-matching value, in every position; then `nbase` random bases."""
    bases = []
    for (t, form, shape) in ATOM_FORMS:
        g = tgen.Gen(rng)
        v0 = g.gen_val(t)
        pg = tgen.PatGen(g, rng, root_is_ref=True)
        pg.force, pg.force_shape = form, shape
        pat = pg.pat(v0, t, depth=1)
        bases.append((g, t, v0, pg, pat, False))
        for w in far_values(v0, t):
            bases.append((g, t, w, pg, pat, True))
    # a single pattern in grouping parentheses
    for (t, form, shape) in [(("int", "i32"), "gt", None), (("int", "i32"), "simple", None), (("int", "i32"), "range", "closed"), (("string",), "string", None), (("string",), "eq", None)]:
        g = tgen.Gen(rng)
        v0 = g.gen_val(t)
        pg = tgen.PatGen(g, rng, root_is_ref=True)
        pg.spellings = False
        pg.force, pg.force_shape = form, shape
        pat = "(%s)" % pg.pat(v0, t, depth=1)
        bases.append((g, t, v0, pg, pat, False))
        for w in far_values(v0, t)[:2]:
            bases.append((g, t, w, pg, pat, True))
    n_atoms = len(bases)
    for kind in COMPOUND:
        for _ in range(2):
            g = tgen.Gen(rng)
            t = g.gen_type(2, allow=(kind,))
            if t[0] != kind:
                t = g.gen_type(2, allow=(kind,))
            v0 = g.gen_val(t)
            pg = tgen.PatGen(g, rng, root_is_ref=True)
            pat = pg.pat(v0, t, depth=1)
            bases.append((g, t, v0, pg, pat, False))
            bases.append((g, t, g.perturb(v0, t, 0.7), pg, pat, True))
    for _ in range(nbase):
        g = tgen.Gen(rng)
        t = g.gen_type(rng.choice([0, 1, 1, 2]), allow=("atom", "option", "vec", "tuple", "struct", "enum"))
        v0 = g.gen_val(t)
        pg = tgen.PatGen(g, rng, root_is_ref=True)
        pat = pg.pat(v0, t, depth=1)
        bases.append((g, t, v0 if rng.random() < 0.45 else g.perturb(v0, t, 0.6), pg, pat, None))
    cases = []
    k = 0
    N_SYSTEMATIC[0] = n_atoms
    extra = "(v %s (int 0)) (v %s (str %s)) %s" % (tgen.hexs("0"), tgen.hexs('"k"'), tgen.hexs("k"), P.METHOD_MEANINGS)
    for b, (g, t, v, pg, pat, _) in enumerate(bases):
        for pos in P.POSITIONS:
            c = t3.Case()
            c.id = k
            k += 1
            c.base, c.position, c.gen, c.ty, c.value = b, pos, g, t, v
            c.inner_pattern = pat
            c.form = tgen.top_form(pat)
            c.tkind = t[0]
            c.forms = dict(pg.forms_used)
            c.meanings = pg.meanings_sexp()[:-1] + " " + extra + ")"
            wd, wt, wv, wp, ws = P.wrap(pos, g, t, v, pat)
            t3.finish_case(c, g.decls() + "\n" + wd, wt, wv, ws, wp)
            cases.append(c)
        if t == ("int", "i32"):
            for pos, asserted in ROOT_EXPRS:
                c = t3.Case()
                c.id = k
                k += 1
                c.base, c.position, c.gen, c.ty, c.value = b, pos, g, t, v
                c.inner_pattern = pat
                c.form = tgen.top_form(pat)
                c.tkind = t[0]
                c.forms = dict(pg.forms_used)
                c.meanings = pg.meanings_sexp()[:-1] + " " + extra + ")"
                t3.finish_case(c, g.decls(), g.rust_type(t), g.rust_expr(v, t), tgen.sexp(v), pat)
                c.text = asserted + ", " + pat
                cases.append(c)
        # one reference level up (atom forms and a sample of the others): comparator = a field of type &T
        if b < N_SYSTEMATIC[0] or b % 3 == 0:
            for pos in P.REF_POSITIONS:
                c = t3.Case()
                c.id = k
                k += 1
                c.base, c.position, c.gen, c.ty, c.value = b, pos, g, t, v
                c.inner_pattern = pat
                c.form = tgen.top_form(pat)
                c.tkind = t[0]
                c.forms = dict(pg.forms_used)
                c.meanings = pg.meanings_sexp()[:-1] + " " + extra + ")"
                # closures are written for the parameter they get in the comparator position (a `&&T`): a position that hands the
                # pattern a `&T` instead no longer accepts them
                rpat = pat.replace("x.clone()", "(**x).clone()").replace("|x: &", "|x: &&")
                if rpat != pat:
                    import re as _re
                    for m_ in _re.findall(r"\(p ([0-9a-f]+) (\([^()]*(?:\([^()]*\)[^()]*)*\))\)", c.meanings):
                        txt_ = tgen.unhexs(m_[0]) if hasattr(tgen, "unhexs") else bytes.fromhex(m_[0]).decode()
                        if "x.clone()" in txt_:
                            new_ = txt_.replace("x.clone()", "(**x).clone()").replace("|x:&", "|x:&&").replace("|x: &", "|x: &&")
                            c.meanings = c.meanings[:-1] + " (p %s %s))" % (tgen.hexs(tgen.squash(new_)), m_[1])
                wd, wt, wv, wp, ws, asserted, setup = P.wrap_ref(pos, g, t, v, rpat)
                t3.finish_case(c, g.decls() + "\n" + wd, wt, wv, ws, wp)
                c.text = asserted + ", " + wp
                if setup:
                    c.setup = setup
                cases.append(c)
    return cases


# how the asserted expression is WRITTEN at the root when it is a compound expression (an operator, a cast): the pattern is applied to
# the value of the whole expression, as it would be to a field holding that value
ROOT_EXPRS = [("root-sum", "v + 0"), ("root-cast", "v as i32"), ("root-paren-sum", "(v + 0)"), ("root-product", "v * 1"), ("root-block", "{ v }"), ("root-neg-neg", "-(-v)"), ("root-if", "if true { v } else { 0 }")]


TEMP_STEPS = {"place": ".fld", "index": ".xs[0]", "callValue": ".own()", "callBorrow": ".r()"}
TEMP_LETTER = {"place": "p", "index": "p", "callValue": "v", "callBorrow": "b"}
TEMP_DEPTH = 4


def temporaries_part(ck):
    """`Temporaries.lean` says which field-operation chains leave a dangling borrow behind when a template binds `&V` with `let`, and
    that a `match` scrutinee never does (the C11Temporaries theorems; f5121f2 moved the last two templates over).  rustc is the oracle
    for that judgment: every chain of up to four steps over {field, index, call returning an owned value, call returning a borrow of its
    receiver} is compiled in both holds, and the model's answer has to be rustc's (E0716 or accepted).  The hold the model assigns to the
    string and set templates is tied to the real generator by T2 (Render picks their tokens by it) and by the position sweep above."""
    import e2e, itertools
    chains = [ch for n in range(1, TEMP_DEPTH + 1) for ch in itertools.product(sorted(TEMP_STEPS), repeat=n)]
    src = ["#![allow(warnings)]", "fn touch<T: std::fmt::Debug>(_x: &T) {}"]
    for i in range(TEMP_DEPTH):
        src.append("#[derive(Clone, Debug)] pub struct T%d { pub fld: T%d, pub xs: Vec<T%d> }" % (i, i + 1, i + 1))
        src.append("impl T%d { pub fn own(&self) -> T%d { self.fld.clone() } pub fn r(&self) -> &T%d { &self.fld } }" % (i, i + 1, i + 1))
    src.append("#[derive(Clone, Debug)] pub struct T%d { pub v: u32 }" % TEMP_DEPTH)
    where = {}
    for k, ch in enumerate(chains):
        e = "v" + "".join(TEMP_STEPS[s] for s in ch)
        src.append("fn c%d_let(v: &T0) { let x = &%s; touch(x); }" % (k, e))
        where[len(src)] = (k, "let")
        src.append("fn c%d_match(v: &T0) { match &%s { x => { touch(x); } } }" % (k, e))
        where[len(src)] = (k, "match")
    src.append("fn main() {}")
    proj = e2e.Project("c11-temporaries", prelude=False)
    rejected = {}
    try:
        proj.add_bin("temps", "\n".join(src) + "\n")
        res = proj.build(check_only=True)
        for d in res["temps"]["diags"]:
            for sp in d["spans"]:
                if sp["primary"] and sp["ls"] in where:
                    rejected[where[sp["ls"]]] = d["code"]
    finally:
        proj.cleanup()
    reqs = ["dangles %s %s" % (h, ".".join(TEMP_LETTER[s] for s in ch)) for ch in chains for h in ("let", "match")]
    outs = ck.lean_batch(reqs)
    bad = 0
    it = iter(outs)
    dist = {}
    for k, ch in enumerate(chains):
        for h in ("let", "match"):
            model = next(it)
            impl = rejected.get((k, h))
            key = "%s:%s" % (h, "rejected" if impl else "accepted")
            dist[key] = dist.get(key, 0) + 1
            if model not in ("true", "false"):
                raise RuntimeError("driver answered %r for a dangles request" % model)
            if (model == "true") != (impl is not None):
                bad += 1
                ck.report("corr:temporaries-model", "the model of Rust's temporary scopes (Temporaries.lean: dangles) disagrees with rustc on a chain",
                          dict(broken="correspondence: AsModel.dangles vs rustc", chain=list(ch), hold=h, expression="v" + "".join(TEMP_STEPS[s] for s in ch), model=model, rustc=impl or "accepted",
                               theorems=["C11_no_dangling_temporaries", "letRef_dangles_iff"]), no_input=True)
    # the holds the model assigns to the two templates that bind the value (current tree), and what it said of the tree before f5121f2
    cur = ck.lean_batch(["dangles string p.v.b", "dangles set p.v.b", "dangles string-pinned p.v.b", "dangles set-pinned p.v.b"])
    if cur != ["false", "false", "true", "true"]:
        raise RuntimeError("unexpected answers for the template holds: %r" % cur)
    ck.corr_record("temporary scopes (every field-operation chain of up to %d steps over field / index / by-value call / borrowing call, held by `let x = &V` and by `match &V`: rustc's verdict vs AsModel.dangles)" % TEMP_DEPTH,
                   len(reqs), len(reqs), bad, dist, samples=[dict(expression="v.fld.own().r()", let="E0716", match="accepted")], exhaustive=True,
                   rule="all %d chains x 2 holds, compiled by rustc (check only)" % len(chains))


BORROWCK_CODES = {"E0382", "E0499", "E0502", "E0503", "E0505", "E0506", "E0507", "E0515", "E0521", "E0597", "E0713", "E0716"}


def regex_history_part(ck):
    """The same regex literal on the same value, in 7 positions, after 0 / 15 / 16 / 17 / 40 OTHER regex literals have been evaluated on
    the thread: the position sweep varies the position only; this varies what came before (seed C11-13: a 16-slot cache of compiled
    regexes answered an evicted pattern with another pattern's regex - a matching value rejected, a non-matching one accepted)."""
    import verdicts
    fam = t3.run_corpus(ck, "c11-regex-history", 0, per_bin=14, positions=verdicts.regex_history_cases)
    stats, mism = t3.compare(ck, fam, "c11-regex-history")
    for m in mism:
        c = m["case"]
        if m["kind"] in ("verdict", "crashed"):
            ck.report("verdict:history/regex", "a regex pattern gives another verdict on the same value after other regex patterns were evaluated on the thread (in every position it must mean the regex's own answer)",
                      dict(t3.describe(c), setup=getattr(c, "setup", "")[:400] + " ..."))
    ck.corr_record("T3 regex literal after a history of other regex literals (0 / 15 / 16 / 17 / 40 distinct ones) x 7 positions x {matching, non-matching value}: verdict vs the specification",
                   len(fam), len(fam), len(mism), dict(stats), samples=[dict(invocation="assert_struct!(%s)" % c.text, value=c.value_text, impl=c.got[0]) for c in fam[:2]],
                   rule="5 history lengths x 7 positions x 2 values; every program distinct")


def run(ck):
    ck.prove(["AsModel.Theorems.C11", "AsModel.Theorems.C11Temporaries"])
    ck.build_harness("inproc")
    n = 10 if ck.tier == "quick" else 300
    cases = t3.run_corpus(ck, "c11", n, per_bin=16, positions=make_cases)
    by_base = {}
    for c in cases:
        by_base.setdefault(c.base, {})[c.position] = c
    dist = {}
    nontriv = set()
    for b, group in by_base.items():
        for pos, c in group.items():
            ref = group["ref-field" if pos in P.REF_POSITIONS else "field"]
            rk = ref.got[0]
            gk = c.got[0]
            dist["%s:%s" % (pos, gk)] = dist.get("%s:%s" % (pos, gk), 0) + 1
            if c.form != "wild":
                nontriv.add(c.text + c.value_text)
            if rk not in ("pass", "fail"):
                continue  # not accepted in struct-field position: the property says nothing
            cell = "%s/%s/%s" % (P.POSITION_CLASS.get(pos, "root-written-as-compound-expression"), c.form, c.tkind if c.tkind in ("strref",) else "*")
            if gk == "rejected" and c.got[2].startswith("macro-"):
                ck.report("parse:%s/%s" % (pos, c.form), "a pattern accepted in a struct-field position is rejected by the macro's parser in another position",
                          dict(t3.describe(c), position=pos, form=c.form, field_position=t3.describe(ref), macro_error=c.got[2]))
            elif gk == "rejected":
                code = c.got[2].split(" ")[0]
                # The recorded findings of this family are TYPE errors (the pattern is handed `T` / a place instead of `&T`: E0631, E0277,
                # E0308, ...) and, for closures on a place, the move out of it (E0507). A rejection by the borrow checker anywhere else -
                # a moved local, a temporary dropped while borrowed - is a different defect and gets a key of its own.
                if code in BORROWCK_CODES and not (cell.startswith("place/closure/") and code == "E0507"):
                    cell = "borrowck:%s:%s" % (code, cell)
                ck.report("accept:" + cell, "a pattern accepted in a struct-field position is rejected by the compiler in another position",
                          dict(t3.describe(c), position=pos, form=c.form, field_position=t3.describe(ref), rustc=c.got[2]))
            elif gk in ("pass", "fail"):
                if gk != rk:
                    ck.report("verdict:" + cell, "the same pattern gives a different verdict on the same value in another position",
                              dict(t3.describe(c), position=pos, form=c.form, field_position=t3.describe(ref)))
                if c.expect[0] == "ok" and ((c.expect[1] == []) != (gk == "pass")):
                    ck.report("spec-verdict:" + cell, "the verdict differs from the specification's (sat) in this position",
                              dict(t3.describe(c), position=pos, form=c.form))
            else:
                ck.report("run:" + cell, "the program did not run to completion: " + gk, dict(t3.describe(c), position=pos))
    ck.corr_record("T3 position sweep (the same (value, pattern) wrapped in 21 positions, and one reference level up in 5 more with the asserted expression written as a borrow / a parenthesised borrow / a variable: acceptance by rustc and verdict compared with the struct-field position and with the specification)",
                   len(cases), len(nontriv), 0, dist,
                   samples=[dict(position=c.position, invocation="assert_struct!(%s)" % c.text, value=c.value_text, outcome=c.got[0]) for c in cases[:3]],
                   rule="seeded (type, value, pattern) bases x {field, root, tuple element, variant element, slice element, set element, map value, Ok, Err, nested field, tuple index, index, deref, method result, wildcard-struct field, struct-variant field, method result returned by value, projection / index after a method result, tuple-index chain, borrow of a by-value method result}; distinct = distinct (invocation, value); non-trivial = inner pattern is not `_`")
    # the template half (expandPat_subst, C11_template_position_independent, ...) is about the generator model: tie it to the real expansion
    res = t2.run(ck)
    mm = t2.record(ck, res, ("body",), "the generated assertion code (the template theorems of C11 speak about it)")
    if mm and not [v for v in ck.violations if not v["no_input"]]:
        ck.report("corr:T2-body", "the model of the code generator no longer matches the real expansion (%d inputs differ)" % len(mm),
                  dict(broken="correspondence T2 (expansion tokens)", theorems=["expandPat_subst", "C11_template_position_independent", "C11_elem_code", "C11_after_operations"], first=mm[:3]), no_input=True)
    temporaries_part(ck)
    regex_history_part(ck)
    import parsetie
    parsetie.light_tie(ck, "C11: the compiled programs' expectations read patterns with the model parser")
    ck.assumptions += ["acceptance is decided by rustc itself (the oracle); the model's reference-level calculus is validated against it cell by cell, not proved about rustc"]
