"""C08 - expressions are evaluated exactly once; Debug runs only on failure."""
import t2
import t3
import tgen
import positions as P
from checks import c11

COUNT_DECLS = """
use std::cell::Cell;
thread_local! { pub static TICKS: Cell<u32> = Cell::new(0); pub static DEBUGS: Cell<u32> = Cell::new(0); }
pub fn tick<T>(x: T) -> T { TICKS.with(|c| c.set(c.get() + 1)); x }
/// a minimal executor for the `.await` field operation (the futures used are ready at once)
pub fn block_on<F: std::future::Future>(f: F) -> F::Output {
    use std::task::{Context, Poll, Wake, Waker};
    struct Noop;
    impl Wake for Noop { fn wake(self: std::sync::Arc<Self>) {} }
    let w = Waker::from(std::sync::Arc::new(Noop));
    let mut cx = Context::from_waker(&w);
    let mut f = std::pin::pin!(f);
    loop { if let Poll::Ready(v) = f.as_mut().poll(&mut cx) { return v; } }
}
"""


def assertion_free(pat):
    p = pat.strip()
    return p == "_" or p.replace(" ", "") in ("_{..}", "#{..}")


def make_cases(rng, nbase):
    """Every atom form and compound type, matching and failing, with
    (a) the asserted expression wrapped in a counting call, and
    (b) the pattern applied to the result of a counting getter (`w.get(): P`)."""
    bases = []
    for (t, form, shape) in c11.ATOM_FORMS:
        g = tgen.Gen(rng)
        v0 = g.gen_val(t)
        pg = tgen.PatGen(g, rng, root_is_ref=True)
        pg.force, pg.force_shape = form, shape
        pat = pg.pat(v0, t, depth=1)
        bases.append((g, t, v0, pg, pat))
        for w in c11.far_values(v0, t)[:2]:
            bases.append((g, t, w, pg, pat))
    # tuples none of whose elements generates a check: the value is still evaluated (once)
    for pat in ("(_, _)", "((_, _), _)"):
        g = tgen.Gen(rng)
        t = ("tuple", [("int", "i32"), ("int", "i32")]) if pat == "(_, _)" else ("tuple", [("tuple", [("int", "i32"), ("int", "i32")]), ("int", "i32")])
        v0 = g.gen_val(t)
        pg = tgen.PatGen(g, rng, root_is_ref=True)
        bases.append((g, t, v0, pg, pat))
    for kind in c11.COMPOUND + ["wild"]:
        g = tgen.Gen(rng)
        t = g.gen_type(2, allow=(kind,)) if kind != "wild" else ("int", "i32")
        v0 = g.gen_val(t)
        pg = tgen.PatGen(g, rng, root_is_ref=True)
        pat = pg.pat(v0, t, depth=1) if kind != "wild" else "_"
        bases.append((g, t, v0, pg, pat))
        bases.append((g, t, g.perturb(v0, t, 0.7), pg, pat))
    # ranges whose bounds are constants (legal in a native range pattern): same evaluation counts as literal bounds
    class ConstPg:
        def __init__(self, text, lo, hi, incl):
            self.forms_used = {"range-const-bounds": 1}
            self._m = "(meanings (r %s %s %s %s))" % (tgen.hexs(tgen.squash(text)), "none" if lo is None else "(int %d)" % lo, "none" if hi is None else "(int %d)" % hi, "true" if incl else "false")

        def meanings_sexp(self):
            return self._m

    class ConstGen(tgen.Gen):
        def decls(self):
            return tgen.Gen.decls(self) + "\npub const LO: i32 = 3;\npub const HI: i32 = 9;\n"

    for (text, lo, hi, incl) in (("LO..=HI", 3, 9, True), ("1..=HI", 1, 9, True), ("LO..20", 3, 20, False), ("..=HI", None, 9, True), ("LO..", 3, None, False)):
        for x in (5, 50, 0):
            g = ConstGen(rng)
            bases.append((g, ("int", "i32"), ("int", x), ConstPg(text, lo, hi, incl), text))
    cases = []
    k = 0
    extra = "(m %s %s)" % (tgen.hexs("get"), tgen.hexs("field:f"))
    for b, (g, t, v, pg, pat) in enumerate(bases):
        T = g.rust_type(t)
        E = g.rust_expr(v, t)
        S = tgen.sexp(v)
        for mode in ("root", "root-index-arg", "root-paren-index", "root-index-impl", "root-deref-field", "chain", "chain-twice", "chain-thrice-mixed", "index", "arg", "await", "list-index", "list-neg-index"):
            c = t3.Case()
            c.id = k
            k += 1
            c.base, c.mode, c.gen, c.ty, c.value = b, mode, g, t, v
            c.form = tgen.top_form(pat)
            c.inner_pattern = pat
            c.forms = dict(pg.forms_used)
            c.meanings = pg.meanings_sexp()[:-1] + " " + extra + ")"
            if mode == "root":
                t3.finish_case(c, g.decls() + COUNT_DECLS, T, E, S, pat)
                c.text = "tick(&v), " + pat
            elif mode.startswith("root-"):
                # the asserted expression is a PLACE whose evaluation is observable: an index operand with a side effect, a counting user
                # Index impl, a field reached through a counting user Deref impl
                rdecl = ("#[derive(Debug)] pub struct CI<T> { pub f: T }\nimpl<T> std::ops::Index<usize> for CI<T> { type Output = T; fn index(&self, _i: usize) -> &T { tick(&self.f) } }\n"
                         "#[derive(Debug)] pub struct In<T> { pub f: T }\n#[derive(Debug)] pub struct D<T> { pub inner: In<T> }\nimpl<T> std::ops::Deref for D<T> { type Target = In<T>; fn deref(&self) -> &In<T> { tick(&self.inner) } }\n")
                t3.finish_case(c, g.decls() + COUNT_DECLS + rdecl, T, E, S, pat)
                c.text = {"root-index-arg": "xs[tick(0)]", "root-paren-index": "(xs[tick(0)])", "root-index-impl": "ci[0]", "root-deref-field": "d.f"}[mode] + ", " + pat
                c.root_setup = "let xs = vec![v.clone()]; let ci = CI { f: v.clone() }; let d = D { inner: In { f: v.clone() } }; "
            else:
                adt = lambda ctor, names, vals: "(adt %s (names %s) (vals %s))" % (tgen.hexs(ctor), " ".join(tgen.hexs(n) for n in names), " ".join(vals))
                if mode == "index":
                    # a user Index impl that counts: `w[0]: P`
                    decls = g.decls() + COUNT_DECLS + ("#[derive(Debug)] pub struct W { f: %s }\nimpl std::ops::Index<usize> for W { type Output = %s; fn index(&self, _i: usize) -> &%s { tick(&self.f) } }\n"
                                                       "#[derive(Debug)] pub struct W2 { w: W }" % (T, T, T))
                    c.meanings = c.meanings[:-1] + " (v %s (int 0)))" % tgen.hexs("0")
                    t3.finish_case(c, decls, "W2", "W2 { w: W { f: %s } }" % E, adt("W2", ["w"], ["(seq %s)" % S]), "W2 { w[0]: %s }" % pat)
                elif mode.startswith("list-"):
                    # an index AFTER a counting getter; `[-1]` does not compile today (usize has no negation) - should a tree accept it,
                    # whatever it means the getter in front of it still runs once
                    decls = g.decls() + COUNT_DECLS + ("#[derive(Debug)] pub struct W { f: %s, fs: Vec<%s> }\nimpl W { pub fn list(&self) -> &Vec<%s> { tick(&self.fs) } }\n"
                                                       "#[derive(Debug)] pub struct W2 { w: W }" % (T, T, T))
                    ix = "0" if mode == "list-index" else "-1"
                    c.meanings = c.meanings[:-1] + " (m %s %s) (v %s (int 0)))" % (tgen.hexs("list"), tgen.hexs("field:fs"), tgen.hexs(ix))
                    t3.finish_case(c, decls, "W2", "W2 { w: W { f: %s, fs: vec![%s] } }" % (E, E), adt("W2", ["w"], [adt("W", ["f", "fs"], [S, "(seq %s)" % S])]), "W2 { w.list()[%s]: %s }" % (ix, pat))
                else:
                    decls = g.decls() + COUNT_DECLS + ("#[derive(Debug)] pub struct W { f: %s }\nimpl W { pub fn get(&self) -> &%s { tick(&self.f) } pub fn at(&self, _i: usize) -> &%s { &self.f } "
                                                       "pub async fn aget(&self) -> &%s { tick(&self.f) } }\n#[derive(Debug)] pub struct W2 { w: W }" % (T, T, T, T))
                    path = {"chain": "w.get()", "chain-twice": "w.get()", "chain-thrice-mixed": "w.get()", "arg": "w.at(tick(0))", "await": "w.aget().await"}[mode]
                    c.meanings = c.meanings[:-1] + " (m %s %s) (m %s %s))" % (tgen.hexs("at"), tgen.hexs("field:f"), tgen.hexs("aget"), tgen.hexs("field:f"))
                    t3.finish_case(c, decls, "W2", "W2 { w: W { f: %s } }" % E, adt("W2", ["w"], [adt("W", ["f"], [S])]), "W2 { %s: %s }" % (path, pat) if mode not in ("chain-twice", "chain-thrice-mixed") else
                                   # the SAME written chain on the same root field two / three times (seed C08-13 bound the first and reused it):
                                   # every written chain is evaluated - the counter must show one evaluation per written chain
                                   ("W2 { %s: %s, %s: %s }" % (path, pat, path, pat) if mode == "chain-twice" else "W2 { %s: %s, %s: %s, %s: %s }" % (path, pat, path, pat, path, pat)))
                    if mode == "await":
                        c.wrap_open, c.wrap_close = "block_on(async {", "})"
            c.setup = getattr(c, "root_setup", "") + "TICKS.with(|c| c.set(0));"
            c.post = 'println!("X %d ticks={}", TICKS.with(|c| c.get()));' % c.id
            cases.append(c)
    return cases


DEBUG_DECLS = COUNT_DECLS + """
#[derive(Clone, PartialEq, PartialOrd)] pub struct Cnt(pub i32);
impl std::fmt::Debug for Cnt { fn fmt(&self, f: &mut std::fmt::Formatter<'_>) -> std::fmt::Result { DEBUGS.with(|c| c.set(c.get() + 1)); write!(f, "Cnt({})", self.0) } }
#[derive(Debug)] pub struct W { pub f: Cnt, pub xs: Vec<Cnt>, pub t: (Cnt, Cnt), pub o: Option<Cnt> }
impl W { pub fn get(&self) -> &Cnt { &self.f } pub fn val(&self) -> Cnt { self.f.clone() } }
#[derive(Debug)] pub struct W2 { pub w: W }
pub fn mk() -> W2 { W2 { w: W { f: Cnt(5), xs: vec![Cnt(5), Cnt(7)], t: (Cnt(5), Cnt(7)), o: Some(Cnt(5)) } } }
"""
DEBUG_PASSING = [
    "W2 { w: W { f: == Cnt(5), .. } }", "W2 { w: W { f: > Cnt(1), .. } }", "W2 { w: W { f: |v| v.0 == 5, .. } }", "W2 { w: W { f: _, .. } }",
    "W2 { w.get(): == Cnt(5) }", "W2 { w.get(): > Cnt(1) }", "W2 { w.get(): |v| v.0 == 5 }", "W2 { w.val(): |v| v.0 == 5 }", "W2 { w.val(): == Cnt(5) }",
    "W2 { w.xs[0]: == Cnt(5) }", "W2 { w.xs[1]: == Cnt(7) }", "W2 { w.xs.first(): Some(|v| v.0 == 5) }", "W2 { w.t.0: == Cnt(5) }", "W2 { w.t: (== Cnt(5), |v| v.0 == 7) }",
    "W2 { w: W { xs: [== Cnt(5), ..], .. } }", "W2 { w: W { xs: [|v| v.0 == 5, _], .. } }", "W2 { w: W { o: Some(== Cnt(5)), .. } }", "W2 { w: W { o: Some(|v| v.0 == 5), .. } }",
    "W2 { w: _ { f: == Cnt(5), .. } }", "W2 { w: _ { f: |v| v.0 == 5, .. } }", "W2 { w: W { xs: #(== Cnt(5), ..), .. } }", "W2 { w: W { xs: #(== Cnt(7), == Cnt(5)), .. } }",
    "W2 { w: W { t: (|v| v.0 == 5, _), .. } }", "W2 { w.xs.len(): 2 }", "W2 { w: W { f: Cnt(1)..=Cnt(9), .. } }" if False else "W2 { w.f.0: 1..=9 }",
]


def debug_cases(rng, _n):
    cases = []
    for k, pat in enumerate(DEBUG_PASSING):
        c = t3.Case()
        c.id = k
        c.forms = {"debug-on-pass": 1}
        c.meanings = "(meanings)"
        t3.finish_case(c, DEBUG_DECLS, "W2", "mk()", "(int 0)", pat)
        c.setup = "DEBUGS.with(|c| c.set(0));"
        c.post = 'println!("X %d debugs={}", DEBUGS.with(|c| c.get()));' % c.id
        cases.append(c)
    return cases


def debug_part(ck):
    """Debug never runs on the passing path: a value type with a counting Debug impl, passing assertions of every form,
    in field, chain (method by reference and by value, index, tuple index), element, variant, wildcard-struct and set positions."""
    cases = t3.run_corpus(ck, "c08-debug", 0, per_bin=12, positions=debug_cases)
    dist = {}
    for c in cases:
        gk = c.got[0]
        d = int(getattr(c, "extra", {}).get("debugs", "-1"))
        dist["%s debugs=%d" % (gk, d)] = dist.get("%s debugs=%d" % (gk, d), 0) + 1
        if gk != "pass":
            ck.report("debug-case-not-passing", "a passing assertion of the Debug-counter family does not pass / compile: " + gk, dict(t3.describe(c)), no_input=True)
            continue
        if d != 0:
            setp = "#(" in c.text
            ck.report("debug-on-pass:" + ("set" if setp else "other"), "Debug formatting runs %d time(s) although the assertion passes" % d, dict(t3.describe(c), debug_calls=d))
    ck.corr_record("T3 Debug counters (a value type with a counting Debug impl; passing assertions in every kind of position): Debug must not run",
                   len(cases), len(cases), 0, dist, samples=[dict(invocation="assert_struct!(%s)" % cases[0].text)], exhaustive=True, rule="fixed list of %d passing assertions" % len(DEBUG_PASSING))


def run(ck):
    ck.prove(["AsModel.Theorems.C08", "AsModel.Theorems.C08Effects"])
    ck.build_harness("inproc")
    res = t2.run(ck)
    t2_mm = t2.record(ck, res, ("body", "status"), "where the value expression is spliced")
    cases = t3.run_corpus(ck, "c08", 0, per_bin=16, positions=make_cases)
    dist = {}
    found = False
    for c in cases:
        gk = c.got[0]
        if gk not in ("pass", "fail"):
            dist["not-run:" + gk] = dist.get("not-run:" + gk, 0) + 1
            continue
        ticks = int(getattr(c, "extra", {}).get("ticks", "-1"))
        dist["%s/%s ticks=%d" % (c.mode, gk, ticks)] = dist.get("%s/%s ticks=%d" % (c.mode, gk, ticks), 0) + 1
        copies = {"chain-twice": 2, "chain-thrice-mixed": 3}.get(c.mode, 1)
        if copies > 1 and ticks >= 0:
            # the same (chain, pattern) written `copies` times: every copy behaves like the single one, so the counter is a multiple
            if ticks % copies != 0 and not (ticks == 0 and assertion_free(c.inner_pattern)):
                found = True
                ck.report("repeated-chain:%s:%s:%d" % (c.form, gk, ticks), "the same field-operation chain written %d times on one root field is evaluated %d times in all (not once per written chain)" % (copies, ticks),
                          dict(t3.describe(c), evaluations=ticks, mode=c.mode, form=c.form, outcome=gk))
                continue
            ticks //= copies
        if ticks == 1:
            continue
        desc = dict(t3.describe(c), evaluations=ticks, mode=c.mode, form=c.form, outcome=gk)
        if c.mode.startswith("root"):
            if ticks == 0 and assertion_free(c.inner_pattern):
                ck.report("zero-evaluations", "the asserted expression is not evaluated at all", desc)
            else:
                found = True
                ck.report("root:%s:%s:%d" % (c.form, gk, ticks), "the asserted expression is evaluated %d times" % ticks, desc)
        else:
            if ticks == 0 and assertion_free(c.inner_pattern):
                ck.report("zero-evaluations", "a field-operation chain whose pattern generates no assertion is not evaluated at all", desc)
            elif gk == "fail" and ticks == 2 and c.form not in ("string", "tuple", "set", "wild"):
                ck.report("chain-twice-on-failure", "a field-operation chain is evaluated again to build the error text", desc)
            elif c.form in ("map", "wildcard-struct") and ticks >= 2:
                ck.report("chain-per-entry", "a field-operation chain is evaluated once per map entry / wildcard-struct field", desc)
            else:
                found = True
                ck.report("chain:%s:%s:%d" % (c.form, gk, ticks), "a field-operation chain (method call) is evaluated %d times" % ticks, desc)
    ck.corr_record("T3 evaluation counters (asserted expression and method-call chains wrapped in counting calls; every form, passing and failing)",
                   len(cases), len({c.text + c.value_text for c in cases}), 0, dist,
                   samples=[dict(invocation="assert_struct!(%s)" % c.text[:150], outcome=c.got[0], ticks=getattr(c, "extra", {}).get("ticks")) for c in cases[:3]],
                   rule="every atom form / range shape / compound type of the C11 catalogue x {matching, bound-crossing value} x {counting asserted expression (a call; an index expression with a counting operand, plain and parenthesised; a counting user Index impl; a field through a counting user Deref impl), counting getter chain, counting user Index impl, counting method argument, counting async getter under .await, index `[0]` / `[-1]` after a counting getter}; every case distinct")
    # --- the tally model (Effects.lean: `runT`) against the counters: impl = model, case by case -------------------------------
    METHOD = {"chain": "get", "chain-twice": "get", "chain-thrice-mixed": "get", "arg": "at", "await": "aget", "list-index": "list", "list-neg-index": "list"}
    reqs, idx = [], []
    for c in cases:
        if c.got[0] in ("pass", "fail") and getattr(c, "ast", None):
            m = METHOD.get(c.mode)
            reqs.append("evalcost\t%s\t%s\t%s\t%s" % (c.ast, c.value_sexp, c.meanings, tgen.hexs(m) if m else "-"))
            idx.append(c)
    tdist, tmm = {}, []
    for c, r in zip(idx, ck.lean_batch(reqs) if reqs else []):
        f = r.split(" ")
        if f[0] != "ok":
            tdist["model:" + f[0]] = tdist.get("model:" + f[0], 0) + 1
            continue
        nent, calls, indexes, _awaits, debugs, root = (int(x) for x in f[1:7])
        ticks = int(getattr(c, "extra", {}).get("ticks", "-1"))
        predicted = root if c.mode.startswith("root") else (indexes if c.mode == "index" else calls)
        k = "%s/%s model=%d" % ("root" if c.mode.startswith("root") else c.mode, c.got[0], predicted)
        tdist[k] = tdist.get(k, 0) + 1
        if (nent == 0) != (c.got[0] == "pass") or predicted != ticks or debugs > nent:
            tmm.append(dict(t3.describe(c), mode=c.mode, outcome=c.got[0], evaluations=ticks, model_evaluations=predicted, model_entries=nent, model_debug_calls=debugs))
    ck.corr_record("T3 evaluation counters vs the tally model (`runT`, Effects.lean: calls of the counting method / index operations / evaluations of the asserted expression the model's run performs)",
                   len(idx), len({c.text + c.value_text for c in idx}), len(tmm), tdist, samples=tmm[:3],
                   rule="the cases of the counter corpus the model parser accepts; the model is asked for the tally of the same (pattern, value, meanings)")
    if tmm and not found:
        ck.report("corr:T3-tally", "the tally model (execT) no longer predicts the evaluation counts of the real expansion (%d cases differ)" % len(tmm),
                  dict(broken="correspondence T3 (evaluation counters vs runT)", theorems=["C08_pass_cost", "C08_chains_once_on_pass", "C08_failing_comparison_twice", "C08_debug_calls_le_entries"], first=tmm[:3]), no_input=True)
    if t2_mm and not found:
        ck.report("corr:T2-body", "the model of the code generator no longer matches the real expansion (%d inputs differ)" % len(t2_mm),
                  dict(broken="correspondence T2 (expansion tokens)", theorems=["C08_root_bound_once", "C08_leaf_evaluations"], first=t2_mm[:3]), no_input=True)
    debug_part(ck)
    import parsetie
    parsetie.light_tie(ck, "C08: the compiled programs' expectations read patterns with the model parser")
    ck.assumptions += ["evaluation counts are observed through counting wrappers in generated programs (method calls, method arguments, a user Index impl, an async method under .await with a minimal executor)"]
