"""C12 - exhaustiveness and shape are enforced at compile time."""
import itertools
import t2
import t3
import tgen

SHAPES = [
    ("struct", "P2", [("x", "i32"), ("y", "i32")]),
    ("struct", "P3", [("a", "i32"), ("b", "String"), ("c", "bool")]),
    ("struct", "P1", [("only", "u8")]),
    ("struct", "P4", [("a", "i32"), ("b", "i32"), ("c", "i32"), ("d", "i32")]),
    ("variant", "E::V", [("w", "i32"), ("h", "i32"), ("tag", "String")]),
]


def val_of(ty):
    return {"i32": ("1", "(int 1)"), "u8": ("1", "(int 1)"), "String": ('"s".to_string()', "(str %s)" % tgen.hexs("s")), "bool": ("true", "(bool true)")}[ty]


def make_cases(rng, _n):
    cases = []
    k = 0

    def add(decls, ty, value, sexp, pat, kind, expect_accept):
        nonlocal k
        c = t3.Case()
        c.id = k
        k += 1
        c.kind, c.expect_accept = kind, expect_accept
        c.forms = {kind: 1}
        c.meanings = "(meanings (v %s (int 1)) (v %s (str %s)) (v %s (bool true)) (v %s (str %s)) (p %s (cmp eq (int 1))) (m %s %s))" % (tgen.hexs("1"), tgen.hexs('"s"'), tgen.hexs("s"), tgen.hexs("true"), tgen.hexs('"k"'), tgen.hexs("k"), tgen.hexs(tgen.squash("|x| *x == 1")), tgen.hexs("clone"), tgen.hexs("id"))
        t3.finish_case(c, decls, ty, value, sexp, pat)
        cases.append(c)

    def adt(ctor, names, vals):
        return "(adt %s (names %s) (vals %s))" % (tgen.hexs(ctor), " ".join(tgen.hexs(n) for n in names), " ".join(vals))

    for (kind, name, fields) in SHAPES:
        if kind == "struct":
            decls = "#[derive(Debug)] pub struct %s { %s }\n#[derive(Debug)] pub struct Other { pub z: i32 }" % (name, ", ".join("pub %s: %s" % f for f in fields))
            ty, path, ctor = name, name, name
            value = "%s { %s }" % (name, ", ".join("%s: %s" % (f, val_of(t)[0]) for f, t in fields))
        else:
            decls = "#[derive(Debug)] pub enum E { V { %s }, U }" % ", ".join("%s: %s" % f for f in fields)
            ty, path, ctor = "E", "E::V", "V"
            value = "E::V { %s }" % ", ".join("%s: %s" % (f, val_of(t)[0]) for f, t in fields)
        sexp = adt(ctor, [f for f, _ in fields], [val_of(t)[1] for _, t in fields])
        lit = {"i32": "1", "u8": "1", "String": '"s"', "bool": "true"}
        for r in range(len(fields) + 1):
            for sub in itertools.combinations(range(len(fields)), r):
                for rest in (False, True):
                    parts = ["%s: %s" % (fields[i][0], lit[fields[i][1]]) for i in sub] + ([".."] if rest else [])
                    add(decls, ty, value, sexp, "%s { %s }" % (path, ", ".join(parts)), "subset%s" % ("+rest" if rest else ""), rest or len(sub) == len(fields))
                    # the same subsets with fields reached through an operation (`a.clone(): 1`, `b.len(): 1`): a field that is only looked
                    # through still counts as listed, and still does not excuse the ones that are not
                    via = {"i32": "%s.clone(): 1", "u8": "%s.clone(): 1", "bool": "%s.clone(): true", "String": "%s.len(): 1"}
                    for mode in (("first-op", "all-op") if sub else ()):
                        parts = [(via[fields[i][1]] % fields[i][0]) if (mode == "all-op" or n_ == 0) else "%s: %s" % (fields[i][0], lit[fields[i][1]])
                                 for n_, i in enumerate(sub)] + ([".."] if rest else [])
                        add(decls, ty, value, sexp, "%s { %s }" % (path, ", ".join(parts)), "subset-%s%s" % (mode, "+rest" if rest else ""), rest or len(sub) == len(fields))
                    if name == "P3" and sub:
                        parts = ["%s: %s" % (fields[i][0], lit[fields[i][1]]) for i in sub] + ([".."] if rest else [])
                        parts_op = [via[fields[i][1]] % fields[i][0] for i in sub] + ([".."] if rest else [])
                        for wrapper, wty, wval, wsexp in (("Some(%s)", "Option<%s>", "Some(%s)", adt("Some", [], ["%s"])),
                                                          ("(%s, _)", "(%s, u8)", "(%s, 1u8)", "(tuple %s (int 1))"),
                                                          ("[%s]", "Vec<%s>", "vec![%s]", "(seq %s)")):
                            for ps, kd in ((parts, "nested-subset"), (parts_op, "nested-subset-all-op")):
                                add(decls, wty % ty, wval % value, wsexp % sexp, wrapper % ("%s { %s }" % (path, ", ".join(ps))),
                                    kd + ("+rest" if rest else ""), rest or len(sub) == len(fields))
        # a field that does not exist, with and without rest
        for rest in (False, True):
            parts = ["%s: %s" % (f, lit[t]) for f, t in fields] + ["nonexistent: 1"] + ([".."] if rest else [])
            add(decls, ty, value, sexp, "%s { %s }" % (path, ", ".join(parts)), "unknown-field", False)
        if kind == "struct":
            add(decls, ty, value, sexp, "Other { z: 1 }", "wrong-type", False)
            add(decls, ty, value, sexp, "_ { %s: %s }" % (fields[0][0], lit[fields[0][1]]), "wildcard-without-rest", False)
            add(decls, ty, value, sexp, "_ { %s: %s, }" % (fields[0][0], lit[fields[0][1]]), "wildcard-without-rest", False)
            add(decls, ty, value, sexp, "_ { }", "wildcard-without-rest", False)
            add(decls, ty, value, sexp, "_ { %s }" % ", ".join("%s: %s" % (f, lit[t]) for f, t in fields), "wildcard-without-rest", False)
            add(decls, ty, value, sexp, "_ { %s: %s, .. }" % (fields[0][0], lit[fields[0][1]]), "wildcard-with-rest", True)
            if name == "P2":
                # ... and below every kind of composite: the rule holds at any depth
                wl = "_ { x: 1 }"
                wr = "_ { x: 1, .. }"
                for wkind, wpat, wty, wval, wsx in (("some", "Some(%s)", "Option<%s>", "Some(%s)", adt("Some", [], ["%s"])), ("tuple", "(%s, _)", "(%s, u8)", "(%s, 1u8)", "(tuple %s (int 1))"),
                                                   ("slice", "[%s]", "Vec<%s>", "vec![%s]", "(seq %s)"), ("set", "#(%s)", "Vec<%s>", "vec![%s]", "(seq %s)"),
                                                   ("map-value", '#{ "k": %s }', "BTreeMap<String, %s>", 'BTreeMap::from([("k".to_string(), %s)])', "(map (keys (str %s)) (vals %%s))" % tgen.hexs("k")),
                                                   ("map-value-in-slice", '#{ "k": [%s], .. }', "BTreeMap<String, Vec<%s>>", 'BTreeMap::from([("k".to_string(), vec![%s])])', "(map (keys (str %s)) (vals (seq %%s)))" % tgen.hexs("k")),
                                                   ("closure-sibling", "(%s, |x| *x == 1)", "(%s, u8)", "(%s, 1u8)", "(tuple %s (int 1))")):
                    add(decls, wty % ty, wval % value, wsx % sexp, wpat % wl, "wildcard-without-rest", False)
                    add(decls, wty % ty, wval % value, wsx % sexp, wpat % wr, "wildcard-with-rest-nested", True)
            add(decls, ty, value, sexp, "_ { nonexistent: 1, .. }", "wildcard-unknown-field", False)
        else:
            add(decls, ty, value, sexp, "E::W { w: 1, .. }", "wrong-variant-name", False)
    # tuple and variant arity
    for n in range(1, 5):
        ty = "(%s)" % "".join("i32, " for _ in range(n))
        value = "(%s)" % "".join("1, " for _ in range(n))
        sexp = "(tuple %s)" % " ".join("(int 1)" for _ in range(n))
        for m in range(0, 6):
            if m == 1:
                continue  # `(p)` is a parenthesised pattern, not a 1-tuple
            pat = "(%s)" % ", ".join("1" for _ in range(m))
            add("", ty, value, sexp, pat, "tuple-arity", m == n)
        # the same arities with one element written in its indexed form (`1.clone(): 1` - an operation applied to the element at that
        # position): the pattern still has to name every position of the tuple
        for m in range(2, 6):
            for j in sorted({0, m - 1}):
                pat = "(%s)" % ", ".join(("%d.clone(): 1" % i) if i == j else "1" for i in range(m))
                add("", ty, value, sexp, pat, "tuple-arity-indexed-element", m == n)
        decls = "#[derive(Debug)] pub enum T { A(%s), B }" % ", ".join("i32" for _ in range(n))
        for m in range(2, 6):
            add(decls, "T", "T::A(%s)" % ", ".join("1" for _ in range(n)), adt("A", [], ["(int 1)"] * n),
                "T::A(%s)" % ", ".join(("%d.clone(): 1" % i) if i == m - 1 else "1" for i in range(m)), "variant-arity-indexed-element", m == n)
        value = "T::A(%s)" % ", ".join("1" for _ in range(n))
        sexp = adt("A", [], ["(int 1)"] * n)
        for m in range(1, 6):
            add(decls, "T", value, sexp, "T::A(%s)" % ", ".join("1" for _ in range(m)), "variant-arity", m == n)
        # no elements at all against a variant / tuple struct that has fields: a bare path or `path()` names a unit item only
        add(decls, "T", value, sexp, "T::A", "bare-path-on-fielded-variant", False)
        add(decls, "T", value, sexp, "T::A()", "empty-parens-on-fielded-variant", False)
        add(decls, "T", "T::B", adt("B", [], []), "T::B", "unit-variant", True)
        sdecls = "#[derive(Debug)] pub struct Pair(%s);" % ", ".join("pub i32" for _ in range(n))
        add(sdecls, "Pair", "Pair(%s)" % ", ".join("1" for _ in range(n)), adt("Pair", [], ["(int 1)"] * n), "Pair()", "empty-parens-on-tuple-struct", False)
    # paths with explicit generic arguments: the pattern names an instantiation, and it must be the value's
    gdecl = ("#[derive(Debug)] pub struct G<T> { pub x: T, pub n: i32 }\n#[derive(Debug)] pub enum GE<T> { R { w: T }, P(T), U }\n"
             "#[derive(Debug, PartialEq)] pub struct Feet; #[derive(Debug, PartialEq)] pub struct Meters;\n#[derive(Debug)] pub struct Len<U> { pub v: i32, pub unit: std::marker::PhantomData<U> }")
    gval, gsx = "G::<i32> { x: 1, n: 1 }", adt("G", ["x", "n"], ["(int 1)", "(int 1)"])
    for pat, ok in (("G { x: 1, n: 1 }", True), ("G::<i32> { x: 1, n: 1 }", True), ("G::<i32> { x: 1, .. }", True), ("G::<u8> { x: 1, n: 1 }", False), ("G::<u8> { n: 1, .. }", False),
                    ("G::<String> { n: 1, .. }", False), ("G::<i64> { x: 1, .. }", False)):
        add(gdecl, "G<i32>", gval, gsx, pat, "generic-struct-%s" % ("same-instantiation" if ok else "other-instantiation"), ok)
    for pat, ok in (("GE::R { w: 1 }", True), ("GE::<i32>::R { w: 1 }", True), ("GE::<u8>::R { w: 1 }", False), ("GE::<u8>::R { .. }", False)):
        add(gdecl, "GE<i32>", "GE::<i32>::R { w: 1 }", adt("R", ["w"], ["(int 1)"]), pat, "generic-variant-%s" % ("same-instantiation" if ok else "other-instantiation"), ok)
    for pat, ok in (("GE::P(1)", True), ("GE::<i32>::P(1)", True), ("GE::<u8>::P(1)", False), ("GE::<u8>::P(_)", False)):
        add(gdecl, "GE<i32>", "GE::<i32>::P(1)", adt("P", [], ["(int 1)"]), pat, "generic-tuple-variant-%s" % ("same-instantiation" if ok else "other-instantiation"), ok)
    for pat, ok in (("Len::<Meters> { v: 1, .. }", True), ("Len::<Feet> { v: 1, .. }", False), ("Len { v: 1, .. }", True)):
        add(gdecl, "Len<Meters>", "Len::<Meters> { v: 1, unit: std::marker::PhantomData }", adt("Len", ["v", "unit"], ["(int 1)", adt("PhantomData", [], [])]), pat,
            "phantom-parameter-%s" % ("same-instantiation" if ok else "other-instantiation"), ok)
    # arities again with the asserted expression written as a tuple LITERAL in the invocation (not a variable holding the tuple)
    for n in range(2, 5):
        for m in range(2, 6):
            for surplus in ("1", "_"):
                pat = "(%s)" % ", ".join(["1"] * min(m, n) + [surplus] * max(0, m - n))
                c_before = len(cases)
                add("", "(%s)" % "".join("i32, " for _ in range(n)), "(%s)" % "".join("1, " for _ in range(n)), "(tuple %s)" % " ".join("(int 1)" for _ in range(n)), pat,
                    "tuple-literal-root-arity", m == n)
                cases[c_before].text = "(%s), %s" % (", ".join(["1i32"] * n), pat)
    vdecls = "#[derive(Debug)] pub enum E { V { w: i32, h: i32 }, U }"
    add(vdecls, "E", "E::V { w: 1, h: 1 }", adt("V", ["w", "h"], ["(int 1)", "(int 1)"]), "E::V", "bare-path-on-struct-variant", False)
    add(vdecls, "E", "E::V { w: 1, h: 1 }", adt("V", ["w", "h"], ["(int 1)", "(int 1)"]), "E::V()", "empty-parens-on-struct-variant", False)
    add(vdecls, "E", "E::U", adt("U", [], []), "E::U", "unit-variant", True)
    return cases


def run(ck):
    ck.prove(["AsModel.Theorems.C12", "AsModel.Theorems.C12Parse"])
    ck.build_harness("inproc")
    res = t2.run(ck)
    t2_mm = t2.record(ck, res, ("body",), "native destructuring patterns")
    cases = t3.run_corpus(ck, "c12", 0, per_bin=10, positions=make_cases)
    dist = {}
    found = False
    for c in cases:
        accepted = c.got[0] in ("pass", "fail")
        model_accepts = c.expect[0] == "ok"
        dist["%s:%s" % (c.kind, "accepted" if accepted else "rejected")] = dist.get("%s:%s" % (c.kind, "accepted" if accepted else "rejected"), 0) + 1
        if accepted != c.expect_accept:
            key = "%s:%s" % (c.kind, "accepted" if accepted else "rejected")
            if not ck.finding_for(key):
                found = True
            ck.report(key, ("a pattern that must be rejected at compile time is accepted" if accepted else "a well-formed pattern is rejected") + " (%s)" % c.kind,
                      dict(t3.describe(c), expected="accept" if c.expect_accept else "reject", rustc=c.got[2][:300]))
        elif model_accepts != c.expect_accept and c.kind not in ("wrong-type", "wrong-variant-name", "wildcard-without-rest") and not c.kind.endswith("other-instantiation") and not c.kind.startswith(("bare-path-on", "empty-parens-on")):
            ck.report("model:%s" % c.kind, "the model's destructuring judgment disagrees with the rule the check expects", dict(t3.describe(c), model=c.expect[0]), no_input=True)
    ck.corr_record("T3 accept/reject matrix (every subset of the fields of 5 struct / struct-variant shapes x with/without `..` x {fields matched directly, first / all fields reached through an operation} and nested in Some / tuple / slice, unknown fields, wrong type / variant names, wildcard structs, tuple and variant arities 0-5, paths with explicit generic arguments naming the value's / another instantiation): rustc's verdict vs the rule and vs the model's destructuring judgment",
                   len(cases), len(cases), 0, dist,
                   samples=[dict(invocation="assert_struct!(%s)" % c.text, expected="accept" if c.expect_accept else "reject", got=c.got[0]) for c in cases[:3]],
                   exhaustive=True,
                   rule="exhaustive over the listed shapes; every case distinct")
    if t2_mm and not found:
        ck.report("corr:T2-body", "the model of the code generator no longer matches the real expansion (%d inputs differ)" % len(t2_mm),
                  dict(broken="correspondence T2 (expansion tokens)", theorems=["C12_struct_pat_faithful"], first=t2_mm[:3]), no_input=True)
    import parsetie
    parsetie.light_tie(ck, "C12: the compiled programs' expectations read patterns with the model parser")
    ck.assumptions += ["rustc's destructuring rules (E0026, E0027, E0023, E0308) are modelled by the `none` cases of exec / frontier and validated against rustc on the matrix"]
