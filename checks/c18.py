"""C18 - the source snippet is found for every crate layout."""
import itertools
import os
import shutil
from vlib import hexs, unhexs, CACHE

NAMES = ["a", "src", "tests"]


def seqs(lo, hi):
    for n in range(lo, hi + 1):
        for t in itertools.product(NAMES, repeat=n):
            yield list(t)


def is_overlap(m, f, k):
    return k <= min(len(m), len(f)) and m[len(m) - k:] == f[:k]


def run(ck):
    ck.prove(["AsModel.Theorems.C18"])
    ck.build_harness("rt")
    cases = []
    hi = 2 if ck.tier == "quick" else 3
    for ws in seqs(0, hi):
        for pkg in seqs(0, 3 if ck.tier == "thorough" else 2):
            for src in seqs(1, 3):
                cases.append((["/"] + ["w"] + ws, pkg, src))
    # relative-looking oddities and absolute compiler paths
    extra = []
    for _ in range(400 if ck.tier == "quick" else 5000):
        # names that are suffixes / prefixes of one another: an overlap is an overlap of whole components only
        pool = NAMES + ["w", "x", "aa", "asrc", "mysrc", "srcs", "x-tests", "layout-tests", "tests2", "a.b"]
        ws = [ck.rng.choice(pool) for _ in range(ck.rng.randint(0, 3))]
        pkg = [ck.rng.choice(pool) for _ in range(ck.rng.randint(0, 3))]
        src = [ck.rng.choice(NAMES + ["x", "lib.rs", "it.rs"]) for _ in range(ck.rng.randint(1, 3))]
        extra.append((["/"] + ws, pkg, src))
    lines, meta = [], []
    for (ws, pkg, src) in cases + extra:
        m = "/" + "/".join(ws[1:] + pkg)
        f = "/".join(pkg + src)
        lines.append("abspath %s %s" % (hexs(m), hexs(f)))
        meta.append(("rel", ws, pkg, src, m, f))
    for (ws, pkg, src) in extra[:200]:
        # path dependency outside the workspace: the compiler's file string is absolute
        m = "/" + "/".join(ws[1:] + pkg)
        f = "/ext/" + "/".join(pkg + src)
        lines.append("abspath %s %s" % (hexs(m), hexs(f)))
        meta.append(("abs", ws, pkg, src, m, f))
        # the file is below the manifest dir and given absolutely
        f2 = m.rstrip("/") + "/" + "/".join(src)
        lines.append("abspath %s %s" % (hexs(m), hexs(f2)))
        meta.append(("abs", ws, pkg, src, m, f2))
    model = ck.lean_batch(lines)
    impl = ck.rt_batch(lines)
    dis = 0
    dist = {}
    nontriv = set()
    for ln, md, im, mt in zip(lines, model, impl, meta):
        kind, ws, pkg, src, m, f = mt
        if kind == "rel":
            want = "/" + "/".join(ws[1:] + pkg + src)
            mm, ff = ws + pkg, pkg + src
            longer = any(is_overlap(mm, ff, k) for k in range(len(pkg) + 1, min(len(mm), len(ff)) + 1))
        else:
            want = f
            longer = False
        got = unhexs(im)
        dist[kind + ("/ambiguous" if longer else "")] = dist.get(kind + ("/ambiguous" if longer else ""), 0) + 1
        if len(pkg) + len(ws) >= 2:
            nontriv.add(ln)
        if im != md:
            dis += 1
            if dis <= 3:
                ck.report("corr:abspath:" + ln, "model and implementation of absolute_source_path disagree",
                          dict(request=ln, manifest_dir=m, file=f, impl=got, model=unhexs(md), spec=want,
                               broken="correspondence T4/absolute_source_path; theorems C18_resolves, C18_never_other_file depend on it"),
                          no_input=(got == want))
        if got != want:
            if longer:
                # known finding: a spurious longer overlap between manifest dir and file path
                ck.report("spurious-overlap", "resolved path differs from the real file in a layout with a spurious overlap",
                          dict(request=ln, manifest_dir=m, file=f, impl=got, spec=want))
            else:
                ck.report("wrong-path:" + m + ":" + f, "resolved source path is not the invoking file's path",
                          dict(request=ln, manifest_dir=m, file=f, impl=got, spec=want))
    ck.corr_record("T4 absolute_source_path (real function via hook vs AsModel.Runtime.absoluteSourcePath; spec = wsroot/pkg/src)",
                   len(lines), len(nontriv), dis, dist,
                   samples=[dict(manifest_dir=meta[k][4], file=meta[k][5], impl=unhexs(impl[k]), model=unhexs(model[k])) for k in (0, len(cases) // 2, len(lines) - 1)],
                   exhaustive=True,
                   rule="every (wsroot, pkg, src) over the names {a, src, tests} with depths ws<=%d, pkg<=%d, src 1..3 (exhaustive), random layouts over a 5-name alphabet, absolute compiler paths; non-trivial = at least two directory components before src" % (hi, 3 if ck.tier == "thorough" else 2))

    # real files: the report of a failing entry shows the file's real line, and the path as given
    scratch = os.path.join(CACHE, "scratch", "c18-%d" % os.getpid())
    shutil.rmtree(scratch, ignore_errors=True)
    lines2, meta2 = [], []
    try:
        k = 0
        for (ws, pkg, src) in (cases[:: max(1, len(cases) // 60)] + extra[:40]):
            k += 1
            root = os.path.join(scratch, "L%d" % k)
            mdir = os.path.join(root, *(ws[1:] + pkg))
            fpath = os.path.join(mdir, *src)
            if os.path.isdir(fpath) or any(os.path.isfile(os.path.join(mdir, *src[:i])) for i in range(1, len(src))):
                continue
            os.makedirs(os.path.dirname(fpath), exist_ok=True)
            marker = "let marker_%d = compute(); // é" % k
            open(fpath, "w").write("fn main() {\n    %s\n}\n" % marker)
            f = "/".join(pkg + src)
            mm, ff = ["/"] + [c for c in root.split("/") if c] + ws[1:] + pkg, pkg + src
            longer = any(is_overlap(mm, ff, j) for j in range(len(pkg) + 1, min(len(mm), len(ff)) + 1))
            lines2.append("display %s %s 1 %s 1 2 8 2 16 simple:%s %s none" % (hexs(mdir), hexs(f), hexs(open(fpath).read()), hexs("1"), hexs("2")))
            meta2.append((mdir, f, marker, longer))
        impl2 = ck.rt_batch(lines2)
        shown = 0
        for ln, im, (mdir, f, marker, longer) in zip(lines2, impl2, meta2):
            out = unhexs(im.split(" out=")[1]) if " out=" in im else ""
            ok = im.startswith("ok") and marker in out and ("--> %s:2" % f) in out
            shown += ok
            if not ok:
                if longer:
                    ck.report("spurious-overlap", "the snippet is not shown in a layout with a spurious overlap",
                              dict(manifest_dir=mdir, file=f, output=out))
                else:
                    ck.report("no-snippet:" + f, "the report does not show the invoking file's real source line with the compiler's file string",
                              dict(manifest_dir=mdir, file=f, output=out, raw=im))
        ck.corr_record("T4 real files (ErrorReport over files on disk: the snippet shows the real line and the path as given)",
                       len(lines2), len(lines2), 0, {"snippet_shown": shown, "not_shown": len(lines2) - shown},
                       samples=[dict(manifest_dir=meta2[0][0], file=meta2[0][1])] if meta2 else [],
                       rule="a sample of the layouts above materialised as real directories and files; every case distinct")
    finally:
        shutil.rmtree(scratch, ignore_errors=True)
    ck.assumptions += [
        "cargo's conventions are modelled: CARGO_MANIFEST_DIR = wsroot/pkg (absolute), file!() = pkg/src relative to the workspace root, or absolute for path dependencies outside it",
        "std::path::Path::components / PathBuf::push are modelled for Unix paths (AsModel.Runtime.components, pushPath) and tied by the same differential run",
    ]
    ck.trusted.append("model of Unix Path::components / PathBuf::push (validated by T4 on every run)")
