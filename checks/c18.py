"""C18 - the source snippet is found for every crate layout."""
import itertools
import os
import shutil
from vlib import hexs, unhexs, CACHE

NAMES = ["a", "src", "tests"]


def seqs(lo, hi):
    for n in range(lo, hi + 1):
        for t in itertools.product(NAMES, repeat=n):
            yield list(t)


def is_overlap(m, f, k):
    return k <= min(len(m), len(f)) and m[len(m) - k:] == f[:k]


PROGRAM = """use assert_struct::assert_struct;
pub fn fail_here() -> String {
    let r = std::panic::catch_unwind(|| {
        let _g = assert_struct::__macro_support::PlainOutputGuard::new();
        assert_struct!(5, > 7); // MARKER-é
    });
    match r { Err(e) => e.downcast_ref::<String>().cloned().unwrap_or_default(), Ok(()) => String::new() }
}
"""
MAIN = PROGRAM + 'fn main() { println!("BEGIN\\n{}\\nEND", fail_here()); }\n'
TESTFILE = PROGRAM + '#[test] fn t() { println!("BEGIN\\n{}\\nEND", fail_here()); }\n'


def cargo_layouts(ck):
    """What cargo and rustc really hand to the macro (CARGO_MANIFEST_DIR, file!()) in real crate layouts: each
    layout is built by cargo and run; the report must show the invoking file's own source line."""
    import subprocess
    from vlib import ENV, REPO
    base = os.path.join(CACHE, "scratch", "ws-%d" % os.getpid())
    shutil.rmtree(base, ignore_errors=True)
    tdir = os.path.join(CACHE, "target", "ws")
    dep = 'assert-struct = { path = "%s/assert-struct" }' % REPO

    def pkg(d, name, extra=""):
        os.makedirs(os.path.join(d, "src"), exist_ok=True)
        open(os.path.join(d, "Cargo.toml"), "w").write('[package]\nname = "%s"\nversion = "0.0.0"\nedition = "2021"\npublish = false\n\n[dependencies]\n%s\n%s' % (name, dep, extra))

    def ws_root(d, members, also_package=None):
        os.makedirs(d, exist_ok=True)
        txt = '[workspace]\nmembers = [%s]\nresolver = "2"\n' % ", ".join('"%s"' % m for m in members)
        if also_package:
            os.makedirs(os.path.join(d, "src"), exist_ok=True)
            txt = '[package]\nname = "%s"\nversion = "0.0.0"\nedition = "2021"\npublish = false\n\n[dependencies]\n%s\n\n' % (also_package, dep) + txt
        open(os.path.join(d, "Cargo.toml"), "w").write(txt)
        shutil.copy(os.path.join(REPO, "Cargo.lock"), os.path.join(d, "Cargo.lock"))

    layouts = []   # (name, cwd, cargo args, finding key or None)

    def single(name, dirname, finding=None):
        d = os.path.join(base, name, dirname)
        pkg(d, "p_" + name.replace("-", "_"), "\n[workspace]\n")
        shutil.copy(os.path.join(REPO, "Cargo.lock"), os.path.join(d, "Cargo.lock"))
        open(os.path.join(d, "src", "main.rs"), "w").write(MAIN)
        layouts.append((name, d, ["run", "-q"], finding))

    single("single-package", "proj")
    single("package-dir-named-src", "src", "spurious-overlap")
    single("package-dir-ends-with-src", "mysrc")
    # virtual workspace, member at depth 1 and depth 3; run from the root and from the member
    d = os.path.join(base, "member", "ws")
    ws_root(d, ["a", "crates/deep/b", "ws"])
    for m in ("a", "crates/deep/b", "ws"):
        pkg(os.path.join(d, m), "m_" + m.replace("/", "_"))
        open(os.path.join(d, m, "src", "main.rs"), "w").write(MAIN)
    layouts.append(("workspace-member", d, ["run", "-q", "-p", "m_a"], None))
    layouts.append(("workspace-member-run-from-member-dir", os.path.join(d, "a"), ["run", "-q"], None))
    layouts.append(("nested-member", d, ["run", "-q", "-p", "m_crates_deep_b"], None))
    layouts.append(("member-named-like-the-workspace-dir", d, ["run", "-q", "-p", "m_ws"], None))
    # integration test and example of a member
    os.makedirs(os.path.join(d, "a", "tests"), exist_ok=True)
    open(os.path.join(d, "a", "tests", "it.rs"), "w").write(TESTFILE)
    os.makedirs(os.path.join(d, "a", "examples"), exist_ok=True)
    open(os.path.join(d, "a", "examples", "ex.rs"), "w").write(MAIN)
    layouts.append(("integration-test-of-a-member", d, ["test", "-q", "-p", "m_a", "--test", "it", "--", "--nocapture"], None))
    layouts.append(("example-of-a-member", d, ["run", "-q", "-p", "m_a", "--example", "ex"], None))
    # root package that is also the workspace root, with a member
    d2 = os.path.join(base, "rootpkg", "top")
    ws_root(d2, ["sub"], also_package="top_pkg")
    open(os.path.join(d2, "src", "main.rs"), "w").write(MAIN)
    pkg(os.path.join(d2, "sub"), "sub_pkg")
    open(os.path.join(d2, "sub", "src", "main.rs"), "w").write(MAIN)
    layouts.append(("root-package-of-a-workspace", d2, ["run", "-q", "-p", "top_pkg"], None))
    layouts.append(("member-of-a-workspace-with-root-package", d2, ["run", "-q", "-p", "sub_pkg"], None))
    # a path dependency outside the workspace: the compiler's file string is absolute
    d3 = os.path.join(base, "extdep", "app")
    ext = os.path.join(base, "extdep", "elsewhere", "lib_ext")
    pkg(ext, "lib_ext")
    open(os.path.join(ext, "src", "lib.rs"), "w").write(PROGRAM)
    pkg(d3, "app", 'lib_ext = { path = "%s" }\n\n[workspace]\n' % ext)
    shutil.copy(os.path.join(REPO, "Cargo.lock"), os.path.join(d3, "Cargo.lock"))
    open(os.path.join(d3, "src", "main.rs"), "w").write('fn main() { println!("BEGIN\\n{}\\nEND", lib_ext::fail_here()); }\n')
    layouts.append(("path-dependency-outside-the-workspace", d3, ["run", "-q"], None))
    # the failing assertion is compiled in one member (a library) and runs in a process cargo started for ANOTHER member: the variables cargo
    # exports to that process (CARGO_MANIFEST_DIR, ..) name the running package, not the one the assertion belongs to
    d5 = os.path.join(base, "twomembers", "ws")
    ws_root(d5, ["app", "support", "tools/support"])
    pkg(os.path.join(d5, "support"), "support")
    open(os.path.join(d5, "support", "src", "lib.rs"), "w").write(PROGRAM)
    pkg(os.path.join(d5, "tools/support"), "tools_support")
    open(os.path.join(d5, "tools/support", "src", "lib.rs"), "w").write("// another member whose directory ends like the first one's\n" * 30)
    pkg(os.path.join(d5, "app"), "app", 'support = { path = "../support" }\n')
    open(os.path.join(d5, "app", "src", "main.rs"), "w").write('fn main() { println!("BEGIN\\n{}\\nEND", support::fail_here()); }\n')
    os.makedirs(os.path.join(d5, "app", "tests"), exist_ok=True)
    open(os.path.join(d5, "app", "tests", "uses_support.rs"), "w").write('#[test] fn t() { println!("BEGIN\\n{}\\nEND", support::fail_here()); }\n')
    layouts.append(("assertion-in-a-library-member-run-by-another-member", d5, ["run", "-q", "-p", "app"], None))
    layouts.append(("assertion-in-a-library-member-run-by-another-member's-test", d5, ["test", "-q", "-p", "app", "--test", "uses_support", "--", "--nocapture"], None))
    # members reached through symbolic links: cargo spells CARGO_MANIFEST_DIR and file!() through the link, the real directory is named differently
    d4 = os.path.join(base, "links", "ws")
    store = os.path.join(base, "links", "store", "pkg-0.1.0")
    shared = os.path.join(base, "links", "shared", "packages")
    ws_root(d4, ["linked", "crates/x"])
    pkg(store, "m_linked")
    open(os.path.join(store, "src", "main.rs"), "w").write(MAIN)
    os.symlink(os.path.relpath(store, d4), os.path.join(d4, "linked"))
    pkg(os.path.join(shared, "x"), "m_crates_x")
    open(os.path.join(shared, "x", "src", "main.rs"), "w").write(MAIN)
    os.symlink(os.path.relpath(shared, d4), os.path.join(d4, "crates"))
    layouts.append(("member-directory-is-a-symlink", d4, ["run", "-q", "-p", "m_linked"], None))
    layouts.append(("member-under-a-symlinked-directory", d4, ["run", "-q", "-p", "m_crates_x"], None))
    os.symlink(d, os.path.join(base, "member", "ws-link"))
    layouts.append(("workspace-entered-through-a-symlink", os.path.join(base, "member", "ws-link"), ["run", "-q", "-p", "m_a"], None))
    if ck.tier == "quick":
        layouts = [l for l in layouts if l[0] in ("assertion-in-a-library-member-run-by-another-member", "member-directory-is-a-symlink", "member-under-a-symlinked-directory", "single-package", "workspace-member", "nested-member", "integration-test-of-a-member", "path-dependency-outside-the-workspace", "package-dir-named-src", "member-named-like-the-workspace-dir")]
    env = dict(ENV)
    env["CARGO_TARGET_DIR"] = tdir
    dist = {}
    try:
        for (name, cwd, args, finding) in layouts:
            p = subprocess.run(["cargo"] + args[:1] + ["--offline"] + args[1:], cwd=cwd, capture_output=True, text=True, env=env, timeout=1800)
            out = p.stdout
            msg = out.split("BEGIN\n", 1)[1].split("\nEND", 1)[0] if "BEGIN\n" in out else ""
            shown = "MARKER-é" in msg and "assert_struct! failed" in msg
            dist["%s: %s" % (name, "snippet shown" if shown else "no snippet")] = 1
            if not msg:
                raise RuntimeError("mini-workspace %s did not build / run: %s" % (name, (p.stderr or out)[-1500:]))
            if not shown:
                ck.report(finding or ("cargo-layout:" + name), "the report of a failing assertion does not show the invoking file's source line in a crate layout built by cargo (%s)" % name,
                          dict(layout=name, cargo=" ".join(args), directory=cwd.replace(base, "<scratch>"), message=msg[:800]))
        ck.corr_record("T3 crate layouts built by cargo (single package, workspace members at several depths, run from different directories, integration test, example, root package with members, path dependency outside the workspace, package directory named `src`, members reached through symbolic links): the report must show the source line",
                       len(layouts), len(layouts), 0, dist, samples=[dict(layout=layouts[0][0])], exhaustive=True,
                       rule="fixed list of layouts (10 in the quick tier, %d in the thorough tier), each built and run by cargo; CARGO_MANIFEST_DIR and file!() are whatever cargo and rustc provide" % (len(layouts) if ck.tier != "quick" else 13))
    finally:
        shutil.rmtree(base, ignore_errors=True)


def run(ck):
    ck.prove(["AsModel.Theorems.C18", "AsModel.Theorems.C06Report"])
    ck.build_harness("rt")
    cases = []
    hi = 2 if ck.tier == "quick" else 3
    for ws in seqs(0, hi):
        for pkg in seqs(0, 3 if ck.tier == "thorough" else 2):
            for src in seqs(1, 3):
                cases.append((["/"] + ["w"] + ws, pkg, src))
    # relative-looking oddities and absolute compiler paths
    extra = []
    for _ in range(400 if ck.tier == "quick" else 5000):
        # names that are suffixes / prefixes of one another: an overlap is an overlap of whole components only
        pool = NAMES + ["w", "x", "aa", "asrc", "mysrc", "srcs", "x-tests", "layout-tests", "tests2", "a.b"]
        ws = [ck.rng.choice(pool) for _ in range(ck.rng.randint(0, 3))]
        pkg = [ck.rng.choice(pool) for _ in range(ck.rng.randint(0, 3))]
        src = [ck.rng.choice(NAMES + ["x", "lib.rs", "it.rs"]) for _ in range(ck.rng.randint(1, 3))]
        extra.append((["/"] + ws, pkg, src))
    lines, meta = [], []
    for (ws, pkg, src) in cases + extra:
        m = "/" + "/".join(ws[1:] + pkg)
        f = "/".join(pkg + src)
        lines.append("abspath %s %s" % (hexs(m), hexs(f)))
        meta.append(("rel", ws, pkg, src, m, f))
    for (ws, pkg, src) in extra[:200]:
        # path dependency outside the workspace: the compiler's file string is absolute
        m = "/" + "/".join(ws[1:] + pkg)
        f = "/ext/" + "/".join(pkg + src)
        lines.append("abspath %s %s" % (hexs(m), hexs(f)))
        meta.append(("abs", ws, pkg, src, m, f))
        # the file is below the manifest dir and given absolutely
        f2 = m.rstrip("/") + "/" + "/".join(src)
        lines.append("abspath %s %s" % (hexs(m), hexs(f2)))
        meta.append(("abs", ws, pkg, src, m, f2))
    model = ck.lean_batch(lines)
    impl = ck.rt_batch(lines)
    dis = 0
    dist = {}
    nontriv = set()
    for ln, md, im, mt in zip(lines, model, impl, meta):
        kind, ws, pkg, src, m, f = mt
        if kind == "rel":
            want = "/" + "/".join(ws[1:] + pkg + src)
            mm, ff = ws + pkg, pkg + src
            longer = any(is_overlap(mm, ff, k) for k in range(len(pkg) + 1, min(len(mm), len(ff)) + 1))
        else:
            want = f
            longer = False
        got = unhexs(im)
        dist[kind + ("/ambiguous" if longer else "")] = dist.get(kind + ("/ambiguous" if longer else ""), 0) + 1
        if len(pkg) + len(ws) >= 2:
            nontriv.add(ln)
        if im != md:
            dis += 1
            if dis <= 3:
                ck.report("corr:abspath:" + ln, "model and implementation of absolute_source_path disagree",
                          dict(request=ln, manifest_dir=m, file=f, impl=got, model=unhexs(md), spec=want,
                               broken="correspondence T4/absolute_source_path; theorems C18_resolves, C18_never_other_file depend on it"),
                          no_input=(got == want))
        if got != want:
            if longer:
                # known finding: a spurious longer overlap between manifest dir and file path
                ck.report("spurious-overlap", "resolved path differs from the real file in a layout with a spurious overlap",
                          dict(request=ln, manifest_dir=m, file=f, impl=got, spec=want))
            else:
                ck.report("wrong-path:" + m + ":" + f, "resolved source path is not the invoking file's path",
                          dict(request=ln, manifest_dir=m, file=f, impl=got, spec=want))
    ck.corr_record("T4 absolute_source_path (real function via hook vs AsModel.Runtime.absoluteSourcePath; spec = wsroot/pkg/src)",
                   len(lines), len(nontriv), dis, dist,
                   samples=[dict(manifest_dir=meta[k][4], file=meta[k][5], impl=unhexs(impl[k]), model=unhexs(model[k])) for k in (0, len(cases) // 2, len(lines) - 1)],
                   exhaustive=True,
                   rule="every (wsroot, pkg, src) over the names {a, src, tests} with depths ws<=%d, pkg<=%d, src 1..3 (exhaustive), random layouts over a 5-name alphabet, absolute compiler paths; non-trivial = at least two directory components before src" % (hi, 3 if ck.tier == "thorough" else 2))

    # real files: the report of a failing entry shows the file's real line, and the path as given
    scratch = os.path.join(CACHE, "scratch", "c18-%d" % os.getpid())
    shutil.rmtree(scratch, ignore_errors=True)
    lines2, meta2 = [], []
    try:
        k = 0
        for (ws, pkg, src) in (cases[:: max(1, len(cases) // 60)] + extra[:40]):
            k += 1
            root = os.path.join(scratch, "L%d" % k)
            mdir = os.path.join(root, *(ws[1:] + pkg))
            fpath = os.path.join(mdir, *src)
            if os.path.isdir(fpath) or any(os.path.isfile(os.path.join(mdir, *src[:i])) for i in range(1, len(src))):
                continue
            os.makedirs(os.path.dirname(fpath), exist_ok=True)
            marker = "let marker_%d = compute(); // é" % k
            open(fpath, "w").write("fn main() {\n    %s\n}\n" % marker)
            f = "/".join(pkg + src)
            mm, ff = ["/"] + [c for c in root.split("/") if c] + ws[1:] + pkg, pkg + src
            longer = any(is_overlap(mm, ff, j) for j in range(len(pkg) + 1, min(len(mm), len(ff)) + 1))
            lines2.append("display %s %s 1 %s 1 2 8 2 16 simple:%s %s none" % (hexs(mdir), hexs(f), hexs(open(fpath).read()), hexs("1"), hexs("2")))
            meta2.append((mdir, f, marker, longer))
        impl2 = ck.rt_batch(lines2)
        shown = 0
        for ln, im, (mdir, f, marker, longer) in zip(lines2, impl2, meta2):
            out = unhexs(im.split(" out=")[1]) if " out=" in im else ""
            ok = im.startswith("ok") and marker in out and ("--> %s:2" % f) in out
            shown += ok
            if not ok:
                if longer:
                    ck.report("spurious-overlap", "the snippet is not shown in a layout with a spurious overlap",
                              dict(manifest_dir=mdir, file=f, output=out))
                else:
                    ck.report("no-snippet:" + f, "the report does not show the invoking file's real source line with the compiler's file string",
                              dict(manifest_dir=mdir, file=f, output=out, raw=im))
        ck.corr_record("T4 real files (ErrorReport over files on disk: the snippet shows the real line and the path as given)",
                       len(lines2), len(lines2), 0, {"snippet_shown": shown, "not_shown": len(lines2) - shown},
                       samples=[dict(manifest_dir=meta2[0][0], file=meta2[0][1])] if meta2 else [],
                       rule="a sample of the layouts above materialised as real directories and files; every case distinct")
    finally:
        shutil.rmtree(scratch, ignore_errors=True)
    cargo_layouts(ck)
    ck.assumptions += [
        "cargo's conventions are modelled: CARGO_MANIFEST_DIR = wsroot/pkg (absolute), file!() = pkg/src relative to the workspace root, or absolute for path dependencies outside it; the mini-workspaces built by cargo validate the convention on real layouts",
        "std::path::Path::components / PathBuf::push are modelled for Unix paths (AsModel.Runtime.components, pushPath) and tied by the same differential run",
    ]
    ck.trusted.append("model of Unix Path::components / PathBuf::push (validated by T4 on every run)")
