"""C20 - type errors point into the pattern."""
import e2e
import t2
import t3
import tgen
import positions as P

# fault kind -> (inner type, inner value expr, inner value sexp unused, faulty pattern, the part of it the error should point into)
FAULTS = [
    ("wrong-literal-type", ("int", "i32"), ("int", 3), '"three"', '"three"'),
    ("wrong-literal-type-2", ("string",), ("str", "abc"), "5", "5"),
    ("wrong-operand-type", ("int", "i32"), ("int", 3), '> "x"', '"x"'),
    ("wrong-operand-type-eq", ("string",), ("str", "abc"), "== 5", "5"),
    ("missing-like-impl", ("int", "i32"), ("int", 3), "=~ 5", "5"),
    ("wrong-closure-param", ("int", "i32"), ("int", 3), "|x: &String| x.len() > 1", "|x: &String| x.len() > 1"),
    ("wrong-range-type", ("string",), ("str", "abc"), "1..=5", "1..=5"),
    ("wrong-variant", ("int", "i32"), ("int", 3), "Some(3)", "Some"),
    ("missing-like-impl-regex", ("int", "i32"), ("int", 3), '=~ "a.c"', '"a.c"'),
    ("wrong-literal-in-slice", ("vec", ("int", "i32")), ("seq", [("int", 3)]), '["x"]', '"x"'),
    ("wrong-literal-in-set", ("vec", ("int", "i32")), ("seq", [("int", 3)]), '#("x")', '"x"'),
    ("wrong-map-key-type", ("map", ("string",), ("int", "i32")), ("map", [("str", "k")], [("int", 1)]), '#{ 5: 1 }', "5"),
    ("wrong-ne-operand", ("bool",), ("bool", True), "!= 1", "1"),
    # the value's type has Like impls, but not for this pattern type: the error is about the argument of `.like(..)`
    ("like-impl-for-other-type", ("string",), ("str", "abc"), "=~ 5", "5"),
    ("like-impl-for-other-type-expr", ("string",), ("str", "abc"), "=~ (1, 2)", "(1, 2)"),
    ("like-impl-for-other-type-bool", ("string",), ("str", "abc"), "=~ true", "true"),
    # a string literal against values whose type has exactly one AsRef impl, with another target (the `as_ref()` of the string template resolves)
    ("wrong-literal-type-on-box", ("box", ("int", "i32")), ("box", ("int", 3)), '"three"', '"three"'),
    ("wrong-literal-type-on-box-raw", ("box", ("bool",)), ("box", ("bool", True)), 'r"yes"', 'r"yes"'),
    # operands written as more than one token (on a stable compiler spans cannot be joined: the stamp is the first token's)
    ("wrong-operand-type-negative", ("string",), ("str", "abc"), "== -1", "-1"),
    ("wrong-operand-type-negative-float", ("int", "i32"), ("int", 3), "> -1.5", "-1.5"),
    ("wrong-operand-type-path", ("string",), ("str", "abc"), "<= i32::MAX", "i32::MAX"),
    ("wrong-operand-type-call", ("string",), ("str", "abc"), '>= "abc".len()', '"abc".len()'),
    ("wrong-operand-type-sum", ("string",), ("str", "abc"), "!= 1 + 2", "1 + 2"),
    ("wrong-literal-type-negative", ("string",), ("str", "abc"), "-1", "-1"),
    ("wrong-range-type-negative", ("string",), ("str", "abc"), "-5..=-1", "-5..=-1"),
    ("missing-like-impl-call", ("int", "i32"), ("int", 3), '=~ String::from("x")', 'String::from("x")'),
    ("missing-like-impl-sum", ("int", "i32"), ("int", 3), "=~ 1 + 2", "1 + 2"),
    ("missing-like-impl-cast", ("int", "i32"), ("int", 3), "=~ 7 as u64", "7 as u64"),
    ("missing-like-impl-range", ("int", "i32"), ("int", 3), "=~ 1..5", "1..5"),
    ("missing-like-impl-paren", ("int", "i32"), ("int", 3), "=~ (5)", "(5)"),
    ("missing-like-impl-ref", ("int", "i32"), ("int", 3), "=~ &5", "&5"),
    # SHAPE faults: a composite pattern against a value of another shape. The slice, tuple and set templates are stamped with the call
    # site as a whole (they have no path or operand token to take a span from): recorded finding `shape-*`. The map template is stamped
    # with its first key's span and is located.
    ("shape-slice-on-scalar", ("int", "i32"), ("int", 3), "[1, 2]", "[1, 2]"),
    ("shape-tuple-on-scalar", ("int", "i32"), ("int", 3), "(1, 2)", "(1, 2)"),
    ("shape-set-on-scalar", ("int", "i32"), ("int", 3), "#(1, 2)", "#(1, 2)"),
    ("map-on-scalar", ("int", "i32"), ("int", 3), '#{ "a": 1 }', '#{ "a": 1 }'),
    ("wrong-map-key-type-negative", ("map", ("string",), ("int", "i32")), ("map", [("str", "k")], [("int", 1)]), '#{ -5: 1 }', "-5"),
]
STRUCT_FAULTS = [
    ("unknown-field", "Inner { nope: 1, .. }", "nope"),
    ("unknown-field-wildcard", "_ { nope: 1, .. }", "nope"),
    ("unknown-nested-field", "Inner { a.nope: 1, .. }", "nope"),
    ("unknown-method", "Inner { a.nope(): 1, .. }", "nope"),
    # a tuple-index step on a value that is not a tuple (the defect repaired in /repo 04cedd8: the index literal had the call-site span)
    ("unknown-tuple-index", "Inner { a.0: 1, .. }", "a.0"),
    ("unknown-tuple-index-after-method", "Inner { a.abs().1: 1, .. }", "a.abs().1"),
    ("unknown-index-field-wildcard", "_ { 0: 1, .. }", "0"),
    ("unknown-index-field-wildcard-chain", "_ { 0.abs(): 1, .. }", "0"),
    ("unknown-index-field-named", "Inner { 5: 1, .. }", "5"),
    ("wrong-type-after-method", 'Inner { a.abs(): "x", .. }', '"x"'),
    ("wrong-index-type", 'Inner { xs["k"]: 1, .. }', '"k"'),
    # one dereference more than the field's type supports: the fault is on the run of `*`s itself
    ("deref-too-deep-2", "Inner { **a: 1, .. }", "**a"),
    ("deref-too-deep-3", "Inner { ***a: 1, .. }", "***a"),
    ("deref-too-deep-1-on-method", "Inner { *a.abs(): 1, .. }", "*a.abs()"),
    # a REGEX LITERAL against the user's own type that implements Like for another pattern type only: the error is about the
    # argument of `.like(..)`, which the regex template builds itself (seed C20-12 put a call-site identifier into it)
    ("regex-literal-on-type-with-other-like-impl", 'Inner { e: =~ "a.c", .. }', '"a.c"'),
    ("raw-regex-literal-on-type-with-other-like-impl", 'Inner { e: =~ r"^x", .. }', 'r"^x"'),
    ("like-expr-on-type-with-other-like-impl", 'Inner { e: =~ 5, .. }', "5"),
]


def make_cases():
    cases = []
    rng = None
    for (kind, t, v, pat, focus) in FAULTS:
        for pos in P.POSITIONS:
            g = tgen.Gen(__import__("random").Random(1))
            wd, wt, wv, wp, ws = P.wrap(pos, g, t, v, pat)
            cases.append(dict(kind=kind, position=pos, decls=wd, type=wt, value=wv, pattern=wp, focus=focus, inner=pat))
    inner_decl = ("#[derive(Debug)] struct Em(String);\nimpl Like<Prefix> for Em { fn like(&self, p: &Prefix) -> bool { self.0.starts_with(p.0) } }\n"
                  "#[derive(Debug)] struct Inner { a: i32, xs: Vec<i32>, e: Em }")
    for (kind, pat, focus) in STRUCT_FAULTS:
        for pos in P.POSITIONS:
            if pos in ("set-elem", "map-value") and False:
                continue
            T, E = "Inner", "Inner { a: 1, xs: vec![1], e: Em(String::from(\"x\")) }"

            class G:
                def rust_type(self, t):
                    return T

                def rust_expr(self, v, t):
                    return E
            wd, wt, wv, wp, ws = P.wrap(pos, G(), ("x",), ("int", 0), pat)
            cases.append(dict(kind=kind, position=pos, decls=inner_decl + "\n" + wd, type=wt, value=wv, pattern=wp, focus=focus, inner=pat))
    return cases


# A well-typed sub-pattern and an ILL-TYPED TWIN of it - the same text (field path or leaf) on a same-named field of another struct -
# in one invocation, in both orders: the error belongs to the ill-typed one (seed C20-13 cached expanded field paths by their text, so
# the twin re-used the first occurrence's tokens and spans and the error was reported on the well-typed line).
TWIN_DECL = """#[derive(Debug)] struct In2 { name: i32, xs: i32, a: String, t: i32 }
#[derive(Debug)] struct Out2 { name: String, xs: Vec<i32>, a: i32, t: (i32, i32), inner: In2, other: In3 }
#[derive(Debug)] struct In3 { name: String, xs: Vec<i32>, a: i32, t: (i32, i32) }
fn mk2() -> Out2 { Out2 { name: "abc".to_string(), xs: vec![1], a: 1, t: (1, 2), inner: In2 { name: 1, xs: 1, a: "x".to_string(), t: 1 },
  other: In3 { name: "abc".to_string(), xs: vec![1], a: 1, t: (1, 2) } } }
"""
TWINS = [("method-path", "name.len(): 3"), ("index-path", "xs[0]: 1"), ("tuple-index-path", "t.0: 1"), ("method-chain-path", "name.len().count_ones(): 2"),
         ("comparison-leaf", "a: > 0"), ("literal-leaf", "a: 1"), ("range-leaf", "a: 0..=5"), ("eq-leaf", "a: == 1"), ("closure-leaf", "a: |x: &i32| *x > 0")]


def twin_part(ck):
    progs = []
    for kind, field in TWINS:
        good_outer = ["Out2 {", "    %s," % field, "    inner: In2 {", "        %s," % field, "        ..", "    },", "    ..", "}"]
        progs.append((kind, "outer-then-inner", good_outer, 3))
        progs.append((kind, "inner-then-outer", ["Out2 {", "    inner: In2 {", "        %s," % field, "        ..", "    },", "    %s," % field, "    ..", "}"], 2))
        progs.append((kind, "sibling-then-inner", ["Out2 {", "    other: In3 {", "        %s," % field, "        ..", "    },", "    inner: In2 {", "        %s," % field, "        ..", "    },", "    ..", "}"], 6))
        progs.append((kind, "inner-alone", ["Out2 {", "    inner: In2 {", "        %s," % field, "        ..", "    },", "    ..", "}"], 2))
    proj = e2e.Project("c20twin")
    try:
        for k, (kind, order, lines, bad) in enumerate(progs):
            pre = t3.HEADER + TWIN_DECL + "\nfn main() {\nlet v = mk2();\nassert_struct!(v,\n"
            proj.add_bin("w%03d" % k, pre + "\n".join(lines) + "\n);\n}\n")
        built = proj.build(check_only=True)
    finally:
        proj.cleanup()
    dist = {}
    found = False
    base = (t3.HEADER + TWIN_DECL + "\nfn main() {\nlet v = mk2();\nassert_struct!(v,\n").count("\n") + 1
    for k, (kind, order, lines, bad) in enumerate(progs):
        r = built["w%03d" % k]
        if r["ok"]:
            dist["%s/%s: compiles" % (kind, order)] = 1
            ck.report("corr:twin-compiles:%s" % kind, "an ill-typed twin program compiles", dict(kind=kind, order=order, pattern=lines), no_input=True)
            continue
        prim = sorted({s["ls"] - base for d in r["diags"] for s in d["spans"] if s["primary"] and s["file"].endswith("w%03d.rs" % k)})
        on_bad = bad in prim
        on_good = [l for l in prim if l != bad and 0 <= l < len(lines) and lines[l].strip() == lines[bad].strip()]
        where = "on the ill-typed sub-pattern" if on_bad else ("on its well-typed twin" if on_good else "elsewhere")
        dist["%s/%s: %s" % (kind, order, where)] = 1
        if not on_bad:
            if order == "inner-alone":
                continue      # (not locatable even alone: the single-fault matrix above is where that is judged)
            found = True
            ck.report("twin:%s/%s" % (kind, order), "the type error of an ill-typed sub-pattern is not reported on it when a well-typed sub-pattern with the same text occurs in the same invocation (reported %s)" % where,
                      dict(kind=kind, order=order, invocation="assert_struct!(v,\n" + "\n".join(lines) + ")", faulty_line=lines[bad].strip(), faulty_line_index=bad,
                           primary_lines=prim, errors=[dict(code=d["code"], message=d["message"][:160]) for d in r["diags"]][:3]))
    ck.corr_record("T3 textual twins (a well-typed sub-pattern and an ill-typed one with the same text - field path or leaf - on a same-named field of another struct, in one invocation: outer then inner, inner then outer, sibling then inner, alone)",
                   len(progs), len(progs), 0, dist, samples=[dict(kind=progs[0][0], order=progs[0][1], pattern=progs[0][2])], exhaustive=True, rule="%d twin texts x 4 arrangements" % len(TWINS))
    return found


def run(ck):
    ck.prove(["AsModel.Theorems.C20", "AsModel.Theorems.C20Tokens", "AsModel.Theorems.C20Provenance"])
    ck.build_harness("inproc")
    res = t2.run(ck)
    t2_mm = t2.record(ck, res, ("body",), "span every template token is stamped with")
    cases = make_cases()
    proj = e2e.Project("c20")
    dist = {}
    found = False
    try:
        for k, c in enumerate(cases):
            pre = t3.HEADER + c["decls"] + "\nfn main() {\nlet v: %s = %s;\nassert_struct!(\n" % (c["type"], c["value"])
            c["line"] = pre.count("\n") + 1
            line = " v, " + c["pattern"]
            c["col0"] = line.index(c["inner"]) + 1          # 1-based column of the inner pattern
            c["col1"] = c["col0"] + len(c["inner"])
            fstart = line.index(c["focus"], c["col0"] - 1) + 1
            c["fcol0"], c["fcol1"] = fstart, fstart + len(c["focus"])
            c["pcol0"] = line.index(c["pattern"]) + 1
            c["pcol1"] = c["pcol0"] + len(c["pattern"])
            proj.add_bin("f%03d" % k, pre + line + "\n);\n}\n")
        built = proj.build(check_only=True)
    finally:
        proj.cleanup()
    for k, c in enumerate(cases):
        r = built["f%03d" % k]
        if r["ok"]:
            dist["%s:compiles" % c["kind"]] = dist.get("%s:compiles" % c["kind"], 0) + 1
            continue  # the injected fault is not a fault in this position (e.g. an integer literal accepted); nothing to locate
        where = "call"
        for d in r["diags"]:
            for s in d["spans"]:
                if not s["primary"] or not s["file"].endswith("f%03d.rs" % k):
                    continue
                if s["ls"] == c["line"] and s["le"] == c["line"]:
                    if s["cs"] >= c["col0"] and s["ce"] <= c["col1"]:
                        where = "sub-pattern"
                    elif where != "sub-pattern" and s["cs"] >= c["pcol0"] and s["ce"] <= c["pcol1"] and (s["ce"] - s["cs"]) < (c["pcol1"] - c["pcol0"]):
                        where = "inside-pattern" if where == "call" else where
        dist["%s:%s" % (c["kind"], where)] = dist.get("%s:%s" % (c["kind"], where), 0) + 1
        if where != "sub-pattern":
            key = "%s/%s" % (c["kind"], P.POSITION_CLASS[c["position"]] if c["position"] not in ("set-elem", "slice-elem", "tuple-elem", "map-value") else c["position"])
            if not ck.finding_for(key):
                found = True
            ck.report(key, "no error of an ill-typed sub-pattern has its primary location on that sub-pattern (best: %s)" % where,
                      dict(fault=c["kind"], position=c["position"], invocation="assert_struct!(v, %s)" % c["pattern"], value_type=c["type"], faulty_subpattern=c["inner"],
                           expected_columns=[c["col0"], c["col1"]], errors=[dict(code=d["code"], message=d["message"], primary=[(s["ls"], s["cs"], s["le"], s["ce"]) for s in d["spans"] if s["primary"]]) for d in r["diags"]][:4]))
    ck.corr_record("T3 single type faults (%d leaf and shape faults, operands of one and of several tokens, + %d field-path / field-name faults (unknown named, tuple-index and wildcard-struct fields included), each injected at the %d positions; rustc JSON diagnostics: some error's primary span must lie on the faulty sub-pattern)" % (len(FAULTS), len(STRUCT_FAULTS), len(P.POSITIONS)),
                   len(cases), len(cases), 0, dist,
                   samples=[dict(fault=c["kind"], position=c["position"], invocation="assert_struct!(v, %s)" % c["pattern"]) for c in cases[:3]],
                   exhaustive=True, rule="the full fault x position matrix; every program distinct")
    found = twin_part(ck) or found
    if t2_mm and not found:
        ck.report("corr:T2-body", "the model of the code generator (span stamps) no longer matches the real expansion (%d inputs differ)" % len(t2_mm),
                  dict(broken="correspondence T2 (token spans)", theorems=["C20_stamp_is_own_span"], first=t2_mm[:3]), no_input=True)
    import parsetie
    parsetie.light_tie(ck, "C20: the compiled programs' expectations read patterns with the model parser")
    ck.assumptions += ["where rustc places the primary span of a type error is observed (rustc is the oracle), not modelled; the theorem is about which span each template token is stamped with"]
