"""C04 - each report entry marks the failed sub-pattern's own source text."""
import os
import shutil
from vlib import hexs, unhexs, CACHE, ROOT
import gen


def runtime_part(ck):
    """Run time inverts compile time: (line, char column) -> byte offset, on arbitrary texts."""
    n = 4000 if ck.tier == "quick" else 80000
    lines_spec, lines_off, meta = [], [], []
    for _ in range(n):
        s = gen.rand_text(ck.rng)
        if ck.rng.random() < 0.15:
            s = ck.rng.choice(["", "\n", "é", "\r\n", "a\nb", "日本語\n😀x"])
        i = ck.rng.randint(0, len(s))
        lines_spec.append("posof %s %d" % (hexs(s), i))
        meta.append((s, i))
    spec = ck.lean_batch(lines_spec)
    for (s, i), sp in zip(meta, spec):
        l, c, _ = sp.split(" ")
        lines_off.append("offset %s %s %s" % (hexs(s), l, c))
    # arbitrary (line, col), including outside the text: model vs impl only
    extra = []
    for _ in range(n // 2):
        s = gen.rand_text(ck.rng)
        extra.append("offset %s %d %d" % (hexs(s), ck.rng.randint(0, 9), ck.rng.randint(0, 40)))
    model = ck.lean_batch(lines_off + extra)
    impl = ck.rt_batch(lines_off + extra)
    dis = 0
    dist = {"ascii-prefix": 0, "non-ascii-prefix": 0, "outside-text": len(extra)}
    nontriv = set()
    for k, (ln, md, im) in enumerate(zip(lines_off + extra, model, impl)):
        if md != im:
            dis += 1
            if dis <= 3:
                ck.report("corr:offset:" + ln[:60], "model and implementation of byte_offset_of disagree",
                          dict(request=ln, impl=im, model=md,
                               broken="correspondence T4/byte_offset_of; theorems C04_offset_roundtrip, C04_span_exact, C06_spans_meet_contract depend on it"),
                          no_input=True)
        if k < len(meta):
            s, i = meta[k]
            l, c, b = spec[k].split(" ")
            line_start = s[:i].rfind("\n") + 1
            nonascii = any(ord(ch) > 127 for ch in s[line_start:i])
            dist["non-ascii-prefix" if nonascii else "ascii-prefix"] += 1
            if nonascii or "\n" in s[:i]:
                nontriv.add(ln)
            if im != b:
                ck.report("offset-not-inverse" + ("" if nonascii else ":ascii"),
                          "the byte offset computed from the compiler's (line, column) of a character is not that character's byte position",
                          dict(source=s, char_index=i, line=int(l), col=int(c), impl_offset=im, spec_offset=int(b), model_offset=md))
    ck.corr_record("T4 byte_offset_of (real function via hook vs AsModel.Runtime.byteOffsetOf; spec = byte position of the character the compiler's (line, col) names)",
                   len(lines_off) + len(extra), len(nontriv), dis, dist,
                   samples=[dict(source=meta[k][0], char_index=meta[k][1], spec=spec[k], impl=impl[k]) for k in (0, 1, 2)],
                   rule="seeded random texts (0-6 lines, ASCII + 2/3/4-byte characters + combining marks + tabs + CRLF) x a random character position; plus arbitrary (line, col) incl. outside the text. distinct = distinct request; non-trivial = position after a line break or after non-ASCII text on its line")


def display_part(ck):
    """Through the real Display: spans handed to the renderer for nodes located at character ranges."""
    scratch = os.path.join(CACHE, "scratch", "c04-%d" % os.getpid())
    shutil.rmtree(scratch, ignore_errors=True)
    os.makedirs(scratch)
    try:
        n = 300 if ck.tier == "quick" else 3000
        reqs, meta = [], []
        for k in range(n):
            s = gen.rand_text(ck.rng, max_lines=6)
            if len(s) < 8:
                s = "é = x\n" + s + "abcdef\n  ü: 1,\n"
            # 1-4 nodes at disjoint non-empty character ranges, pushed in an arbitrary order
            # (entries are pushed in evaluation order, which need not be source order)
            m = ck.rng.choice([1, 1, 2, 3, 4])
            cuts = sorted(ck.rng.sample(range(0, len(s) + 1), min(2 * m, len(s) + 1) // 2 * 2))
            ranges = [(cuts[2 * q], cuts[2 * q + 1]) for q in range(len(cuts) // 2)]
            ck.rng.shuffle(ranges)
            fn = "f%d.rs" % k
            open(os.path.join(scratch, fn), "wb").write(s.encode("utf-8"))
            ents = []
            want = []
            for (i, j) in ranges:
                li, ci, bi = gen.pos_of(s, i)
                lj, cj, bj = gen.pos_of(s, j)
                ents.append("%d %d %d %d simple:%s %s none" % (li, ci, lj, cj, hexs("p"), hexs("v")))
                want.append("%d-%d" % (bi, bj))
            reqs.append("display %s %s 1 %s %d %s" % (hexs(scratch), hexs(fn), hexs(s), len(ranges), " ".join(ents)))
            meta.append((s, ranges, want))
        model = ck.lean_batch(reqs)
        impl = ck.rt_batch(reqs)
        dis = 0
        multi = unordered = 0
        for ln, md, im, (s, ranges, want) in zip(reqs, model, impl, meta):
            isp = im.split(" ")[1]
            msp = md.split(" ")[1]
            wsp = "spans=" + ",".join(want)
            if len(ranges) > 1:
                multi += 1
                if ranges != sorted(ranges):
                    unordered += 1
            if isp != msp or im.split(" ")[0] != md.split(" ")[0]:
                dis += 1
                if dis <= 3:
                    ck.report("corr:span:" + hexs(s)[:40], "model and implementation of the annotation spans disagree",
                              dict(source=s, char_ranges_in_push_order=ranges, impl=im[:200], model=md[:200], broken="correspondence T4/annotation span"), no_input=(isp == wsp))
            if isp != wsp:
                nonascii = any(ord(ch) > 127 for ch in s)
                ck.report("span-not-own-text" + ("" if nonascii else ":ascii") + (":multi" if len(ranges) > 1 else ""),
                          "the byte range marked for a node is not the byte range of that node's characters",
                          dict(source=s, char_ranges_in_push_order=ranges, impl_spans=isp, spec_spans=wsp, impl_status=im.split(" ")[0]))
        ck.corr_record("T4 Display spans (ErrorReport formatted over real files; recorded renderer spans vs annotationSpan and vs the node's own bytes)",
                       len(reqs), len(set(reqs)), dis, {"reports_with_several_entries": multi, "of_which_not_in_source_order": unordered},
                       samples=[dict(source=meta[0][0], char_ranges_in_push_order=meta[0][1], impl=impl[0][:120])],
                       rule="seeded random texts written to disk; 1-4 nodes at disjoint random non-empty character ranges pushed in random order; every case distinct")
    finally:
        shutil.rmtree(scratch, ignore_errors=True)


def relayout(rng, text):
    """The same tokens in another layout: line breaks, tabs, CRLF and comments with non-ASCII text
    after commas and braces (outside string literals)."""
    fillers = ["\n", "\n\t", "\r\n    ", " /* é日本😀 */ ", "\n// ünï\n  ", "\t", "  ", "/*ü*/", " /* 日本語 */ ", "\n  /* ñ😀 */ "]
    out = []
    in_str = False
    raw_hashes = None
    i = 0
    while i < len(text):
        ch = text[i]
        out.append(ch)
        if ch == '"' and (i == 0 or text[i - 1] != "\\"):
            in_str = not in_str
        if not in_str and ch in ",{[(" and rng.random() < 0.5:
            # never split `..=`-like tokens: only after separators / opening delimiters
            out.append(rng.choice(fillers))
        i += 1
    return "".join(out)


def relayout_tokens(ck, rng, texts):
    """Token-level re-layout: the same token sequence with line breaks, tabs and non-ASCII comments between ANY two
    tokens (also inside a leaf pattern: between an operator and its operand, inside a range, inside a path).
    Returns one variant per text (the text itself where the re-lexed variant is not token-identical)."""
    import t1
    seps = [" ", " ", "\n", "\n    ", "\t", " /* é日本 */ ", "\n// ü\n  ", "  "]
    toks = t1.tokenize(ck, texts)
    outs = []
    for t, tk in zip(texts, toks):
        if tk is None:
            outs.append(t)
            continue
        parts = []
        for (x, joint) in tk:
            parts.append(x)
            if not joint:
                parts.append(rng.choice(seps))
        outs.append("".join(parts).rstrip())
    again = t1.tokenize(ck, outs)
    return [o if (a is not None and b is not None and [x for x, _ in a] == [x for x, _ in b]) else t for t, o, a, b in zip(texts, outs, toks, again)]


def anchor_part(ck):
    """Anchor selection (compile-time half): the parser model tie on relaid-out invocations, the
    hypotheses of C04_every_node_anchored on every table, and a direct check on the real parser's
    node locations: each starts at the start and ends at the end of a token of the invocation."""
    import random
    import re
    import corpus
    import parsetie
    import t1
    import t2
    rng = random.Random("c04/%d" % ck.seed)
    base = [t for _, t in corpus.repo_invocations()] + t2.EDGE + t2.gen_texts(rng, 100 if ck.tier == "quick" else 1500)
    texts = list(base)
    for t in base:
        if "r\"" in t or "r#" in t or "'" in t or "//" in t or "/*" in t:
            continue   # raw strings, char literals, comments: the re-layout below is not lexer-aware for them
        for _ in range(1 if ck.tier == "quick" else 3):
            v = relayout(rng, t)
            if v != t:
                texts.append(v)
    texts += [v for t, v in zip(base, relayout_tokens(ck, rng, base)) if v != t]
    # leaf patterns that span lines by themselves
    texts += ['v, S { a: "two\nlines", b: 1 }', 'v, S { a: =~ r"(?x) a\n b", b: 7 }', 'v, (>\n5, 7)', 'v, [1..=\n3, 9]', 'v, S { a: Status::\nActive, b: 1 }',
              'v, S { name: "Ali\nce", age: 3 }', 'v, S { a: ==\n"x", b: 1 }']
    impl = ck.rt_batch(["run " + hexs(t) for t in texts], binary="inproc", harness="inproc")
    bad = parsetie.record(ck, texts, impl, "C04: relaid-out invocations (multi-line, tabs, CRLF, non-ASCII comments); span columns are characters")
    hyp = parsetie.compare.hyp
    if hyp:
        k, flag = hyp[0]
        ck.report("hypothesis:" + flag, "a hypothesis of C04_every_node_anchored about syn's spans / the token tree does not hold on an input",
                  dict(invocation=texts[k], flag=flag, count=len(hyp), broken="oracleSpansOk / tokensWf (AsModel/Anchor.lean), evaluated by the driver"), no_input=True)
    # C04's statement itself, on the implementation's locations: every node of every accepted invocation
    dumps = ck.rt_batch(["ptoks " + hexs(t) for t in texts], binary="inproc", harness="inproc")
    acc = [(t, o, d) for t, o, d in zip(texts, impl, dumps) if o.startswith("ok\t") and d != "lexerr"]
    exts = ck.lean_batch(["extents\t" + d for _, _, d in acc]) if acc else []
    checked = nodes = multi = walk_failed = 0
    for (t, o, d), ex in zip(acc, exts):
        f = o.split("\t")
        g = ex.split("\t")
        if g[0] != "ok":
            walk_failed += 1
            continue
        checked += 1
        if "\n" in t:
            multi += 1
        extents = parse_extents(g[1] if len(g) > 1 else "")
        starts = token_starts(d.split("\t")[0])
        for loc in f[4].split(" "):
            if not loc:
                continue
            nid, sp = loc.split(":")
            L = tuple(int(x) for x in sp.split("."))
            if L == (0, 0, 0, 0):
                continue
            nodes += 1
            why = statement_fails(L, int(nid), extents, starts, in_process=True)
            if why:
                ck.report("anchor:" + hexs(t)[:40], "a node's recorded location %s" % why,
                          dict(invocation="assert_struct!(%s)" % t, node=int(nid), location=sp, own_tokens=extents.get(int(nid))))
    # the same statement on the locations the real parser records when Span::join fails - the regime a stable compiler runs the macro
    # in, i.e. what users see (set patterns anchor on `#` alone there, multi-token leaves on their first token)
    import os as _os
    envnj = dict(_os.environ)
    envnj["VERIF_NOJOIN"] = "1"
    impl_nj = ck.rt_batch(["run " + hexs(t) for t, _, _ in acc], binary="inproc", harness="inproc", env=envnj) if acc else []
    nodes_nj = differ_nj = 0
    for (t, o, d), onj, ex in zip(acc, impl_nj, exts):
        g = ex.split("\t")
        fn = onj.split("\t")
        if g[0] != "ok" or fn[0] != "ok":
            continue
        extents = parse_extents(g[1] if len(g) > 1 else "")
        starts = token_starts(d.split("\t")[0])
        if fn[4] != o.split("\t")[4]:
            differ_nj += 1
        for loc in fn[4].split(" "):
            if not loc:
                continue
            nid, sp = loc.split(":")
            L = tuple(int(x) for x in sp.split("."))
            if L == (0, 0, 0, 0):
                continue
            nodes_nj += 1
            why = statement_fails(L, int(nid), extents, starts, in_process=False)
            if why:
                ck.report("anchor-nojoin:" + hexs(t)[:40], "with Span::join failing (as inside a stable compiler) a node's recorded location %s" % why,
                          dict(invocation="assert_struct!(%s)" % t, node=int(nid), location=sp, own_tokens=extents.get(int(nid))))
    ck.corr_record("T1 anchors with Span::join failing (the same statement on the locations recorded in the regime of a stable compiler)",
                   nodes_nj, checked, 0, {"nodes": nodes_nj, "invocations_whose_locations_differ_from_the_joined_regime": differ_nj},
                   samples=[dict(invocation=texts[-1][:200])], rule="the same inputs; vendored proc-macro2 with VERIF_NOJOIN")
    if walk_failed:
        ck.notes.append("extent walk did not complete on %d accepted inputs (machinery gap, those inputs are not covered by the statement-level check)" % walk_failed)
    ck.corr_record("T1 anchors (C04's statement on the real Pattern::location of every node of every accepted invocation: non-empty, inside the node's own tokens, starting on one of them, outside its children's tokens)",
                   nodes, checked, 0, {"invocations": checked, "multi_line": multi, "nodes": nodes, "extent_walk_failed": walk_failed},
                   samples=[dict(invocation=texts[-1][:200])],
                   rule="repository corpus + edge + generated patterns and their re-layouts; own tokens of each node from the AST-directed walk of AsModel/Extents.lean; evaluations = nodes with a location")


def parse_extents(text):
    ext = {}
    for item in text.split(" "):
        if not item:
            continue
        nid, kind, sp, ch = item.split(":")
        a, b, c, e = (int(x) for x in sp.split("."))
        ext[int(nid)] = dict(kind=kind, start=(a, b), end=(c, e), children=[int(x) for x in ch.split(",") if x])
    return ext


def token_starts(ts):
    import re
    starts = set()
    for m in re.finditer(r"\((?:i [0-9a-f-]+|p [0-9a-f]+ [01]|l \w+ [0-9a-f-]+) (\d+)\.(\d+)\.(\d+)\.(\d+)", ts):
        starts.add((int(m.group(1)), int(m.group(2))))
    for m in re.finditer(r"\(g \w+ (\d+\.\d+\.\d+\.\d+) (\d+\.\d+\.\d+\.\d+) (\d+\.\d+\.\d+\.\d+)", ts):
        for sp in m.groups():
            a, b, c, e = (int(x) for x in sp.split("."))
            starts.add((a, b))
    return starts


def statement_fails(L, nid, extents, starts, in_process):
    """C04's statement for one node; returns None or what fails."""
    s, e = (L[0], L[1]), (L[2], L[3])
    if not s < e:
        return "is empty"
    x = extents.get(nid)
    if x is None:
        return None
    if s < x["start"] or e > x["end"]:
        return "reaches outside the node's own tokens (a sibling or the parent)"
    if s not in starts:
        return "does not begin on a token"
    if in_process and x["kind"] == "set":
        return None   # Span::join works in process only: `#(` .. `)`; under rustc the span is `#` (checked on compiled programs)
    for ch in x["children"]:
        cx = extents.get(ch)
        if cx and not (e <= cx["start"] or s >= cx["end"]):
            return "covers tokens of one of its children"
    return None


def e2e_part(ck):
    """Both halves end to end under the real compiler: generated (type, value, pattern) triples whose
    pattern text is relaid out (line breaks, tabs, non-ASCII comments before sub-patterns on the same
    line); every reported entry must (a) be located where the proved-anchored model location is,
    (b) mark a non-empty byte range of the source file, and (c) that byte range must be exactly the
    characters the compiler's (line, column) range names - computed here from the program text."""
    import t3

    def make(rng, n):
        cases = t3.gen_cases(rng, n, "nearmiss")
        tokv = relayout_tokens(ck, rng, [c.pattern for c in cases])
        for c, tv in zip(cases, tokv):
            pat = c.pattern
            if rng.random() < 0.5:
                v = tv          # breaks between any two tokens, also inside leaf patterns
            elif 'r"' in pat or "r#" in pat or "'" in pat:
                continue
            else:
                v = relayout(rng, pat).replace("\r\n", "\n")   # the generated file is LF; CRLF is covered by the T4 parts
            t3.finish_case(c, c.decls_text, c.type_text, c.value_text, c.value_sexp, v)
        return cases

    n = 240 if ck.tier == "quick" else 2400
    cases = t3.run_corpus(ck, "c04-layout", n, positions=make)
    stats, mism = t3.compare(ck, cases, "c04-layout")
    loc_bad = 0
    for m in mism:
        c = m["case"]
        if m["kind"] != "entries":
            continue
        loc_bad += 1
        # the reported location differs from the model's: evaluate C04's statement itself on what rustc reported
        d = ck.rt_batch(["ptoks " + hexs(c.text)], binary="inproc", harness="inproc")[0]
        ex = ck.lean_batch(["extents\t" + d])[0].split("\t") if d != "lexerr" else ["lexerr"]
        why = None
        paired = 0
        if ex[0] == "ok":
            extents = parse_extents(ex[1] if len(ex) > 1 else "")
            starts = token_starts(d.split("\t")[0])
            for e in c.got[1]:
                cands = [n for n in getattr(c, "expect_nodes", []) if t3._sq(n[2]) == t3._sq(e[1]) and n[3] == e[2]]
                if len(cands) != 1:
                    continue
                if e[0] == "0.0.0.0":
                    # "no location": right for patterns without source text of their own (`_`, wildcard structs); for a sub-pattern
                    # that has tokens of its own (the model gives it a location) the entry marks nothing at all
                    if cands[0][1] != "0.0.0.0":
                        paired += 1
                        why = why or "is missing: the failed sub-pattern has source text of its own (the model anchors it at %s) but the entry carries no location" % cands[0][1]
                    continue
                paired += 1
                L = tuple(int(x) for x in e[0].split("."))
                why = why or statement_fails(L, cands[0][0], extents, starts, in_process=False)
        desc = dict(t3.describe(c), paired_entries=paired)
        if why:
            ck.report("entry-location:" + hexs(c.text)[:40], "a report entry's location %s" % why, desc)
        else:
            desc["broken"] = "correspondence T3/locations: the reported location differs from the model's Pat.location (which C04_every_node_anchored is about) although it still satisfies the property's statement on this input"
            ck.report("corr:entry-location", "the reported location of an entry no longer matches the model", desc, no_input=True)
    checked = entries = nonascii = multiline = 0
    for c in cases:
        if c.got[0] != "fail":
            continue
        checked += 1
        lines = (" " + c.text).split("\n")
        if len(lines) > 1:
            multiline += 1
        for e in c.got[1]:
            if len(e) < 6 or e[0] == "0.0.0.0":
                continue
            entries += 1
            loc, marked = e[0], e[5]
            ls, cs, le, ce = (int(x) for x in loc.split("."))
            if marked is None:
                ck.report("no-span:" + hexs(c.text)[:40], "a report entry has no marked range although the source file is readable", t3.describe(c))
                continue
            # the characters the (line, column) range names, by characters
            if ls == le:
                want = lines[ls - 1][cs:ce]
            else:
                want = "\n".join([lines[ls - 1][cs:]] + lines[ls:le - 1] + [lines[le - 1][:ce]])
            if any(ord(ch) > 127 for ch in lines[ls - 1][:cs]):
                nonascii += 1
            if marked == "" or marked != want:
                ck.report("marked-text:" + hexs(c.text)[:40], "the byte range marked in the report is not the text of the failed sub-pattern's location",
                          dict(t3.describe(c), location=loc, marked_text=marked, text_at_location=want))
    # The same statement when the process that runs the assertion is not the package that contains it: cargo sets
    # CARGO_MANIFEST_DIR for every process it runs (`cargo test -p other`, a binary spawned by a cargo-run driver) to the package
    # being RUN; the entry still has to carry its column range and mark the sub-pattern's text.
    foreign = t3.run_corpus(ck, "c04-foreign-manifest", 40 if ck.tier == "quick" else 200, positions=make,
                            run_env={"CARGO_MANIFEST_DIR": os.path.join(ROOT, "harness", "rt"), "CARGO_PKG_NAME": "other"})
    fstats, fmism = t3.compare(ck, foreign, "c04-foreign-manifest")
    fchecked = 0
    for c in foreign:
        if c.got[0] != "fail":
            continue
        for e in c.got[1]:
            if len(e) < 6 or e[0] == "0.0.0.0":
                continue
            fchecked += 1
            if e[5] is None or e[5] == "":
                ck.report("no-span-foreign-manifest:" + hexs(c.text)[:40],
                          "a report entry has no marked column range when the assertion runs in a process whose CARGO_MANIFEST_DIR names another package",
                          dict(t3.describe(c), run_environment={"CARGO_MANIFEST_DIR": "<root of another package>"}, location=e[0]))
    for m in fmism:
        if m["kind"] == "entries":
            ck.report("entry-location-foreign-manifest:" + hexs(m["case"].text)[:40], "the entries reported differ from the model's when CARGO_MANIFEST_DIR names another package", t3.describe(m["case"]))
    ck.corr_record("T3 layouts run with a foreign CARGO_MANIFEST_DIR (the process running the assertion belongs to another package): entries keep their location and marked text",
                   fchecked, len(foreign), len(fmism), dict(fstats, entries=fchecked),
                   rule="the layout corpus, smaller; the compiled programs are run with CARGO_MANIFEST_DIR pointing at another package's root")
    ck.corr_record("T3 layouts (programs compiled by rustc with relaid-out patterns: reported location vs the anchored model location; marked bytes vs the characters at that location)",
                   entries, checked, loc_bad, dict(stats, failing_cases=checked, entries=entries, multi_line_invocations=multiline, entries_after_non_ascii_text_on_their_line=nonascii),
                   samples=[dict(invocation=c.text[:300]) for c in cases[:2]],
                   rule="near-miss (value, pattern) pairs from the typed generator, pattern text relaid out; evaluations = report entries checked")


def run(ck):
    ck.prove(["AsModel.Theorems.C04", "AsModel.Theorems.C04Anchor"])
    ck.build_harness("rt")
    ck.build_harness("inproc")
    runtime_part(ck)
    display_part(ck)
    anchor_part(ck)
    e2e_part(ck)
    ck.assumptions += [
        "rustc / proc-macro2 (line, column) convention is modelled by posOf: lines split at \\n, columns count Unicode scalar values (probed under rustc 1.92; BOM and bare CR are outside the model)",
    ]
