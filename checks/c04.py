"""C04 - each report entry marks the failed sub-pattern's own source text."""
import os
import shutil
from vlib import hexs, unhexs, CACHE
import gen


def runtime_part(ck):
    """Run time inverts compile time: (line, char column) -> byte offset, on arbitrary texts."""
    n = 4000 if ck.tier == "quick" else 80000
    lines_spec, lines_off, meta = [], [], []
    for _ in range(n):
        s = gen.rand_text(ck.rng)
        if ck.rng.random() < 0.15:
            s = ck.rng.choice(["", "\n", "é", "\r\n", "a\nb", "日本語\n😀x"])
        i = ck.rng.randint(0, len(s))
        lines_spec.append("posof %s %d" % (hexs(s), i))
        meta.append((s, i))
    spec = ck.lean_batch(lines_spec)
    for (s, i), sp in zip(meta, spec):
        l, c, _ = sp.split(" ")
        lines_off.append("offset %s %s %s" % (hexs(s), l, c))
    # arbitrary (line, col), including outside the text: model vs impl only
    extra = []
    for _ in range(n // 2):
        s = gen.rand_text(ck.rng)
        extra.append("offset %s %d %d" % (hexs(s), ck.rng.randint(0, 9), ck.rng.randint(0, 40)))
    model = ck.lean_batch(lines_off + extra)
    impl = ck.rt_batch(lines_off + extra)
    dis = 0
    dist = {"ascii-prefix": 0, "non-ascii-prefix": 0, "outside-text": len(extra)}
    nontriv = set()
    for k, (ln, md, im) in enumerate(zip(lines_off + extra, model, impl)):
        if md != im:
            dis += 1
            if dis <= 3:
                ck.report("corr:offset:" + ln[:60], "model and implementation of byte_offset_of disagree",
                          dict(request=ln, impl=im, model=md,
                               broken="correspondence T4/byte_offset_of; theorems C04_offset_roundtrip, C04_span_exact, C06_spans_meet_contract depend on it"),
                          no_input=True)
        if k < len(meta):
            s, i = meta[k]
            l, c, b = spec[k].split(" ")
            line_start = s[:i].rfind("\n") + 1
            nonascii = any(ord(ch) > 127 for ch in s[line_start:i])
            dist["non-ascii-prefix" if nonascii else "ascii-prefix"] += 1
            if nonascii or "\n" in s[:i]:
                nontriv.add(ln)
            if im != b:
                ck.report("offset-not-inverse" + ("" if nonascii else ":ascii"),
                          "the byte offset computed from the compiler's (line, column) of a character is not that character's byte position",
                          dict(source=s, char_index=i, line=int(l), col=int(c), impl_offset=im, spec_offset=int(b), model_offset=md))
    ck.corr_record("T4 byte_offset_of (real function via hook vs AsModel.Runtime.byteOffsetOf; spec = byte position of the character the compiler's (line, col) names)",
                   len(lines_off) + len(extra), len(nontriv), dis, dist,
                   samples=[dict(source=meta[k][0], char_index=meta[k][1], spec=spec[k], impl=impl[k]) for k in (0, 1, 2)],
                   rule="seeded random texts (0-6 lines, ASCII + 2/3/4-byte characters + combining marks + tabs + CRLF) x a random character position; plus arbitrary (line, col) incl. outside the text. distinct = distinct request; non-trivial = position after a line break or after non-ASCII text on its line")


def display_part(ck):
    """Through the real Display: spans handed to the renderer for nodes located at character ranges."""
    scratch = os.path.join(CACHE, "scratch", "c04-%d" % os.getpid())
    shutil.rmtree(scratch, ignore_errors=True)
    os.makedirs(scratch)
    try:
        n = 150 if ck.tier == "quick" else 1500
        reqs, meta = [], []
        for k in range(n):
            s = gen.rand_text(ck.rng, max_lines=5)
            if len(s) < 2:
                s = "é = x\n" + s + "ab"
            i = ck.rng.randint(0, len(s) - 1)
            j = ck.rng.randint(i + 1, len(s))
            li, ci, bi = gen.pos_of(s, i)
            lj, cj, bj = gen.pos_of(s, j)
            fn = "f%d.rs" % k
            open(os.path.join(scratch, fn), "wb").write(s.encode("utf-8"))
            reqs.append("display %s %s 1 %s 1 %d %d %d %d simple:%s %s none" % (hexs(scratch), hexs(fn), hexs(s), li, ci, lj, cj, hexs("p"), hexs("v")))
            meta.append((s, i, j, bi, bj))
        model = ck.lean_batch(reqs)
        impl = ck.rt_batch(reqs)
        dis = 0
        for ln, md, im, (s, i, j, bi, bj) in zip(reqs, model, impl, meta):
            isp = im.split(" ")[1]
            msp = md.split(" ")[1]
            want = "spans=%d-%d" % (bi, bj)
            if isp != msp or im.split(" ")[0] != md.split(" ")[0]:
                dis += 1
                if dis <= 3:
                    ck.report("corr:span:" + hexs(s)[:40], "model and implementation of the annotation span disagree",
                              dict(source=s, chars=[i, j], impl=im[:200], model=md[:200], broken="correspondence T4/annotation span"), no_input=(isp == want))
            if isp != want:
                line_start = s[:i].rfind("\n") + 1
                nonascii = any(ord(ch) > 127 for ch in s[line_start:j])
                ck.report("span-not-own-text" + ("" if nonascii else ":ascii"),
                          "the byte range marked for a node is not the byte range of that node's characters",
                          dict(source=s, chars=[i, j], impl_span=isp, spec_span=want, impl_status=im.split(" ")[0]))
        ck.corr_record("T4 Display spans (ErrorReport formatted over real files; recorded renderer spans vs annotationSpan and vs the node's own bytes)",
                       len(reqs), len(set(reqs)), dis, {},
                       samples=[dict(source=meta[0][0], chars=meta[0][1:3], impl=impl[0][:120])],
                       rule="seeded random texts written to disk; one node located at a random non-empty character range; every case distinct")
    finally:
        shutil.rmtree(scratch, ignore_errors=True)


def run(ck):
    ck.prove(["AsModel.Theorems.C04"])
    ck.build_harness("rt")
    runtime_part(ck)
    display_part(ck)
    ck.assumptions += [
        "rustc / proc-macro2 (line, column) convention is modelled by posOf: lines split at \\n, columns count Unicode scalar values (probed under rustc 1.92; BOM and bare CR are outside the model)",
    ]
