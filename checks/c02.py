"""C02 - see properties.jsonl; shared machinery in lib/verdicts.py."""
import verdicts


def run(ck):
    verdicts.check(ck, "C02", ["AsModel.Theorems.C02"])
