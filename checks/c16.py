"""C16 - disabling the regex feature removes only regex matching."""
import os
import subprocess
import e2e
import t3
from vlib import ENV, ROOT, sh

PROGS = {
    "user-like": ('let v = W { s: "abcdef".to_string() };', 'v, W { s: =~ Prefix("abc") }', True, True),
    "user-like-fails": ('let v = W { s: "xbcdef".to_string() };', 'v, W { s: =~ Prefix("abc") }', True, True),
    "regex-literal": ('let v = W { s: "abc".to_string() };', 'v, W { s: =~ "a.c" }', True, False),
    # every regex literal needs the feature, whatever its text: plain text, anchored, empty, raw, with escapes
    "regex-literal-plain-text": ('let v = W { s: "abc".to_string() };', 'v, W { s: =~ "abc" }', True, False),
    "regex-literal-plain-word-in-option": ('#[derive(Debug)] struct O { s: Option<String> } let v = O { s: Some("Developer".to_string()) };', 'v, O { s: Some(=~ "Developer") }', True, False),
    "regex-literal-anchored": ('let v = W { s: "abc".to_string() };', 'v, W { s: =~ "^abc$" }', True, False),
    "regex-literal-empty": ('let v = W { s: "abc".to_string() };', 'v, W { s: =~ "" }', True, False),
    "regex-literal-raw": ('let v = W { s: "abc".to_string() };', 'v, W { s: =~ r"abc" }', True, False),
    "regex-literal-at-root-on-str": ('let v = "abc";', 'v, =~ "abc"', True, False),
    "string-like-impl": ('let v = W { s: "abc".to_string() }; let pat = "a.c".to_string();', 'v, W { s: =~ pat }', True, False),
    "no-regex-at-all": ('let v = W { s: "abc".to_string() };', 'v, W { s: "abc" }', True, True),
    # user impls on the user's own string-like type (it implements AsRef<str>, Deref<Target = str>, Display): the built-in impls must not get in their way
    "user-like-str-on-stringlike-type": ('#[derive(Debug)] struct Name(String); impl AsRef<str> for Name { fn as_ref(&self) -> &str { &self.0 } } impl std::ops::Deref for Name { type Target = str; fn deref(&self) -> &str { &self.0 } } impl std::fmt::Display for Name { fn fmt(&self, f: &mut std::fmt::Formatter) -> std::fmt::Result { f.write_str(&self.0) } } impl assert_struct::Like<&str> for Name { fn like(&self, p: &&str) -> bool { self.0.starts_with(*p) } } #[derive(Debug)] struct U { n: Name } let v = U { n: Name("abc".to_string()) }; let pre: &str = "ab";',
                                         'v, U { n: =~ pre }', True, True),
    "user-like-string-on-stringlike-type": ('#[derive(Debug)] struct Name(String); impl AsRef<str> for Name { fn as_ref(&self) -> &str { &self.0 } } impl std::borrow::Borrow<str> for Name { fn borrow(&self) -> &str { &self.0 } } impl assert_struct::Like<String> for Name { fn like(&self, p: &String) -> bool { self.0.starts_with(p.as_str()) } } #[derive(Debug)] struct U { n: Name } let v = U { n: Name("abc".to_string()) }; let pre: String = "ab".to_string();',
                                            'v, U { n: =~ pre }', True, True),
    "user-like-generic-pattern": ('#[derive(Debug)] struct Name(String); struct Starts<T>(T); impl<T: AsRef<str>> assert_struct::Like<Starts<T>> for Name { fn like(&self, p: &Starts<T>) -> bool { self.0.starts_with(p.0.as_ref()) } } impl<T: AsRef<str>> assert_struct::Like<Starts<T>> for String { fn like(&self, p: &Starts<T>) -> bool { self.starts_with(p.0.as_ref()) } } #[derive(Debug)] struct U { n: Name, s: String } let v = U { n: Name("abc".to_string()), s: "abc".to_string() };',
                                  'v, U { n: =~ Starts("ab"), s: =~ Starts("ab".to_string()) }', True, True),
    # no built-in impl may exist in one configuration only: a user pattern applied to a wrapper of the user's type needs the user's own impl in both
    "user-like-on-option-without-own-impl": ('#[derive(Debug)] struct Name(String); struct Pre(&\'static str); impl assert_struct::Like<Pre> for Name { fn like(&self, p: &Pre) -> bool { self.0.starts_with(p.0) } } #[derive(Debug)] struct U { n: Option<Name>, b: Box<Name>, v: Vec<Name> } let v = U { n: Some(Name("abc".to_string())), b: Box::new(Name("abc".to_string())), v: vec![] };',
                                             'v, U { n: =~ Pre("ab"), .. }', False, False),
    "user-like-on-option-with-own-impl": ('#[derive(Debug)] struct Name(String); struct Pre(&\'static str); impl assert_struct::Like<Pre> for Name { fn like(&self, p: &Pre) -> bool { self.0.starts_with(p.0) } } impl assert_struct::Like<Pre> for Option<Name> { fn like(&self, p: &Pre) -> bool { self.as_ref().map_or(false, |n| n.like(p)) } } #[derive(Debug)] struct U { n: Option<Name> } let v = U { n: Some(Name("abc".to_string())) };',
                                          'v, U { n: =~ Pre("ab") }', True, True),
    "user-like-on-vec-and-ref-with-own-impl": ('#[derive(Debug)] struct Name(String); struct Pre(&\'static str); impl assert_struct::Like<Pre> for Name { fn like(&self, p: &Pre) -> bool { self.0.starts_with(p.0) } } impl assert_struct::Like<Pre> for Vec<Name> { fn like(&self, p: &Pre) -> bool { self.iter().all(|n| n.like(p)) } } impl<\'a> assert_struct::Like<Pre> for &\'a Name { fn like(&self, p: &Pre) -> bool { (**self).like(p) } } #[derive(Debug)] struct U { v: Vec<Name> } let v = U { v: vec![Name("abc".to_string())] };',
                                               'v, U { v: =~ Pre("ab") }', True, True),
    # a regex literal stays a regex literal: without the feature it is rejected even where a user impl could give it another meaning
    "regex-literal-user-like-str": ('#[derive(Debug)] struct Tag(String); impl assert_struct::Like<&str> for Tag { fn like(&self, p: &&str) -> bool { self.0.starts_with(*p) } } let v = Tag("abc".to_string());',
                                    'v, =~ "a.c"', None, False),
    "regex-literal-user-like-str-field": ('#[derive(Debug)] struct Tag(String); #[derive(Debug)] struct U { tag: Tag } impl assert_struct::Like<&str> for Tag { fn like(&self, p: &&str) -> bool { self.0.starts_with(*p) } } let v = U { tag: Tag("abc".to_string()) };',
                                          'v, U { tag: =~ "a.c" }', None, False),
}


def like_cases(rng, nbase):
    """User Like patterns on strings (matching and failing values) in every position, then `nbase` random bases."""
    import positions as P
    import tgen
    cases = []
    k = 0
    extra = "(v %s (int 0)) (v %s (str %s)) (m %s %s)" % (tgen.hexs("0"), tgen.hexs('"k"'), tgen.hexs("k"), tgen.hexs("get"), tgen.hexs("field:f"))
    bases = []
    for i in range(4 + nbase):
        g = tgen.Gen(rng, allow_regex=False)
        t = ("string",) if i < 4 else g.gen_type(rng.choice([0, 1, 1]), allow=("atom", "option", "vec", "tuple", "struct", "enum"))
        v0 = g.gen_val(t)
        pg = tgen.PatGen(g, rng, forms=("like", "string", "eq"), root_is_ref=True)
        if i < 4:
            pg.force = "like"
        pat = pg.pat(v0, t, depth=1)
        v = ("str", "zz" + v0[1]) if i in (1, 3) else (v0 if i < 4 or rng.random() < 0.5 else g.perturb(v0, t, 0.6))
        bases.append((g, t, v, pg, pat))
    for b, (g, t, v, pg, pat) in enumerate(bases):
        for pos in P.POSITIONS:
            c = t3.Case()
            c.id = k
            k += 1
            c.base, c.position, c.gen, c.ty, c.value = b, pos, g, t, v
            c.inner_pattern = pat
            c.forms = dict(pg.forms_used)
            c.meanings = pg.meanings_sexp()[:-1] + " " + extra + ")"
            wd, wt, wv, wp, ws = P.wrap(pos, g, t, v, pat)
            t3.finish_case(c, g.decls() + "\n" + wd, wt, wv, ws, wp)
            cases.append(c)
    return cases


def feature_tree(default_features):
    proj = e2e.Project("c16tree", default_features=default_features)
    try:
        proj.add_bin("m", "fn main() {}\n")
        p = subprocess.run(["cargo", "tree", "-e", "features", "--offline", "--prefix", "none"], cwd=proj.dir, capture_output=True, text=True, env=ENV)
        out = p.stdout
        return ('assert-struct feature "regex"' in out, 'assert-struct-macros feature "regex"' in out, out)
    finally:
        proj.cleanup()


def items_tie(ck):
    """Which runtime items the expansion names: the table the C16 theorems are about (`templateItems`, RuntimeItems.lean) against the
    tokens of the model (`Render.lean`) and against the tokens of the REAL generator, input by input."""
    import random
    import corpus
    import t2
    from vlib import hexs, unhexs
    rng = random.Random("c16-items/%d" % ck.seed)
    texts = [t for _, t in corpus.repo_invocations()] + t2.EDGE + t2.gen_texts(rng, 150 if ck.tier == "quick" else 1500)
    outs = ck.rt_batch(["run " + hexs(t) for t in texts], binary="inproc", harness="inproc")
    if outs and outs[0] == "unavailable":
        return
    reqs, idx = [], []
    for k, o in enumerate(outs):
        f = o.split("\t")
        if f[0] == "ok":
            reqs.append("items\t%s\t%s" % (f[1], f[2]))
            idx.append(k)
    res = ck.lean_batch(reqs) if reqs else []

    def scan(toks):
        w = []
        for t in toks[6:-1].split(" "):
            h = t.split("@")[0]
            w.append('""' if h.startswith("s:") else unhexs(h))
        found = []
        i = 0
        while i < len(w):
            if w[i:i + 5] == [":", ":", "assert_struct", ":", ":"]:
                if w[i + 5:i + 8] == ["__macro_support", ":", ":"] and i + 8 < len(w):
                    found.append("__macro_support::" + w[i + 8])
                    i += 9
                    continue
                if i + 5 < len(w):
                    found.append(w[i + 5])
                    i += 6
                    continue
            i += 1
        return sorted(set(x for x in found if x != "__macro_support::ComparisonOp"))

    dist, bad = {}, []
    for k, r in zip(idx, res):
        g = r.split("\t")
        if g[0] not in ("same", "diff"):
            dist["model:" + g[0]] = dist.get("model:" + g[0], 0) + 1
            continue
        declared = sorted(set(x for x in g[1].split(",") if x))
        real = scan(outs[k].split("\t")[6])
        kk = "+".join(x.split("::")[-1] for x in declared if x not in ("__macro_support::PatternNode", "__macro_support::NodeKind", "__macro_support::ErrorReport")) or "base only"
        dist[kk] = dist.get(kk, 0) + 1
        if g[0] != "same" or declared != real:
            bad.append(dict(invocation=texts[k][:300], table=declared, model_tokens=g[2], real_tokens=real, templates=g[3] if len(g) > 3 else ""))
    ck.corr_record("runtime items named by the expansion: the table of the C16 theorems (templateItems) vs the tokens of the model and of the real generator",
                   len(idx), len(set(texts[k] for k in idx)), len(bad), dist, samples=bad[:3] or [dict(invocation=texts[idx[0]][:120])] if idx else [],
                   rule="repository corpus + edge patterns + seeded generated patterns, every accepted one")
    if bad and not [v for v in ck.violations if not v["no_input"]]:
        ck.report("corr:runtime-items", "the expansion names other items of the runtime crate than the table the C16 theorems are about (%d inputs differ)" % len(bad),
                  dict(broken="correspondence: templateItems (RuntimeItems.lean) vs the generator's tokens", theorems=["C16_unaffected", "C16_literal_rejected", "C16_user_like_survives"], first=bad[:3]), no_input=True)


def run(ck):
    rc, out, err = sh(["python3", os.path.join(ROOT, "tools", "gen_wiring.py")])
    if rc != 0:
        raise RuntimeError("wiring translator failed: " + err)
    ck.notes.append("translator: " + out.strip())
    ck.prove(["AsModel.Theorems.C16"])
    ck.build_harness("inproc")
    # --- the translator + resolve vs cargo's own feature resolution
    dis = 0
    for d in (True, False):
        rt, mc, tree = feature_tree(d)
        model = ck.lean_batch(["resolve %d 0" % (1 if d else 0)])[0]
        want = "runtime=%s macro=%s" % ("true" if rt else "false", "true" if mc else "false")
        if model != want:
            dis += 1
            ck.report("corr:wiring:default=%s" % d, "cargo's feature resolution differs from the model's (translator or resolve is wrong, or the wiring changed in a way the model does not cover)",
                      dict(default_features=d, cargo=want, model=model, tree=tree[:1500], broken="translator tools/gen_wiring.py / resolve; all C16 theorems depend on it"), no_input=True)
    ck.corr_record("translator (Cargo.toml feature tables -> Generated/Wiring.lean) and resolve vs `cargo tree -e features` on a dependent crate with and without default features",
                   2, 2, dis, {}, samples=[dict(selection="default-features = false", model=ck.lean_batch(["resolve 0 0"])[0])], exhaustive=True,
                   rule="both selections a dependent can make without naming the feature; the explicit `features=[\"regex\"]` selections coincide with the default ones for this graph")
    # --- the same corpus built in both configurations
    n = 160 if ck.tier == "quick" else 1500
    a = t3.run_corpus(ck, "c16", n, per_bin=20, allow_regex=False, default_features=True)
    b = t3.run_corpus(ck, "c16", n, per_bin=20, allow_regex=False, default_features=False, seed_salt=0)
    diff = 0
    dist = {}
    for ca, cb in zip(a, b):
        ga = (ca.got[0], [tuple(e[:4]) for e in ca.got[1]])
        gb = (cb.got[0], [tuple(e[:4]) for e in cb.got[1]])
        dist[ca.got[0] + "/" + cb.got[0]] = dist.get(ca.got[0] + "/" + cb.got[0], 0) + 1
        if ga != gb:
            diff += 1
            ck.report("config-dependent:%s" % "+".join(sorted(ca.forms))[:50],
                      "an assertion that uses neither a regex literal nor the string-regex Like impls behaves differently with default features off",
                      dict(with_default=t3.describe(ca), without_default=t3.describe(cb)))
    ck.corr_record("T3 two configurations (one generated corpus without regex forms, built with default features and with default-features = false; verdicts and recorded entries compared)",
                   2 * len(a), len({c.text + c.value_text for c in a}), diff, dist,
                   samples=[dict(invocation="assert_struct!(%s)" % a[0].text[:150], default=a[0].got[0], no_default=b[0].got[0])],
                   rule="type-directed seeded generation with the regex forms disabled (user Like impls kept); distinct = distinct (invocation, value)")
    # --- user Like patterns in every position, matching and failing: verdict AND report text must not depend on the configuration
    import positions as P
    la = t3.run_corpus(ck, "c16like", 4 if ck.tier == "quick" else 60, per_bin=20, allow_regex=False, positions=like_cases, default_features=True)
    lb = t3.run_corpus(ck, "c16like", 4 if ck.tier == "quick" else 60, per_bin=20, allow_regex=False, positions=like_cases, default_features=False)
    ldist = {}
    ldiff = 0
    for ca, cb in zip(la, lb):
        ga = (ca.got[0], [tuple(e[:4]) for e in ca.got[1]])
        gb = (cb.got[0], [tuple(e[:4]) for e in cb.got[1]])
        k_ = "%s %s/%s" % ("like" if "like" in ca.forms else "other", ca.got[0], cb.got[0])
        ldist[k_] = ldist.get(k_, 0) + 1
        if ga != gb:
            ldiff += 1
            ck.report("config-dependent:%s:%s" % (ca.position, "+".join(sorted(ca.forms))[:40]),
                      "an assertion with a user-written Like pattern behaves or reports differently with default features off",
                      dict(with_default=t3.describe(ca), without_default=t3.describe(cb), position=ca.position))
    ck.corr_record("T3 user Like patterns in 17 positions, two configurations (verdicts and recorded entries, label texts included, compared)",
                   2 * len(la), len({c.text + c.value_text for c in la}), ldiff, ldist,
                   samples=[dict(invocation="assert_struct!(%s)" % la[0].text[:150], default=la[0].got[0], no_default=lb[0].got[0])] if la else [],
                   rule="four string bases with a forced user Like pattern (two matching, two failing) plus seeded bases with the forms restricted to user Like / string literal / equality, wrapped in every position; distinct = distinct (invocation, value)")
    # --- accept / reject of the Like forms per configuration
    adist = {}
    for d in (True, False):
        proj = e2e.Project("c16ar", default_features=d)
        try:
            for name, (setup, inv, acc_default, acc_nodefault) in PROGS.items():
                proj.add_bin(name.replace("-", "_"), t3.HEADER + "#[derive(Debug)] struct W { s: String }\nfn main() { %s let r = std::panic::catch_unwind(|| { assert_struct!(%s); }); println!(\"{}\", if r.is_ok() { \"PASS\" } else { \"FAIL\" }); }\n" % (setup, inv))
            res = proj.build(check_only=True)
            for name, (setup, inv, acc_default, acc_nodefault) in PROGS.items():
                ok = res[name.replace("-", "_")]["ok"]
                want = acc_default if d else acc_nodefault
                adist["%s default=%s accepted=%s" % (name, d, ok)] = 1
                if want is not None and ok != want:
                    diags = res[name.replace("-", "_")]["diags"]
                    ck.report("like-acceptance:%s:default=%s" % (name, d),
                              ("rejected although it must be accepted" if want else "accepted although it must be rejected") + " with default features %s: %s" % ("on" if d else "off", name),
                              dict(program=inv, setup=setup, default_features=d, accepted=ok, rustc=[(x["code"], x["message"]) for x in diags][:3]))
        finally:
            proj.cleanup()
    ck.corr_record("T3 Like forms per configuration (user Like impl, regex literal, String pattern through the built-in impls, plain string) accepted / rejected by rustc",
                   2 * len(PROGS), 2 * len(PROGS), 0, adist, samples=[dict(program=PROGS["regex-literal"][1])], exhaustive=True, rule="%d programs x 2 configurations" % len(PROGS))
    import parsetie
    items_tie(ck)
    parsetie.light_tie(ck, "C16: the compiled programs' expectations read patterns with the model parser")
    ck.assumptions += ["cargo's additive feature unification is modelled by `resolve` for this two-crate graph and compared with `cargo tree -e features` on every run"]
    ck.trusted.append("the manifest translator tools/gen_wiring.py (its output is compared with cargo's own resolution on every run)")
