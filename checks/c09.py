"""C09 - the asserted value is only borrowed."""
import t2
import t3
import tgen
import positions as P

# How the asserted expression is WRITTEN at the root: whatever its syntactic form, the assertion only borrows what it names.
ROOT_FORMS = [("method-ref", "h.get()"), ("method-value", "h.take_clone()"), ("field", "h.inner"), ("index", "xs[0]"), ("deref-box", "*b"), ("borrow", "&v"),
              ("call", "idt(&v)"), ("paren", "(v)"), ("method-chain", "h.get().clone()"), ("method-on-vec", "xs.first().unwrap()"), ("method-on-box", "b.as_ref()"),
              ("nested-field-method", "hh.inner.get()"), ("block", "{ &v }")]
ROOT_DECLS = ("#[derive(Debug, Clone)] struct Holder<T> { inner: T }\nimpl<T: Clone> Holder<T> { fn get(&self) -> &T { &self.inner } fn take_clone(&self) -> T { self.inner.clone() } }\n"
              "fn idt<T>(x: &T) -> &T { x }\n")
ROOT_SETUP = ("let h = Holder { inner: v.clone() }; let hh = Holder { inner: h.clone() }; let xs = vec![v.clone()]; let b = Box::new(v.clone());\n"
              'let before = format!("{:?} {:?} {:?} {:?} {:?}", v, h, hh, xs, b);')
ROOT_POST = 'let after = format!("{:?} {:?} {:?} {:?} {:?}", v, h, hh, xs, b); println!("X %d same={}", before == after);'

MOVE_CODES = {"E0382", "E0505", "E0507", "E0508", "E0509", "E0373"}


def cases_fn(nonclone=True):
    def make(rng, nbase):
        cases = []
        k = 0
        forced = ["map", "map", "set", "set", "vec", "option"]
        # every leaf form that applies to a non-Copy payload (a String), in every position: the generated patterns below put a leaf of
        # a given form directly into a given position only by chance (a closure directly on a wildcard-struct field: seed C09-11)
        from checks import c11
        atoms = [(t, form, shape) for (t, form, shape) in c11.ATOM_FORMS if t == ("string",)]
        for b in range(nbase + len(forced) + len(atoms)):
            g = tgen.Gen(rng)
            # non-Copy payloads: strings, vectors, structs and enums holding them; maps and sets (every std map is non-Copy)
            if b >= nbase + len(forced):
                t, form, shape = atoms[b - nbase - len(forced)]
                v0 = g.gen_val(t)
                pg = tgen.PatGen(g, rng, root_is_ref=True)
                pg.force, pg.force_shape = form, shape
                pat = pg.pat(v0, t, depth=1)
                v = v0
                extra = "(v %s (int 0)) (v %s (str %s)) %s" % (tgen.hexs("0"), tgen.hexs('"k"'), tgen.hexs("k"), P.METHOD_MEANINGS)
                for pos in P.POSITIONS:
                    c = t3.Case()
                    c.id = k
                    k += 1
                    c.base, c.position, c.gen, c.ty, c.value = b, pos, g, t, v
                    c.inner_pattern = pat
                    c.form = tgen.top_form(pat)
                    c.forms = dict(pg.forms_used)
                    c.meanings = pg.meanings_sexp()[:-1] + " " + extra + ")"
                    wd, wt, wv, wp, ws = P.wrap(pos, g, t, v, pat)
                    t3.finish_case(c, g.decls() + "\n" + wd, wt, wv, ws, wp)
                    c.setup = 'let before = format!("{:?}", v);'
                    c.post = 'let after = format!("{:?}", v); println!("X %d same={}", before == after);' % c.id
                    cases.append(c)
                continue
            if b < len(forced):
                t = None
                for _ in range(30):
                    t = g.gen_type(2, allow=(forced[b],))
                    if t[0] == forced[b]:
                        break
            else:
                t = g.gen_type(rng.choice([0, 1, 1, 2]), allow=("atom", "option", "vec", "tuple", "struct", "enum"))
            if t[0] in ("int", "bool", "char", "f64", "strref"):
                t = ("string",)
            v0 = g.gen_val(t)
            pg = tgen.PatGen(g, rng, root_is_ref=True)
            pat = pg.pat(v0, t, depth=1)
            v = v0 if rng.random() < 0.6 else g.perturb(v0, t, 0.5)
            extra = "(v %s (int 0)) (v %s (str %s)) %s" % (tgen.hexs("0"), tgen.hexs('"k"'), tgen.hexs("k"), P.METHOD_MEANINGS)
            for pos in P.POSITIONS:
                c = t3.Case()
                c.id = k
                k += 1
                c.base, c.position, c.gen, c.ty, c.value = b, pos, g, t, v
                c.inner_pattern = pat
                c.form = tgen.top_form(pat)
                c.forms = dict(pg.forms_used)
                c.meanings = pg.meanings_sexp()[:-1] + " " + extra + ")"
                wd, wt, wv, wp, ws = P.wrap(pos, g, t, v, pat)
                t3.finish_case(c, g.decls() + "\n" + wd, wt, wv, ws, wp)
                c.setup = 'let before = format!("{:?}", v);'
                c.post = 'let after = format!("{:?}", v); println!("X %d same={}", before == after);' % c.id
                cases.append(c)
            if b < 14:
                for fname, asserted in ROOT_FORMS:
                    c = t3.Case()
                    c.id = k
                    k += 1
                    c.base, c.position, c.gen, c.ty, c.value = b, "root:" + fname, g, t, v
                    c.inner_pattern = pat
                    c.form = tgen.top_form(pat)
                    c.forms = dict(pg.forms_used)
                    c.meanings = pg.meanings_sexp()[:-1] + " " + extra + ")"
                    t3.finish_case(c, g.decls() + "\n" + ROOT_DECLS, g.rust_type(t), g.rust_expr(v, t), tgen.sexp(v), pat)
                    c.text = asserted + ", " + pat
                    c.setup = ROOT_SETUP
                    c.post = ROOT_POST % c.id
                    cases.append(c)
            if b < 14:
                # The asserted expression reaches the macro THROUGH THE CALLER'S OWN MACROS: a `macro_rules!` helper that forwards an `expr`
                # fragment (the macro then sees an invisible group around it), an expression macro that expands to a place. The pattern is
                # written in the helper's definition (the shape that compiles, see DESIGN 9); the generated one and a closure that
                # accepts any value.
                anyc = "|x| format!(\"{:?}\", x).len() < 1000000"
                for pname, ptxt in (("generated", pat), ("closure", anyc)):
                    for fname, call, asserted in (("forwarded-variable", "fwd!(v)", "v"), ("forwarded-field", "fwd!(h.inner)", "h.inner"), ("forwarded-index", "fwd!(xs[0])", "xs[0]"),
                                                  ("forwarded-deref", "fwd!(*b)", "*b"), ("place-macro", None, "place!(v)"), ("place-macro-field", None, "place!(h.inner)")):
                        c = t3.Case()
                        c.id = k
                        k += 1
                        c.base, c.position, c.gen, c.ty, c.value = b, "root:%s:%s" % (fname, pname), g, t, v
                        c.inner_pattern = ptxt
                        c.form = tgen.top_form(ptxt)
                        c.forms = dict(pg.forms_used)
                        c.meanings = pg.meanings_sexp()[:-1] + " " + extra + ")"
                        helper = "macro_rules! fwd { ($value:expr) => { assert_struct!($value, %s) } }\nmacro_rules! place { ($e:expr) => { $e } }\n" % ptxt.replace("\n", " ")
                        t3.finish_case(c, g.decls() + "\n" + ROOT_DECLS + helper, g.rust_type(t), g.rust_expr(v, t), tgen.sexp(v), ptxt)
                        c.text = asserted + ", " + ptxt
                        if call:
                            c.custom_invocation = call
                        c.setup = ROOT_SETUP
                        c.post = ROOT_POST % c.id
                        cases.append(c)
        return cases
    return make


def run(ck):
    ck.prove(["AsModel.Theorems.C09", "AsModel.Theorems.C09Tokens"])
    ck.build_harness("inproc")
    n = 30 if ck.tier == "quick" else 250
    cases = t3.run_corpus(ck, "c09", n, per_bin=16, positions=cases_fn())
    dist = {}
    nontriv = set()
    for c in cases:
        gk = c.got[0]
        key = "%s/%s" % (P.POSITION_CLASS.get(c.position, c.position), c.form)
        dist[c.position + ":" + gk] = dist.get(c.position + ":" + gk, 0) + 1
        if c.form != "wild":
            nontriv.add(c.text + c.value_text)
        if gk == "rejected":
            code = c.got[2].split(" ")[0]
            if code in MOVE_CODES:
                ck.report("moves:%s" % key, "the assertion moves out of (or holds a conflicting borrow of) the asserted value: the value cannot be used afterwards",
                          dict(t3.describe(c), position=c.position, form=c.form, rustc=c.got[2], program_tail=c.post))
        elif gk in ("pass", "fail"):
            if getattr(c, "extra", {}).get("same") != "true":
                ck.report("mutates:%s" % key, "the asserted value is not the same after the assertion", dict(t3.describe(c), extra=getattr(c, "extra", {})))
    ck.corr_record("T3 value reuse (generated programs use the asserted value after the assertion; rustc's move checker and a before/after Debug comparison decide)",
                   len(cases), len(nontriv), 0, dist,
                   samples=[dict(position=c.position, invocation="assert_struct!(%s)" % c.text, value=c.value_text, outcome=c.got[0]) for c in cases[:3]],
                   rule="seeded non-Copy (type, value, pattern) bases x the 19 positions, and x 13 ways of writing the asserted expression at the root (method call, field, index, deref, borrow, call, block, ...; forwarded through a caller's `macro_rules!` helper as an `expr` fragment, produced by an expression macro) with every owner used afterwards; distinct = distinct (invocation, value); non-trivial = the inner pattern is not `_`")
    # C09_root_not_consumed and the consumes judgment are about the generator model: tie it to the real expansion
    res = t2.run(ck)
    mm = t2.record(ck, res, ("body",), "how the value expression is bound and handed on")
    if mm and not [v for v in ck.violations if not v["no_input"]]:
        ck.report("corr:T2-body", "the model of the code generator no longer matches the real expansion (%d inputs differ)" % len(mm),
                  dict(broken="correspondence T2 (expansion tokens)", theorems=["C09_root_not_consumed"], first=mm[:3]), no_input=True)
    import parsetie
    parsetie.light_tie(ck, "C09: the compiled programs' expectations read patterns with the model parser")
    ck.assumptions += ["rustc's borrow checker is the oracle for 'moves'; the model's `consumes` judgment (AsModel.Static) is validated against it cell by cell"]
