"""C01 - see properties.jsonl; shared machinery in lib/verdicts.py."""
import verdicts


def run(ck):
    verdicts.check(ck, "C01", ["AsModel.Theorems.C01"])
