import AsModel.ParseIO
import AsModel.Anchor
import AsModel.Extents
import AsModel.Wire
import AsModel.Runtime.SetMatch
import AsModel.Runtime.Offset
import AsModel.Runtime.SrcPath
import AsModel.Runtime.Label
import AsModel.Runtime.Cache
import AsModel.Runtime.Report
import AsModel.SExp
import AsModel.Render
import AsModel.Temporaries
import AsModel.RustPrims
import AsModel.Exec
import AsModel.Effects
import AsModel.RuntimeItems
import AsModel.WiringResolve
/-!
Line-protocol driver: one request per stdin line, one answer per stdout line.
The Rust harnesses answer the same lines by calling the real code; the check
driver diffs the two streams.  Requests the model rejects are answered `bad-op`.
-/
open AsModel AsModel.Wire AsModel.Runtime

def parseKind (spec : String) : Option NodeKind :=
  let b (s : String) : Bool := s == "1"
  match spec.splitOn ":" with
  | ["slice", n, r] => n.toNat?.map fun n => .slice (List.replicate n 0) (b r)
  | ["set", n, r] => n.toNat?.map fun n => .set (List.replicate n 0) (b r)
  | ["tuple", n] => n.toNat?.map fun n => .tuple (List.replicate n 0)
  | ["map", n, r] => n.toNat?.map fun n => .map (List.replicate n ("", 0)) (b r)
  | ["struct", name, r] => (unhex name).map fun s => .struct s [] (b r)
  | ["enum", path, a] => (unhex path).map fun s => .enumVariant s (if b a then some [0] else none)
  | ["simple", v] => (unhex v).map .simple
  | ["cmp", op, v] =>
    let op? : Option CmpOp := match op with
      | "lt" => some .lt | "le" => some .le | "gt" => some .gt
      | "ge" => some .ge | "eq" => some .eq | "ne" => some .ne | _ => none
    match op?, unhex v with
    | some o, some s => some (.comparison o s)
    | _, _ => none
  | ["range", v] => (unhex v).map .range
  | ["regex", v] => (unhex v).map .regex
  | ["like", v] => (unhex v).map .like
  | ["wildcard"] => some .wildcard
  | ["closure", v] => (unhex v).map .closure
  | _ => none

def parseRow (s : String) : List Bool := if s = "-" then [] else s.toList.map (· == '1')

structure DEntry where
  ls : Nat
  cs : Nat
  le : Nat
  ce : Nat
  kind : NodeKind
  actual : String
  expected : Option String

def parseEntries : Nat → List String → Option (List DEntry)
  | 0, _ => some []
  | n + 1, ls :: cs :: le :: ce :: k :: a :: e :: rest => do
    let ls ← ls.toNat?; let cs ← cs.toNat?; let le ← le.toNat?; let ce ← ce.toNat?
    let kind ← parseKind k
    let a ← unhex a
    let e ← optHex e
    let tl ← parseEntries n rest
    pure ({ ls, cs, le, ce, kind, actual := a, expected := e } :: tl)
  | _, _ => none

def joinOr (xs : List String) : String := if xs.isEmpty then "-" else ",".intercalate xs

mutual
partial def patLocs : Pat → List String
  | p => s!"{p.id}:{showSp p.location}" :: (match p with
    | .struct _ _ items _ | .enum _ _ items | .tuple _ _ items | .slice _ _ items
    | .set _ _ items _ | .map _ _ items _ => itemsLocs items
    | _ => [])
partial def itemsLocs : Items → List String
  | .nil => []
  | .cons _ _ p tl => patLocs p ++ itemsLocs tl
end

/-- Tab-separated requests carrying S-expressions. -/
def answerTab (fields : List String) : String :=
  match fields with
  -- expand <AST> <value tokens>  ->  ok <locations> <expansion tokens> | panic
  | ["expand", ast, value] =>
    match (SExp.parse ast).bind readPat, (SExp.parse value).bind readToks with
    | some p, some v =>
      if p.expandPanics then "panic"
      else s!"ok\t{" ".intercalate (patLocs p)}\t{showToks ((expand p).toks v)}"
    | _, _ => "bad-op"
  -- expandnj <AST> <value tokens>: the same for the pattern as a stable compiler session sees it (`Span::join` fails: `Pat.noJoin`)
  | ["expandnj", ast, value] =>
    match (SExp.parse ast).bind readPat, (SExp.parse value).bind readToks with
    | some p0, some v =>
      let p := p0.noJoin
      if p.expandPanics then "panic"
      else s!"ok\t{" ".intercalate (patLocs p)}\t{showToks ((expand p).toks v)}"
    | _, _ => "bad-op"
  -- frontier <AST> <value> <meanings>  ->  ok <entry>* | illtyped
  -- entry = node|location|hex(label)|hex(actual)|hex(expected) ; the specification's answer
  | ["frontier", ast, val, ms, join] =>
    match (SExp.parse ast).bind readPat, (SExp.parse val).bind readVal, (SExp.parse ms).bind readMeanings with
    | some p0, some v, some m =>
      -- under a real compiler session on stable `Span::join` returns `None`: set patterns anchor on `#`
      let p := if join = "nojoin" then p0.noJoin else p0
      match frontier (rustPrims m) p v with
      | none => "illtyped"
      | some es =>
        let nodes := genNodes p none
        let shown := es.map fun e =>
          match nodes.lookup e.node with
          | some d => s!"{e.node}|{showSp d.loc}|{hex (errorLabel d.kind e.actual e.expected)}|{hex e.actual}|{match e.expected with | some x => hex x | none => "none"}"
          | none => s!"{e.node}|?|?|{hex e.actual}|?"
        "ok\t" ++ " ".intercalate shown
    | _, _, _ => "bad-op"
  -- execcmp <AST> <value> <meanings>: does the model of the expansion (exec ∘ expand) agree with the specification?
  | ["execcmp", ast, val, ms] =>
    match (SExp.parse ast).bind readPat, (SExp.parse val).bind readVal, (SExp.parse ms).bind readMeanings with
    | some p, some v, some m =>
      let a := frontier (rustPrims m) p v
      let b := run (rustPrims m) (expand p) v
      let sh (r : Option (List Entry)) : String := match r with
        | none => "illtyped"
        | some es => "[" ++ ",".intercalate (es.map showEntry) ++ "]"
      if sh a == sh b then "same " ++ (if a.isSome then "ok" else "illtyped") else s!"diff spec={sh a} exec={sh b}"
    | _, _, _ => "bad-op"
  -- items <AST> <value tokens>: the runtime items the table says the expansion names vs the ones its rendered tokens name
  | ["items", ast, value] =>
    match (SExp.parse ast).bind readPat, (SExp.parse value).bind readToks with
    | some p, some v =>
      if p.expandPanics then "panic"
      else
        let x := expand p
        let d := x.declaredItems
        let s := x.scannedItems v
        let same := d.all s.contains && s.all d.contains
        s!"{if same then "same" else "diff"}\t{",".intercalate d}\t{",".intercalate s}\t{",".intercalate (dedupS x.body.kinds)}"
    | _, _ => "bad-op"
  -- evalcost <AST> <value> <meanings> <hex method name | ->: the tally of the model's run (`runT`, Effects.lean):
  --   ok <entries> <calls of that method (of every method for `-`)> <index operations> <awaits> <Debug calls> <root evaluations>
  -- root evaluations: `let __assert_struct_value = &(expr);` is emitted iff the assertion code is not empty
  | ["evalcost", ast, val, ms, meth] =>
    match (SExp.parse ast).bind readPat, (SExp.parse val).bind readVal, (SExp.parse ms).bind readMeanings with
    | some p, some v, some m =>
      let name : Option String := if meth == "-" then none else unhex meth
      let wc : Weights := ⟨fun n => match name with | some x => if n == x then 1 else 0 | none => 1, 0, 0⟩
      let x := expand p
      match runT wc (rustPrims m) x v, runT ⟨fun _ => 0, 1, 0⟩ (rustPrims m) x v, runT ⟨fun _ => 0, 0, 1⟩ (rustPrims m) x v with
      | some a, some b, some c =>
        let rootEvals := if (x.body.toks []).isEmpty then 0 else 1
        s!"ok {a.entries.length} {a.steps} {b.steps} {c.steps} {a.debugs} {rootEvals}"
      | _, _, _ => "illtyped"
    | _, _, _ => "bad-op"
  -- parse <token trees> <oracle>: the parser model on the harness's dump of an invocation
  | ["parse", ts, orc] =>
    match (SExp.parse ts).bind readTTs, (SExp.parse orc).bind readOracle with
    | some ts, some o =>
      showOutcome (parseAssert o ts (2 * ttCount ts + 16) 0) ++
        s!"\tspans={if oracleSpansOk ts o then "ok" else "BAD"}\ttokens={if tokensWf ts then "ok" else "BAD"}"
    | _, _ => "bad-op"
  -- extents <token trees> <oracle>: own tokens of every node of the accepted pattern (C04's statement on the implementation)
  | ["extents", ts, orc] =>
    match (SExp.parse ts).bind readTTs, (SExp.parse orc).bind readOracle with
    | some ts, some o =>
      match parseAssert o ts (2 * ttCount ts + 16) 0 with
      | .accept _ p _ =>
        let c0 : Cur := { path := [], total := ts.length, rest := ts, scope := Sp.callSite }
        match exprLen o c0 with
        | some n =>
          match extPat o p ((c0.advance n).advance 1) with
          | some (c', es) => if c'.rest.isEmpty then "ok\t" ++ showExtents es else "walk-incomplete"
          | none => "walk-failed"
        | none => "walk-failed"
      | _ => "not-accepted"
    | _, _ => "bad-op"
  | _ => "bad-op"

def answer (line : String) : String :=
  if line.contains '\t' then answerTab (line.splitOn "\t") else
  match (line.splitOn " ").filter (· ≠ "") with
  | "setmatch" :: rest :: p :: e :: rows =>
    match p.toNat?, e.toNat? with
    | some p, some e =>
      let m := rows.map parseRow
      let M : Nat → Nat → Bool := fun k i => ((m.getD k []).getD i false)
      let pushes := setMatch e (rest == "1") p M
      if pushes.isEmpty then "[]"
      else ";".intercalate (pushes.map fun pu => s!"push|{pu.actual}|{pu.expected.getD "<none>"}")
    | _, _ => "bad-op"
  | ["offset", src, l, c] =>
    match unhex src, l.toNat?, c.toNat? with
    | some s, some l, some c => toString (byteOffsetOf s.toList l c)
    | _, _, _ => "bad-op"
  | ["offset0", src, l, c] =>
    match unhex src, l.toNat?, c.toNat? with
    | some s, some l, some c => toString (byteOffsetOfV0 s.toList l c)
    | _, _, _ => "bad-op"
  -- specification side: where is character i, and which byte is it
  | ["posof", src, i] =>
    match unhex src, i.toNat? with
    | some s, some i =>
      let p := posOf s.toList i
      s!"{p.1} {p.2} {utf8Len (s.toList.take i)}"
    | _, _ => "bad-op"
  | ["render", src, a, b] =>
    match unhex src, a.toNat?, b.toNat? with
    | some s, some a, some b => if rendererOk s.toList a b then "ok" else "panic"
    | _, _, _ => "bad-op"
  -- cachesched <paths: 0.1.0> <fs: per path content id, 0 = unreadable: 5.0.7> <warm: 1.0.0> <schedule: 0.1.1.0>
  -- the transition system of cached_source under a schedule: after every step the thread's program counter
  -- (or `blocked` / `finished`), then every thread's result and the final cache
  | ["cachesched", paths, fs, warm, sched] =>
    let nums (x : String) : List Nat := if x == "-" then [] else (x.splitOn ".").filterMap String.toNat?
    let ps := nums paths
    let fsl := nums fs
    let wl := nums warm
    let fsf : FilePath → Option Content := fun p => match fsl[p]? with | some 0 => none | some c => some c | none => none
    let cache0 : FilePath → Option Content := fun p => if wl[p]? == some 1 then fsf p else none
    let pcName : Pc → String
      | .wantRead => "wantRead" | .reading => "reading" | .fsRead => "fsRead" | .wantWrite => "wantWrite"
      | .writing => "writing" | .returning => "returning" | .done => "done"
    let s0 : CState := { cache := cache0, threads := ps.map fun p => ⟨p, .wantRead, 0, none⟩ }
    let rec go (s : CState) (sc : List Nat) (acc : List String) : CState × List String :=
      match sc with
      | [] => (s, acc.reverse)
      | i :: rest =>
        match s.threads[i]? with
        | none => go s rest ("?" :: acc)
        | some t =>
          if t.pc == .done then go s rest ("finished" :: acc)
          else match step fsf s i with
            | none => go s rest ("blocked" :: acc)
            | some s' =>
              let pc := match s'.threads[i]? with | some t' => pcName t'.pc | none => "?"
              go s' rest (pc :: acc)
    let (sf, obs) := go s0 (nums sched) []
    let res := sf.threads.map fun t => match t.result with
      | none => "unfinished" | some none => "none" | some (some c) => toString c
    let cache := (List.range fsl.length).map fun p => match sf.cache p with | some c => toString c | none => "-"
    s!"{" ".intercalate obs}|{" ".intercalate res}|{" ".intercalate cache}"
  | ["resolve", d, r] =>
    let c := AsModel.Generated.resolve AsModel.Generated.wiring ⟨d == "1", r == "1"⟩
    s!"runtime={c.runtimeRegex} macro={c.macroRegex}"
  -- dangles <let | match | string | set | string-pinned | set-pinned> <steps: p (place) v (call by value) b (borrowing call), dot-separated>
  | ["dangles", hold, steps] =>
    let h : Option AsModel.Hold := match hold with
      | "let" => some .letRef
      | "match" => some .statement
      | "string" => some (AsModel.Code.string default default default "" default).hold
      | "set" => some (AsModel.Code.set default .nil false 0).hold
      | "string-pinned" => some (AsModel.Code.string default default default "" default).holdPinned
      | "set-pinned" => some (AsModel.Code.set default .nil false 0).holdPinned
      | _ => none
    let st : Option (List AsModel.Step) := (steps.splitOn ".").filter (· ≠ "") |>.mapM fun
      | "p" => some .place | "v" => some .callValue | "b" => some .callBorrow | _ => none
    match h, st with
    | some h, some st => toString (AsModel.dangles h st)
    | _, _ => "bad-op"
  | ["abspath", m, f] =>
    match unhex m, unhex f with
    | some m, some f => hex (absoluteSourcePath m f)
    | _, _ => "bad-op"
  | ["label", k, a, e] =>
    match parseKind k, unhex a, optHex e with
    | some k, some a, some e => hex (errorLabel k a e)
    | _, _, _ => "bad-op"
  -- display <hex manifest> <hex file> <plain> <src: hex | none> <n> entries…
  -- the report is built as the expansion builds it (`Report.new`, one `push` per entry) and displayed by the model of
  -- `Display for ErrorReport` (Runtime/Report.lean, the function the C06 / C17 / C18 report theorems are about)
  | "display" :: m :: f :: _plain :: src :: n :: rest =>
    match unhex m, unhex f, n.toNat? with
    | some m, some f, some n =>
      match parseEntries n rest with
      | none => "bad-op"
      | some es =>
        let r := es.foldl (fun r e => r.push ⟨e.kind, e.ls, e.cs, e.le, e.ce⟩ e.actual e.expected) (Report.new m f)
        let source : Option (Option (List Char)) :=
          if src = "none" then some none else (unhex src).map fun s => some s.toList
        match source with
        | none => "bad-op"
        | some source =>
          match r.display source true false false with
          | .nothing => "ok spans=- labels=- out=-"
          | .listing out => s!"ok spans=- labels={joinOr (r.errors.map fun e => hex e.label)} out={hex out}"
          | .snippet _ _ as =>
            s!"ok spans={joinOr (as.map fun a => s!"{a.start}-{a.stop}")} labels={joinOr (as.map fun a => hex a.label)} out=*"
    | _, _, _ => "bad-op"
  | _ => "bad-op"

partial def loop (h : IO.FS.Stream) (out : IO.FS.Stream) : IO Unit := do
  let line ← h.getLine
  if line.isEmpty then return ()
  out.putStrLn (answer ((line.dropEndWhile (· == '\n')).toString))
  loop h out

def main : IO Unit := do
  let out ← IO.getStdout
  loop (← IO.getStdin) out
  out.flush
