import Lean
/-!
`lake env lean --run Audit.lean AsModel.Theorems.C10`

Prints, for every theorem declared in the given module and in every `AsModel.*`
module it (transitively) imports, one line `thm <module> <name> <axioms…>`.
The check driver counts these as proof obligations and rejects any axiom outside
`propext`, `Classical.choice`, `Quot.sound`.
-/
open Lean

def main (args : List String) : IO UInt32 := do
  let some modStr := args[0]? | do
    IO.eprintln "usage: Audit <module>"
    return 2
  initSearchPath (← findSysroot)
  let env ← importModules #[{ module := modStr.toName }] {}
  let names := env.header.moduleNames
  let mut out : Array String := #[]
  let ctx : Core.Context := { fileName := "<audit>", fileMap := default }
  let st : Core.State := { env }
  for (n, ci) in env.constants.map₁.toList do
    match ci with
    | .thmInfo _ =>
      match env.getModuleIdxFor? n with
      | some idx =>
        let m := names[idx.toNat]!
        if (`AsModel).isPrefixOf m && !n.isInternalDetail then
          let (axs, _) ← (collectAxioms n : CoreM _).toIO ctx st
          out := out.push s!"thm {m} {n} {" ".intercalate (axs.toList.map toString)}"
      | none => pure ()
    | _ => pure ()
  for l in out.qsort (· < ·) do IO.println l
  return 0
