import AsModel.Runtime.SetMatch
import AsModel.Proofs.SetMatch
import AsModel.Theorems.C10
