import AsModel.Generated.Wiring
/-
cargo's additive feature resolution for the two-crate graph, over the generated wiring table.
Kept apart from the theorems so that the driver builds whatever the manifests say.
-/
namespace AsModel.Generated

structure Selection where
  defaultFeatures : Bool     -- `default-features` of the dependent's `assert-struct` line
  regex : Bool               -- `features = ["regex"]` written explicitly
  deriving DecidableEq, Repr

structure Cfgs where
  runtimeRegex : Bool        -- `cfg(feature = "regex")` in assert-struct
  macroRegex : Bool          -- `cfg(feature = "regex")` in assert-struct-macros
  deriving DecidableEq, Repr

def resolve (w : Wiring) (sel : Selection) : Cfgs :=
  let rt := (sel.defaultFeatures && w.rtDefault.contains "regex") || sel.regex
  let mc := (w.macroDepDefaultFeatures && w.macroDefault.contains "regex") ||
    w.macroDepFeatures.contains "regex" || (rt && w.rtRegex.contains "assert-struct-macros/regex")
  ⟨rt, mc⟩


end AsModel.Generated
