import AsModel.Parse
import AsModel.SExp
import AsModel.Nodes
/-
Driver-side: which tokens belong to each node of an accepted pattern.  An AST-directed walk over
the token tree (no parsing decisions of its own: the pattern says what comes next, the oracle
says how long an expression or path is).  The check uses the extents to evaluate C04's statement
itself on the implementation's locations: inside the node's own tokens, starting on one of them,
outside its children.
-/
namespace AsModel

structure NodeExtent where
  id : Nat
  kind : String
  first : Sp          -- span of the first own token
  last : Sp           -- span of the last own token (a group: its closing delimiter)
  children : List Nat
  deriving Inhabited

def TT.lastSp : TT → Sp
  | .ident _ sp _ | .punct _ _ sp | .lit _ _ sp _ => sp
  | .group _ _ _ sc _ => sc

def TT.firstSp : TT → Sp
  | .ident _ sp _ | .punct _ _ sp | .lit _ _ sp _ => sp
  | .group _ _ so _ _ => so

/-- Extent of the `k` tokens at `c`. -/
def runExtent (c : Cur) (k : Nat) : Option (Sp × Sp) :=
  match (c.rest.take k).head?, (c.rest.take k).getLast? with
  | some a, some b => some (a.firstSp, b.lastSp)
  | _, _ => none

/-- Skip to just behind the first `:` that is not part of `::` at this nesting level. -/
def skipColon : List TT → Nat → Option Nat
  | [], _ => none
  | .punct ':' false _ :: _, n => some (n + 1)
  | .punct ':' true _ :: .punct ':' _ _ :: rest, n => skipColon rest (n + 2)
  | .punct ':' true _ :: _, n => some (n + 1)
  | _ :: rest, n => skipColon rest (n + 1)

def exprLen (o : Oracle) (c : Cur) : Option Nat := (o.exprs.lookup (c.path, c.idx)).map (·.1)
def pathLen (o : Oracle) (c : Cur) : Option Nat := (o.paths.lookup (c.path, c.idx)).map (·.1)
def closureLen (o : Oracle) (c : Cur) : Option Nat := (o.closures.lookup (c.path, c.idx)).map (·.1)

def skipComma (c : Cur) : Cur := if isPunct ',' c.rest then c.advance 1 else c

def groupInner (c : Cur) : Option Cur :=
  match c.rest with
  | .group _ _ _ sc ts :: _ => some (c.inner ts sc)
  | _ => none

mutual
/-- Returns the cursor behind the pattern and the extents of the pattern and its sub-patterns. -/
def extPat (o : Oracle) : Pat → Cur → Option (Cur × List NodeExtent)
  | .simple id _, c => do
    let n ← exprLen o c
    let (a, b) ← runExtent c n
    pure (c.advance n, [⟨id, "simple", a, b, []⟩])
  | .range id _, c => do
    let n ← exprLen o c
    let (a, b) ← runExtent c n
    pure (c.advance n, [⟨id, "range", a, b, []⟩])
  | .closure id _, c => do
    let n ← closureLen o c
    let (a, b) ← runExtent c n
    pure (c.advance n, [⟨id, "closure", a, b, []⟩])
  | .string id _ _ _, c => do
    let (a, b) ← runExtent c 1
    pure (c.advance 1, [⟨id, "string", a, b, []⟩])
  | .wild id, c => do
    let (a, b) ← runExtent c 1
    pure (c.advance 1, [⟨id, "wild", a, b, []⟩])
  | .cmp id op _ _, c => do
    let j := match op with | .lt | .gt => 1 | _ => 2
    let n ← exprLen o (c.advance j)
    let (a, b) ← runExtent c (j + n)
    pure (c.advance (j + n), [⟨id, "cmp", a, b, []⟩])
  | .regex id _ _, c => do
    let n ← exprLen o (c.advance 2)
    let (a, b) ← runExtent c (2 + n)
    pure (c.advance (2 + n), [⟨id, "regex", a, b, []⟩])
  | .like id _, c => do
    let n ← exprLen o (c.advance 2)
    let (a, b) ← runExtent c (2 + n)
    pure (c.advance (2 + n), [⟨id, "like", a, b, []⟩])
  | .tuple id _ items, c => do
    let ic ← groupInner c
    let (a, b) ← runExtent c 1
    let sub ← extItems o items ic
    pure (c.advance 1, ⟨id, "tuple", a, b, items.ids⟩ :: sub)
  | .slice id _ items, c => do
    let ic ← groupInner c
    let (a, b) ← runExtent c 1
    let sub ← extItems o items ic
    pure (c.advance 1, ⟨id, "slice", a, b, items.ids⟩ :: sub)
  | .set id _ items _, c => do
    let ic ← groupInner (c.advance 1)
    let (a, b) ← runExtent c 2
    let sub ← extItems o items ic
    pure (c.advance 2, ⟨id, "set", a, b, items.ids⟩ :: sub)
  | .map id _ items _, c => do
    let ic ← groupInner (c.advance 1)
    let (a, b) ← runExtent c 2
    let sub ← extItems o items ic
    pure (c.advance 2, ⟨id, "map", a, b, items.ids⟩ :: sub)
  | .struct id none items _, c => do
    let ic ← groupInner (c.advance 1)
    let (a, b) ← runExtent c 2
    let sub ← extItems o items ic
    pure (c.advance 2, ⟨id, "wildstruct", a, b, items.ids⟩ :: sub)
  | .struct id (some _) items _, c => do
    let n ← pathLen o c
    let ic ← groupInner (c.advance n)
    let (a, b) ← runExtent c (n + 1)
    let sub ← extItems o items ic
    pure (c.advance (n + 1), ⟨id, "struct", a, b, items.ids⟩ :: sub)
  | .enum id _ items, c => do
    let n ← pathLen o c
    if isGroup .paren (c.advance n).rest then do
      let ic ← groupInner (c.advance n)
      let (a, b) ← runExtent c (n + 1)
      let sub ← extItems o items ic
      pure (c.advance (n + 1), ⟨id, "enum", a, b, items.ids⟩ :: sub)
    else do
      let (a, b) ← runExtent c n
      pure (c.advance n, [⟨id, "enum", a, b, []⟩])
def extItems (o : Oracle) : Items → Cur → Option (List NodeExtent)
  | .nil, _ => some []
  | .cons ops key p tl, c => do
    let c1 ← match ops, key with
      | some _, _ => (skipColon c.rest 0).map c.advance
      | none, some _ => do
        let n ← exprLen o c
        pure ((c.advance n).advance 1)
      | none, none => pure c
    let (c2, here) ← extPat o p c1
    let rest ← extItems o tl (skipComma c2)
    pure (here ++ rest)
end

def showExtents (es : List NodeExtent) : String :=
  " ".intercalate (es.map fun e =>
    s!"{e.id}:{e.kind}:{e.first.ls}.{e.first.cs}.{e.last.le}.{e.last.ce}:{",".intercalate (e.children.map toString)}")

end AsModel
