import AsModel.Parse
/-
The pattern language as a declarative grammar over token trees: which token sequences are a
pattern, and which pattern they are.  No control flow, no speculative parsing, no node counter,
no deferred-error flag, no recursion budget — only token shapes, what `syn` says about
expressions / paths / closures (the oracle, with its deferred-unexpected bit required clear) and
the requirement that the content of every delimited group is used up.

A judgement `G… c x c'` reads: starting at cursor `c`, the tokens up to cursor `c'` are an `x`.
Node ids are not part of the grammar (every rule allows any id).
-/
namespace AsModel
open Runtime (CmpOp)

/-- The next token is the punctuation character `ch`; `c'` is just behind it. -/
def PunctAt (ch : Char) (c : Cur) (sp : Sp) (c' : Cur) : Prop :=
  ∃ j rest, c.rest = .punct ch j sp :: rest ∧ c' = c.advance 1

/-- The next two tokens are the joint punctuation `ab`. -/
def Punct2At (a b : Char) (c : Cur) (sp : Sp) (c' : Cur) : Prop :=
  ∃ s1 j s2 rest, c.rest = .punct a true s1 :: .punct b j s2 :: rest ∧
    sp = ⟨s1.ls, s1.cs, s2.le, s2.ce⟩ ∧ c' = c.advance 2

/-- `syn` parses an expression here, cleanly (nothing left over inside its groups). -/
def ExprAt (o : Oracle) (c : Cur) (e : UExpr) (c' : Cur) : Prop :=
  ∃ n, o.exprs.lookup (c.path, c.idx) = some (n, false, e) ∧ c' = c.advance n

def PathAt (o : Oracle) (c : Cur) (p : UPath) (c' : Cur) : Prop :=
  ∃ n, o.paths.lookup (c.path, c.idx) = some (n, false, p) ∧ c' = c.advance n

def ClosureAt (o : Oracle) (c : Cur) (e : UExpr) (c' : Cur) : Prop :=
  ∃ n isp, o.closures.lookup (c.path, c.idx) = some (n, false, isp, e) ∧ c' = c.advance n

/-- The next token is a group delimited by `d`: `ic` is the cursor at the start of its content. -/
def GroupAt (d : Delim) (c : Cur) (spOpen spClose : Sp) (ic : Cur) (c' : Cur) : Prop :=
  ∃ sp ts rest, c.rest = .group d sp spOpen spClose ts :: rest ∧ ic = c.inner ts spClose ∧ c' = c.advance 1

/-- The content of a group is used up. -/
def Cur.atEnd (c : Cur) : Prop := c.rest = []

/-- Method-call arguments: expressions separated by commas, optional trailing comma. -/
inductive GArgs (o : Oracle) : Cur → List UExpr → Cur → Prop
  | nil (c) : GArgs o c [] c
  | last (c e c') : ExprAt o c e c' → GArgs o c [e] c'
  | cons (c e c1 sp c2 es c') : ExprAt o c e c1 → PunctAt ',' c1 sp c2 → GArgs o c2 es c' → GArgs o c (e :: es) c'

/-- One postfix field operation (`.0.1` lexes as a float and yields two operations). -/
inductive GOp (o : Oracle) : Cur → List FieldOp → Cur → Prop
  | await (c dot c1 sp kw rest) : PunctAt '.' c dot c1 → c1.rest = .ident "await" sp kw :: rest →
      GOp o c [.await sp] (c1.advance 1)
  | unnamed (c dot c1 text sp digits rest n) : PunctAt '.' c dot c1 → c1.rest = .lit .int text sp digits :: rest →
      tupleIndex? digits = some n → GOp o c [.unnamed n dot] (c1.advance 1)
  | float (c dot c1 text sp extra rest a b x y) : PunctAt '.' c dot c1 → c1.rest = .lit .float text sp extra :: rest →
      text.splitOn "." = [a, b] → tupleIndex? a = some x → tupleIndex? b = some y →
      (a.all Char.isDigit && b.all Char.isDigit && !a.isEmpty && !b.isEmpty) = true →
      GOp o c [.unnamed x dot, .unnamed y dot] (c1.advance 1)
  | named (c dot c1 n sp rest) : PunctAt '.' c dot c1 → c1.rest = .ident n sp false :: rest →
      GOp o c [.named ⟨n, sp⟩ dot] (c1.advance 1)
  | method (c dot c1 n sp rest so sc ic c2 args ie) : PunctAt '.' c dot c1 → c1.rest = .ident n sp false :: rest →
      GroupAt .paren (c1.advance 1) so sc ic c2 → GArgs o ic args ie → ie.atEnd →
      GOp o c [.method ⟨n, sp⟩ dot args] c2
  | index (c so sc ic c' e ie) : GroupAt .bracket c so sc ic c' → ExprAt o ic e ie → ie.atEnd →
      GOp o c [.index e so] c'

inductive GPost (o : Oracle) : Cur → List FieldOp → Cur → Prop
  | nil (c) : GPost o c [] c
  | cons (c ops c1 more c') : GOp o c ops c1 → GPost o c1 more c' → GPost o c (ops ++ more) c'

/-- The field name that starts a field-operation chain. -/
inductive GName : Cur → FieldName → Cur → Prop
  | index (c text sp digits rest n) : c.rest = .lit .int text sp digits :: rest → tupleIndex? digits = some n →
      GName c (.index n) (c.advance 1)
  | ident (c n sp rest) : c.rest = .ident n sp false :: rest → GName c (.ident ⟨n, sp⟩) (c.advance 1)

/-- `*`* name postfix*.  Every operation of the head carries the span of the first token. -/
inductive GFieldOps (o : Oracle) : Cur → FieldOps → Cur → Prop
  | mk (c name c1 post c') : GName (c.advance (countStars c.rest)) name c1 → GPost o c1 post c' →
      GFieldOps o c
        { ops := (if countStars c.rest > 0 then [FieldOp.deref (countStars c.rest) c.span] else []) ++
                 [match name with | .ident i => FieldOp.named i c.span | .index n => FieldOp.unnamed n c.span] ++ post,
          sp := c.span } c'

inductive GCmpOp : Cur → CmpOp → Sp → Cur → Prop
  | le (c sp c') : Punct2At '<' '=' c sp c' → GCmpOp c .le sp c'
  | lt (c sp c') : PunctAt '<' c sp c' → GCmpOp c .lt sp c'
  | ge (c sp c') : Punct2At '>' '=' c sp c' → GCmpOp c .ge sp c'
  | gt (c sp c') : PunctAt '>' c sp c' → GCmpOp c .gt sp c'
  | eq (c sp c') : Punct2At '=' '=' c sp c' → GCmpOp c .eq sp c'
  | ne (c sp c') : Punct2At '!' '=' c sp c' → GCmpOp c .ne sp c'

/-- Does the token sequence start like a closure (`|…` or `move |…`)? -/
def startsClosure (ts : List TT) : Bool := isPunct '|' ts || (isIdent "move" ts && peek2 (isPunct '|') ts)

/-- First-token tests that select a dedicated pattern form; the path- and expression-based forms
apply only when none of them matches. -/
def startsSpecial (ts : List TT) : Bool :=
  startsClosure ts || isIdent "_" ts || (isPunct '<' ts || isPunct '>' ts || isPunct '!' ts) || isPunct '=' ts ||
  (isPunct '#' ts && peek2 (isGroup .paren) ts) || (isPunct '#' ts && peek2 (isGroup .brace) ts) ||
  isGroup .bracket ts || isGroup .paren ts

/-- No `syn::Path` parses here. -/
def NoPathAt (o : Oracle) (c : Cur) : Prop := o.paths.lookup (c.path, c.idx) = none

mutual
inductive GPat (o : Oracle) : Cur → Pat → Cur → Prop
  | closure (c id e c') : startsClosure c.rest = true → ClosureAt o c e c' → e.cls = .closure 1 → GPat o c (.closure id e) c'
  | wild (c id) : isIdent "_" c.rest = true → peek2 (isGroup .brace) c.rest = false → GPat o c (.wild id) (c.advance 1)
  | cmp (c op sp c1 e c' id) : GCmpOp c op sp c1 → ExprAt o c1 e c' → GPat o c (.cmp id op sp e) c'
  | regex (c s1 c1 s2 c2 e c' v sp id) : PunctAt '=' c s1 c1 → PunctAt '~' c1 s2 c2 → ExprAt o c2 e c' →
      strLitValue? e = some (v, sp) → GPat o c (.regex id v sp) c'
  | like (c s1 c1 s2 c2 e c' id) : PunctAt '=' c s1 c1 → PunctAt '~' c1 s2 c2 → ExprAt o c2 e c' →
      strLitValue? e = none → GPat o c (.like id e) c'
  | set (c hs c1 so sc ic c' elems rest ie id) : PunctAt '#' c hs c1 → GroupAt .paren c1 so sc ic c' →
      GSet o ic elems rest ie → ie.atEnd → GPat o c (.set id ⟨hs.ls, hs.cs, sc.le, sc.ce⟩ elems rest) c'
  | map (c hs c1 so sc ic c' entries rest ie id) : PunctAt '#' c hs c1 → GroupAt .brace c1 so sc ic c' →
      GEntries o ic entries rest ie → ie.atEnd → GPat o c (.map id so entries rest) c'
  | slice (c so sc ic c' elems ie id) : GroupAt .bracket c so sc ic c' → GList o ic elems ie → ie.atEnd →
      GPat o c (.slice id so elems) c'
  | tuple (c so sc ic c' elems ie id) : GroupAt .paren c so sc ic c' → GElems o ic 0 elems ie → ie.atEnd →
      GPat o c (.tuple id so elems) c'
  | struct (c path c1 so sc ic c' fields rest ie id) : startsSpecial c.rest = false → PathAt o c path c1 → GroupAt .brace c1 so sc ic c' →
      GFields o ic fields rest ie → ie.atEnd → GPat o c (.struct id (some path) fields rest) c'
  | wildStruct (c so sc ic c' fields ie id) : isIdent "_" c.rest = true → GroupAt .brace (c.advance 1) so sc ic c' →
      GFields o ic fields true ie → ie.atEnd → GPat o c (.struct id none fields true) c'
  | unit (c path c' id) : startsSpecial c.rest = false → PathAt o c path c' → isGroup .brace c'.rest = false →
      isGroup .paren c'.rest = false → GPat o c (.enum id path .nil) c'
  | variant (c path c1 so sc ic c' elems ie id) : startsSpecial c.rest = false → PathAt o c path c1 → GroupAt .paren c1 so sc ic c' →
      GElems o ic 0 elems ie → ie.atEnd → GPat o c (.enum id path elems) c'
  | range (c e c' id) : startsSpecial c.rest = false → NoPathAt o c → ExprAt o c e c' → isRangeExpr e = true →
      GPat o c (.range id e) c'
  | string (c text sp value rest id) : startsSpecial c.rest = false → NoPathAt o c →
      (∀ n u e, o.exprs.lookup (c.path, c.idx) = some (n, u, e) → isRangeExpr e = false) →
      c.rest = .lit .str text sp value :: rest → GPat o c (.string id value sp ⟨.str value, sp⟩) (c.advance 1)
  | simple (c e c' id) : startsSpecial c.rest = false → NoPathAt o c → ExprAt o c e c' → isRangeExpr e = false →
      isLit .str c.rest = false → GPat o c (.simple id e) c'
/-- Struct fields: `ops: pattern` separated by commas, then optionally `..`, which ends the list. -/
inductive GFields (o : Oracle) : Cur → Items → Bool → Cur → Prop
  | nil (c) : GFields o c .nil false c
  | rest (c sp c') : Punct2At '.' '.' c sp c' → GFields o c .nil true c'
  | last (c ops c1 sp c2 p c') : GFieldOps o c ops c1 → PunctAt ':' c1 sp c2 → GPat o c2 p c' →
      GFields o c (.cons (some ops) none p .nil) false c'
  | cons (c ops c1 sp c2 p c3 sp' c4 tl r c') : GFieldOps o c ops c1 → PunctAt ':' c1 sp c2 → GPat o c2 p c3 →
      PunctAt ',' c3 sp' c4 → GFields o c4 tl r c' → GFields o c (.cons (some ops) none p tl) r c'
/-- Tuple / variant elements at position `pos`: a pattern, or `ops: pattern` whose leading index
is the element's position. -/
inductive GElems (o : Oracle) : Cur → Nat → Items → Cur → Prop
  | nil (c pos) : GElems o c pos .nil c
  | lastPos (c pos p c') : GPat o c p c' → GElems o c pos (.cons none none p .nil) c'
  | lastIdx (c pos ops c1 sp c2 p c') : GFieldOps o c ops c1 → ops.rootFieldName? = some (.index pos) →
      PunctAt ':' c1 sp c2 → GPat o c2 p c' → GElems o c pos (.cons (some ops) none p .nil) c'
  | consPos (c pos p c1 sp c2 tl c') : GPat o c p c1 → PunctAt ',' c1 sp c2 → GElems o c2 (pos + 1) tl c' →
      GElems o c pos (.cons none none p tl) c'
  | consIdx (c pos ops c1 sp c2 p c3 sp' c4 tl c') : GFieldOps o c ops c1 → ops.rootFieldName? = some (.index pos) →
      PunctAt ':' c1 sp c2 → GPat o c2 p c3 → PunctAt ',' c3 sp' c4 → GElems o c4 (pos + 1) tl c' →
      GElems o c pos (.cons (some ops) none p tl) c'
/-- Slice elements. -/
inductive GList (o : Oracle) : Cur → Items → Cur → Prop
  | nil (c) : GList o c .nil c
  | last (c p c') : GPat o c p c' → GList o c (.cons none none p .nil) c'
  | cons (c p c1 sp c2 tl c') : GPat o c p c1 → PunctAt ',' c1 sp c2 → GList o c2 tl c' →
      GList o c (.cons none none p tl) c'
/-- Set elements, then optionally `..` (which may be followed by a comma only when it stands alone). -/
inductive GSet (o : Oracle) : Cur → Items → Bool → Cur → Prop
  | nil (c) : GSet o c .nil false c
  | rest (c sp c') : Punct2At '.' '.' c sp c' → GSet o c .nil true c'
  | restComma (c sp c1 sp' c') : Punct2At '.' '.' c sp c1 → PunctAt ',' c1 sp' c' → GSet o c .nil true c'
  | last (c p c') : isPunct2 '.' '.' c.rest = false → GPat o c p c' → GSet o c (.cons none none p .nil) false c'
  | lastRest (c p c1 sp c2 sp' c') : isPunct2 '.' '.' c.rest = false → GPat o c p c1 → PunctAt ',' c1 sp c2 →
      Punct2At '.' '.' c2 sp' c' → GSet o c (.cons none none p .nil) true c'
  | cons (c p c1 sp c2 tl r c') : isPunct2 '.' '.' c.rest = false → GPat o c p c1 → PunctAt ',' c1 sp c2 →
      GSetTail o c2 tl r c' → GSet o c (.cons none none p tl) r c'
/-- After the first element of a set, `..` ends the list and takes no trailing comma. -/
inductive GSetTail (o : Oracle) : Cur → Items → Bool → Cur → Prop
  | nil (c) : GSetTail o c .nil false c
  | last (c p c') : isPunct2 '.' '.' c.rest = false → GPat o c p c' → GSetTail o c (.cons none none p .nil) false c'
  | lastRest (c p c1 sp c2 sp' c') : isPunct2 '.' '.' c.rest = false → GPat o c p c1 → PunctAt ',' c1 sp c2 →
      Punct2At '.' '.' c2 sp' c' → GSetTail o c (.cons none none p .nil) true c'
  | cons (c p c1 sp c2 tl r c') : isPunct2 '.' '.' c.rest = false → GPat o c p c1 → PunctAt ',' c1 sp c2 →
      GSetTail o c2 tl r c' → GSetTail o c (.cons none none p tl) r c'
/-- Map entries: `key-expression: pattern`, then optionally `..`. -/
inductive GEntries (o : Oracle) : Cur → Items → Bool → Cur → Prop
  | nil (c) : GEntries o c .nil false c
  | rest (c sp c') : Punct2At '.' '.' c sp c' → GEntries o c .nil true c'
  | last (c key c1 sp c2 p c') : isPunct2 '.' '.' c.rest = false → ExprAt o c key c1 → PunctAt ':' c1 sp c2 →
      GPat o c2 p c' → GEntries o c (.cons none (some key) p .nil) false c'
  | cons (c key c1 sp c2 p c3 sp' c4 tl r c') : isPunct2 '.' '.' c.rest = false → ExprAt o c key c1 → PunctAt ':' c1 sp c2 → GPat o c2 p c3 →
      PunctAt ',' c3 sp' c4 → GEntries o c4 tl r c' → GEntries o c (.cons none (some key) p tl) r c'
end

/-- `assert_struct!(value, pattern)`: an expression, a comma, a pattern, and nothing else. -/
def GAssert (o : Oracle) (ts : List TT) (v : UExpr) (p : Pat) : Prop :=
  ∃ c1 sp c2 c3, ExprAt o ⟨[], ts.length, ts, Sp.callSite⟩ v c1 ∧ PunctAt ',' c1 sp c2 ∧ GPat o c2 p c3 ∧ c3.atEnd

end AsModel
