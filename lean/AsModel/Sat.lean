import AsModel.Spec
/-
`sat`: does the value satisfy the pattern?  Written directly from the documentation,
one line per form, independently of the failure frontier and of the expansion:
literals and strings by equality, comparison operators and ranges by ordering,
regex / Like by the matcher's answer, closures by their result, struct / enum / tuple /
slice / set / map forms by variant, length, key presence and recursive match of every
listed part; `_`, `..` and omitted fields constrain nothing.
-/
namespace AsModel
open Runtime (setMatch)

mutual
def sat (P : Prims) : Pat → Val → Bool
  | .simple _ e, v => P.lit e v
  | .string _ s _ _, v => P.strLit s v
  | .cmp _ op _ e, v => P.cmp op v e
  | .range _ e, v => P.inRange e v
  | .regex _ pat _, v => P.regex pat v
  | .like _ e, v => P.like e v
  | .closure _ e, v => P.closure e v
  | .wild _, _ => true
  | .enum _ path elems, v =>
    if elems.length = 0 then P.unitPath path v
    else match v with
      | .adt ctor _ vals =>
        P.ctor path ctor && decide (vals.length = elems.length) && satElems P elems vals
      | _ => false
  | .struct _ (some path) fields rest, v =>
    match v with
    | .adt ctor names _ =>
      -- (a pattern without `..` that omits a field is rejected by the compiler: no verdict)
      P.ctor path ctor && (rest || fields.allNamesListed names) && satFields P fields v
    | _ => false
  | .struct _ none fields _, v => satFields P fields v
  | .tuple _ _ elems, v =>
    if elems.isSingleParen then satHead P elems v
    else match v with
      | .tuple vs => decide (vs.length = elems.length) && satElems P elems vs
      | _ => false
  | .slice _ _ elems, v =>
    match v.autoDeref with
    | .seq vs =>
      (if elems.countRest = 0 then decide (vs.length = elems.length)
       else decide (elems.countRest = 1) && decide (elems.length - 1 ≤ vs.length)) && satSlice P elems vs
    | _ => false
  | .set _ _ elems rest, v =>
    match v.elems? with
    | some vs =>
      let rows := satRows P elems vs
      -- the length rule and a one-to-one assignment (see `Theorems/C10.lean`)
      (setMatch vs.length rest elems.length fun k i => (rows.getD k []).getD i false).isEmpty
    | none => false
  | .map _ _ entries rest, v =>
    match v.autoDeref with
    | .map keys vals => (rest || keys.length == entries.length) && satEntries P entries keys vals
    | _ => rest && entries.length == 0
def satFields (P : Prims) : Items → Val → Bool
  | .nil, _ => true
  | .cons ops _ p tl, v =>
    (match ops.bind (fieldSub P v) with
      | some sub => sat P p sub
      | none => false) && satFields P tl v
def satHead (P : Prims) : Items → Val → Bool
  | .nil, _ => false
  | .cons none _ p _, v => sat P p v
  | .cons (some ops) _ p _, v =>
    match elemSub P v ops with
    | some sub => sat P p sub
    | none => false
def satElems (P : Prims) : Items → List Val → Bool
  | .nil, _ => true
  | .cons ops _ p tl, vs =>
    match vs with
    | [] => false
    | vi :: vs' =>
      (match ops with
        | none => sat P p vi
        | some ops => match elemSub P vi ops with
          | some sub => sat P p sub
          | none => false) && satElems P tl vs'
def satSlice (P : Prims) : Items → List Val → Bool
  | .nil, _ => true
  | .cons _ _ p tl, vs =>
    if p.isSliceRest then satSlice P tl (vs.drop (vs.length - tl.length))
    else match vs with
      | [] => false
      | vi :: vs' => sat P p vi && satSlice P tl vs'
def satRows (P : Prims) : Items → List Val → List (List Bool)
  | .nil, _ => []
  | .cons _ _ p tl, vs => (vs.map fun v => sat P p v) :: satRows P tl vs
def satEntries (P : Prims) : Items → List Val → List Val → Bool
  | .nil, _, _ => true
  | .cons _ key p tl, keys, vals =>
    (match key with
      | some k => match mapLookup P.valEq (P.key k) keys vals with
        | some val => sat P p val
        | none => false
      | none => false) && satEntries P tl keys vals
end

end AsModel
