/-
Model of `absolute_source_path` (assert-struct/src/error.rs) at two levels:
lists of path components (what the theorems talk about) and Unix path strings
(what the correspondence check runs against the real function).
-/
namespace AsModel.Runtime

/-- Largest `k ≤ n` such that the last `k` components of `m` equal the first `k`
of `f` (0 if none).  The code's loop runs `len` upwards and keeps the last
match; this searches downwards and keeps the first — the same number. -/
def overlapUpTo {α} [DecidableEq α] (m f : List α) : Nat → Nat
  | 0 => 0
  | n + 1 => if m.drop (m.length - (n + 1)) = f.take (n + 1) then n + 1 else overlapUpTo m f n

def overlapLen {α} [DecidableEq α] (m f : List α) : Nat :=
  overlapUpTo m f (min m.length f.length)

/-- Components of `workspace_root.join(file)` when `file` is relative. -/
def absComps {α} [DecidableEq α] (m f : List α) : List α :=
  m.take (m.length - overlapLen m f) ++ f

/-- `std::path::Component` on Unix. -/
inductive Comp
  | root | cur | parent | normal (s : String)
  deriving DecidableEq, Repr

def Comp.render : Comp → String
  | .root => "/" | .cur => "." | .parent => ".." | .normal s => s

/-- `Path::components()` on Unix: a leading `/` is `RootDir`; empty pieces and
`.` are dropped, except a leading `.` of a relative path. -/
def components (p : String) : List Comp :=
  let rooted := p.startsWith "/"
  let pieces := p.splitOn "/"
  let rec go : List String → Bool → List Comp
    | [], _ => []
    | s :: rest, first =>
      if s = "" then go rest false
      else if s = "." then (if first && !rooted then Comp.cur :: go rest false else go rest false)
      else if s = ".." then Comp.parent :: go rest false
      else Comp.normal s :: go rest false
  (if rooted then [Comp.root] else []) ++ go pieces true

/-- `PathBuf::push` on Unix. -/
def pushPath (buf p : String) : String :=
  if p.startsWith "/" then p
  else if buf.isEmpty then p
  else if buf.endsWith "/" then buf ++ p
  else buf ++ "/" ++ p

/-- `absolute_source_path(manifest_dir, file_path)` rendered as a string. -/
def absoluteSourcePath (manifestDir filePath : String) : String :=
  let m := components manifestDir
  let f := components filePath
  let root := (m.take (m.length - overlapLen m f)).foldl (fun b c => pushPath b c.render) ""
  pushPath root filePath

end AsModel.Runtime
