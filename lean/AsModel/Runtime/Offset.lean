/-
Model of `byte_offset_of` and of the annotation-span construction inside
`Display for ErrorReport` (assert-struct/src/error.rs), over source texts given
as lists of Unicode scalar values.  Byte positions are UTF-8 byte positions:
the byte length of a text is `utf8Len`.
-/
namespace AsModel.Runtime

/-- UTF-8 length of a text in bytes (`str::len`). -/
def utf8Len : List Char → Nat
  | [] => 0
  | c :: cs => c.utf8Size + utf8Len cs

/-- `str::split('\n')`: the pieces between line feeds (always at least one piece). -/
def splitNl : List Char → List (List Char)
  | [] => [[]]
  | c :: cs =>
    if c = '\n' then [] :: splitNl cs
    else match splitNl cs with
      | [] => [[c]]
      | l :: ls => (c :: l) :: ls

/-- `byte_offset_of` as pinned (before the `fix:` commit): the *character* column is
added to a *byte* line start.  Kept for the record; see `Theorems/C04.lean`. -/
def byteOffsetOfV0 (src : List Char) (line col : Nat) : Nat :=
  if line = 0 then 0
  else
    let lineStart := (((splitNl src).take (line - 1)).map (fun l => utf8Len l + 1)).sum
    min (lineStart + col) (utf8Len src)

/-- The loop of the repaired `byte_offset_of`:
`for (idx, text) in source.split('\n').enumerate() { if idx + 1 == line { … return } line_start += text.len() + 1 }`.
`line` counts down instead of `idx` counting up. `total` is `source.len()`. -/
def offsetLoop (total : Nat) : List (List Char) → Nat → Nat → Nat → Nat
  | [], _, _, _ => total
  | text :: rest, line, col, lineStart =>
    if line = 1 then lineStart + utf8Len (text.take col)
    else offsetLoop total rest (line - 1) col (lineStart + utf8Len text + 1)

/-- `byte_offset_of(source, line, col)` (current code). -/
def byteOffsetOf (src : List Char) (line col : Nat) : Nat :=
  if line = 0 then 0 else offsetLoop (utf8Len src) (splitNl src) line col 0

/-- `source.get(start..).and_then(|rest| rest.chars().next())`: the character that
starts at byte offset `n`, if `n` is a character boundary inside the text. -/
def charAtByte : List Char → Nat → Option Char
  | [], _ => none
  | c :: cs, n =>
    if n = 0 then some c
    else if n < c.utf8Size then none
    else charAtByte cs (n - c.utf8Size)

/-- The `(start, end)` byte span handed to the renderer for a node located at
`(ls, cs) .. (le, ce)` (current code). -/
def annotationSpan (src : List Char) (ls cs le ce : Nat) : Nat × Nat :=
  let start := byteOffsetOf src ls cs
  let minEnd := start + (match charAtByte src start with | some c => c.utf8Size | none => 1)
  (start, max (byteOffsetOf src le ce) minEnd)

/-- The same span as pinned (before the fix). -/
def annotationSpanV0 (src : List Char) (ls cs le ce : Nat) : Nat × Nat :=
  let start := byteOffsetOfV0 src ls cs
  (start, max (byteOffsetOfV0 src le ce) (start + 1))

/-! ### Specification side: where the compiler says a character is -/

/-- (line, column) of the `i`-th character of `s` as rustc / proc-macro2 report it:
lines are 1-based and separated by `\n`; the column is the number of Unicode
scalar values since the start of the line. -/
def posOf : List Char → Nat → Nat × Nat
  | [], _ => (1, 0)
  | _ :: _, 0 => (1, 0)
  | c :: cs, i + 1 =>
    let p := posOf cs i
    if c = '\n' then (p.1 + 1, p.2)
    else if p.1 = 1 then (1, p.2 + 1) else p

/-- `n` is a character boundary of `s` (or its end). -/
def IsBoundary (s : List Char) (n : Nat) : Prop := ∃ i, i ≤ s.length ∧ n = utf8Len (s.take i)

end AsModel.Runtime

namespace AsModel.Runtime

/-- Executable form of `IsBoundary` (used by the renderer-contract correspondence). -/
def boundaryB : List Char → Nat → Bool
  | [], n => n == 0
  | c :: cs, n => n == 0 || (decide (c.utf8Size ≤ n) && boundaryB cs (n - c.utf8Size))

/-- The observed precondition of the `annotate-snippets` 0.12 renderer for one annotation
`a..b` over the text `s` (probed exhaustively on short texts, validated on every run):
it does not panic iff `b` is at most one past the end of the text and every offset that
lies inside the text is a character boundary. -/
def rendererOk (s : List Char) (a b : Nat) : Bool :=
  decide (b ≤ utf8Len s + 1) &&
  (decide (utf8Len s < a) || boundaryB s a) && (decide (utf8Len s < b) || boundaryB s b)

end AsModel.Runtime
