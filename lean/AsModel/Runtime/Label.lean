/-
Model of the run-time pattern tree (`PatternNode` / `NodeKind`), of `error_label`,
of `Display for PatternNode` and of the fallback branch of `Display for ErrorReport`
(assert-struct/src/error.rs).  Children are referred to by node id.
-/
namespace AsModel.Runtime

inductive CmpOp | lt | le | gt | ge | eq | ne
  deriving DecidableEq, Repr

def CmpOp.asStr : CmpOp → String
  | .lt => "<" | .le => "<=" | .gt => ">" | .ge => ">=" | .eq => "==" | .ne => "!="

/-- `NodeKind`, with `&'static PatternNode` children replaced by their ids. -/
inductive NodeKind
  | slice (items : List Nat) (rest : Bool)
  | set (items : List Nat) (rest : Bool)
  | tuple (items : List Nat)
  | map (entries : List (String × Nat)) (rest : Bool)
  | struct (name : String) (fields : List (String × Nat)) (rest : Bool)
  | enumVariant (path : String) (args : Option (List Nat))
  | simple (value : String)
  | comparison (op : CmpOp) (value : String)
  | range (pattern : String)
  | regex (pattern : String)
  | like (expr : String)
  | wildcard
  | closure (closure : String)
  deriving DecidableEq, Repr

/-- `Display for PatternNode`. -/
def NodeKind.display : NodeKind → String
  | .struct name _ _ => name ++ " { ... }"
  | .slice _ _ => "[...]"
  | .set _ _ => "#(...)"
  | .tuple items => "(" ++ String.join (List.replicate items.length ".., ") ++ ")"
  | .map entries _ => "#{ " ++ toString entries.length ++ " entries }"
  | .enumVariant path args => if args.isSome then path ++ "(...)" else path
  | .simple v => v
  | .comparison op v => op.asStr ++ " " ++ v
  | .range p => p
  | .regex p => "=~ " ++ p
  | .like e => "=~ " ++ e
  | .wildcard => "_"
  | .closure c => c

/-- `error_label(error)`. -/
def errorLabel (kind : NodeKind) (actual : String) (expected : Option String) : String :=
  match kind with
  | .comparison .eq _ => "expected " ++ expected.getD "?" ++ ", got " ++ actual
  | .enumVariant .. => "expected variant " ++ kind.display ++ ", got " ++ actual
  | .slice items rest =>
    if rest then "slice pattern mismatch, got " ++ actual
    else
      let n := items.length
      let suffix := if n = 1 then "element" else "elements"
      "expected slice with " ++ toString n ++ " " ++ suffix ++ ", got " ++ actual
  | .set _ rest =>
    if rest then "set pattern mismatch, got " ++ actual
    else "set pattern mismatch (exact), got " ++ actual
  | .closure _ => "closure condition not satisfied, got " ++ actual
  | _ => "got " ++ actual

/-- The fallback branch of `Display for ErrorReport` (source not readable):
header, then one located line and one label line per entry, in order. -/
def fallbackDisplay (relPath : String) (entries : List (Nat × String)) : String :=
  "assert_struct! failed:" ++
    String.join (entries.map fun (line, label) => "\n  --> " ++ relPath ++ ":" ++ toString line ++ "\n  " ++ label)

end AsModel.Runtime
