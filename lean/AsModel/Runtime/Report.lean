import AsModel.Runtime.Label
import AsModel.Runtime.Offset
import AsModel.Runtime.SrcPath
/-
Model of `ErrorReport` (assert-struct/src/error.rs): `new`, `new_probe`, `is_empty`, `push`
and `Display for ErrorReport` up to the call into the renderer - which path and which
annotations (byte span + label) it is handed, in which style, or the fallback listing.
The source text is `cached_source(&self.abs_path)` (`Cache.lean`: the content of that file,
or `none` when it cannot be read as UTF-8); the three inputs of the renderer choice are
the thread's plain-output guard, `NO_COLOR` and whether stderr is a terminal.
-/
namespace AsModel.Runtime

/-- A `PatternNode` as the report uses it: kind and recorded position. -/
structure PNode where
  kind : NodeKind
  ls : Nat
  cs : Nat
  le : Nat
  ce : Nat
  deriving Repr

/-- `ErrorContext`. -/
structure ErrCtx where
  node : PNode
  actual : String
  expected : Option String
  deriving Repr

structure Report where
  errors : List ErrCtx
  absPath : String
  relPath : String
  deriving Repr

/-- `ErrorReport::new(manifest_dir, file_path)`. -/
def Report.new (manifestDir filePath : String) : Report :=
  ⟨[], absoluteSourcePath manifestDir filePath, filePath⟩

/-- `ErrorReport::new_probe()`. -/
def Report.newProbe : Report := ⟨[], "", ""⟩

def Report.isEmpty (r : Report) : Bool := r.errors.isEmpty

/-- `ErrorReport::push`. -/
def Report.push (r : Report) (n : PNode) (actual : String) (expected : Option String) : Report :=
  { r with errors := r.errors ++ [⟨n, actual, expected⟩] }

def ErrCtx.label (e : ErrCtx) : String := errorLabel e.node.kind e.actual e.expected

/-- One `AnnotationKind::Primary.span(start..stop).label(label)`. -/
structure Annotation where
  start : Nat
  stop : Nat
  label : String
  deriving DecidableEq, Repr

/-- `Renderer::styled()` is chosen iff no guard is alive, `NO_COLOR` is unset and stderr is a terminal. -/
def rendererStyled (guardAlive noColor isTty : Bool) : Bool := !(guardAlive || noColor || !isTty)

/-- What `Display for ErrorReport` produces. -/
inductive Shown
  | nothing                                       -- an empty report writes nothing
  | snippet (styled : Bool) (path : String) (annotations : List Annotation)
      -- `Level::ERROR.primary_title("assert_struct! failed")` with one snippet of the whole source, `line_start(1)`
  | listing (text : String)                       -- the fallback when the source cannot be read
  deriving DecidableEq, Repr

def Report.annotations (r : Report) (src : List Char) : List Annotation :=
  r.errors.map fun e =>
    let sp := annotationSpan src e.node.ls e.node.cs e.node.le e.node.ce
    ⟨sp.1, sp.2, e.label⟩

def Report.display (r : Report) (source : Option (List Char)) (guardAlive noColor isTty : Bool) : Shown :=
  if r.errors.isEmpty then .nothing
  else match source with
    | some src => .snippet (rendererStyled guardAlive noColor isTty) r.relPath (r.annotations src)
    | none => .listing (fallbackDisplay r.relPath (r.errors.map fun e => (e.node.ls, e.label)))

end AsModel.Runtime
