/-
Model of `cached_source` (assert-struct/src/error.rs) as a transition system over any
number of threads, and of the per-thread plain-output guard.

Each thread runs: acquire the read lock; look the path up (hit: return it, releasing the
lock); release; read the file (failure: return `None`); acquire the write lock;
`entry(path).or_insert(content)`; release; return the content it read.
The lock state is derived from the program counters: a thread holds the read lock exactly
while it is `reading`, the write lock exactly while it is `writing` — no thread ever
requests a lock while holding one.
-/
namespace AsModel.Runtime

abbrev FilePath := Nat
abbrev Content := Nat

inductive Pc
  | wantRead | reading | fsRead | wantWrite | writing | returning | done
  deriving DecidableEq, Repr

structure TState where
  path : FilePath
  pc : Pc
  loc : Content                       -- the content this thread read from the file system
  result : Option (Option Content)    -- what `cached_source` returned (once done)
  deriving Repr

structure CState where
  cache : FilePath → Option Content
  threads : List TState

def CState.anyAt (s : CState) (pc : Pc) : Bool := s.threads.any fun t => t.pc == pc

/-- One step of thread `t` in state `s`; `none`: blocked on a lock (or finished). -/
def stepThread (fs : FilePath → Option Content) (s : CState) (t : TState) :
    Option (TState × (FilePath → Option Content)) :=
  match t.pc with
  | .wantRead => if s.anyAt .writing then none else some ({ t with pc := .reading }, s.cache)
  | .reading =>
    match s.cache t.path with
    | some c => some ({ t with pc := .done, result := some (some c) }, s.cache)
    | none => some ({ t with pc := .fsRead }, s.cache)
  | .fsRead =>
    match fs t.path with
    | none => some ({ t with pc := .done, result := some none }, s.cache)
    | some c => some ({ t with pc := .wantWrite, loc := c }, s.cache)
  | .wantWrite =>
    if s.anyAt .reading || s.anyAt .writing then none else some ({ t with pc := .writing }, s.cache)
  | .writing =>
    some ({ t with pc := .returning },
      fun p => if p = t.path then (match s.cache p with | some c => some c | none => some t.loc) else s.cache p)
  | .returning => some ({ t with pc := .done, result := some (some t.loc) }, s.cache)
  | .done => none

/-- Thread `i` takes a step. -/
def step (fs : FilePath → Option Content) (s : CState) (i : Nat) : Option CState :=
  match s.threads[i]? with
  | none => none
  | some t => (stepThread fs s t).map fun r => { cache := r.2, threads := s.threads.set i r.1 }

/-- Run a schedule (a sequence of thread indices); a blocked thread's turn is skipped. -/
def runSched (fs : FilePath → Option Content) : CState → List Nat → CState
  | s, [] => s
  | s, i :: is => runSched fs ((step fs s i).getD s) is

/-! ### The plain-output guard -/

inductive GuardEv | new | drop
  deriving DecidableEq, Repr

/-- The thread-local counter of live guards (`PLAIN_OUTPUT`). -/
def guardDepth : List GuardEv → Nat
  | [] => 0
  | .new :: es => guardDepth es + 1        -- events are listed latest first
  | .drop :: es => guardDepth es - 1

/-- The pinned implementation: a Boolean flag set by `new` and cleared by `drop`. -/
def guardFlagV0 : List GuardEv → Bool
  | [] => false
  | .new :: _ => true
  | .drop :: _ => false

/-- Guards alive after a history in which every drop drops an existing guard. -/
def liveGuards : List GuardEv → Int
  | [] => 0
  | .new :: es => liveGuards es + 1
  | .drop :: es => liveGuards es - 1

/-- Every drop has a guard to drop (guards are values: they cannot be dropped twice). -/
def WellFormed : List GuardEv → Prop
  | [] => True
  | .new :: es => WellFormed es
  | .drop :: es => WellFormed es ∧ 0 < liveGuards es

end AsModel.Runtime
