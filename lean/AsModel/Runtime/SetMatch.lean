/-
Model of `assert_struct::__macro_support::{set_match, set_backtrack}`
(assert-struct/src/lib.rs).

`M k i` stands for `predicates[k](i)`; `matched` is the `&mut [bool]` scratch
vector, threaded explicitly so that the undo (`matched[i] = false`) is part of
the model and not hidden by a functional re-implementation.
-/
namespace AsModel.Runtime

/-- The `for i in 0..matched.len()` loop of `set_backtrack`, for one pattern
index; `rec_` is the recursive call for `pattern_idx + 1`. -/
def btLoop (rec_ : List Bool → Bool × List Bool) (Mk : Nat → Bool) :
    List Nat → List Bool → Bool × List Bool
  | [], m => (false, m)
  | i :: is, m =>
    if (m.getD i true == false) && Mk i then
      let r := rec_ (m.set i true)                       -- matched[i] = true; recurse
      if r.1 then (true, r.2)                            -- return true
      else btLoop rec_ Mk is (r.2.set i false)           -- matched[i] = false; continue
    else btLoop rec_ Mk is m

/-- `set_backtrack(predicates, matched, k)` with `rem = predicates.len() - k`. -/
def setBacktrack (M : Nat → Nat → Bool) : Nat → Nat → List Bool → Bool × List Bool
  | 0, _, m => (true, m)                                 -- pattern_idx == predicates.len()
  | rem + 1, k, m => btLoop (setBacktrack M rem (k + 1)) (M k) (List.range m.length) m

/-- One `report.push(node, actual, expected)` issued by `set_match`. -/
structure SetPush where
  actual : String
  expected : Option String
  deriving Repr, DecidableEq

/-- `set_match(n_elements, rest, predicates, report, node)`: the list of pushes. -/
def setMatch (nElems : Nat) (rest : Bool) (nPats : Nat) (M : Nat → Nat → Bool) : List SetPush :=
  let lengthOk := if rest then decide (nPats ≤ nElems) else decide (nElems = nPats)
  if !lengthOk then
    let exp := if rest then s!"at least {nPats} element(s)" else s!"{nPats} element(s)"
    [{ actual := s!"{nElems} element(s)", expected := some exp }]
  else if (setBacktrack M nPats 0 (List.replicate nElems false)).1 then []
  else [{ actual := s!"{nElems} element(s)", expected := none }]

end AsModel.Runtime
