import AsModel.Render
/-
Which items of the runtime crate the expansion names (C16): a table per template
(`templateItems`), the templates a piece of code is made of (`Code.kinds`), and the same
read off the tokens `Render.lean` emits (`scanItems`).  The driver compares the two on
every input of the C16 tie (`items`), so the table cannot drift from the token-exact model,
which T2 compares with the real generator.
-/
namespace AsModel

/-- The runtime items every expansion names (node tables, the report). -/
def baseItems : List String :=
  ["__macro_support::PatternNode", "__macro_support::NodeKind", "__macro_support::ErrorReport"]

/-- The runtime items each template of the code generator names beyond those. -/
def templateItems : String → List String
  | "regex" => ["Like", "__macro_support::Regex"]                 -- `=~ "literal"`
  | "like" => ["Like"]                                            -- `=~ expr`: the trait; the impl is the user's (or a gated one)
  | "closure" => ["__macro_support::check_closure_condition"]
  | "set" => ["__macro_support::set_match"]
  | _ => []

def templateNames : List String :=
  ["skip", "seq", "simple", "string", "cmp", "unitVariant", "enumTuple", "structNamed", "tuple", "range", "slice",
   "regex", "like", "closure", "mapLen", "mapGet", "set"]

mutual
/-- The templates a piece of assertion code is made of. -/
def Code.kinds : Code → List String
  | .skip => ["skip"]
  | .seq cs => "seq" :: cs.kinds
  | .simple .. => ["simple"]
  | .string .. => ["string"]
  | .cmp .. => ["cmp"]
  | .unitVariant .. => ["unitVariant"]
  | .enumTuple _ _ _ _ body _ => "enumTuple" :: body.kinds
  | .structNamed _ _ _ _ _ _ body _ => "structNamed" :: body.kinds
  | .tuple _ _ body => "tuple" :: body.kinds
  | .range .. => ["range"]
  | .slice _ _ body _ => "slice" :: body.kinds
  | .regex .. => ["regex"]
  | .like .. => ["like"]
  | .closure .. => ["closure"]
  | .mapLen .. => ["mapLen"]
  | .mapGet _ _ _ body _ => "mapGet" :: body.kinds
  | .set _ preds _ _ => "set" :: preds.kinds
def Codes.kinds : Codes → List String
  | .nil => []
  | .cons c tl => c.kinds ++ tl.kinds
end

def dedupS (xs : List String) : List String := xs.foldl (fun acc x => if acc.contains x then acc else acc ++ [x]) []

/-- The items the table says this expansion names. -/
def Expansion.declaredItems (x : Expansion) : List String :=
  dedupS (baseItems ++ x.body.kinds.flatMap templateItems)

def tokText (t : Tok) : String := match t.text with | .plain s => s | .str _ => "\"\""

/-- `: : assert_struct : : [__macro_support : :] Item` in a token sequence. -/
def scanItems : List String → List String
  | ":" :: ":" :: "assert_struct" :: ":" :: ":" :: "__macro_support" :: ":" :: ":" :: item :: rest =>
    ("__macro_support::" ++ item) :: scanItems rest
  | ":" :: ":" :: "assert_struct" :: ":" :: ":" :: item :: rest => item :: scanItems (item :: rest)
  | _ :: rest => scanItems rest
  | [] => []

/-- The items the rendered tokens of this expansion name (the node-kind constructors `NodeKind :: X { .. }`
and `ComparisonOp :: X` are items of the always-present enums: only the first segment counts). -/
def Expansion.scannedItems (x : Expansion) (value : Toks) : List String :=
  dedupS ((scanItems ((x.toks value).map tokText)).filter fun i => i ≠ "__macro_support::ComparisonOp")

end AsModel
