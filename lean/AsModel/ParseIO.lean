import AsModel.SExp
import AsModel.Parse
/-
Reader for the token-tree and oracle dumps of the in-process harness (dump.rs `tts`,
`oracle`) and printer of the pattern AST in the format of dump.rs `pat`.
Driver-side code.
-/
namespace AsModel
open Wire Runtime

def readDelim : String → Option Delim
  | "paren" => some .paren | "brace" => some .brace | "bracket" => some .bracket | "none" => some .none
  | _ => none

def readLitKind : String → Option LitKind
  | "int" => some .int | "float" => some .float | "str" => some .str | "other" => some .other
  | _ => none

partial def readTT : SExp → Option TT
  | .list [.atom "i", .atom name, .atom sp, .atom kw] => do
    pure (.ident (← unhex name) (← readSp sp) (kw == "1"))
  | .list [.atom "p", .atom c, .atom joint, .atom sp] => do
    let s ← unhex c
    match s.toList with
    | [ch] => pure (.punct ch (joint == "1") (← readSp sp))
    | _ => none
  | .list [.atom "l", .atom kind, .atom text, .atom sp, .atom extra] => do
    let k ← readLitKind kind
    let extra ← match k with
      | .str => unhex extra
      | _ => pure extra
    pure (.lit k (← unhex text) (← readSp sp) extra)
  | .list (.atom "g" :: .atom d :: .atom sp :: .atom so :: .atom sc :: ts) => do
    pure (.group (← readDelim d) (← readSp sp) (← readSp so) (← readSp sc) (← ts.mapM readTT))
  | _ => none

def readTTs : SExp → Option (List TT)
  | .list (.atom "ts" :: ts) => ts.mapM readTT
  | _ => none

def readPathIdx (s : String) : Option (List Nat) :=
  if s == "-" then some [] else (s.splitOn ".").mapM String.toNat?

def readOracle : SExp → Option Oracle
  | .list (.atom "oracle" :: es) =>
    es.foldlM (init := { exprs := [], paths := [], closures := [] }) fun (o : Oracle) e =>
      match e with
      | .list [.atom "o", .atom p, .atom i, .atom "E", .atom n, .atom u, d] => do
        pure { o with exprs := ((← readPathIdx p, ← i.toNat?), (← n.toNat?, u == "1", ← readExpr d)) :: o.exprs }
      | .list [.atom "o", .atom p, .atom i, .atom "P", .atom n, .atom u, d] => do
        pure { o with paths := ((← readPathIdx p, ← i.toNat?), (← n.toNat?, u == "1", ← readPath d)) :: o.paths }
      | .list [.atom "o", .atom p, .atom i, .atom "C", .atom n, .atom u, .atom isp, d] => do
        pure { o with closures := ((← readPathIdx p, ← i.toNat?), (← n.toNat?, u == "1", ← readSp isp, ← readExpr d)) :: o.closures }
      | _ => none
  | _ => none

def showClass : UClass → String
  | .litStr v => s!"(litstr {hex v})"
  | .lit => "(lit)"
  | .range a b c =>
    let o (x : Option Sp) := match x with | some s => showSp s | none => "none"
    s!"(range {o a} {showSp b} {o c})"
  | .closure n => s!"(closure {n})"
  | .path => "(path)"
  | .other => "(other)"

def showExpr (e : UExpr) : String :=
  s!"(e {showClass e.cls} {showSp e.sp} {hex e.text} {showToks e.toks})"

def showPath (p : UPath) : String :=
  s!"(path {showSp p.first} {showSp p.last} {showSp p.sp} {hex p.text} {showToks p.toks})"

def showIdentTok (i : IdentTok) : String := s!"{hex i.name}@{showSp i.sp}"

def showOp1 : FieldOp → String
  | .deref n sp => s!"(deref {n} {showSp sp})"
  | .method name sp args => s!"(method {showIdentTok name} {showSp sp} (args{String.join (args.map fun a => " " ++ showExpr a)}))"
  | .await sp => s!"(await {showSp sp})"
  | .named name sp => s!"(named {showIdentTok name} {showSp sp})"
  | .unnamed i sp => s!"(unnamed {i} {showSp sp})"
  | .index e sp => s!"(index {showExpr e} {showSp sp})"

def showOps (f : FieldOps) : String :=
  match f.ops with
  | [op] => showOp1 op
  | ops => s!"(chained {showSp f.sp}{String.join (ops.map fun o => " " ++ showOp1 o)})"

def showCmp : CmpOp → String
  | .lt => "lt" | .le => "le" | .gt => "gt" | .ge => "ge" | .eq => "eq" | .ne => "ne"

mutual
def showPat : Pat → String
  | .simple id e => s!"(simple {id} {showExpr e})"
  | .string id v sp tok => s!"(string {id} {hex v} {showSp sp} {showTok tok})"
  | .struct id path fields rest =>
    let p := match path with | some p => showPath p | none => "none"
    s!"(struct {id} {p} (fields{showFields fields}) {rest})"
  | .enum id path elems => s!"(enum {id} {showPath path} (elems{showElems elems}))"
  | .tuple id sp elems => s!"(tuple {id} {showSp sp} (elems{showElems elems}))"
  | .slice id sp elems => s!"(slice {id} {showSp sp} (pats{showPats elems}))"
  | .set id sp elems rest => s!"(set {id} {showSp sp} (pats{showPats elems}) {rest})"
  | .cmp id op sp e => s!"(cmp {id} {showCmp op} {showSp sp} {showExpr e})"
  | .range id e => s!"(range {id} {showExpr e})"
  | .regex id pat sp => s!"(regex {id} {hex pat} {showSp sp})"
  | .like id e => s!"(like {id} {showExpr e})"
  | .wild id => s!"(wild {id})"
  | .closure id e => s!"(closure {id} {showExpr e})"
  | .map id sp entries rest => s!"(map {id} {showSp sp} (entries{showKVs entries}) {rest})"
def showFields : Items → String
  | .nil => ""
  | .cons ops _ p tl =>
    let o := match ops with | some o => showOps o | none => "?"
    s!" (f {o} {showPat p})" ++ showFields tl
def showElems : Items → String
  | .nil => ""
  | .cons ops _ p tl =>
    (match ops with
      | some o => s!" (idx {showOps o} {showPat p})"
      | none => s!" (pos {showPat p})") ++ showElems tl
def showPats : Items → String
  | .nil => ""
  | .cons _ _ p tl => s!" {showPat p}" ++ showPats tl
def showKVs : Items → String
  | .nil => ""
  | .cons _ key p tl =>
    let k := match key with | some k => showExpr k | none => "?"
    s!" (kv {k} {showPat p})" ++ showKVs tl
end

mutual
def ttCount : List TT → Nat
  | [] => 0
  | t :: ts => ttCount1 t + ttCount ts
def ttCount1 : TT → Nat
  | .group _ _ _ _ ts => ttCount ts + 1
  | _ => 1
end

/-- One line for the T1 tie: accept / reject, the AST and the final node counter. -/
def showOutcome : Outcome → String
  | .accept v p ctr => s!"accept\t{ctr}\t{showToks v.toks}\t{showPat p}"
  | .reject ctr => s!"reject\t{ctr}"
  | .outOfFuel => "out-of-fuel"

end AsModel
