import AsModel.Expand
import AsModel.Temporaries
/-
The exact token sequence of the expansion (what `quote!` / `quote_spanned!` emit
for each template of expand.rs and expand/nodes.rs), with the span every token is
stamped with.  The T2 tie compares this, token by token and span by span, with the
real `expand::expand` output on every run.
-/
namespace AsModel
open Runtime (NodeKind CmpOp)

abbrev Toks := List Tok

/-- Template text: whitespace-separated tokens, all stamped with `sp`. -/
def tq (sp : Sp) (s : String) : Toks :=
  ((s.splitOn " ").filter (· ≠ "")).map fun w => ⟨.plain w, sp⟩

def tstr (sp : Sp) (v : String) : Toks := [⟨.str v, sp⟩]

def cs : Sp := Sp.callSite

def nodeIdent (id : Nat) : Toks := tq cs s!"__PATTERN_NODE_{id}"

def sepBy (sep : Toks) : List Toks → Toks
  | [] => []
  | [x] => x
  | x :: xs => x ++ sep ++ sepBy sep xs

def FieldName.toks : FieldName → Toks
  | .ident i => [⟨.plain i.name, i.sp⟩]
  | .index n => tq cs (ToString.toString n)            -- `syn::Index::from(n)`: call-site literal

/-- A field name in a destructuring pattern: a tuple index is stamped with the span of the access it was written as. -/
def FieldName.toksAt (s : Sp) : FieldName → Toks
  | .ident i => [⟨.plain i.name, i.sp⟩]
  | .index n => tq s (ToString.toString n)

def Name.toks : Name → Toks
  | .field (.ident i) => [⟨.plain ("__assert_struct_field_" ++ i.unraw), i.sp⟩]  -- keeps the field's span
  | n => tq cs n.render                                -- `format_ident!` / `quote!`: call site

def Pre.toks : Pre → Toks
  | .star sp => tq sp "*"
  | .amp sp => tq sp "&"

def preToks (ps : List Pre) : Toks := ps.flatMap Pre.toks

def argToks (sp : Sp) (args : List UExpr) : Toks := sepBy (tq sp ",") (args.map (·.toks))

def Core.toks (value : Toks) : Core → Toks
  | .root => value
  | .var n => n.toks
  | .paren pre c => tq cs "(" ++ preToks pre ++ c.toks value ++ tq cs ")"
  | .method c sp name args =>
    c.toks value ++ tq sp "." ++ [⟨.plain name.name, name.sp⟩] ++ tq sp "(" ++ argToks sp args ++ tq sp ")"
  | .await c sp => c.toks value ++ tq sp ". await"
  | .named c sp name => c.toks value ++ tq sp "." ++ [⟨.plain name.name, name.sp⟩]
  | .unnamed c sp isp i => c.toks value ++ tq sp "." ++ tq isp (toString i)   -- since /repo 04cedd8 the index literal carries the operation's span (it was `syn::Index::from(n)`: call site)
  | .index c sp e => c.toks value ++ tq sp "[" ++ e.toks ++ tq sp "]"

def VExpr.toks (value : Toks) (v : VExpr) : Toks := preToks v.pre ++ v.core.toks value

def Binder.toks : Binder → Toks
  | .bind n => n.toks
  | .wild => tq cs "_"
  | .rest => tq cs ". ."

def Actual.toks (value : Toks) : Actual → Toks
  | .dbg v => tq cs "format ! (" ++ tstr cs "{:?}" ++ tq cs "," ++ v.toks value ++ tq cs ")"
  | .dbgRef v => tq cs "format ! (" ++ tstr cs "{:?}" ++ tq cs ", &" ++ v.toks value ++ tq cs ")"
  | .dbgActual => tq cs "format ! (" ++ tstr cs "{:?}" ++ tq cs ", actual )"
  | .mapLen v =>
    tq cs "format ! (" ++ tstr cs "map with {} entries" ++ tq cs ", (" ++ v.toks value ++ tq cs ") . len ( ) )"
  | .missingKey => tstr cs "missing key" ++ tq cs ". to_string ( )"

def Expected.toks : Expected → Toks
  | .none => tq cs "None"
  | .text s => tq cs "Some (" ++ tstr cs s ++ tq cs ". to_string ( ) )"
  | .entries n => tq cs "Some ( format ! (" ++ tstr cs "{} entries" ++ tq cs s!", {n}usize ) )"
  | .keyPresent k => tq cs "Some ( format ! (" ++ tstr cs "key present: {}" ++ tq cs "," ++ tstr cs k ++ tq cs ") )"

/-- `generate_error_push`. -/
def Push.toks (value : Toks) (p : Push) : Toks :=
  tq p.sp "__report . push ( &" ++ nodeIdent p.node ++ tq p.sp "," ++ p.actual.toks value ++
    tq p.sp "," ++ p.expected.toks ++ tq p.sp ") ;"

def CmpOp.method : CmpOp → String
  | .lt => "lt" | .le => "le" | .gt => "gt" | .ge => "ge" | .eq => "eq" | .ne => "ne"

def supportPath (sp : Sp) : Toks := tq sp ": : assert_struct : : __macro_support : :"

mutual
def Code.toks (value : Toks) : Code → Toks
  | .skip => []
  | .seq cs' => cs'.toks value
  | .simple sp v e push =>
    tq sp "if ! matches ! (" ++ v.toks value ++ tq sp "," ++ e.toks ++ tq sp ") {" ++ push.toks value ++ tq sp "}"
  | .string sp v lit s push =>
    match (Code.string sp v lit s push).hold with
    | .statement =>
      -- the value is a `match` scrutinee: all its temporaries live for the whole block
      tq sp "{ match &" ++ v.toks value ++
        tq sp "{ __assert_struct_ref = > { let __assert_struct_tmp = __assert_struct_ref ; let actual = ( * __assert_struct_tmp ) . as_ref ( ) ; if ! matches ! ( actual ," ++
        [lit] ++ tq sp ") {" ++ push.toks value ++ tq sp "} } } }"
    | .letRef =>
      -- (the template before f5121f2)
      tq sp "{ let __assert_struct_tmp = &" ++ v.toks value ++
        tq sp "; let actual = ( * __assert_struct_tmp ) . as_ref ( ) ; if ! matches ! ( actual ," ++
        [lit] ++ tq sp ") {" ++ push.toks value ++ tq sp "} }"
  | .cmp sp v op e push =>
    tq sp "# [ allow ( clippy : : nonminimal_bool ) ] if ! ( (" ++ v.toks value ++
      tq sp s!") . {CmpOp.method op} ( & (" ++ e.toks ++ tq sp ") ) ) {" ++ push.toks value ++ tq sp "}"
  | .unitVariant sp v path push =>
    tq sp "if ! matches ! (" ++ v.toks value ++ tq sp "," ++ path.toks ++ tq sp ") {" ++
      push.toks value ++ tq sp "}"
  | .enumTuple sp v path binders body push =>
    tq sp "# [ allow ( unreachable_patterns ) ] match &" ++ v.toks value ++ tq sp "{" ++ path.toks ++
      tq sp "(" ++ sepBy (tq sp ",") (binders.map Binder.toks) ++ tq sp ") = > {" ++ body.toks value ++
      tq sp "} , _ = > {" ++ push.toks value ++ tq sp "} }"
  | .structNamed sp v path fields fsps rest body push =>
    tq sp "# [ allow ( unreachable_patterns ) ] match &" ++ v.toks value ++ tq sp "{" ++ path.toks ++
      tq sp "{" ++ sepBy (tq sp ",") ((fields.zip fsps).map fun fs => fs.1.toksAt fs.2 ++ tq sp ":" ++ (Name.field fs.1).toks) ++
      (if !rest then [] else if fields.isEmpty then tq cs ". ." else tq cs ", . .") ++
      tq sp "} = > {" ++ body.toks value ++ tq sp "} , _ = > {" ++ push.toks value ++ tq sp "} }"
  | .tuple v binders body =>
    tq cs "# [ allow ( unreachable_patterns ) ] match &" ++ v.toks value ++ tq cs "{ (" ++
      sepBy (tq cs ",") (binders.map Binder.toks) ++ tq cs ") = > {" ++ body.toks value ++
      tq cs "} , _ = > unreachable ! (" ++ tstr cs "Plain tuple match should always succeed" ++ tq cs ") , }"
  | .range sp v e push =>
    tq sp "match &" ++ v.toks value ++ tq sp "{" ++ e.toks ++ tq sp "= > { } , _ = > {" ++
      push.toks value ++ tq sp "} }"
  | .slice v parts body push =>
    tq cs "match (" ++ v.toks value ++ tq cs ") . as_slice ( ) { [" ++
      sepBy (tq cs ",") (parts.map Binder.toks) ++ tq cs "] = > {" ++ body.toks value ++
      tq cs "} _ = > {" ++ push.toks value ++ tq cs "} }"
  | .regex sp v pat push =>
    tq sp "{ use : : assert_struct : : Like ; let __assert_struct_re =" ++ supportPath sp ++ tq sp "Regex : : new (" ++
      tstr cs pat ++ tq sp ") . expect ( concat ! (" ++ tstr sp "Invalid regex pattern: " ++ tq sp "," ++
      tstr cs pat ++ tq sp ") ) ; if ! (" ++ v.toks value ++ tq sp ") . like ( & __assert_struct_re ) {" ++
      push.toks value ++ tq sp "} }"
  | .like sp v e push =>
    tq sp "{ use : : assert_struct : : Like ; if ! (" ++ v.toks value ++ tq sp ") . like ( &" ++ e.toks ++
      tq sp ") {" ++ push.toks value ++ tq sp "} }"
  | .closure sp v e push =>
    tq sp "{ if !" ++ supportPath sp ++ tq sp "check_closure_condition (" ++ v.toks value ++ tq sp "," ++
      e.toks ++ tq sp ") {" ++ push.toks value ++ tq sp "} }"
  | .mapLen sp v n push =>
    tq sp "if (" ++ v.toks value ++ tq sp ") . len ( ) ! =" ++ tq cs s!"{n}usize" ++ tq sp "{" ++
      push.toks value ++ tq sp "}"
  | .mapGet sp v key body push =>
    tq sp "match (" ++ v.toks value ++ tq sp ") . get ( &" ++
      (if isStrLit key then tq sp "(" ++ key.toks ++ tq sp ") . to_string ( )" else key.toks) ++
      tq sp ") { Some ( __map_value ) = > {" ++ body.toks value ++ tq sp "} None = > {" ++
      push.toks value ++ tq sp "} }"
  | .set v preds rest node =>
    (match (Code.set v preds rest node).hold with
     | .statement => tq cs "match & (" ++ v.toks value ++ tq cs ") { __set_src = > {"
     | .letRef => tq cs "{ let __set_src = & (" ++ v.toks value ++ tq cs ") ;") ++
      tq cs "let __set_coll : : : std : : vec : : Vec < _ > = __set_src . into_iter ( ) . collect ( ) ;" ++
      preds.predToks value 0 ++
      tq cs "let __set_preds : & [ & dyn : : std : : ops : : Fn ( usize ) - > bool ] = & [" ++
      sepBy (tq cs ",") ((List.range preds.toList.length).map fun i => tq cs s!"& __set_pred_{i}") ++
      tq cs "] ;" ++ supportPath cs ++ tq cs "set_match ( __set_coll . len ( ) ," ++
      tq cs (if rest then "true" else "false") ++ tq cs ", __set_preds , & mut __report , &" ++
      nodeIdent node ++ tq cs ", ) ; }" ++
      (match (Code.set v preds rest node).hold with | .statement => tq cs "}" | .letRef => [])
def Codes.toks (value : Toks) : Codes → Toks
  | .nil => []
  | .cons c tl => c.toks value ++ tl.toks value
/-- The predicate closures of a set pattern. -/
def Codes.predToks (value : Toks) : Codes → Nat → Toks
  | .nil, _ => []
  | .cons c tl, i =>
    tq cs s!"let __set_pred_{i} = | __set_idx : usize | - > bool" ++
      tq cs "{ let __set_elem = __set_coll [ __set_idx ] ; # [ allow ( unused_mut ) ] let mut __report =" ++
      supportPath cs ++ tq cs "ErrorReport : : new_probe ( ) ;" ++ c.toks value ++
      tq cs "__report . is_empty ( ) } ;" ++ tl.predToks value (i + 1)
end

/-! ### Node definitions -/

def refList (ids : List Nat) : Toks :=
  tq cs "& [" ++ sepBy (tq cs ",") (ids.map fun i => tq cs "&" ++ nodeIdent i) ++ tq cs "]"

def entryList (es : List (String × Nat)) : Toks :=
  tq cs "& [" ++ sepBy (tq cs ",") (es.map fun (k, i) => tq cs "(" ++ tstr cs k ++ tq cs ", &" ++ nodeIdent i ++ tq cs ")") ++ tq cs "]"

def boolTok (b : Bool) : Toks := tq cs (if b then "true" else "false")

def CmpOp.variant : CmpOp → String
  | .lt => "Less" | .le => "LessEqual" | .gt => "Greater" | .ge => "GreaterEqual"
  | .eq => "Equal" | .ne => "NotEqual"

def kindPath : Toks := supportPath cs ++ tq cs "NodeKind : :"

def nodeKindToks : NodeKind → Toks
  | .simple v => kindPath ++ tq cs "Simple { value :" ++ tstr cs v ++ tq cs ", }"
  | .comparison op v =>
    kindPath ++ tq cs "Comparison { op :" ++ supportPath cs ++ tq cs s!"ComparisonOp : : {CmpOp.variant op} , value :" ++
      tstr cs v ++ tq cs ", }"
  | .range p => kindPath ++ tq cs "Range { pattern :" ++ tstr cs p ++ tq cs ", }"
  | .regex p => kindPath ++ tq cs "Regex { pattern :" ++ tstr cs p ++ tq cs ", }"
  | .like e => kindPath ++ tq cs "Like { expr :" ++ tstr cs e ++ tq cs ", }"
  | .wildcard => kindPath ++ tq cs "Wildcard"
  | .closure c => kindPath ++ tq cs "Closure { closure :" ++ tstr cs c ++ tq cs ", }"
  | .enumVariant path args =>
    kindPath ++ tq cs "EnumVariant { path :" ++ tstr cs path ++ tq cs ", args :" ++
      (match args with
        | none => tq cs "None"
        | some ids => tq cs "Some (" ++ refList ids ++ tq cs ")") ++ tq cs ", }"
  | .tuple items => kindPath ++ tq cs "Tuple { items :" ++ refList items ++ tq cs ", }"
  | .slice items rest =>
    kindPath ++ tq cs "Slice { items :" ++ refList items ++ tq cs ", rest :" ++ boolTok rest ++ tq cs ", }"
  | .struct name fields rest =>
    kindPath ++ tq cs "Struct { name :" ++ tstr cs name ++ tq cs ", fields :" ++ entryList fields ++
      tq cs ", rest :" ++ boolTok rest ++ tq cs ", }"
  | .set items rest =>
    kindPath ++ tq cs "Set { items :" ++ refList items ++ tq cs ", rest :" ++ boolTok rest ++ tq cs ", }"
  | .map entries rest =>
    kindPath ++ tq cs "Map { entries :" ++ entryList entries ++ tq cs ", rest :" ++ boolTok rest ++ tq cs ", }"

def NodeDef.toks (d : NodeDef) : Toks :=
  supportPath cs ++ tq cs "PatternNode { kind :" ++ nodeKindToks d.kind ++ tq cs ", parent :" ++
    (match d.parent with
      | none => tq cs "None"
      | some p => tq cs "Some ( &" ++ nodeIdent p ++ tq cs ")") ++
    tq cs s!", line_start : {d.loc.ls}u32 , col_start : {d.loc.cs}u32 , line_end : {d.loc.le}u32 , col_end : {d.loc.ce}u32 , }"

/-- Everything `expand` emits before the binding of the asserted expression. -/
def Expansion.head (x : Expansion) : Toks :=
  tq cs "{ # [ allow ( unused_assignments , clippy : : neg_cmp_op_on_partial_ord , clippy : : op_ref , clippy : : zero_prefixed_literal , clippy : : bool_comparison , clippy : : redundant_pattern_matching , clippy : : useless_asref ) ] let __assert_struct_result = { use std : : convert : : AsRef ;" ++
    (x.nodes.flatMap fun (id, d) =>
      tq cs "static" ++ nodeIdent id ++ tq cs ":" ++ supportPath cs ++ tq cs "PatternNode =" ++ d.toks ++ tq cs ";") ++
    tq cs "const __PATTERN_TREE : &" ++ supportPath cs ++ tq cs "PatternNode = &" ++ nodeIdent x.root ++ tq cs ";" ++
    tq cs "let mut __report =" ++ supportPath cs ++ tq cs "ErrorReport : : new ( : : std : : env ! (" ++
    tstr cs "CARGO_MANIFEST_DIR" ++ tq cs ") , : : std : : file ! ( ) , ) ;"

/-- Everything `expand` emits after the assertion code. -/
def Expansion.tail : Toks :=
  tq cs "if ! __report . is_empty ( ) { panic ! (" ++ tstr cs "{}" ++ tq cs ", __report ) ; } } ; __assert_struct_result }"

/-- `expand(assert)`: the whole output block. -/
def Expansion.toks (value : Toks) (x : Expansion) : Toks :=
  x.head ++
    (if (x.body.toks value).isEmpty then []
     else tq cs "let __assert_struct_value = & (" ++ value ++ tq cs ") ;") ++
    x.body.toks value ++ Expansion.tail

end AsModel
