import AsModel.Nodes
/-
Model of the code generator (assert-struct-macros/src/expand.rs): an IR whose
constructors are in one-to-one correspondence with the generator templates, and
`expand`, which follows expand.rs function by function.  `Render.lean` turns the
IR back into the exact token sequence; `Exec.lean` gives it meaning.
-/
namespace AsModel
open Runtime (CmpOp)

/-- Names the expansion introduces, as data. -/
inductive Name
  | elem (i : Nat)            -- `__elem_i`        (enum-variant and slice elements)
  | tupleElem (i : Nat)       -- `__tuple_elem_i`
  | mapValue                  -- `__map_value`
  | setElem                   -- `__set_elem`
  | setSrc                    -- `__set_src`: a reference to the collection a set pattern is matched against
  | field (f : FieldName)     -- a destructured struct field: `__assert_struct_field_<field>`
  | rootValue                 -- `__assert_struct_value`: a reference to the asserted expression
  deriving DecidableEq, Repr, Inhabited

def Name.render : Name → String
  | .elem i => "__elem_" ++ toString i
  | .tupleElem i => "__tuple_elem_" ++ toString i
  | .mapValue => "__map_value"
  | .setElem => "__set_elem"
  | .setSrc => "__set_src"
  | .field (.ident i) => "__assert_struct_field_" ++ i.unraw
  | .field (.index n) => "__assert_struct_field_" ++ toString n
  | .rootValue => "__assert_struct_value"

/-- Prefix operators spliced in front of a value expression. -/
inductive Pre
  | star (sp : Sp)
  | amp (sp : Sp)
  deriving DecidableEq, Repr, Inhabited

/-- The postfix part of a value expression, as the spliced tokens parse. -/
inductive Core
  | root                                              -- the asserted expression's tokens
  | var (n : Name)
  | paren (pre : List Pre) (c : Core)                 -- `( pre c )`, parentheses at the call site
  | method (c : Core) (sp : Sp) (name : IdentTok) (args : List UExpr)
  | await (c : Core) (sp : Sp)
  | named (c : Core) (sp : Sp) (name : IdentTok)
  | unnamed (c : Core) (sp : Sp) (isp : Sp) (index : Nat)   -- `sp`: the `.`, `isp`: the index literal
  | index (c : Core) (sp : Sp) (e : UExpr)
  deriving Repr, Inhabited

/-- A value expression: prefix operators (outermost first), then a postfix chain.
Rust parses `* * b . len ( )` as `*(*(b.len()))`, so a postfix operation spliced
after a prefixed expression attaches *under* the prefixes. -/
structure VExpr where
  pre : List Pre
  core : Core
  deriving Repr, Inhabited

def VExpr.ofCore (c : Core) : VExpr := ⟨[], c⟩

/-- `apply_field_operations(base, op)` for one operation. -/
def applyOp (ve : VExpr) : FieldOp → VExpr
  | .deref count sp => { ve with pre := List.replicate (count + 1) (Pre.star sp) ++ ve.pre }
  | .method name sp args => { ve with core := .method ve.core sp name args }
  | .await sp => { ve with core := .await ve.core sp }
  | .named name sp => { ve with core := .named ve.core sp name }
  | .unnamed i sp => { ve with core := .unnamed ve.core sp sp i }
  | .index e sp => { ve with core := .index ve.core sp e }

/-- `apply_field_operations(base, ops)` (a single operation or `Chained`). -/
def applyOps (ve : VExpr) (ops : FieldOps) : VExpr := ops.ops.foldl applyOp ve

inductive Binder
  | bind (n : Name)
  | wild
  | rest
  deriving DecidableEq, Repr, Inhabited

/-- The `actual` argument of a push. -/
inductive Actual
  | dbg (v : VExpr)            -- format!("{:?}", V)
  | dbgRef (v : VExpr)         -- format!("{:?}", &V)
  | dbgActual                  -- format!("{:?}", actual)          (string template)
  | mapLen (v : VExpr)         -- format!("map with {} entries", (V).len())
  | missingKey                 -- "missing key".to_string()
  deriving Repr, Inhabited

/-- The `expected` argument of a push. -/
inductive Expected
  | none
  | text (s : String)          -- Some("…".to_string())
  | entries (n : Nat)          -- Some(format!("{} entries", n))
  | keyPresent (k : String)    -- Some(format!("key present: {}", "k"))
  deriving Repr, Inhabited

/-- `__report.push(&NODE, actual, expected);` stamped with `sp`. -/
structure Push where
  sp : Sp
  node : Nat
  actual : Actual
  expected : Expected
  deriving Repr, Inhabited

mutual
/-- One constructor per generator template of expand.rs. -/
inductive Code
  | skip
  | seq (cs : Codes)
  | simple (sp : Sp) (v : VExpr) (e : UExpr) (push : Push)
  | string (sp : Sp) (v : VExpr) (lit : Tok) (value : String) (push : Push)
  | cmp (sp : Sp) (v : VExpr) (op : CmpOp) (e : UExpr) (push : Push)
  | unitVariant (sp : Sp) (v : VExpr) (path : UPath) (push : Push)
  | enumTuple (sp : Sp) (v : VExpr) (path : UPath) (binders : List Binder) (body : Codes) (push : Push)
  | structNamed (sp : Sp) (v : VExpr) (path : UPath) (fields : List FieldName) (fsps : List Sp) (rest : Bool)
      (body : Codes) (push : Push)
  | tuple (v : VExpr) (binders : List Binder) (body : Codes)
  | range (sp : Sp) (v : VExpr) (e : UExpr) (push : Push)
  | slice (v : VExpr) (parts : List Binder) (body : Codes) (push : Push)
  | regex (sp : Sp) (v : VExpr) (pattern : String) (push : Push)
  | like (sp : Sp) (v : VExpr) (e : UExpr) (push : Push)
  | closure (sp : Sp) (v : VExpr) (e : UExpr) (push : Push)
  | mapLen (sp : Sp) (v : VExpr) (n : Nat) (push : Push)
  | mapGet (sp : Sp) (v : VExpr) (key : UExpr) (body : Code) (push : Push)
  | set (v : VExpr) (preds : Codes) (rest : Bool) (node : Nat)
inductive Codes
  | nil
  | cons (c : Code) (tl : Codes)
end

instance : Inhabited Code := ⟨.skip⟩
instance : Inhabited Codes := ⟨.nil⟩

def Codes.append : Codes → Codes → Codes
  | .nil, ys => ys
  | .cons c tl, ys => .cons c (tl.append ys)

def Codes.toList : Codes → List Code
  | .nil => []
  | .cons c tl => c :: tl.toList

/-- Unique root field names in first-occurrence order (`unique_field_names` / `field_names`). -/
def FieldName.sameName : FieldName → FieldName → Bool
  | .ident a, .ident b => a.name == b.name        -- `Ident` equality ignores spans
  | .index a, .index b => a == b
  | _, _ => false

def dedupNames : List FieldName → List FieldName → List FieldName
  | [], _ => []
  | f :: fs, seen =>
    if seen.any (FieldName.sameName f) then dedupNames fs seen else f :: dedupNames fs (f :: seen)

/-- The span recorded with one field operation. -/
def FieldOp.span : FieldOp → Sp
  | .deref _ sp | .method _ sp _ | .await sp | .named _ sp | .unnamed _ sp | .index _ sp => sp

/-- `FieldOperation::root_field_span`: the span of the operation `root_field_name` reads. -/
def FieldOps.rootFieldSp (f : FieldOps) : Sp :=
  match f.ops with
  | [op] => op.span
  | ops =>
    match ops.find? (fun o => !o.isDeref) with
    | some op => op.span
    | none => Sp.callSite

/-- The span of the field access each root field name was read from (parallel to `Items.rootNames`). -/
def Items.rootSps : Items → List Sp
  | .nil => []
  | .cons ops _ _ tl =>
    match ops.bind FieldOps.rootFieldName? with
    | some _ => (match ops with | some o => o.rootFieldSp | none => Sp.callSite) :: tl.rootSps
    | none => tl.rootSps

/-- The spans that go with `dedupNames`: the span of the FIRST occurrence of every name (since the
third index-literal fix in /repo the destructuring pattern stamps a tuple index with it). -/
def dedupSps : List FieldName → List Sp → List FieldName → List Sp
  | f :: fs, s :: ss, seen =>
    if seen.any (FieldName.sameName f) then dedupSps fs ss seen else s :: dedupSps fs ss (f :: seen)
  | _, _, _ => []

/-- Value expression a field assertion tests, starting from the bound base
(`expand_field_assertion`). -/
def fieldValue (base : VExpr) (ops : FieldOps) : VExpr :=
  match ops.tailOps? with
  | some (some tl) => applyOps base tl
  | _ => base

def isStrLit (e : UExpr) : Bool :=
  match e.cls with
  | .litStr _ => true
  | _ => false

def dbgPush (sp : Sp) (node : Nat) (v : VExpr) : Push := ⟨sp, node, .dbg v, .none⟩

/-- `(#value_expr).#field_name`: field access on the parenthesised value expression. -/
def wildBase (v : VExpr) (rsp : Sp) : FieldName → Core
  | .ident i => .named (.paren v.pre v.core) Sp.callSite i
  | .index n => .unnamed (.paren v.pre v.core) Sp.callSite rsp n   -- since /repo 821460c the index literal carries the root access's span

mutual
/-- `expand_pattern_assertion(value_expr, pattern)`. -/
def expandPat (v : VExpr) : Pat → Code
  | .simple id e => .simple e.sp v e (dbgPush e.sp id v)
  | .string id value sp tok => .string sp v tok value ⟨sp, id, .dbgActual, .none⟩
  | .cmp id op _ e =>
    .cmp e.sp v op e ⟨e.sp, id, .dbg v, if op = .eq then .text e.text else .none⟩
  | .enum id path elems =>
    if elems.length = 0 then .unitVariant path.sp v path (dbgPush path.sp id v)
    else .enumTuple path.sp v path (elemBinders elems 0 Name.elem) (expandElems elems 0 Name.elem)
      (dbgPush path.sp id v)
  | .tuple _ _ elems =>
    .tuple v (elemBinders elems 0 Name.tupleElem) (expandElems elems 0 Name.tupleElem)
  | .wild _ => .skip
  | .range id e => .range e.sp v e (dbgPush e.sp id v)
  | .slice id _ elems =>
    .slice v (sliceParts elems 0) (expandSliceElems elems 0) ⟨Sp.callSite, id, .dbgRef v, .none⟩
  | .regex id pat sp => .regex sp v pat (dbgPush sp id v)
  | .like id e => .like e.sp v e (dbgPush e.sp id v)
  | .closure id e => .closure e.sp v e (dbgPush e.sp id v)
  | .struct id (some path) fields rest =>
    .structNamed path.sp v path (dedupNames fields.rootNames []) (dedupSps fields.rootNames fields.rootSps []) rest (expandFields fields)
      (dbgPush path.sp id v)
  | .struct _ none fields _ => .seq (expandWildFields v fields)
  | .map id _ entries rest =>
    let mapSp := match entries with
      | .cons _ (some k) _ _ => k.sp
      | _ => Sp.callSite
    let lenCheck : Codes :=
      if rest then .nil
      else .cons (.mapLen mapSp v entries.length ⟨mapSp, id, .mapLen v, .entries entries.length⟩) .nil
    .seq (lenCheck.append (expandEntries v id entries))
  | .set id _ elems rest => .set v (expandSetElems elems) rest id

/-- Assertions of the fields of a named struct pattern, each starting from its binding. -/
def expandFields : Items → Codes
  | .nil => .nil
  | .cons ops _ p tl =>
    let c := match ops with
      | some ops =>
        match ops.rootFieldName? with
        | some f => expandPat (fieldValue (VExpr.ofCore (.var (.field f))) ops) p
        | none => .skip
      | none => .skip
    .cons c (expandFields tl)

/-- `expand_struct_wildcard_assertion`: field access instead of bindings. -/
def expandWildFields (v : VExpr) : Items → Codes
  | .nil => .nil
  | .cons ops _ p tl =>
    let c := match ops with
      | some ops =>
        match ops.rootFieldName? with
        | some f =>
          let base : Core := wildBase v ops.rootFieldSp f
          match ops.tailOps? with
          | some (some tl) => expandPat (applyOps (VExpr.ofCore base) tl) p
          | _ => expandPat ⟨[Pre.amp Sp.callSite], base⟩ p
        | none => .skip
      | none => .skip
    .cons c (expandWildFields v tl)

/-- `process_tuple_elements`: the assertions (wildcards generate none). -/
def expandElems : Items → Nat → (Nat → Name) → Codes
  | .nil, _, _ => .nil
  | .cons ops _ p tl, i, mk =>
    if p.isWild then expandElems tl (i + 1) mk
    else
      let base := VExpr.ofCore (.var (mk i))
      let c := match ops with
        | none => expandPat base p
        | some ops => expandPat (fieldValue base ops) p
      .cons c (expandElems tl (i + 1) mk)

/-- Element assertions of a slice pattern (`..` and `_` generate none). -/
def expandSliceElems : Items → Nat → Codes
  | .nil, _ => .nil
  | .cons _ _ p tl, i =>
    if p.isSliceRest || p.isWild then expandSliceElems tl (i + 1)
    else .cons (expandPat (VExpr.ofCore (.var (.elem i))) p) (expandSliceElems tl (i + 1))

/-- One probe predicate body per set element. -/
def expandSetElems : Items → Codes
  | .nil => .nil
  | .cons _ _ p tl => .cons (expandPat (VExpr.ofCore (.var .setElem)) p) (expandSetElems tl)

/-- Per-key lookups of a map pattern. -/
def expandEntries (v : VExpr) (node : Nat) : Items → Codes
  | .nil => .nil
  | .cons _ key p tl =>
    let c := match key with
      | some k =>
        .mapGet k.sp v k (expandPat (VExpr.ofCore (.var .mapValue)) p)
          ⟨k.sp, node, .missingKey, .keyPresent k.text⟩
      | none => .skip
    .cons c (expandEntries v node tl)

/-- `process_tuple_elements`: the match patterns. -/
def elemBinders : Items → Nat → (Nat → Name) → List Binder
  | .nil, _, _ => []
  | .cons _ _ p tl, i, mk =>
    (if p.isWild then Binder.wild else Binder.bind (mk i)) :: elemBinders tl (i + 1) mk

def sliceParts : Items → Nat → List Binder
  | .nil, _ => []
  | .cons _ _ p tl, i =>
    (if p.isSliceRest then Binder.rest else if p.isWild then Binder.wild else Binder.bind (.elem i))
      :: sliceParts tl (i + 1)
end

/-- The whole expansion: node definitions (in emission order), root node, assertion.
The asserted expression is bound once, by reference, to `__assert_struct_value`
(`let __assert_struct_value = &(expr);`), and the root pattern is expanded on that
binding; the `let` is emitted only when the assertion is not empty. -/
structure Expansion where
  nodes : List (Nat × NodeDef)
  root : Nat
  body : Code

/-- The value expression handed to the root pattern. -/
def rootVExpr : VExpr := VExpr.ofCore (.var .rootValue)

def expand (p : Pat) : Expansion :=
  { nodes := genNodes p none, root := p.id, body := expandPat rootVExpr p }

/-! ### Panic sites reachable from expansion -/

def FieldOp.indexTooLarge : FieldOp → Bool
  | .unnamed i _ => decide (4294967295 ≤ i)       -- `syn::Index::from`: assert!(index < u32::MAX)
  | _ => false

def FieldOps.panics (f : FieldOps) : Bool :=
  f.rootFieldName?.isNone || f.tailOps?.isNone || f.ops.any FieldOp.indexTooLarge

mutual
/-- Does expansion reach one of the code's panic sites? -/
def Pat.expandPanics : Pat → Bool
  | .struct _ _ fields _ => fields.expandPanics
  | .enum _ _ elems | .tuple _ _ elems | .slice _ _ elems | .set _ _ elems _ | .map _ _ elems _ =>
    elems.expandPanics
  | _ => false
def Items.expandPanics : Items → Bool
  | .nil => false
  | .cons ops _ p tl => (match ops with | some o => o.panics | none => false) || p.expandPanics || tl.expandPanics
end

end AsModel
