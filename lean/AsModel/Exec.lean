import AsModel.Expand
import AsModel.Spec
/-
Meaning of the expansion IR: the fragment of Rust's dynamic semantics the generated
code relies on (`match` with default binding modes, literal / range / path / binding
patterns, `matches!`, method auto-deref, `*`, `&`).  A value travels with the number
of references it is behind (`RV`): bindings made under `match &e` are references,
`*` removes one reference before it touches a smart pointer.  `none` = the generated
code does not type-check (rustc rejects the program).
-/
namespace AsModel
open Runtime (setMatch)

/-- A value behind `d` shared references. -/
structure RV where
  v : Val
  d : Nat
  deriving Inhabited

/-- Binder identity (what Rust's name resolution compares): the identifier's text. -/
inductive Key
  | elem (i : Nat) | tupleElem (i : Nat) | mapValue | setElem | setSrc
  | fieldIdent (s : String) | fieldIndex (n : Nat) | rootValue
  deriving DecidableEq, Repr

def Name.key : Name → Key
  | .elem i => .elem i
  | .tupleElem i => .tupleElem i
  | .mapValue => .mapValue
  | .setElem => .setElem
  | .setSrc => .setSrc
  | .field (.ident i) => .fieldIdent i.name
  | .field (.index n) => .fieldIndex n
  | .rootValue => .rootValue

abbrev Env := Key → Option RV

def Env.set (env : Env) (k : Key) (x : RV) : Env := fun j => if j = k then some x else env j

/-- `*e`. -/
def RV.star (x : RV) : Option RV :=
  match x.d with
  | d + 1 => some ⟨x.v, d⟩
  | 0 => x.v.deref1.map fun w => ⟨w, 0⟩

def applyPre : Pre → RV → Option RV
  | .star _, x => x.star
  | .amp _, x => some ⟨x.v, x.d + 1⟩

/-- Prefix operators apply innermost (last) first. -/
def applyPres : List Pre → RV → Option RV
  | [], x => some x
  | p :: ps, x => (applyPres ps x).bind (applyPre p)

def evalCore (P : Prims) (env : Env) : Core → Option RV
  | .root => none                                      -- only inside `let __assert_struct_value = &(..)`
  | .var n => env n.key
  | .paren pre c => (evalCore P env c).bind (applyPres pre)
  | .method c _ name args => (evalCore P env c).bind fun x => (P.method name.name args x.v).map (⟨·, 0⟩)
  | .await c _ => evalCore P env c
  | .named c _ name => (evalCore P env c).bind fun x => (x.v.field (.ident name)).map (⟨·, 0⟩)
  | .unnamed c _ _ i => (evalCore P env c).bind fun x => (x.v.field (.index i)).map (⟨·, 0⟩)
  | .index c _ e => (evalCore P env c).bind fun x => (P.index x.v e).map (⟨·, 0⟩)

def evalV (P : Prims) (env : Env) (v : VExpr) : Option RV :=
  (evalCore P env v.core).bind (applyPres v.pre)

def Expected.text? : Expected → Option String
  | .none => Option.none
  | .text s => some s
  | .entries n => some s!"{n} entries"
  | .keyPresent k => some s!"key present: {k}"

/-- Evaluate `__report.push(&NODE, actual, expected)`; `actual?` is the string template's
`actual` local. -/
def Push.eval (P : Prims) (env : Env) (actual? : Option Val) (p : Push) : Option Entry :=
  match p.actual with
  | .dbg v | .dbgRef v => (evalV P env v).map fun x => ⟨p.node, P.debug x.v, p.expected.text?⟩
  | .dbgActual => actual?.map fun a => ⟨p.node, P.debug a, p.expected.text?⟩
  | .mapLen v => (evalV P env v).bind fun x =>
    match x.v.autoDeref with
    | .map ks _ => some ⟨p.node, s!"map with {ks.length} entries", p.expected.text?⟩
    | _ => none
  | .missingKey => some ⟨p.node, "missing key", p.expected.text?⟩

/-- `if !test { push }`. -/
def guardPush (P : Prims) (env : Env) (actual? : Option Val) (test : Bool) (p : Push) : Option (List Entry) :=
  if test then some [] else (p.eval P env actual?).map fun e => [e]

/-- Bind the positional binders of a tuple / tuple-variant pattern (references to the components). -/
def bindElems : List Binder → List Val → Env → Env
  | [], _, env => env
  | _, [], env => env
  | b :: bs, v :: vs, env =>
    let env' := bindElems bs vs env
    match b with
    | .bind n => env'.set n.key ⟨v, 1⟩
    | _ => env'

/-- Bind the fields a struct pattern names (references to the fields); `none`: no such field. -/
def bindFields (x : Val) : List FieldName → Env → Option Env
  | [], env => some env
  | f :: fs, env =>
    match x.field f, bindFields x fs env with
    | some w, some env' => some (env'.set (Name.field f).key ⟨w, 1⟩)
    | _, _ => none

def Binder.isRest : Binder → Bool
  | .rest => true
  | _ => false

/-- Bind the element binders of a native slice pattern whose shape already matched: those
before `..` from the front, those after it from the back. -/
def bindSlice : List Binder → List Val → Env → Env
  | [], _, env => env
  | b :: bs, vs, env =>
    if b.isRest then bindSlice bs (vs.drop (vs.length - bs.length)) env
    else match vs with
      | [] => env
      | v :: vs' =>
        let env' := bindSlice bs vs' env
        match b with
        | .bind n => env'.set n.key ⟨v, 1⟩
        | _ => env'

def allListed (names : List String) (fields : List FieldName) : Bool :=
  names.all fun n => fields.any fun f => f.toString == n

mutual
/-- Run the assertion code; the result is the list of entries pushed, in order. -/
def exec (P : Prims) : Code → Env → Option (List Entry)
  | .skip, _ => some []
  | .seq cs, env => execs P cs env
  | .simple _ v e push, env => (evalV P env v).bind fun x => guardPush P env none (P.lit e x.v) push
  | .string _ v _ value push, env =>
    (evalV P env v).bind fun x => guardPush P env (some x.v) (P.strLit value x.v) push
  | .cmp _ v op e push, env => (evalV P env v).bind fun x => guardPush P env none (P.cmp op x.v e) push
  | .unitVariant _ v path push, env =>
    (evalV P env v).bind fun x => guardPush P env none (P.unitPath path x.v) push
  | .range _ v e push, env => (evalV P env v).bind fun x => guardPush P env none (P.inRange e x.v) push
  | .regex _ v pat push, env => (evalV P env v).bind fun x => guardPush P env none (P.regex pat x.v) push
  | .like _ v e push, env => (evalV P env v).bind fun x => guardPush P env none (P.like e x.v) push
  | .closure _ v e push, env => (evalV P env v).bind fun x => guardPush P env none (P.closure e x.v) push
  | .enumTuple _ v path binders body push, env =>
    (evalV P env v).bind fun x =>
      match x.v with
      | .adt ctor _ vals =>
        if P.ctor path ctor then
          (if vals.length = binders.length then execs P body (bindElems binders vals env) else none)
        else guardPush P env none false push
      | _ => none
  | .structNamed _ v path fields _ rest body push, env =>
    (evalV P env v).bind fun x =>
      match x.v with
      | .adt ctor names _ =>
        if P.ctor path ctor then
          (if rest || allListed names fields then
            (bindFields x.v fields env).bind fun env' => execs P body env'
          else none)
        else guardPush P env none false push
      | _ => none
  | .tuple v binders body, env =>
    (evalV P env v).bind fun x =>
      match binders with
      | [b] =>                                   -- `(b)`: a parenthesised pattern, binds `&V` itself
        execs P body (match b with | .bind n => env.set n.key ⟨x.v, x.d + 1⟩ | _ => env)
      | _ => match x.v with
        | .tuple vs => if vs.length = binders.length then execs P body (bindElems binders vs env) else none
        | _ => none
  | .slice v parts body push, env =>
    (evalV P env v).bind fun x =>
      match x.v.autoDeref with
      | .seq vs =>
        let nRest := parts.countP Binder.isRest
        let n := parts.length - nRest
        if nRest = 0 then
          (if vs.length = n then execs P body (bindSlice parts vs env) else guardPush P env none false push)
        else if nRest = 1 then
          (if n ≤ vs.length then execs P body (bindSlice parts vs env) else guardPush P env none false push)
        else none
      | _ => none
  | .mapLen _ v n push, env =>
    (evalV P env v).bind fun x =>
      match x.v.autoDeref with
      | .map ks _ => guardPush P env none (ks.length == n) push
      | _ => none
  | .mapGet _ v key body push, env =>
    (evalV P env v).bind fun x =>
      match x.v.autoDeref with
      | .map ks vs =>
        match mapLookup P.valEq (P.key key) ks vs with
        | some val => exec P body (env.set Key.mapValue ⟨val, 1⟩)
        | none => guardPush P env none false push
      | _ => none
  | .set v preds rest node, env =>
    (evalV P env v).bind fun x =>
      match x.v.elems? with
      | some vs =>
        let rows := probeRows P preds vs env
        let M : Nat → Nat → Bool := fun k i => (rows.getD k []).getD i false
        some ((setMatch vs.length rest preds.toList.length M).map fun pu => ⟨node, pu.actual, pu.expected⟩)
      | none => none
def execs (P : Prims) : Codes → Env → Option (List Entry)
  | .nil, _ => some []
  | .cons c tl, env => appendO (exec P c env) (execs P tl env)
/-- One row per probe predicate: does the pattern's code, run against a fresh probe report
with `__set_elem` bound to a reference to element `i`, push nothing? -/
def probeRows (P : Prims) : Codes → List Val → Env → List (List Bool)
  | .nil, _, _ => []
  | .cons c tl, vs, env =>
    (vs.map fun el => match exec P c (env.set Key.setElem ⟨el, 1⟩) with | some [] => true | _ => false)
      :: probeRows P tl vs env
end

/-- The whole expansion on an asserted value: `let __assert_struct_value = &(value);` then the body. -/
def run (P : Prims) (x : Expansion) (value : Val) : Option (List Entry) :=
  exec P x.body (Env.set (fun _ => none) Key.rootValue ⟨value, 1⟩)

end AsModel
