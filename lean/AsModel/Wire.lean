/- Line-protocol helpers shared by the driver: hex, tokens, numbers. -/
namespace AsModel.Wire

def hexDigit (c : Char) : Option Nat :=
  if '0' ≤ c ∧ c ≤ '9' then some (c.toNat - '0'.toNat)
  else if 'a' ≤ c ∧ c ≤ 'f' then some (c.toNat - 'a'.toNat + 10)
  else none

def unhexBytes (s : String) : Option ByteArray :=
  if s = "-" then some ByteArray.empty else
  let rec go : List Char → ByteArray → Option ByteArray
    | [], acc => some acc
    | [_], _ => none
    | a :: b :: rest, acc =>
      match hexDigit a, hexDigit b with
      | some x, some y => go rest (acc.push (UInt8.ofNat (16 * x + y)))
      | _, _ => none
  go s.toList ByteArray.empty

def unhex (s : String) : Option String := do
  let b ← unhexBytes s
  String.fromUTF8? b

def hexNibble (n : Nat) : Char :=
  if n < 10 then Char.ofNat ('0'.toNat + n) else Char.ofNat ('a'.toNat + n - 10)

def hex (s : String) : String :=
  if s.isEmpty then "-" else
  String.ofList (s.toUTF8.toList.flatMap fun b => [hexNibble (b.toNat / 16), hexNibble (b.toNat % 16)])

def optHex (s : String) : Option (Option String) :=
  if s = "none" then some none else (unhex s).map some

end AsModel.Wire
