import AsModel.SExp
import AsModel.Spec
import AsModel.Nodes
/-
The executable instance of `Prims` used to predict what compiled programs do:
`Debug` output, comparison and equality of the generated value universe, and the
meaning of the user expressions the generator writes (given as a table, because the
model never looks inside user expressions).  Driver-side code; validated against
real programs by the T3 tie on every run.
-/
namespace AsModel
open Wire Runtime

partial def readVal : SExp → Option Val
  | .list [.atom "int", .atom n] => n.toInt?.map .int
  | .list [.atom "bool", .atom b] => (readBool b).map .bool
  | .list [.atom "str", .atom h] => (unhex h).map .str
  | .list [.atom "chr", .atom h] => (unhex h).bind fun s => s.toList.head?.map .chr
  | .list [.atom "dec", .atom n] => n.toInt?.map .dec
  | .list (.atom "tuple" :: vs) => (vs.mapM readVal).map .tuple
  | .list [.atom "adt", .atom c, .list (.atom "names" :: ns), .list (.atom "vals" :: vs)] => do
    let c ← unhex c
    let ns ← ns.mapM fun x => match x with | .atom a => unhex a | _ => none
    pure (.adt c ns (← vs.mapM readVal))
  | .list (.atom "seq" :: vs) => (vs.mapM readVal).map .seq
  | .list (.atom "setv" :: vs) => (vs.mapM readVal).map .setv
  | .list [.atom "map", .list (.atom "keys" :: ks), .list (.atom "vals" :: vs)] => do
    pure (.map (← ks.mapM readVal) (← vs.mapM readVal))
  | .list [.atom "box", v] => (readVal v).map .box
  | _ => none

def escStr (s : String) (forChar : Bool) : String :=
  String.join <| s.toList.map fun c =>
    if c = '\\' then "\\\\"
    else if c = '"' ∧ !forChar then "\\\""
    else if c = '\'' ∧ forChar then "\\'"
    else if c = '\n' then "\\n"
    else if c = '\r' then "\\r"
    else if c = '\t' then "\\t"
    else if c = '\x00' then "\\0"
    -- `Debug` escapes grapheme-extending characters (combining marks, joiners, variation selectors); the ones in the generator's pool:
    else if c.toNat = 0x301 then "\\u{301}"
    else if c.toNat = 0x94D then "\\u{94d}"
    else if c.toNat = 0x947 then "\\u{947}"
    else if c.toNat = 0x200D then "\\u{200d}"
    else if c.toNat = 0xFE0F then "\\u{fe0f}"
    else String.singleton c

def decStr (m : Int) : String :=
  let neg := m < 0
  let a := m.natAbs
  let ip := a / 100
  let fp := a % 100
  let body :=
    if fp = 0 then s!"{ip}.0"
    else if fp % 10 = 0 then s!"{ip}.{fp / 10}"
    else if fp < 10 then s!"{ip}.0{fp}" else s!"{ip}.{fp}"
  (if neg then "-" else "") ++ body

partial def debugVal : Val → String
  | .int n => toString n
  | .bool b => if b then "true" else "false"
  | .str s => "\"" ++ escStr s false ++ "\""
  | .chr c => "'" ++ escStr (String.singleton c) true ++ "'"
  | .dec m => decStr m
  | .tuple [] => "()"
  | .tuple [v] => "(" ++ debugVal v ++ ",)"
  | .tuple vs => "(" ++ ", ".intercalate (vs.map debugVal) ++ ")"
  | .adt c [] [] => c
  | .adt c [] vals => c ++ "(" ++ ", ".intercalate (vals.map debugVal) ++ ")"
  | .adt c names vals =>
    -- `derive(Debug)` prints a raw-identifier field (`r#type`) without its `r#`
    c ++ " { " ++ ", ".intercalate ((names.zip vals).map fun (n, v) =>
      (if n.startsWith "r#" then (n.drop 2).toString else n) ++ ": " ++ debugVal v) ++ " }"
  | .seq vs => "[" ++ ", ".intercalate (vs.map debugVal) ++ "]"
  | .setv vs => "{" ++ ", ".intercalate (vs.map debugVal) ++ "}"
  | .map ks vs => "{" ++ ", ".intercalate ((ks.zip vs).map fun (k, v) => debugVal k ++ ": " ++ debugVal v) ++ "}"
  | .box v => debugVal v

/-- Structural equality looking through references and smart pointers (`PartialEq`). -/
partial def valEq : Val → Val → Bool
  | .box a, b => valEq a b
  | a, .box b => valEq a b
  | .int a, .int b => a == b
  | .bool a, .bool b => a == b
  | .str a, .str b => a == b
  | .chr a, .chr b => a == b
  | .dec a, .dec b => a == b
  | .tuple a, .tuple b => a.length == b.length && (a.zip b).all fun (x, y) => valEq x y
  | .adt c _ a, .adt d _ b => c == d && a.length == b.length && (a.zip b).all fun (x, y) => valEq x y
  | .seq a, .seq b => a.length == b.length && (a.zip b).all fun (x, y) => valEq x y
  | .setv a, .setv b => a.length == b.length && (a.zip b).all fun (x, y) => valEq x y
  | .map k a, .map l b =>
    k.length == l.length && (k.zip l).all (fun (x, y) => valEq x y) && (a.zip b).all fun (x, y) => valEq x y
  | _, _ => false

/-- `partial_cmp` on the atoms the generator compares. -/
def valCmp (a b : Val) : Option Ordering :=
  match a.autoDeref, b.autoDeref with
  | .int x, .int y => some (compare x y)
  | .dec x, .dec y => some (compare x y)
  | .str x, .str y => some (compare x y)
  | .chr x, .chr y => some (compare x.toNat y.toNat)
  | .bool x, .bool y => some (compare x.toNat y.toNat)
  | .adt "Po" _ [.int a, .int b], .adt "Po" _ [.int c, .int d] =>
    -- the generator's partially ordered type: product order
    match compare a c, compare b d with
    | .eq, o => some o
    | o, .eq => some o
    | .lt, .lt => some .lt
    | .gt, .gt => some .gt
    | _, _ => none
  | _, _ => none

def cmpHolds (op : CmpOp) (a b : Val) : Bool :=
  match op with
  | .eq => valEq a b
  | .ne => !valEq a b
  | .lt => valCmp a b == some .lt
  | .le => valCmp a b == some .lt || valCmp a b == some .eq
  | .gt => valCmp a b == some .gt
  | .ge => valCmp a b == some .gt || valCmp a b == some .eq

/-- A predicate on values from a small language (closures, user `Like` impls, regexes
the generator writes). -/
inductive Pred
  | cmp (op : CmpOp) (w : Val)
  | len (op : CmpOp) (n : Nat)
  | prefix_ (s : String)
  | suffix_ (s : String)
  | contains_ (s : String)
  | const (b : Bool)
  | anyOf (ws : List Val)          -- an or-pattern of literals (`1 | 2`)
  deriving Repr, Inhabited

def valLen (v : Val) : Option Nat :=
  match v.autoDeref with
  | .seq vs | .setv vs => some vs.length
  | .str s => some s.utf8ByteSize
  | .map ks _ => some ks.length
  | _ => none

def isInfixOf (a b : List Char) : Bool :=
  (List.range (b.length + 1)).any fun i => a.isPrefixOf (b.drop i)

def Pred.holds (p : Pred) (v : Val) : Bool :=
  match p with
  | .cmp op w => cmpHolds op v w
  | .len op n => match valLen v with
    | some k => cmpHolds op (.int k) (.int n)
    | none => false
  | .prefix_ s => match v.autoDeref with | .str t => t.startsWith s | _ => false
  | .suffix_ s => match v.autoDeref with | .str t => t.endsWith s | _ => false
  | .contains_ s => match v.autoDeref with | .str t => isInfixOf s.toList t.toList | _ => false
  | .const b => b
  | .anyOf ws => ws.any fun w => valEq v w

def readPred : SExp → Option Pred
  | .list [.atom "cmp", .atom op, v] => do pure (.cmp (← readCmp op) (← readVal v))
  | .list [.atom "len", .atom op, .atom n] => do pure (.len (← readCmp op) (← n.toNat?))
  | .list [.atom "prefix", .atom h] => (unhex h).map .prefix_
  | .list [.atom "suffix", .atom h] => (unhex h).map .suffix_
  | .list [.atom "contains", .atom h] => (unhex h).map .contains_
  | .list [.atom "const", .atom b] => (readBool b).map .const
  | .list (.atom "anyof" :: vs) => (vs.mapM readVal).map .anyOf
  | _ => none

/-- What the generator says its user expressions mean. -/
structure Meanings where
  vals : List (String × Val) := []                              -- expression text ↦ value
  ranges : List (String × Option Val × Option Val × Bool) := [] -- range text ↦ (lo, hi, inclusive)
  preds : List (String × Pred) := []                            -- closure / Like / regex text ↦ predicate
  units : List (String × Option String) := []                   -- path text ↦ constructor it names (none: resolves to nothing)
  methods : List (String × String) := []                        -- method name ↦ builtin (`len`, `is_empty`, `id`, `first`, `double`)
  deriving Inhabited

def readMeanings : SExp → Option Meanings
  | .list (.atom "meanings" :: xs) => xs.foldlM (init := ({} : Meanings)) fun m x =>
    match x with
    | .list [.atom "v", .atom t, v] => do pure { m with vals := (← unhex t, ← readVal v) :: m.vals }
    | .list [.atom "r", .atom t, lo, hi, .atom incl] => do
      let rd (s : SExp) : Option (Option Val) := match s with
        | .atom "none" => some none
        | x => (readVal x).map some
      pure { m with ranges := (← unhex t, ← rd lo, ← rd hi, ← readBool incl) :: m.ranges }
    | .list [.atom "p", .atom t, p] => do pure { m with preds := (← unhex t, ← readPred p) :: m.preds }
    | .list [.atom "u", .atom t, .atom c] => do
      pure { m with units := (← unhex t, if c = "bind" then none else unhex c) :: m.units }
    | .list [.atom "m", .atom n, .atom b] => do pure { m with methods := (← unhex n, ← unhex b) :: m.methods }
    | _ => none
  | _ => none

/-- Meaning tables are keyed by the expression text with all blanks removed (the two
sides print token streams with different spacing). -/
def squash (s : String) : String := String.ofList (s.toList.filter fun c => c ≠ ' ' ∧ c ≠ '\n' ∧ c ≠ '\t')

def lastSegment (path : String) : String :=
  ((pathStr path).splitOn "::").getLast?.getD path |>.trimAscii.toString

def builtinMethod (b : String) (v : Val) : Option Val :=
  match b with
  | "len" => (valLen v).map fun n => .int n
  | "is_empty" => (valLen v).map fun n => .bool (n == 0)
  | "id" => some v
  | "is_some" => match v.autoDeref with | .adt c _ _ => some (.bool (c == "Some")) | _ => none
  | "double" => match v.autoDeref with | .int n => some (.int (2 * n)) | _ => none
  | "first" => match v.autoDeref with | .seq (x :: _) => some x | _ => none
  | b =>
    if b.startsWith "field:" then v.field (.ident ⟨(b.drop 6).toString, default⟩)   -- a getter
    else if b.startsWith "const:" then ((b.drop 6).toString.toInt?).map Val.int      -- a call whose result the generator knows
    else if b.startsWith "conststr:" then (unhex (b.drop 9).toString).map Val.str
    else none

def rustPrims (m : Meanings) : Prims where
  debug := debugVal
  lit e v := match m.vals.lookup (squash e.text) with
    | some w => valEq v w
    | none => match m.preds.lookup (squash e.text) with
      | some p => p.holds v          -- a simple pattern that is not one literal (an or-pattern)
      | none => false
  strLit s v := valEq v (.str s)
  cmp op v e := match m.vals.lookup (squash e.text) with
    | some w => cmpHolds op v w
    | none => false
  inRange e v := match m.ranges.lookup (squash e.text) with
    | some (lo, hi, incl) =>
      (match lo with | some l => cmpHolds .ge v l | none => true) &&
      (match hi with | some h => if incl then cmpHolds .le v h else cmpHolds .lt v h | none => true)
    | none => false
  regex pat v := match m.preds.lookup pat with
    | some p => p.holds v
    | none => false
  like e v := match m.preds.lookup (squash e.text) with
    | some p => p.holds v
    | none => false
  closure e v := match m.preds.lookup (squash e.text) with
    | some p => p.holds v
    | none => false
  unitPath path v := match m.vals.lookup (squash path.text) with
    | some w => valEq v w        -- the documented meaning of `field: my_variable`: equality
    | none =>
    match m.units.lookup (squash path.text) with
    | some (some c) => (match v with | .adt c' _ _ => c == c' | _ => false)
    | some none => true                       -- the path names nothing: a fresh binding, always matches
    | none => (match v with | .adt c' _ _ => lastSegment path.text == c' | _ => false)
  ctor path c := lastSegment path.text == c
  key e := (m.vals.lookup (squash e.text)).getD (.str e.text)
  method name _ v := match m.methods.lookup name with
    | some b => builtinMethod b v
    | none => builtinMethod name v
  index v e := match v.autoDeref, m.vals.lookup (squash e.text) with
    | .seq vs, some (.int i) => vs[i.toNat]?
    | .map ks vs, some k => mapLookup valEq k ks vs
    | _, _ => none
  valEq := valEq

def showEntry (e : Entry) : String :=
  s!"{e.node}|{hex e.actual}|{match e.expected with | some x => hex x | none => "none"}"

end AsModel
