import AsModel.Syntax
/-
Model of `Pattern::location` (pattern.rs) and `generate_pattern_nodes`
(expand/nodes.rs): the static pattern tree the expansion defines.
-/
namespace AsModel
open Runtime (NodeKind CmpOp)

structure NodeDef where
  kind : NodeKind
  parent : Option Nat
  loc : Sp
  deriving Repr

instance : Inhabited NodeDef := ⟨⟨.wildcard, none, default⟩⟩

/-- `Pattern::location()`: the anchor token range of a pattern. -/
def Pat.location : Pat → Sp
  | .simple _ e => e.sp
  | .string _ _ sp _ => sp
  | .cmp _ _ opSp e => ⟨opSp.ls, opSp.cs, e.sp.le, e.sp.ce⟩
  | .range _ e =>
    match e.cls with
    | .range st lim en =>
      let s := st.getD lim
      let t := en.getD lim
      ⟨s.ls, s.cs, t.le, t.ce⟩
    | _ => e.sp
  | .regex _ _ sp => sp
  | .like _ e => e.sp
  | .struct _ (some path) _ _ => ⟨path.first.ls, path.first.cs, path.last.le, path.last.ce⟩
  | .enum _ path _ => ⟨path.first.ls, path.first.cs, path.last.le, path.last.ce⟩
  | .closure _ e => e.sp
  | .tuple _ sp _ | .slice _ sp _ | .set _ sp _ _ | .map _ sp _ _ => sp
  | .struct _ none _ _ | .wild _ => ⟨0, 0, 0, 0⟩

/-- `" :: "` → `"::"` (`quote!(#path).to_string().replace(" :: ", "::")`). -/
def pathStr (text : String) : String := text.replace " :: " "::"

/-- Ids of the children of a composite, in order. -/
def Items.ids : Items → List Nat
  | .nil => []
  | .cons _ _ p tl => p.id :: tl.ids

/-- Children that get a node of their own under a slice: every element except a bare `..`. -/
def Items.sliceChildIds : Items → List Nat
  | .nil => []
  | .cons _ _ p tl => if p.isSliceRest then tl.sliceChildIds else p.id :: tl.sliceChildIds

def Items.hasSliceRest : Items → Bool
  | .nil => false
  | .cons _ _ p tl => p.isSliceRest || tl.hasSliceRest

def Items.fieldEntries : Items → List (String × Nat)
  | .nil => []
  | .cons ops _ p tl =>
    ((ops.bind FieldOps.rootFieldName?).map FieldName.toString |>.getD "?", p.id) :: tl.fieldEntries

def Items.mapEntries : Items → List (String × Nat)
  | .nil => []
  | .cons _ key p tl => ((key.map (·.text)).getD "?", p.id) :: tl.mapEntries

/-- The node kind `generate_pattern_nodes` emits for a pattern. -/
def Pat.nodeKind : Pat → NodeKind
  | .simple _ e => .simple e.text
  | .string _ v _ _ => .simple ("\"" ++ v ++ "\"")
  | .cmp _ op _ e => .comparison op e.text
  | .range _ e => .range e.text
  | .regex _ pat _ => .regex ("r\"" ++ pat ++ "\"")
  | .like _ e => .like e.text
  | .wild _ => .wildcard
  | .closure _ e => .closure e.text
  | .enum _ path elems => .enumVariant (pathStr path.text) (if elems.length = 0 then none else some elems.ids)
  | .tuple _ _ elems => .tuple elems.ids
  | .slice _ _ elems => .slice elems.sliceChildIds elems.hasSliceRest
  | .struct _ path fields rest =>
    .struct (match path with | some p => pathStr p.text | none => "_") fields.fieldEntries rest
  | .set _ _ elems rest => .set elems.ids rest
  | .map _ _ entries rest => .map entries.mapEntries rest

mutual
/-- `generate_pattern_nodes(pattern, node_defs, parent)`: the definitions pushed, in push
order (children before their parent). -/
def genNodes : Pat → Option Nat → List (Nat × NodeDef)
  | .struct id path fields rest, par =>
    genNodesItems fields id false ++ [(id, ⟨(Pat.struct id path fields rest).nodeKind, par, (Pat.struct id path fields rest).location⟩)]
  | .enum id path elems, par =>
    genNodesItems elems id false ++ [(id, ⟨(Pat.enum id path elems).nodeKind, par, (Pat.enum id path elems).location⟩)]
  | .tuple id sp elems, par =>
    genNodesItems elems id false ++ [(id, ⟨(Pat.tuple id sp elems).nodeKind, par, sp⟩)]
  | .slice id sp elems, par =>
    genNodesItems elems id true ++ [(id, ⟨(Pat.slice id sp elems).nodeKind, par, sp⟩)]
  | .set id sp elems rest, par =>
    genNodesItems elems id false ++ [(id, ⟨(Pat.set id sp elems rest).nodeKind, par, sp⟩)]
  | .map id sp entries rest, par =>
    genNodesItems entries id false ++ [(id, ⟨(Pat.map id sp entries rest).nodeKind, par, sp⟩)]
  | .simple id e, par => [(id, ⟨(Pat.simple id e).nodeKind, par, (Pat.simple id e).location⟩)]
  | .string id v sp t, par => [(id, ⟨(Pat.string id v sp t).nodeKind, par, sp⟩)]
  | .cmp id op osp e, par => [(id, ⟨(Pat.cmp id op osp e).nodeKind, par, (Pat.cmp id op osp e).location⟩)]
  | .range id e, par => [(id, ⟨(Pat.range id e).nodeKind, par, (Pat.range id e).location⟩)]
  | .regex id p sp, par => [(id, ⟨(Pat.regex id p sp).nodeKind, par, sp⟩)]
  | .like id e, par => [(id, ⟨(Pat.like id e).nodeKind, par, e.sp⟩)]
  | .wild id, par => [(id, ⟨.wildcard, par, ⟨0, 0, 0, 0⟩⟩)]
  | .closure id e, par => [(id, ⟨(Pat.closure id e).nodeKind, par, e.sp⟩)]
/-- The children of one composite; under a slice (`skipRest`) a bare `..` gets no node. -/
def genNodesItems : Items → Nat → Bool → List (Nat × NodeDef)
  | .nil, _, _ => []
  | .cons _ _ p tl, par, skipRest =>
    (if skipRest && p.isSliceRest then [] else genNodes p (some par)) ++ genNodesItems tl par skipRest
end

/-- `Spanned::span()` of a multi-token expression when `Span::join` is unavailable:
the span of its first token. -/
def UExpr.noJoin (e : UExpr) : UExpr :=
  match e.toks with
  | t :: _ => { e with sp := t.sp }
  | [] => e

/-- The same for a path of several segments: the span its templates are stamped with (`path.span()`) is the first token's.
The location of a path pattern is computed from its first and last segment separately and does not change. -/
def UPath.noJoin (p : UPath) : UPath :=
  match p.toks with
  | t :: _ => { p with sp := t.sp }
  | [] => p

def Sp.startsAtOrAfterEndOf (a b : Sp) : Bool :=
  a.ls > b.le || (a.ls == b.le && a.cs ≥ b.ce)

/-- A range expression without `Span::join`: its start operand's span is its first token's,
its end operand's span is the span of the first token after the `..` / `..=`, and the
`..` / `..=` itself is represented by its first character. -/
def UExpr.noJoinRange (e : UExpr) : UExpr :=
  match e.cls with
  | .range st lim en =>
    -- (a bound that is present stays present: should no token be found - which no real expression allows - its joined span is kept)
    let st' := st.map fun s => (e.toks.head?.map (·.sp)).getD s
    let en' := en.map fun s => ((e.toks.find? fun t => t.sp.startsAtOrAfterEndOf lim).map (·.sp)).getD s
    -- the `..` / `..=` token itself is several punctuation characters: without `join` its span is the first
    let lim' : Sp := ⟨lim.ls, lim.cs, lim.ls, lim.cs + 1⟩
    { e.noJoin with cls := .range st' lim' en' }
  | _ => e.noJoin

mutual
/-- The AST as parsed in a real compiler session on stable, where `Span::join` returns
`None`: the span of a set pattern is the `#` token alone (one character), and the span of
a multi-token expression is the span of its first token. -/
def Pat.noJoin : Pat → Pat
  | .set id sp elems rest => .set id ⟨sp.ls, sp.cs, sp.ls, sp.cs + 1⟩ elems.noJoin rest
  | .struct id path fields rest => .struct id (path.map UPath.noJoin) fields.noJoin rest
  | .enum id path elems => .enum id path.noJoin elems.noJoin
  | .tuple id sp elems => .tuple id sp elems.noJoin
  | .slice id sp elems => .slice id sp elems.noJoin
  | .map id sp entries rest => .map id sp entries.noJoin rest
  | .simple id e => .simple id e.noJoin
  | .range id e => .range id e.noJoinRange
  | .cmp id op osp e => .cmp id op osp e.noJoin
  | .like id e => .like id e.noJoin
  | .closure id e => .closure id e.noJoin
  | p => p
def Items.noJoin : Items → Items
  | .nil => .nil
  | .cons o k p tl => .cons o (k.map UExpr.noJoin) p.noJoin tl.noJoin
end

end AsModel
