import AsModel.Syntax
/-
Model of the macro's parser: `impl Parse for AssertStruct` (parse.rs), `Pattern::parse`
(pattern.rs) and every `pattern/*.rs` parser, over token trees.

`syn`'s own parsers (`Expr`, `Path`, `ExprClosure`) are not modelled: the oracle says, for
every position of every token sequence, whether they succeed there, how many tokens they
take and what the crate can see of the result.  `syn`'s deferred "unexpected token"
mechanism is modelled: leaving tokens in a delimited group of the real stream sets a flag
that rejects the invocation at the end; in a speculative fork the flag is discarded.
The thread-local node counter is threaded through everything, forks included.
Recursion is on fuel (one unit per nested parser call or loop iteration).
-/
namespace AsModel
open Runtime (CmpOp)

inductive Delim | paren | brace | bracket | none
  deriving DecidableEq, Repr, Inhabited

inductive LitKind | int | float | str | other
  deriving DecidableEq, Repr, Inhabited

inductive TT
  | ident (name : String) (sp : Sp) (keyword : Bool)   -- keyword: `syn::Ident` does not accept it
  | punct (c : Char) (joint : Bool) (sp : Sp)
  | lit (kind : LitKind) (text : String) (sp : Sp) (extra : String)
  | group (d : Delim) (sp spOpen spClose : Sp) (ts : List TT)
  deriving Repr, Inhabited

def TT.sp' : TT → Sp
  | .ident _ sp _ | .punct _ _ sp | .lit _ _ sp _ => sp
  | .group _ _ spOpen _ _ => spOpen          -- `input.span()` on a group: its opening delimiter

/-- What `syn` answers at a position. -/
structure Oracle where
  exprs : List ((List Nat × Nat) × (Nat × Bool × UExpr))     -- tokens taken, deferred-unexpected, result
  paths : List ((List Nat × Nat) × (Nat × Bool × UPath))
  closures : List ((List Nat × Nat) × (Nat × Bool × Sp × UExpr))
  deriving Inhabited

/-- A position in a token sequence (`ParseBuffer`). -/
structure Cur where
  path : List Nat
  total : Nat
  rest : List TT
  scope : Sp            -- span reported once the sequence is exhausted
  deriving Inhabited

def Cur.idx (c : Cur) : Nat := c.total - c.rest.length
def Cur.span (c : Cur) : Sp := match c.rest with | t :: _ => t.sp' | [] => c.scope
def Cur.advance (c : Cur) (n : Nat) : Cur := { c with rest := c.rest.drop n }
def Cur.isEmpty (c : Cur) : Bool := c.rest.isEmpty
/-- The cursor at the start of the content of the group that is the next token of `c`. -/
def Cur.inner (c : Cur) (ts : List TT) (spClose : Sp) : Cur :=
  { path := c.path ++ [c.idx], total := ts.length, rest := ts, scope := spClose }

/-- Parser state besides the cursor: the node counter and the deferred-unexpected flag. -/
structure PSt where
  ctr : Nat
  unexp : Bool
  deriving Inhabited

inductive R (α : Type)
  | ok (a : α) (cur : Cur) (st : PSt)
  | err (ctr : Nat)          -- a `syn::Error` (the counter still advances on failing paths)
  | fuel                     -- recursion budget exhausted (never reached within the budget used)
  deriving Inhabited

abbrev P (α : Type) := Cur → PSt → R α

def P.pure {α} (a : α) : P α := fun c s => .ok a c s
def P.bind {α β} (p : P α) (f : α → P β) : P β := fun c s =>
  match p c s with
  | .ok a c' s' => f a c' s'
  | .err n => .err n
  | .fuel => .fuel
instance : Monad P where
  pure := P.pure
  bind := P.bind

def fail {α} : P α := fun _ s => .err s.ctr
def outOfFuel {α} : P α := fun _ _ => .fuel
def getCur : P Cur := fun c s => .ok c c s
def nextId : P Nat := fun c s => .ok s.ctr c { s with ctr := s.ctr + 1 }
def advance (n : Nat) : P Unit := fun c s => .ok () (c.advance n) s

/-- Run `p` speculatively (`input.fork()`): the cursor and the unexpected flag are restored,
the counter is not. -/
def fork {α} (p : P α) : P (Option (α × Cur)) := fun c s =>
  match p c s with
  | .ok a c' s' => .ok (some (a, c')) c { s with ctr := s'.ctr }
  | .err n => .ok none c { s with ctr := n }
  | .fuel => .fuel

/-! ### Token-level peeks -/

def isPunct (ch : Char) : List TT → Bool
  | .punct c _ _ :: _ => c == ch
  | _ => false

/-- `peek(Token![ab])` for a two-character punctuation: all characters but the last must be joint. -/
def isPunct2 (a b : Char) : List TT → Bool
  | .punct c true _ :: .punct d _ _ :: _ => c == a && d == b
  | _ => false

def isIdent (name : String) : List TT → Bool
  | .ident n _ _ :: _ => n == name
  | _ => false

def isGroup (d : Delim) : List TT → Bool
  | .group d' _ _ _ _ :: _ => d == d'
  | _ => false

def isLit (k : LitKind) : List TT → Bool
  | .lit k' _ _ _ :: _ => k == k'
  | _ => false

/-- Consume one punctuation character. -/
def punct1 (ch : Char) : P Sp := fun c s =>
  match c.rest with
  | .punct c' _ sp :: _ => if c' == ch then .ok sp (c.advance 1) s else .err s.ctr
  | _ => .err s.ctr

/-- Consume a two-character punctuation token; its span joins the two characters. -/
def punct2 (a b : Char) : P Sp := fun c s =>
  match c.rest with
  | .punct c1 true s1 :: .punct c2 _ s2 :: _ =>
    if c1 == a && c2 == b then .ok ⟨s1.ls, s1.cs, s2.le, s2.ce⟩ (c.advance 2) s else .err s.ctr
  | _ => .err s.ctr

def anyIdent : P IdentTok := fun c s =>
  match c.rest with
  | .ident n sp kw :: _ => if kw then .err s.ctr else .ok ⟨n, sp⟩ (c.advance 1) s
  | _ => .err s.ctr

/-- `parenthesized!` / `braced!` / `bracketed!` followed by the parse of the content and the drop
of the content buffer: leftover tokens set the unexpected flag. -/
def withGroup {α} (d : Delim) (inner : Sp → Sp → P α) : P α := fun c s =>
  match c.rest with
  | .group d' _ spOpen spClose ts :: _ =>
    if d == d' then
      match inner spOpen spClose (c.inner ts spClose) s with
      | .ok a ic' s' => .ok a (c.advance 1) { s' with unexp := s'.unexp || !ic'.rest.isEmpty }
      | .err n => .err n
      | .fuel => .fuel
    else .err s.ctr
  | _ => .err s.ctr

def oracleExpr (o : Oracle) : P UExpr := fun c s =>
  match o.exprs.lookup (c.path, c.idx) with
  | some (n, u, e) => .ok e (c.advance n) { s with unexp := s.unexp || u }
  | none => .err s.ctr

def oraclePath (o : Oracle) : P UPath := fun c s =>
  match o.paths.lookup (c.path, c.idx) with
  | some (n, u, p) => .ok p (c.advance n) { s with unexp := s.unexp || u }
  | none => .err s.ctr

def isRangeExpr (e : UExpr) : Bool := match e.cls with | .range .. => true | _ => false
def strLitValue? (e : UExpr) : Option (String × Sp) := match e.cls with | .litStr v => some (v, e.sp) | _ => none

/-- `parse_tuple_index`: a decimal index below `u32::MAX`. -/
def tupleIndex? (digits : String) : Option Nat :=
  match digits.toNat? with
  | some n => if n < 4294967295 then some n else none
  | none => none

/-- `FieldName::parse`. -/
def parseFieldName : P FieldName := fun c s =>
  match c.rest with
  | .lit .int _ _ digits :: _ =>
    match tupleIndex? digits with
    | some n => .ok (.index n) (c.advance 1) s
    | none => .err s.ctr
  | .ident n sp kw :: _ => if kw then .err s.ctr else .ok (.ident ⟨n, sp⟩) (c.advance 1) s
  | _ => .err s.ctr

/-- Method-call arguments: expressions separated by commas; stops at a missing comma. -/
def parseArgs (o : Oracle) : Nat → List UExpr → P (List UExpr)
  | 0, _ => outOfFuel
  | fuel + 1, acc => do
    let c ← getCur
    if c.isEmpty then pure acc.reverse
    else
      let e ← oracleExpr o
      let c' ← getCur
      if isPunct ',' c'.rest then do
        let _ ← punct1 ','
        parseArgs o fuel (e :: acc)
      else pure (e :: acc).reverse

/-- `parse_one_into`: one `.field`, `.0`, `.0.1` (a float token), `.method(args)`, `.await` or `[index]`. -/
def parseOneOp (o : Oracle) (fuel : Nat) : P (List FieldOp) := do
  let c ← getCur
  if isPunct '.' c.rest then do
    let dotSp ← punct1 '.'
    let c1 ← getCur
    match c1.rest with
    | .ident "await" sp _ :: _ => do advance 1; pure [.await sp]
    | .lit .int _ _ digits :: _ =>
      match tupleIndex? digits with
      | some n => do advance 1; pure [.unnamed n dotSp]
      | none => fail
    | .lit .float text _ _ :: _ =>
      match text.splitOn "." with
      | [a, b] =>
        match tupleIndex? a, tupleIndex? b with
        | some x, some y =>
          if a.all Char.isDigit && b.all Char.isDigit && !a.isEmpty && !b.isEmpty then do
            advance 1; pure [.unnamed x dotSp, .unnamed y dotSp]
          else fail
        | _, _ => fail
      | _ => fail
    | _ => do
      let name ← anyIdent
      let c2 ← getCur
      if isGroup .paren c2.rest then do
        let args ← withGroup .paren fun _ _ => parseArgs o fuel []
        pure [.method name dotSp args]
      else pure [.named name dotSp]
  else if isGroup .bracket c.rest then
    withGroup .bracket fun spOpen _ => do
      let e ← oracleExpr o
      pure [.index e spOpen]
  else fail

def parseOpsLoop (o : Oracle) : Nat → List FieldOp → P (List FieldOp)
  | 0, _ => outOfFuel
  | fuel + 1, acc => do
    let c ← getCur
    if isPunct '.' c.rest || isGroup .bracket c.rest then do
      let ops ← parseOneOp o fuel
      parseOpsLoop o fuel (acc ++ ops)
    else pure acc

def countStars : List TT → Nat
  | .punct '*' _ _ :: rest => countStars rest + 1
  | _ => 0

/-- `FieldOperation::parse`: leading `*`s, a field name, then postfix operations. -/
def parseFieldOps (o : Oracle) (fuel : Nat) : P FieldOps := do
  let c ← getCur
  let sp := c.span
  let stars := countStars c.rest
  advance stars
  let name ← parseFieldName
  let fieldOp : FieldOp := match name with
    | .ident i => .named i sp
    | .index n => .unnamed n sp
  let first := (if stars > 0 then [FieldOp.deref stars sp] else []) ++ [fieldOp]
  let ops ← parseOpsLoop o fuel first
  pure { ops := ops, sp := sp }

/-- `ComparisonOp::parse` (compound operators first). -/
def parseCmpOp : P (CmpOp × Sp) := do
  let c ← getCur
  if isPunct2 '<' '=' c.rest then do let sp ← punct2 '<' '='; pure (.le, sp)
  else if isPunct '<' c.rest then do let sp ← punct1 '<'; pure (.lt, sp)
  else if isPunct2 '>' '=' c.rest then do let sp ← punct2 '>' '='; pure (.ge, sp)
  else if isPunct '>' c.rest then do let sp ← punct1 '>'; pure (.gt, sp)
  else if isPunct2 '=' '=' c.rest then do let sp ← punct2 '=' '='; pure (.eq, sp)
  else if isPunct2 '!' '=' c.rest then do let sp ← punct2 '!' '='; pure (.ne, sp)
  else fail

def peek2 (test : List TT → Bool) (ts : List TT) : Bool := test (ts.drop 1)

/-- The path of a struct pattern: `_` (wildcard struct) or a `syn::Path`. -/
def structPath (o : Oracle) : P (Option UPath) := do
  let c ← getCur
  if isIdent "_" c.rest then do advance 1; pure none
  else do let p ← oraclePath o; pure (some p)

/-- The positional test of `parse_comma_separated`: the speculative pattern parse succeeded and
is not followed by `:`. -/
def isPositional (spec : Option (Pat × Cur)) : Bool :=
  match spec with
  | some (_, c') => !isPunct ':' c'.rest
  | none => false

/-- One tuple element (`pp`: the pattern parser, `pfo`: the field-operation parser). -/
def elemHead (pp : P Pat) (pfo : P FieldOps) (position : Nat) : P (Option FieldOps × Pat) := do
  let spec ← fork pp
  if isPositional spec then do
    let p ← pp
    pure (none, p)
  else do
    let ops ← pfo
    match ops.rootFieldName? with
    | some (.index i) =>
      if i = position then do
        let _ ← punct1 ':'
        let p ← pp
        pure (some ops, p)
      else fail
    | _ => fail

/-- The optional parenthesised elements of an enum pattern. -/
def enumArgs (pe : P Items) : P Items := do
  let c ← getCur
  if isGroup .paren c.rest then withGroup .paren fun _ _ => pe else pure Items.nil

mutual
/-- `Pattern::parse`. -/
def parsePattern (o : Oracle) : Nat → P Pat
  | 0 => outOfFuel
  | fuel + 1 => do
    let c ← getCur
    let ts := c.rest
    if isPunct '|' ts || (isIdent "move" ts && peek2 (isPunct '|') ts) then
      -- closure: `syn::ExprClosure`, exactly one parameter
      fun c s => match o.closures.lookup (c.path, c.idx) with
        | some (n, u, _, e) =>
          (match e.cls with
            | .closure 1 => .ok (Pat.closure s.ctr e) (c.advance n) { ctr := s.ctr + 1, unexp := s.unexp || u }
            | _ => .err s.ctr)
        | none => .err s.ctr
    else if isIdent "_" ts then
      if peek2 (isGroup .brace) ts then parseStruct o fuel
      else do advance 1; let id ← nextId; pure (.wild id)
    else if isPunct '<' ts || isPunct '>' ts || isPunct '!' ts then parseComparison o
    else if isPunct '=' ts then
      if peek2 (isPunct '=') ts then parseComparison o
      else if peek2 (isPunct '~') ts then do
        let _ ← punct1 '='
        let _ ← punct1 '~'
        let e ← oracleExpr o
        let id ← nextId
        match strLitValue? e with
        | some (v, sp) => pure (.regex id v sp)
        | none => pure (.like id e)
      else fail
    else if isPunct '#' ts && peek2 (isGroup .paren) ts then parseSet o fuel
    else if isPunct '#' ts && peek2 (isGroup .brace) ts then parseMap o fuel
    else if isGroup .bracket ts then do
      let sp := c.span
      let elems ← withGroup .bracket fun _ _ => parseList o fuel
      let id ← nextId
      pure (.slice id sp elems)
    else if isGroup .paren ts then do
      let sp := c.span
      let elems ← withGroup .paren fun _ _ => parseElems o fuel 0
      let id ← nextId
      pure (.tuple id sp elems)
    else
      match o.paths.lookup (c.path, c.idx) with
      | some (n, _, _) =>
        if isGroup .brace (ts.drop n) then parseStruct o fuel
        else do
          let path ← oraclePath o
          let elems ← enumArgs (parseElems o fuel 0)
          let id ← nextId
          pure (.enum id path elems)
      | none =>
        match o.exprs.lookup (c.path, c.idx) with
        | some (_, _, e) =>
          if isRangeExpr e then do
            -- the speculative `fork.parse::<PatternRange>()` takes a node id of its own
            let _ ← nextId
            let e ← oracleExpr o
            let id ← nextId
            pure (.range id e)
          else if isLit .str ts then parseStringLit
          else do
            let e ← oracleExpr o
            let id ← nextId
            pure (.simple id e)
        | none => if isLit .str ts then parseStringLit else fail

def parseStringLit : P Pat := fun c s =>
  match c.rest with
  | .lit .str text sp value :: _ =>
    .ok (Pat.string s.ctr value sp ⟨.str value, sp⟩) (c.advance 1) { s with ctr := s.ctr + 1 }
  | _ => .err s.ctr

def parseComparison (o : Oracle) : P Pat := do
  let (op, sp) ← parseCmpOp
  let e ← oracleExpr o
  let id ← nextId
  pure (.cmp id op sp e)

/-- `PatternStruct::parse` (named or wildcard). The node id is taken first. -/
def parseStruct (o : Oracle) : Nat → P Pat
  | 0 => outOfFuel
  | fuel + 1 => do
    let id ← nextId
    let path ← structPath o
    let (fields, rest) ← withGroup .brace fun _ _ => parseFields o fuel
    if path.isNone && !rest then fail
    else pure (.struct id path fields rest)

/-- The field loop of a struct pattern: returns the fields and whether `..` ended it. -/
def parseFields (o : Oracle) : Nat → P (Items × Bool)
  | 0 => outOfFuel
  | fuel + 1 => do
    let c ← getCur
    if c.isEmpty then pure (.nil, false)
    else if isPunct2 '.' '.' c.rest then do let _ ← punct2 '.' '.'; pure (.nil, true)
    else do
      let ops ← parseFieldOps o fuel
      let _ ← punct1 ':'
      let p ← parsePattern o fuel
      let c1 ← getCur
      if c1.isEmpty then pure (.cons (some ops) none p .nil, false)
      else do
        let _ ← punct1 ','
        let c2 ← getCur
        if isPunct2 '.' '.' c2.rest then do
          let _ ← punct2 '.' '.'
          pure (.cons (some ops) none p .nil, true)
        else do
          let (tl, rest) ← parseFields o fuel
          pure (.cons (some ops) none p tl, rest)

/-- `TupleElement::parse_comma_separated`. -/
def parseElems (o : Oracle) : Nat → Nat → P Items
  | 0, _ => outOfFuel
  | fuel + 1, position => do
    let c ← getCur
    if c.isEmpty then pure .nil
    else do
      let (ops, p) ← elemHead (parsePattern o fuel) (parseFieldOps o fuel) position
      let c1 ← getCur
      if c1.isEmpty then pure (.cons ops none p .nil)
      else do
        let _ ← punct1 ','
        let tl ← parseElems o fuel (position + 1)
        pure (.cons ops none p tl)

/-- `parse_pattern_list` (slice elements). -/
def parseList (o : Oracle) : Nat → P Items
  | 0 => outOfFuel
  | fuel + 1 => do
    let c ← getCur
    if c.isEmpty then pure .nil
    else do
      let p ← parsePattern o fuel
      let c1 ← getCur
      if c1.isEmpty then pure (.cons none none p .nil)
      else do
        let _ ← punct1 ','
        let tl ← parseList o fuel
        pure (.cons none none p tl)

/-- `PatternSet::parse`. -/
def parseSet (o : Oracle) : Nat → P Pat
  | 0 => outOfFuel
  | fuel + 1 => do
    let hashSp ← punct1 '#'
    let (elems, rest, closeSp) ← withGroup .paren fun _ spClose => do
      let (e, r) ← parseSetElems o fuel
      pure (e, r, spClose)
    let id ← nextId
    pure (.set id ⟨hashSp.ls, hashSp.cs, closeSp.le, closeSp.ce⟩ elems rest)

def parseSetElems (o : Oracle) : Nat → P (Items × Bool)
  | 0 => outOfFuel
  | fuel + 1 => do
    let c ← getCur
    if c.isEmpty then pure (.nil, false)
    else if isPunct2 '.' '.' c.rest then do
      let _ ← punct2 '.' '.'
      let c1 ← getCur
      if isPunct ',' c1.rest then do let _ ← punct1 ','; pure (.nil, true) else pure (.nil, true)
    else do
      let p ← parsePattern o fuel
      let c1 ← getCur
      if c1.isEmpty then pure (.cons none none p .nil, false)
      else do
        let _ ← punct1 ','
        let c2 ← getCur
        if isPunct2 '.' '.' c2.rest then do
          let _ ← punct2 '.' '.'
          pure (.cons none none p .nil, true)
        else do
          let (tl, rest) ← parseSetElems o fuel
          pure (.cons none none p tl, rest)

/-- `PatternMap::parse`. -/
def parseMap (o : Oracle) : Nat → P Pat
  | 0 => outOfFuel
  | fuel + 1 => do
    let _ ← punct1 '#'
    let c ← getCur
    let sp := c.span
    let (entries, rest) ← withGroup .brace fun _ _ => parseEntries o fuel
    let id ← nextId
    pure (.map id sp entries rest)

def parseEntries (o : Oracle) : Nat → P (Items × Bool)
  | 0 => outOfFuel
  | fuel + 1 => do
    let c ← getCur
    if c.isEmpty then pure (.nil, false)
    else if isPunct2 '.' '.' c.rest then do let _ ← punct2 '.' '.'; pure (.nil, true)
    else do
      let key ← oracleExpr o
      let _ ← punct1 ':'
      let p ← parsePattern o fuel
      let c1 ← getCur
      if c1.isEmpty then pure (.cons none (some key) p .nil, false)
      else do
        let _ ← punct1 ','
        let c2 ← getCur
        if isPunct2 '.' '.' c2.rest then do
          let _ ← punct2 '.' '.'
          pure (.cons none (some key) p .nil, true)
        else do
          let (tl, rest) ← parseEntries o fuel
          pure (.cons none (some key) p tl, rest)
end

/-- Outcome of `syn::parse::<AssertStruct>`. -/
inductive Outcome
  | accept (value : UExpr) (p : Pat) (ctr : Nat)
  | reject (ctr : Nat)
  | outOfFuel
  deriving Inhabited

/-- `impl Parse for AssertStruct` followed by `syn`'s end-of-input checks.  The counter is
reset first: the result does not depend on its previous value. -/
def parseAssert (o : Oracle) (ts : List TT) (fuel : Nat) (_previousCounter : Nat) : Outcome :=
  let c : Cur := { path := [], total := ts.length, rest := ts, scope := Sp.callSite }
  let p : P (UExpr × Pat) := do
    let value ← oracleExpr o
    let _ ← punct1 ','
    let pat ← parsePattern o fuel
    pure (value, pat)
  match p c { ctr := 0, unexp := false } with
  | .ok (v, pat) c' s => if s.unexp || !c'.rest.isEmpty then .reject s.ctr else .accept v pat s.ctr
  | .err n => .reject n
  | .fuel => .outOfFuel

end AsModel
