import AsModel.Expand
/-
Where each generator template evaluates the value expression it is given, and what that
means for the temporaries the expression creates: the fragment of Rust's temporary-scope
rules that field-operation chains can reach (validated against rustc on every chain of up
to four steps by C11's `temporaries` part; not proved about rustc).
-/
namespace AsModel

/-- How a template holds its value expression `V`. -/
inductive Hold
  /-- `V` is (part of) the scrutinee or condition of the `match` / `if` inside which every
  use of it lies: all temporaries of `V` are dropped at the end of that statement. -/
  | statement
  /-- `let x = &V;` followed by uses of `x`: only an *extended* temporary survives the `let`. -/
  | letRef
  deriving DecidableEq, Repr, Inhabited

/-- The hold of every template.  Since /repo f5121f2 all are `statement`; before it the
string-literal and the set template were `letRef` (`Code.holdPinned`).  `Render.lean`
chooses the tokens of those two templates by this function, so the token-exact tie (T2)
checks it against the real generator. -/
def Code.hold : Code → Hold
  | _ => .statement

/-- The same on the tree before f5121f2. -/
def Code.holdPinned : Code → Hold
  | .string .. => .letRef
  | .set .. => .letRef
  | _ => .statement

/-- What the temporary-scope rules need to know about one step of a field-operation chain. -/
inductive Step
  /-- `.field`, `.0`, `[i]`: a place inside the current owner.  Temporary lifetime extension is
  syntactic: it reaches through field, tuple-index and index expressions (also an overloaded
  `Index`). -/
  | place
  /-- a call returning an owned value: a fresh temporary (`.clone()`, `.to_lowercase()`, `.await`) -/
  | callValue
  /-- a call returning a reference into its receiver (`.as_str()`, `.first()`, a getter) -/
  | callBorrow
  deriving DecidableEq, Repr, Inhabited

/-- The steps after the last `callValue` of a chain; `none` when the chain has none (then
everything borrows from the asserted value itself, which outlives the assertion). -/
def afterLastValue : List Step → Option (List Step)
  | [] => none
  | s :: tl =>
    match afterLastValue tl with
    | some r => some r
    | none => if s = .callValue then some tl else none

/-- Does the value of `let x = &<chain>;` refer to a temporary that is dropped at the end of
the `let`?  The last by-value call's temporary is extended exactly when only places follow it
(`&tmp().f[0]`); a borrowing call after it makes it the receiver of a method call, which is
not extended. -/
def letRefDangles (chain : List Step) : Bool :=
  match afterLastValue chain with
  | none => false
  | some rest => rest.any (· = .callBorrow)

/-- Is a use of the value after its evaluation rejected by the borrow checker (E0716)? -/
def dangles : Hold → List Step → Bool
  | .statement, _ => false
  | .letRef, chain => letRefDangles chain

end AsModel
