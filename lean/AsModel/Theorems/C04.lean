import AsModel.Proofs.Offset
/-!
# C04 — each report entry marks the failed sub-pattern's own source text
(run-time half: compile-time positions are mapped back to the right bytes)

`posOf s i` is the (line, column) the compiler reports for the `i`-th character of
the file `s` (columns count Unicode scalar values).  The theorems quantify over
every text and every position: any Unicode content, any line structure.
The anchor-selection half (which tokens a node's location covers) is in
`Theorems/C04Anchor.lean`.
-/
namespace AsModel.Runtime

/-- Run time inverts compile time: the byte offset computed from the compiler's
(line, column) of character `i` is the byte position of character `i`. -/
theorem C04_offset_roundtrip (s : List Char) (i : Nat) (h : i ≤ s.length) :
    byteOffsetOf s (posOf s i).1 (posOf s i).2 = utf8Len (s.take i) := by
  unfold byteOffsetOf
  have hp := posOf_line_pos s i
  have hne : (posOf s i).1 ≠ 0 := by omega
  simp only [hne, if_false]
  simpa using offsetLoop_posOf (utf8Len s) s i h 0

/-- A node whose tokens are characters `i .. j` of the file is annotated with exactly
the bytes of those characters. -/
theorem C04_span_exact (s : List Char) (i j : Nat) (hij : i < j) (hj : j ≤ s.length) :
    annotationSpan s (posOf s i).1 (posOf s i).2 (posOf s j).1 (posOf s j).2
      = (utf8Len (s.take i), utf8Len (s.take j)) := by
  have hi : i < s.length := by omega
  unfold annotationSpan
  rw [C04_offset_roundtrip s i (by omega), C04_offset_roundtrip s j hj]
  obtain ⟨h1, h2⟩ := charAtByte_boundary s i hi
  simp only [h1]
  rw [h2]
  have := utf8Len_take_mono s (show i + 1 ≤ j by omega)
  simp [Nat.max_eq_left this]

/-- The marked range is non-empty. -/
theorem C04_span_nonempty (s : List Char) (i j : Nat) (hij : i < j) (hj : j ≤ s.length) :
    utf8Len (s.take i) < utf8Len (s.take j) := by
  have hi : i < s.length := by omega
  obtain ⟨_, h2⟩ := charAtByte_boundary s i hi
  have := utf8Len_take_mono s (show i + 1 ≤ j by omega)
  have := Char.utf8Size_pos s[i]
  omega

/-- The pinned `byte_offset_of` (before the `fix:` commit) does **not** have the
round-trip property: with `é` before the position, the offset is one byte short. -/
theorem C04_v0_counterexample :
    byteOffsetOfV0 ['é', 'x', 'y'] (posOf ['é', 'x', 'y'] 1).1 (posOf ['é', 'x', 'y'] 1).2
      ≠ utf8Len (['é', 'x', 'y'].take 1) := by decide

/-! Non-vacuity: a two-line text with non-ASCII characters, a tab and CRLF. -/
example : posOf "é\t😀\r\nab".toList 6 = (2, 1) := by decide
example : byteOffsetOf "é\t😀\r\nab".toList 2 1 = 10 := by decide
example : utf8Len ("é\t😀\r\nab".toList.take 6) = 10 := by decide

end AsModel.Runtime
