import AsModel.Theorems.C01
/-!
# C05 — the 'got' text is the Debug form of the value that was tested

Two statements.  Syntactic: in every template of the expansion, the expression passed
to `format!("{:?}", …)` is the expression the template tested (`pushesTested`).
Semantic: the actual texts of the report are those of the specification
(`run_eq_frontier`), which formats `P.debug` of the sub-value each sub-pattern was
applied to, for any `P.debug` whatsoever.
-/
namespace AsModel

/-- The push of a template formats the template's own tested expression. -/
def Push.formats (p : Push) (v : VExpr) : Bool :=
  match p.actual with
  | .dbg w | .dbgRef w | .mapLen w => decide (w.pre = v.pre) && (reprStr w.core == reprStr v.core)
  | .dbgActual => true          -- `actual` is bound from the tested expression one line earlier
  | .missingKey => true

mutual
def Code.pushesTested : Code → Bool
  | .skip => true
  | .seq cs => cs.pushesTested
  | .simple _ v _ push | .cmp _ v _ _ push | .unitVariant _ v _ push | .range _ v _ push
  | .regex _ v _ push | .like _ v _ push | .closure _ v _ push | .string _ v _ _ push
  | .mapLen _ v _ push => push.formats v
  | .enumTuple _ v _ _ body push | .structNamed _ v _ _ _ _ body push | .slice v _ body push =>
    push.formats v && body.pushesTested
  | .tuple _ _ body => body.pushesTested
  | .mapGet _ _ _ body _ => body.pushesTested
  | .set _ preds _ _ => preds.pushesTested
def Codes.pushesTested : Codes → Bool
  | .nil => true
  | .cons c tl => c.pushesTested && tl.pushesTested
end

theorem formats_self (sp : Sp) (id : Nat) (v : VExpr) : (dbgPush sp id v).formats v = true := by
  simp [dbgPush, Push.formats]

mutual
theorem expandPat_pushesTested : ∀ (v : VExpr) (p : Pat), (expandPat v p).pushesTested = true
  | v, .simple .. | v, .cmp .. | v, .range .. | v, .regex .. | v, .like .. | v, .closure .. => by
    simp [expandPat, Code.pushesTested, formats_self, Push.formats, dbgPush]
  | v, .string .. => by simp [expandPat, Code.pushesTested, Push.formats]
  | v, .wild _ => by simp [expandPat, Code.pushesTested]
  | v, .enum id path elems => by
    unfold expandPat; split
    · simp [Code.pushesTested, formats_self]
    · simp [Code.pushesTested, formats_self, expandElems_pushesTested elems 0 Name.elem]
  | v, .tuple id sp elems => by
    simp [expandPat, Code.pushesTested, expandElems_pushesTested elems 0 Name.tupleElem]
  | v, .slice id sp elems => by
    simp [expandPat, Code.pushesTested, Push.formats, expandSliceElems_pushesTested elems 0]
  | v, .struct id (some path) fields rest => by
    simp [expandPat, Code.pushesTested, formats_self, expandFields_pushesTested fields]
  | v, .struct id none fields rest => by
    simp [expandPat, Code.pushesTested, expandWildFields_pushesTested v fields]
  | v, .set id sp elems rest => by
    simp [expandPat, Code.pushesTested, expandSetElems_pushesTested elems]
  | v, .map id sp entries rest => by
    have := expandEntries_pushesTested v id entries
    unfold expandPat
    simp only [Code.pushesTested]
    split <;> simp_all [Codes.append, Codes.pushesTested, Code.pushesTested, Push.formats]
theorem expandElems_pushesTested : ∀ (items : Items) (i : Nat) (mk : Nat → Name),
    (expandElems items i mk).pushesTested = true
  | .nil, _, _ => by simp [expandElems, Codes.pushesTested]
  | .cons ops key p tl, i, mk => by
    unfold expandElems
    split
    · exact expandElems_pushesTested tl (i + 1) mk
    · simp only [Codes.pushesTested, Bool.and_eq_true]
      refine ⟨?_, expandElems_pushesTested tl (i + 1) mk⟩
      cases ops <;> exact expandPat_pushesTested _ p
theorem expandSliceElems_pushesTested : ∀ (items : Items) (i : Nat),
    (expandSliceElems items i).pushesTested = true
  | .nil, _ => by simp [expandSliceElems, Codes.pushesTested]
  | .cons ops key p tl, i => by
    unfold expandSliceElems
    split
    · exact expandSliceElems_pushesTested tl (i + 1)
    · simp only [Codes.pushesTested, Bool.and_eq_true]
      exact ⟨expandPat_pushesTested _ p, expandSliceElems_pushesTested tl (i + 1)⟩
theorem expandSetElems_pushesTested : ∀ (items : Items), (expandSetElems items).pushesTested = true
  | .nil => by simp [expandSetElems, Codes.pushesTested]
  | .cons ops key p tl => by
    simp only [expandSetElems, Codes.pushesTested, Bool.and_eq_true]
    exact ⟨expandPat_pushesTested _ p, expandSetElems_pushesTested tl⟩
theorem expandFields_pushesTested : ∀ (items : Items), (expandFields items).pushesTested = true
  | .nil => by simp [expandFields, Codes.pushesTested]
  | .cons ops key p tl => by
    simp only [expandFields, Codes.pushesTested, Bool.and_eq_true]
    refine ⟨?_, expandFields_pushesTested tl⟩
    cases ops with
    | none => simp [Code.pushesTested]
    | some o => simp only; split <;> first | exact expandPat_pushesTested _ p | simp [Code.pushesTested]
theorem expandWildFields_pushesTested (v : VExpr) : ∀ (items : Items),
    (expandWildFields v items).pushesTested = true
  | .nil => by simp [expandWildFields, Codes.pushesTested]
  | .cons ops key p tl => by
    simp only [expandWildFields, Codes.pushesTested, Bool.and_eq_true]
    refine ⟨?_, expandWildFields_pushesTested v tl⟩
    cases ops with
    | none => simp [Code.pushesTested]
    | some o =>
      simp only
      split
      · split <;> exact expandPat_pushesTested _ p
      · simp [Code.pushesTested]
theorem expandEntries_pushesTested (v : VExpr) (node : Nat) : ∀ (items : Items),
    (expandEntries v node items).pushesTested = true
  | .nil => by simp [expandEntries, Codes.pushesTested]
  | .cons ops key p tl => by
    simp only [expandEntries, Codes.pushesTested, Bool.and_eq_true]
    refine ⟨?_, expandEntries_pushesTested v node tl⟩
    cases key with
    | none => simp [Code.pushesTested]
    | some k => simp only [Code.pushesTested]; exact expandPat_pushesTested _ p
end

/-- **C05 (mechanism).** Every template of every expansion formats the expression it tested —
never another field, the parent, or a second expression. -/
theorem C05_push_formats_tested_value (p : Pat) : (expand p).body.pushesTested = true :=
  expandPat_pushesTested rootVExpr p

/-- **C05 (meaning).** The actual text of a failing leaf is `Debug` of the sub-value it was
applied to, whatever `Debug` is. -/
theorem C05_leaf_actual_is_debug (P : Prims) (id : Nat) (op : Runtime.CmpOp) (sp : Sp) (e : UExpr)
    (v : Val) (h : P.cmp op v e = false) :
    (run P (expand (.cmp id op sp e)) v).map (·.map (·.actual)) = some [P.debug v] := by
  rw [run_eq_frontier P _ v rfl]
  simp [frontier, h]

theorem setMatch_actual (nE : Nat) (rest : Bool) (nP : Nat) (M : Nat → Nat → Bool) :
    ∀ pu ∈ Runtime.setMatch nE rest nP M, pu.actual = s!"{nE} element(s)" := by
  intro pu h
  unfold Runtime.setMatch at h
  simp only at h
  repeat' split at h
  all_goals simp_all

/-- The element-count summary of a failing set pattern is true of the collection. -/
theorem C05_set_summary_true (P : Prims) (id : Nat) (sp : Sp) (elems : Items) (rest : Bool)
    (v : Val) (vs : List Val) (hv : v.elems? = some vs) (es : List Entry)
    (h : frontier P (.set id sp elems rest) v = some es) :
    ∀ e ∈ es, e.actual = s!"{vs.length} element(s)" := by
  unfold frontier at h
  simp only [hv, Option.some.injEq] at h
  subst h
  intro e he
  simp only [List.mem_map] at he
  obtain ⟨pu, hpu, rfl⟩ := he
  exact setMatch_actual _ _ _ _ pu hpu

/-- The entry-count summary of a map length failure is true of the map. -/
theorem C05_map_summary_true (P : Prims) (id : Nat) (sp : Sp) (keys vals : List Val)
    (h : keys.length ≠ 0) :
    (frontier P (.map id sp .nil false) (.map keys vals)).map (·.map (·.actual)) =
      some [s!"map with {keys.length} entries"] := by
  simp [frontier, Val.autoDeref, Items.length, h, frontierEntries, appendO]

end AsModel
