import AsModel.Proofs.Offset
import AsModel.Runtime.Label
/-!
# C06 — a failed assertion is always one ordinary, catchable panic with the report
(the crate's side of the renderer's contract, and the fallback listing)

The renderer (`annotate-snippets`) is not modelled; its observed precondition is:
it does not panic iff the annotation ends at most one byte past the end of the text
and every annotation offset that lies inside the text is on a character boundary.  The theorems below say
the spans the crate hands over meet that precondition for **every** source text
and **every** recorded `(line, column)` range — including ranges outside the text
and texts edited after compilation.
-/
namespace AsModel.Runtime

/-- Every span handed to the renderer is non-empty, starts on a character
boundary, and ends on a character boundary or past the end of the text. -/
theorem C06_spans_meet_contract (s : List Char) (ls cs le ce : Nat) :
    let sp := annotationSpan s ls cs le ce
    sp.1 < sp.2 ∧ IsBoundary s sp.1 ∧ (IsBoundary s sp.2 ∨ utf8Len s < sp.2) ∧
      sp.2 ≤ utf8Len s + 1 := by
  intro sp
  obtain ⟨i, hi, hstart⟩ := byteOffsetOf_boundary s ls cs
  obtain ⟨j, hj, hend⟩ := byteOffsetOf_boundary s le ce
  have hsp : sp = (byteOffsetOf s ls cs,
      max (byteOffsetOf s le ce)
        (byteOffsetOf s ls cs + (match charAtByte s (byteOffsetOf s ls cs) with
          | some c => c.utf8Size | none => 1))) := rfl
  rw [hsp]; simp only
  rw [hstart, hend]
  rcases Nat.lt_or_ge i s.length with hlt | hge
  · obtain ⟨h1, h2⟩ := charAtByte_boundary s i hlt
    have hpos := Char.utf8Size_pos s[i]
    simp only [h1]
    rw [h2]
    have hb1 := utf8Len_take_le s (i + 1)
    have hb2 := utf8Len_take_le s j
    refine ⟨by omega, ⟨i, hi, rfl⟩, Or.inl ?_, by omega⟩
    rcases Nat.le_total (utf8Len (s.take j)) (utf8Len (s.take (i + 1))) with h | h
    · rw [Nat.max_eq_right h]; exact ⟨i + 1, hlt, rfl⟩
    · rw [Nat.max_eq_left h]; exact ⟨j, hj, rfl⟩
  · have hie : i = s.length := by omega
    subst hie
    simp only [List.take_length, charAtByte_end]
    have := utf8Len_take_le s j
    refine ⟨by omega, ⟨s.length, Nat.le_refl _, by simp⟩, Or.inr ?_, ?_⟩ <;> omega

/-- The same, on the executable predicate that the correspondence check validates
against the real renderer: `rendererOk` holds for every span the crate produces. -/
theorem C06_rendererOk (s : List Char) (ls cs le ce : Nat) :
    rendererOk s (annotationSpan s ls cs le ce).1 (annotationSpan s ls cs le ce).2 = true := by
  obtain ⟨_, h2, h3, h4⟩ := C06_spans_meet_contract s ls cs le ce
  unfold rendererOk
  simp only [Bool.and_eq_true, Bool.or_eq_true, decide_eq_true_eq]
  refine ⟨⟨h4, Or.inr ((boundaryB_iff s _).2 h2)⟩, ?_⟩
  rcases h3 with h | h
  · exact Or.inr ((boundaryB_iff s _).2 h)
  · exact Or.inl h

/-- The pinned span construction (before the `fix:` commit) violates the contract:
with a two-byte character before the position the start offset lands inside it. -/
theorem C06_v0_counterexample :
    ¬ IsBoundary ['é', 'é', 'x'] (annotationSpanV0 ['é', 'é', 'x'] 1 1 1 3).1 := by
  rintro ⟨i, hi, h⟩
  have hi' : i ≤ 3 := hi
  have hv : (annotationSpanV0 ['é', 'é', 'x'] 1 1 1 3).1 = 1 := by decide
  rw [hv] at h
  have h0 : utf8Len (['é', 'é', 'x'].take 0) = 0 := by decide
  have h1 : utf8Len (['é', 'é', 'x'].take 1) = 2 := by decide
  have h2 : utf8Len (['é', 'é', 'x'].take 2) = 4 := by decide
  have h3 : utf8Len (['é', 'é', 'x'].take 3) = 5 := by decide
  have : i = 0 ∨ i = 1 ∨ i = 2 ∨ i = 3 := by omega
  rcases this with rfl | rfl | rfl | rfl <;> omega

/-- When the source cannot be read the report degrades to a listing that still has
the header and exactly one located entry per mismatch, in order. -/
theorem C06_fallback_lists_every_entry (rel : String) (entries : List (Nat × String)) :
    fallbackDisplay rel entries =
      "assert_struct! failed:" ++
        String.join (entries.map fun e => "\n  --> " ++ rel ++ ":" ++ toString e.1 ++ "\n  " ++ e.2) := rfl

/-! Non-vacuity. -/
example : annotationSpan "/* é */ x".toList 1 8 1 9 = (9, 10) := by decide
example : annotationSpan "ab".toList 7 3 9 9 = (2, 3) := by decide   -- range outside the text

end AsModel.Runtime
