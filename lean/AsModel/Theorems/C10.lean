import AsModel.Proofs.SetMatch
/-!
# C10 — set patterns succeed exactly when a one-to-one assignment exists

Property theorems about the model of `set_match` / `set_backtrack`
(`AsModel.Runtime.SetMatch`).  `M k i` is "pattern `k` matches element `i`";
it ranges over *every* Boolean matrix of every size.  Termination of the search
is by structural recursion of the definitions (no fuel).
-/
namespace AsModel.Runtime

/-- A one-to-one assignment of the `P` patterns to `E` elements under `M`. -/
def HasAssignment (M : Nat → Nat → Bool) (P E : Nat) : Prop :=
  ∃ f : Fin P → Fin E, Function.Injective f ∧ ∀ k : Fin P, M k.1 (f k).1 = true

theorem assign_iff_hasAssignment (M : Nat → Nat → Bool) (P E : Nat) :
    (∃ σ, Assign M 0 P (List.replicate E false) σ) ↔ HasAssignment M P E := by
  constructor
  · rintro ⟨σ, hσ⟩
    have hlt : ∀ j (h : j < σ.length), σ[j] < E := by
      intro j h
      have := hσ.free σ[j] (List.getElem_mem h)
      have := lt_length_of_getElem?_eq_some this
      simpa using this
    refine ⟨fun k => ⟨σ[k.1]'(by rw [hσ.len]; exact k.2), hlt _ _⟩, ?_, ?_⟩
    · intro a b hab
      have h1 : σ[a.1]'(by rw [hσ.len]; exact a.2) = σ[b.1]'(by rw [hσ.len]; exact b.2) := by
        simpa using congrArg Fin.val hab
      exact Fin.ext ((List.getElem_inj hσ.nodup).1 h1)
    · intro k
      have := hσ.ok k.1 (by rw [hσ.len]; exact k.2)
      simpa using this
  · rintro ⟨f, hinj, hM⟩
    refine ⟨(List.finRange P).map (fun k => (f k).1), ⟨by simp, ?_, ?_, ?_⟩⟩
    · rw [List.nodup_iff_pairwise_ne, List.pairwise_map]
      refine (List.nodup_finRange P).imp ?_
      intro a b hab h
      exact hab (hinj (Fin.ext h))
    · intro x hx
      rcases List.mem_map.1 hx with ⟨k, _, rfl⟩
      simp [(f k).2]
    · intro j hj
      have hj' : j < P := by simpa using hj
      simpa using hM ⟨j, hj'⟩

/-- The search answers `true` exactly when the patterns can be assigned to
distinct matching elements. -/
theorem C10_backtrack_iff (M : Nat → Nat → Bool) (P E : Nat) :
    (setBacktrack M P 0 (List.replicate E false)).1 = true ↔ HasAssignment M P E := by
  rw [(setBacktrack_spec M P 0 _).1, assign_iff_hasAssignment]

/-- A failed search leaves `matched` exactly as it found it (the undo is complete). -/
theorem C10_backtrack_false_restores (M : Nat → Nat → Bool) (r k : Nat) (m : List Bool) :
    (setBacktrack M r k m).1 = false → (setBacktrack M r k m).2 = m :=
  (setBacktrack_spec M r k m).2

/-- `#(p1, …, pn)` passes (pushes nothing) iff the length rule holds and a
one-to-one assignment exists. -/
theorem C10_setMatch_iff (nE : Nat) (rest : Bool) (P : Nat) (M : Nat → Nat → Bool) :
    setMatch nE rest P M = [] ↔
      (if rest then P ≤ nE else nE = P) ∧ HasAssignment M P nE := by
  unfold setMatch
  cases rest <;> simp only [Bool.false_eq_true, if_false, if_true]
  · by_cases hlen : nE = P
    · subst hlen
      by_cases hb : (setBacktrack M nE 0 (List.replicate nE false)).1 = true
      · have := (C10_backtrack_iff M nE nE).1 hb
        simp [hb, this]
      · have hb' := hb
        rw [C10_backtrack_iff] at hb'
        simp [hb, hb']
    · simp [hlen]
  · by_cases hlen : P ≤ nE
    · by_cases hb : (setBacktrack M P 0 (List.replicate nE false)).1 = true
      · have := (C10_backtrack_iff M P nE).1 hb
        simp [hlen, hb, this]
      · have hb' := hb
        rw [C10_backtrack_iff] at hb'
        simp [hlen, hb, hb']
    · simp [hlen]

theorem ite_len_aux {α} (c1 c2 : Bool) (a b : α) :
    (if c1 = true then [a] else if c2 = true then [] else [b]).length ≤ 1 := by
  cases c1 <;> cases c2 <;> simp

/-- A failing set pattern pushes exactly one entry, never more. -/
theorem C10_setMatch_at_most_one (nE : Nat) (rest : Bool) (P : Nat) (M : Nat → Nat → Bool) :
    (setMatch nE rest P M).length ≤ 1 := by
  unfold setMatch
  exact ite_len_aux _ _ _ _

theorem C10_setMatch_fail_one (nE : Nat) (rest : Bool) (P : Nat) (M : Nat → Nat → Bool)
    (h : setMatch nE rest P M ≠ []) : (setMatch nE rest P M).length = 1 := by
  have h1 := C10_setMatch_at_most_one nE rest P M
  cases hs : setMatch nE rest P M with
  | nil => exact absurd hs h
  | cons a t => rw [hs] at h1; cases t with
    | nil => rfl
    | cons b t => simp at h1

/-- The verdict does not depend on the order of the elements: relabelling the
elements by any bijection `π` (with inverse `π'`) leaves the verdict unchanged. -/
theorem C10_perm_elements (nE : Nat) (rest : Bool) (P : Nat) (M : Nat → Nat → Bool)
    (π π' : Nat → Nat)
    (hπ : ∀ i, i < nE → π i < nE) (hπ' : ∀ i, i < nE → π' i < nE)
    (hl : ∀ i, i < nE → π' (π i) = i) (hr : ∀ i, i < nE → π (π' i) = i) :
    (setMatch nE rest P (fun k i => M k (π i)) = []) ↔ (setMatch nE rest P M = []) := by
  rw [C10_setMatch_iff, C10_setMatch_iff]
  refine and_congr Iff.rfl ?_
  constructor
  · rintro ⟨f, hinj, hM⟩
    refine ⟨fun k => ⟨π (f k).1, hπ _ (f k).2⟩, ?_, fun k => hM k⟩
    intro a b hab
    have h1 : π (f a).1 = π (f b).1 := by simpa using congrArg Fin.val hab
    have h2 : (f a).1 = (f b).1 := by
      rw [← hl _ (f a).2, ← hl _ (f b).2, h1]
    exact hinj (Fin.ext h2)
  · rintro ⟨f, hinj, hM⟩
    refine ⟨fun k => ⟨π' (f k).1, hπ' _ (f k).2⟩, ?_, ?_⟩
    · intro a b hab
      have h1 : π' (f a).1 = π' (f b).1 := by simpa using congrArg Fin.val hab
      have h2 : (f a).1 = (f b).1 := by
        rw [← hr _ (f a).2, ← hr _ (f b).2, h1]
      exact hinj (Fin.ext h2)
    · intro k
      show M k.1 (π (π' (f k).1)) = true
      rw [hr _ (f k).2]; exact hM k

/-- The verdict does not depend on the order of the patterns. -/
theorem C10_perm_patterns (nE : Nat) (rest : Bool) (P : Nat) (M : Nat → Nat → Bool)
    (π π' : Nat → Nat)
    (hπ : ∀ i, i < P → π i < P) (hπ' : ∀ i, i < P → π' i < P)
    (hl : ∀ i, i < P → π' (π i) = i) (hr : ∀ i, i < P → π (π' i) = i) :
    (setMatch nE rest P (fun k i => M (π k) i) = []) ↔ (setMatch nE rest P M = []) := by
  rw [C10_setMatch_iff, C10_setMatch_iff]
  refine and_congr Iff.rfl ?_
  constructor
  · rintro ⟨f, hinj, hM⟩
    refine ⟨fun k => f ⟨π' k.1, hπ' _ k.2⟩, ?_, ?_⟩
    · intro a b hab
      have h1 := congrArg Fin.val (hinj hab)
      have h2 : π' a.1 = π' b.1 := by simpa using h1
      apply Fin.ext
      rw [← hr _ a.2, ← hr _ b.2, h2]
    · intro k
      have := hM ⟨π' k.1, hπ' _ k.2⟩
      simpa [hr _ k.2] using this
  · rintro ⟨f, hinj, hM⟩
    refine ⟨fun k => f ⟨π k.1, hπ _ k.2⟩, ?_, fun k => hM ⟨π k.1, hπ _ k.2⟩⟩
    intro a b hab
    have h1 := congrArg Fin.val (hinj hab)
    have h2 : π a.1 = π b.1 := by simpa using h1
    apply Fin.ext
    rw [← hl _ a.2, ← hl _ b.2, h2]

/-! Non-vacuity: a matrix on which first-fit fails but backtracking succeeds
(pattern 0 matches elements 0 and 1, pattern 1 only element 0), and one with no
assignment (both patterns match only element 0). -/
def exNeedsBacktrack : Nat → Nat → Bool := fun k i => (k == 0 && (i == 0 || i == 1)) || (k == 1 && i == 0)
example : setMatch 2 false 2 exNeedsBacktrack = [] := by decide
example : HasAssignment exNeedsBacktrack 2 2 := (C10_setMatch_iff 2 false 2 _).1 (by decide) |>.2
example : setMatch 2 false 2 (fun _ i => i == 0) ≠ [] := by decide
example : setMatch 3 true 2 exNeedsBacktrack = [] := by decide
example : setMatch 3 false 2 exNeedsBacktrack ≠ [] := by decide

end AsModel.Runtime
