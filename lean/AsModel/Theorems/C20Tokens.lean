import AsModel.Render
import AsModel.Theorems.C20
/-!
# C20 on the token stream — which span every token of a leaf template carries

`Theorems/C20.lean` speaks about the IR (`Code.topSpan`).  rustc reports a type error on
*tokens*; the artefact the T2 tie compares with the real expansion is `Render.lean`'s token
stream.  Here the statement is made about that stream: in the template of every leaf
pattern (literal, string literal, comparison, range, regex, Like, closure) and in the
shallow part of the enum / named-struct templates, every token is

* stamped with the pattern's own span, or
* one of the user's own tokens (the value expression it is applied to, the pattern's
  operand / path / literal), or
* part of the report-building `__report.push(..)` statement, or
* a string literal payload re-created at the call site (it cannot be ill-typed).

So no token that takes part in applying the pattern to the value is stamped with the call
site (an error on such a token would be reported on the whole macro invocation).  A model
that follows a generator which re-stamps one of these templates fails these theorems.
-/
namespace AsModel

theorem mem_tq {t : Tok} {sp : Sp} {s : String} (h : t ∈ tq sp s) : t.sp = sp := by
  unfold tq at h
  obtain ⟨w, _, rfl⟩ := List.mem_map.1 h
  rfl

theorem mem_tstr {t : Tok} {sp : Sp} {s : String} (h : t ∈ tstr sp s) :
    t.sp = sp ∧ ∃ v, t.text = .str v := by
  simp only [tstr, List.mem_singleton] at h
  subst h
  exact ⟨rfl, _, rfl⟩

theorem mem_supportPath {t : Tok} {sp : Sp} (h : t ∈ supportPath sp) : t.sp = sp := mem_tq h

/-- Where a token of a leaf template may come from. -/
def TokOrigin (sp : Sp) (vt ut pt : Toks) (t : Tok) : Prop :=
  t.sp = sp ∨ t ∈ vt ∨ t ∈ ut ∨ t ∈ pt ∨ (t.sp = Sp.callSite ∧ ∃ s, t.text = .str s)

/-- The parts of a leaf template: its stamp, the value expression, the user's own tokens of
the pattern, the push. -/
def Code.leafParts : Code → Option (Sp × VExpr × Toks × Push)
  | .simple sp v e push | .cmp sp v _ e push | .range sp v e push | .like sp v e push
  | .closure sp v e push => some (sp, v, e.toks, push)
  | .string sp v lit _ push => some (sp, v, [lit], push)
  | .unitVariant sp v path push => some (sp, v, path.toks, push)
  | .regex sp v _ push => some (sp, v, [], push)
  | _ => none

macro "tok_origin" : tactic => `(tactic| first
  | exact Or.inl (mem_tq ‹_›)
  | exact Or.inl (mem_supportPath ‹_›)
  | exact Or.inl (mem_tstr ‹_›).1
  | exact Or.inr (Or.inl ‹_›)
  | exact Or.inr (Or.inr (Or.inl ‹_›))
  | exact Or.inr (Or.inr (Or.inl (List.mem_singleton.2 (List.mem_singleton.1 ‹_›))))
  | exact Or.inr (Or.inr (Or.inr (Or.inl ‹_›)))
  | exact Or.inr (Or.inr (Or.inr (Or.inr (mem_tstr ‹_›)))))

/-- **Every token of a leaf template has one of the four admissible origins.** -/
theorem Code.leaf_tokens (value : Toks) (c : Code) (sp : Sp) (v : VExpr) (ut : Toks) (push : Push)
    (h : c.leafParts = some (sp, v, ut, push)) :
    ∀ t ∈ c.toks value, TokOrigin sp (v.toks value) ut (push.toks value) t := by
  cases c <;> simp only [Code.leafParts, Option.some.injEq, Prod.mk.injEq, reduceCtorEq] at h
  all_goals obtain ⟨rfl, rfl, rfl, rfl⟩ := h
  all_goals simp only [Code.toks]
  case string =>
    split <;> simp only [List.forall_mem_append] <;> (repeat' apply And.intro) <;>
      (intro t ht; unfold TokOrigin; tok_origin)
  all_goals
    simp only [List.forall_mem_append]
    (repeat' apply And.intro) <;> (intro t ht; unfold TokOrigin; tok_origin)

/-- The report-building statement: its own tokens carry the push's span or the call site;
the rest is the value expression being formatted. -/
theorem Push.tokens (value : Toks) (p : Push) (v : VExpr)
    (h : p.actual = .dbg v ∨ p.actual = .dbgRef v ∨ p.actual = .dbgActual) :
    ∀ t ∈ p.toks value, t.sp = p.sp ∨ t.sp = Sp.callSite ∨ t ∈ v.toks value := by
  have hexp : ∀ t ∈ p.expected.toks, t.sp = Sp.callSite := by
    cases p.expected <;> simp only [Expected.toks, List.forall_mem_append] <;>
      (repeat' apply And.intro) <;> (intro t ht; first | exact mem_tq ht | exact (mem_tstr ht).1)
  have hact : ∀ t ∈ p.actual.toks value, t.sp = Sp.callSite ∨ t ∈ v.toks value := by
    rcases h with h | h | h <;> rw [h] <;> simp only [Actual.toks, List.forall_mem_append] <;>
      (repeat' apply And.intro) <;>
      (intro t ht; first | exact Or.inl (mem_tq ht) | exact Or.inl (mem_tstr ht).1 | exact Or.inr ht)
  simp only [Push.toks, nodeIdent, List.forall_mem_append]
  (repeat' apply And.intro) <;> intro t ht
  · exact Or.inl (mem_tq ht)
  · exact Or.inr (Or.inl (mem_tq ht))
  · exact Or.inl (mem_tq ht)
  · rcases hact t ht with h' | h'
    · exact Or.inr (Or.inl h')
    · exact Or.inr (Or.inr h')
  · exact Or.inl (mem_tq ht)
  · exact Or.inr (Or.inl (hexp t ht))
  · exact Or.inl (mem_tq ht)

/-- The user's own tokens of a leaf pattern. -/
def Pat.userToks : Pat → Toks
  | .simple _ e | .cmp _ _ _ e | .range _ e | .like _ e | .closure _ e => e.toks
  | .string _ _ _ tok => [tok]
  | _ => []

def Pat.isLeaf : Pat → Bool
  | .simple .. | .cmp .. | .range .. | .like .. | .closure .. | .string .. | .regex .. => true
  | _ => false

/-- **C20 on the token stream.** For every leaf pattern, on every value expression (every
position and depth) and whatever the asserted expression is: each token of the rendered
template is stamped with the pattern's own span, or is a token of the value expression, or
one of the user's own tokens of the pattern, or belongs to the report-building push, or is
a re-created string payload.  In particular the tokens that apply the pattern to the value
(`matches ! ( … , … )`, `( … ) . lt ( & ( … ) )`, `match & … { … = > … }`, `( … ) . like ( & … )`,
`check_closure_condition ( … , … )`, `Regex : : new ( … )`) never carry the call-site span. -/
theorem C20_leaf_tokens (value : Toks) (v : VExpr) (p : Pat) (hp : p.isLeaf = true) :
    ∃ sp push, p.stampSpan = some sp ∧ (push : Push).sp = sp ∧
      ∀ t ∈ (expandPat v p).toks value,
        TokOrigin sp (v.toks value) p.userToks (push.toks value) t := by
  cases p <;> simp only [Pat.isLeaf, Bool.false_eq_true] at hp
  all_goals
    exact ⟨_, _, rfl, rfl, Code.leaf_tokens value _ _ _ _ _ rfl⟩

/-- And inside that push only the span of the pattern, the call site (node constant,
`format ! ( "{:?}" , … )`, `None` / `Some ( … )`) or the value expression's own tokens occur. -/
theorem C20_leaf_push_tokens (value : Toks) (v : VExpr) (id : Nat) (op : Runtime.CmpOp) (osp : Sp) (e : UExpr) :
    ∃ push, expandPat v (.cmp id op osp e) = .cmp e.sp v op e push ∧
      ∀ t ∈ push.toks value, t.sp = e.sp ∨ t.sp = Sp.callSite ∨ t ∈ v.toks value :=
  ⟨_, rfl, Push.tokens value _ v (Or.inl rfl)⟩

syntax "or_path " ident : tactic
macro_rules
  | `(tactic| or_path $h) => `(tactic| first
      | exact $h | exact Or.inl $h | exact Or.inr $h | exact Or.inl (Or.inl $h) | exact Or.inl (Or.inr $h)
      | exact Or.inl (Or.inl (Or.inl $h)) | exact Or.inl (Or.inl (Or.inr $h)))

theorem mem_sepBy {t : Tok} {sep : Toks} : ∀ {xs : List Toks}, t ∈ sepBy sep xs → t ∈ sep ∨ t ∈ xs.flatten
  | [], h => by simp [sepBy] at h
  | [x], h => by simp only [sepBy] at h; exact Or.inr (by simpa using h)
  | x :: y :: xs, h => by
    simp only [sepBy, List.mem_append] at h
    rcases h with (h | h) | h
    · exact Or.inr (by simp [h])
    · exact Or.inl h
    · rcases mem_sepBy h with h' | h'
      · exact Or.inl h'
      · exact Or.inr (by
          simp only [List.flatten_cons, List.mem_append] at h' ⊢
          exact Or.inr h')

/-- The user-written and nested parts of the two native-pattern composites: the path, what
the arm binds, the `..` marker, and the code of the sub-patterns. -/
def Code.armParts (value : Toks) : Code → Option (Sp × VExpr × Toks × Push)
  | .enumTuple sp v path binders body push =>
    some (sp, v, path.toks ++ (binders.map Binder.toks).flatten ++ body.toks value, push)
  | .structNamed sp v path fields fsps rest body push =>
    some (sp, v, path.toks ++ ((fields.zip fsps).map fun fs => fs.1.toksAt fs.2 ++ tq sp ":" ++ (Name.field fs.1).toks).flatten ++
      (if !rest then [] else if fields.isEmpty then tq cs ". ." else tq cs ", . .") ++ body.toks value, push)
  | _ => none

/-- **Enum-variant and named-struct templates**: the `match` frame (`# [ allow ( .. ) ] match & … { … ( … ) = > { … } , _ = > { … } }`,
the separators between the arm's binders) is stamped with the path's span; everything else is
the value expression, the user's path, the arm's binders / field names / `..`, the
sub-patterns' own code, or the push. -/
theorem Code.arm_tokens (value : Toks) (c : Code) (sp : Sp) (v : VExpr) (ut : Toks) (push : Push)
    (h : c.armParts value = some (sp, v, ut, push)) :
    ∀ t ∈ c.toks value, TokOrigin sp (v.toks value) ut (push.toks value) t := by
  cases c <;> simp only [Code.armParts, Option.some.injEq, Prod.mk.injEq, reduceCtorEq] at h
  all_goals obtain ⟨rfl, rfl, rfl, rfl⟩ := h
  all_goals simp only [Code.toks]
  all_goals
    simp only [List.forall_mem_append]
    (repeat' apply And.intro) <;> intro t ht <;> unfold TokOrigin
  all_goals first
    | exact Or.inl (mem_tq ht)
    | exact Or.inr (Or.inl ht)
    | exact Or.inr (Or.inr (Or.inr (Or.inl ht)))
    | (rcases mem_sepBy ht with h' | h'
       · exact Or.inl (mem_tq h')
       · exact Or.inr (Or.inr (Or.inl (by simp only [List.mem_append]; or_path h'))))
    | exact Or.inr (Or.inr (Or.inl (by simp only [List.mem_append]; or_path ht)))

/-- C20 for the variant / struct templates as the generator produces them: the frame carries
the path's span (`Pat.stampSpan`). -/
theorem C20_arm_tokens (value : Toks) (v : VExpr) (id : Nat) (path : UPath) (fields : Items) (rest : Bool) :
    ∃ ut push, ∀ t ∈ (expandPat v (.struct id (some path) fields rest)).toks value,
      TokOrigin path.sp (v.toks value) ut ((push : Push).toks value) t :=
  ⟨_, _, Code.arm_tokens value _ _ _ _ _ rfl⟩

/-- The pinned alternative is refutable: a comparison template whose method-call tokens were
stamped with the call site would not satisfy the statement - the token `lt` stamped with
the call site has none of the admissible origins when the pattern's span is another one. -/
example (sp : Sp) (h : sp ≠ Sp.callSite) :
    ¬ TokOrigin sp [] [] [] ⟨.plain "lt", Sp.callSite⟩ := by
  intro ho
  rcases ho with ho | ho | ho | ho | ⟨_, s, hs⟩
  · exact h ho.symm
  · simp at ho
  · simp at ho
  · simp at ho
  · simp at hs

end AsModel

namespace AsModel

/-- The user's own tokens inside one field operation: a method's name and arguments, a named
field's identifier, an index expression. -/
def FieldOp.userToks : FieldOp → Toks
  | .method name _ args => ⟨.plain name.name, name.sp⟩ :: (args.map (·.toks)).flatten
  | .named name _ => [⟨.plain name.name, name.sp⟩]
  | .index e _ => e.toks
  | _ => []

/-- **Every token a field-operation step adds carries that operation's own span** (or is one
of the user's own tokens inside the step): `. name ( args )`, `. await`, `. name`, `. 0`,
`[ e ]`, the run of `*`s.  Since /repo 04cedd8 this includes the index literal of a tuple-index
step, which used to be created at the call site - an ill-typed `t.0` was reported on the whole
macro invocation. -/
theorem C20_field_step_tokens (value : Toks) (v : VExpr) (op : FieldOp) :
    ∀ t ∈ (applyOp v op).toks value, t ∈ v.toks value ∨ t.sp = op.span ∨ t ∈ op.userToks := by
  cases op with
  | deref count sp =>
    intro t ht
    simp only [applyOp, VExpr.toks, preToks, List.flatMap_append, List.mem_append] at ht
    rcases ht with (ht | ht) | ht
    · obtain ⟨x, hx, htx⟩ := List.mem_flatMap.1 ht
      rw [List.mem_replicate] at hx
      obtain ⟨_, rfl⟩ := hx
      exact Or.inr (Or.inl (mem_tq htx))
    · exact Or.inl (by simp only [VExpr.toks, preToks, List.mem_append]; exact Or.inl ht)
    · exact Or.inl (by simp only [VExpr.toks, List.mem_append]; exact Or.inr ht)
  | method name sp args =>
    intro t ht
    simp only [applyOp, VExpr.toks, Core.toks, List.mem_append, List.mem_singleton] at ht
    rcases ht with ht | (((((ht | ht) | ht) | ht) | ht) | ht)
    · exact Or.inl (by simp only [VExpr.toks, List.mem_append]; exact Or.inl ht)
    · exact Or.inl (by simp only [VExpr.toks, List.mem_append]; exact Or.inr ht)
    · exact Or.inr (Or.inl (mem_tq ht))
    · exact Or.inr (Or.inr (by simp [FieldOp.userToks, ht]))
    · exact Or.inr (Or.inl (mem_tq ht))
    · rcases mem_sepBy ht with h' | h'
      · exact Or.inr (Or.inl (mem_tq h'))
      · exact Or.inr (Or.inr (by simp only [FieldOp.userToks, List.mem_cons]; exact Or.inr h'))
    · exact Or.inr (Or.inl (mem_tq ht))
  | await sp =>
    intro t ht
    simp only [applyOp, VExpr.toks, Core.toks, List.mem_append] at ht
    rcases ht with ht | (ht | ht)
    · exact Or.inl (by simp only [VExpr.toks, List.mem_append]; exact Or.inl ht)
    · exact Or.inl (by simp only [VExpr.toks, List.mem_append]; exact Or.inr ht)
    · exact Or.inr (Or.inl (mem_tq ht))
  | named name sp =>
    intro t ht
    simp only [applyOp, VExpr.toks, Core.toks, List.mem_append, List.mem_singleton] at ht
    rcases ht with ht | ((ht | ht) | ht)
    · exact Or.inl (by simp only [VExpr.toks, List.mem_append]; exact Or.inl ht)
    · exact Or.inl (by simp only [VExpr.toks, List.mem_append]; exact Or.inr ht)
    · exact Or.inr (Or.inl (mem_tq ht))
    · exact Or.inr (Or.inr (by simp [FieldOp.userToks, ht]))
  | unnamed i sp =>
    intro t ht
    simp only [applyOp, VExpr.toks, Core.toks, List.mem_append] at ht
    rcases ht with ht | ((ht | ht) | ht)
    · exact Or.inl (by simp only [VExpr.toks, List.mem_append]; exact Or.inl ht)
    · exact Or.inl (by simp only [VExpr.toks, List.mem_append]; exact Or.inr ht)
    · exact Or.inr (Or.inl (mem_tq ht))
    · exact Or.inr (Or.inl (mem_tq ht))
  | index e sp =>
    intro t ht
    simp only [applyOp, VExpr.toks, Core.toks, List.mem_append] at ht
    rcases ht with ht | (((ht | ht) | ht) | ht)
    · exact Or.inl (by simp only [VExpr.toks, List.mem_append]; exact Or.inl ht)
    · exact Or.inl (by simp only [VExpr.toks, List.mem_append]; exact Or.inr ht)
    · exact Or.inr (Or.inl (mem_tq ht))
    · exact Or.inr (Or.inr ht)
    · exact Or.inr (Or.inl (mem_tq ht))

/-- The pinned rendering of a tuple-index step (before /repo 04cedd8): the index literal at the
call site.  It does not satisfy the statement: for an operation whose span is not the call site
the literal's token has none of the three origins. -/
theorem C20_pinned_tuple_index_counterexample (sp : Sp) (h : sp ≠ Sp.callSite) (i : Nat) :
    ∀ t ∈ tq cs (toString i), ¬ (t ∈ ([] : Toks) ∨ t.sp = (FieldOp.unnamed i sp).span ∨
      t ∈ (FieldOp.unnamed i sp).userToks) := by
  intro t ht ho
  have hts : t.sp = cs := mem_tq ht
  rcases ho with ho | ho | ho
  · simp at ho
  · exact h (by have : (FieldOp.unnamed i sp).span = sp := rfl
                rw [this] at ho; rw [← ho, hts]; rfl)
  · simp [FieldOp.userToks] at ho

end AsModel

namespace AsModel

/-- **The recorded finding `shape-*` as a fact about the model**: the frames of the tuple, slice
and set templates (`match & … { ( … ) = > { … } , _ = > unreachable ! ( … ) , }`,
`match ( … ) . as_slice ( ) { [ … ] = > { … } _ = > { … } }`, the whole set block) are stamped
with the call site - everything in them that is not the value expression, a binder, the
sub-patterns' code or the push.  A value of another shape is therefore reported on the whole
macro invocation (`( … ) . as_slice ( )` is where rustc finds no such method). -/
theorem C20_shape_frames_call_site (value : Toks) (v : VExpr) (bs : List Binder) (body : Codes) (push : Push) :
    (∀ t ∈ (Code.tuple v bs body).toks value,
      t.sp = Sp.callSite ∨ t ∈ v.toks value ∨ t ∈ (bs.map Binder.toks).flatten ∨ t ∈ body.toks value) ∧
    (∀ t ∈ (Code.slice v bs body push).toks value,
      t.sp = Sp.callSite ∨ t ∈ v.toks value ∨ t ∈ (bs.map Binder.toks).flatten ∨ t ∈ body.toks value ∨
        t ∈ push.toks value) := by
  constructor
  · simp only [Code.toks, List.forall_mem_append]
    (repeat' apply And.intro) <;> intro t ht
    all_goals first
      | exact Or.inl (mem_tq ht)
      | exact Or.inl (mem_tstr ht).1
      | exact Or.inr (Or.inl ht)
      | exact Or.inr (Or.inr (Or.inr ht))
      | (rcases mem_sepBy ht with h' | h'
         · exact Or.inl (mem_tq h')
         · exact Or.inr (Or.inr (Or.inl h')))
  · simp only [Code.toks, List.forall_mem_append]
    (repeat' apply And.intro) <;> intro t ht
    all_goals first
      | exact Or.inl (mem_tq ht)
      | exact Or.inr (Or.inl ht)
      | exact Or.inr (Or.inr (Or.inr (Or.inl ht)))
      | exact Or.inr (Or.inr (Or.inr (Or.inr ht)))
      | (rcases mem_sepBy ht with h' | h'
         · exact Or.inl (mem_tq h')
         · exact Or.inr (Or.inr (Or.inl h')))

end AsModel
