import AsModel.Expand
/-!
# C14 — accepted input yields a well-formed, reproducible expansion

Statements about the node table (`genNodes`) and the node references in the assertion
code.  That node ids are unique in a parsed pattern is a property of the parser's
counter (hypothesis `idsNodup`; proved for the parser model in `Theorems/C13.lean`).
-/
namespace AsModel

mutual
/-- All node ids of a pattern, in the order their definitions are emitted (children first). -/
def Pat.allIds : Pat → List Nat
  | .struct id _ items _ | .enum id _ items | .tuple id _ items | .set id _ items _
  | .map id _ items _ => items.allIds false ++ [id]
  | .slice id _ items => items.allIds true ++ [id]
  | p => [p.id]
def Items.allIds : Items → Bool → List Nat
  | .nil, _ => []
  | .cons _ _ p tl, skipRest => (if skipRest && p.isSliceRest then [] else p.allIds) ++ tl.allIds skipRest
end

mutual
/-- **Every node is defined exactly once, in pattern order**: the ids of the emitted
definitions are the ids of the pattern's nodes (a bare `..` inside a slice has none). -/
theorem genNodes_ids : ∀ (p : Pat) (par : Option Nat), (genNodes p par).map (·.1) = p.allIds
  | .struct id path fields rest, par => by simp [genNodes, Pat.allIds, genNodesItems_ids]
  | .enum id path elems, par => by simp [genNodes, Pat.allIds, genNodesItems_ids]
  | .tuple id sp elems, par => by simp [genNodes, Pat.allIds, genNodesItems_ids]
  | .slice id sp elems, par => by simp [genNodes, Pat.allIds, genNodesItems_ids]
  | .set id sp elems rest, par => by simp [genNodes, Pat.allIds, genNodesItems_ids]
  | .map id sp entries rest, par => by simp [genNodes, Pat.allIds, genNodesItems_ids]
  | .simple .., _ | .string .., _ | .cmp .., _ | .range .., _ | .regex .., _ | .like .., _
  | .wild _, _ | .closure .., _ => by simp [genNodes, Pat.allIds, Pat.id]
theorem genNodesItems_ids : ∀ (items : Items) (par : Nat) (skip : Bool),
    (genNodesItems items par skip).map (·.1) = items.allIds skip
  | .nil, _, _ => rfl
  | .cons _ _ p tl, par, skip => by
    simp only [genNodesItems, Items.allIds, List.map_append, genNodesItems_ids tl par skip]
    split <;> simp [genNodes_ids p (some par)]
end

/-- If the parser gave the nodes distinct ids, every `static __PATTERN_NODE_n` is defined once. -/
theorem C14_ids_nodup (p : Pat) (h : p.allIds.Nodup) : ((genNodes p none).map (·.1)).Nodup := by
  rw [genNodes_ids]; exact h

/-- The root constant refers to the pattern's own node, which is defined (last). -/
theorem C14_root_node (p : Pat) : (expand p).root ∈ (expand p).nodes.map (·.1) := by
  simp only [expand, genNodes_ids]
  cases p <;> simp [Pat.allIds, Pat.id]

/-- The root node has no parent and carries the pattern's kind and location. -/
theorem C14_root_def (p : Pat) :
    (genNodes p none).getLast? = some (p.id, ⟨p.nodeKind, none, p.location⟩) := by
  cases p <;> simp [genNodes, Pat.id, Pat.nodeKind, Pat.location]

/-! ### Node references in the assertion code -/

mutual
/-- Node ids the assertion code refers to (`&__PATTERN_NODE_n`). -/
def Code.nodeRefs : Code → List Nat
  | .skip => []
  | .seq cs => cs.nodeRefs
  | .simple _ _ _ push | .cmp _ _ _ _ push | .unitVariant _ _ _ push | .range _ _ _ push
  | .regex _ _ _ push | .like _ _ _ push | .closure _ _ _ push | .string _ _ _ _ push
  | .mapLen _ _ _ push => [push.node]
  | .enumTuple _ _ _ _ body push | .structNamed _ _ _ _ _ _ body push | .slice _ _ body push =>
    push.node :: body.nodeRefs
  | .tuple _ _ body => body.nodeRefs
  | .mapGet _ _ _ body push => push.node :: body.nodeRefs
  | .set _ preds _ node => node :: preds.nodeRefs
def Codes.nodeRefs : Codes → List Nat
  | .nil => []
  | .cons c tl => c.nodeRefs ++ tl.nodeRefs
end

theorem mem_allIds_self (p : Pat) : p.id ∈ p.allIds := by
  cases p <;> simp [Pat.allIds, Pat.id]

theorem Codes.nodeRefs_append : ∀ (a b : Codes), (a.append b).nodeRefs = a.nodeRefs ++ b.nodeRefs
  | .nil, _ => rfl
  | .cons c tl, b => by simp [Codes.append, Codes.nodeRefs, Codes.nodeRefs_append tl b]

/-- Ids of the non-rest elements are ids of all elements. -/
theorem allIds_true_subset : ∀ (items : Items) (n : Nat), n ∈ items.allIds true → n ∈ items.allIds false
  | .nil, _, h => h
  | .cons _ _ p tl, n, h => by
    simp only [Items.allIds, List.mem_append, Bool.true_and, Bool.false_and, Bool.false_eq_true, if_false] at h ⊢
    rcases h with h | h
    · split at h
      · simp at h
      · exact Or.inl h
    · exact Or.inr (allIds_true_subset tl n h)

mutual
theorem expandPat_refs : ∀ (v : VExpr) (p : Pat), ∀ n ∈ (expandPat v p).nodeRefs, n ∈ p.allIds
  | v, .simple .. | v, .cmp .. | v, .range .. | v, .regex .. | v, .like .. | v, .closure ..
  | v, .string .. => by
    intro n hn; simp [expandPat, Code.nodeRefs, dbgPush] at hn; simp [hn, Pat.allIds, Pat.id]
  | v, .wild _ => by intro n hn; simp [expandPat, Code.nodeRefs] at hn
  | v, .enum id path elems => by
    intro n hn
    unfold expandPat at hn
    split at hn
    · simp [Code.nodeRefs, dbgPush] at hn; simp [hn, Pat.allIds]
    · simp only [Code.nodeRefs, dbgPush, List.mem_cons] at hn
      rcases hn with rfl | hn
      · simp [Pat.allIds]
      · have := expandElems_refs elems 0 Name.elem n hn
        simp [Pat.allIds, this]
  | v, .tuple id sp elems => by
    intro n hn
    simp only [expandPat, Code.nodeRefs] at hn
    have := expandElems_refs elems 0 Name.tupleElem n hn
    simp [Pat.allIds, this]
  | v, .slice id sp elems => by
    intro n hn
    simp only [expandPat, Code.nodeRefs, List.mem_cons] at hn
    rcases hn with rfl | hn
    · simp [Pat.allIds]
    · have := expandSliceElems_refs elems 0 n hn
      simp [Pat.allIds, this]
  | v, .struct id (some path) fields rest => by
    intro n hn
    simp only [expandPat, Code.nodeRefs, dbgPush, List.mem_cons] at hn
    rcases hn with rfl | hn
    · simp [Pat.allIds]
    · have := expandFields_refs fields n hn
      simp [Pat.allIds, this]
  | v, .struct id none fields rest => by
    intro n hn
    simp only [expandPat, Code.nodeRefs] at hn
    have := expandWildFields_refs v fields n hn
    simp [Pat.allIds, this]
  | v, .set id sp elems rest => by
    intro n hn
    simp only [expandPat, Code.nodeRefs, List.mem_cons] at hn
    rcases hn with rfl | hn
    · simp [Pat.allIds]
    · have := expandSetElems_refs elems n hn
      simp [Pat.allIds, this]
  | v, .map id sp entries rest => by
    intro n hn
    unfold expandPat at hn
    simp only [Code.nodeRefs, Codes.nodeRefs_append, List.mem_append] at hn
    rcases hn with hn | hn
    · split at hn
      · simp [Codes.nodeRefs] at hn
      · simp [Codes.nodeRefs, Code.nodeRefs] at hn; simp [hn, Pat.allIds]
    · rcases expandEntries_refs v id entries n hn with rfl | h
      · simp [Pat.allIds]
      · simp [Pat.allIds, h]
theorem expandElems_refs : ∀ (items : Items) (i : Nat) (mk : Nat → Name),
    ∀ n ∈ (expandElems items i mk).nodeRefs, n ∈ items.allIds false
  | .nil, _, _, n, hn => by simp [expandElems, Codes.nodeRefs] at hn
  | .cons ops key p tl, i, mk, n, hn => by
    unfold expandElems at hn
    simp only [Items.allIds, Bool.false_and, Bool.false_eq_true, if_false, List.mem_append]
    split at hn
    · exact Or.inr (expandElems_refs tl (i + 1) mk n hn)
    · simp only [Codes.nodeRefs, List.mem_append] at hn
      rcases hn with hn | hn
      · left; cases ops <;> exact expandPat_refs _ p n hn
      · exact Or.inr (expandElems_refs tl (i + 1) mk n hn)
theorem expandSliceElems_refs : ∀ (items : Items) (i : Nat),
    ∀ n ∈ (expandSliceElems items i).nodeRefs, n ∈ items.allIds true
  | .nil, _, n, hn => by simp [expandSliceElems, Codes.nodeRefs] at hn
  | .cons ops key p tl, i, n, hn => by
    unfold expandSliceElems at hn
    simp only [Items.allIds, Bool.true_and, List.mem_append]
    split at hn
    · exact Or.inr (expandSliceElems_refs tl (i + 1) n hn)
    · rename_i hne
      simp only [Codes.nodeRefs, List.mem_append] at hn
      rcases hn with hn | hn
      · left
        have hr : p.isSliceRest = false := by
          cases h : p.isSliceRest with
          | false => rfl
          | true => simp [h] at hne
        simp only [hr, Bool.false_eq_true, if_false]
        exact expandPat_refs _ p n hn
      · exact Or.inr (expandSliceElems_refs tl (i + 1) n hn)
theorem expandSetElems_refs : ∀ (items : Items), ∀ n ∈ (expandSetElems items).nodeRefs, n ∈ items.allIds false
  | .nil, n, hn => by simp [expandSetElems, Codes.nodeRefs] at hn
  | .cons ops key p tl, n, hn => by
    simp only [expandSetElems, Codes.nodeRefs, List.mem_append] at hn
    simp only [Items.allIds, Bool.false_and, Bool.false_eq_true, if_false, List.mem_append]
    rcases hn with hn | hn
    · exact Or.inl (expandPat_refs _ p n hn)
    · exact Or.inr (expandSetElems_refs tl n hn)
theorem expandFields_refs : ∀ (items : Items), ∀ n ∈ (expandFields items).nodeRefs, n ∈ items.allIds false
  | .nil, n, hn => by simp [expandFields, Codes.nodeRefs] at hn
  | .cons ops key p tl, n, hn => by
    simp only [expandFields, Codes.nodeRefs, List.mem_append] at hn
    simp only [Items.allIds, Bool.false_and, Bool.false_eq_true, if_false, List.mem_append]
    rcases hn with hn | hn
    · left
      cases ops with
      | none => simp [Code.nodeRefs] at hn
      | some o =>
        simp only at hn
        split at hn
        · exact expandPat_refs _ p n hn
        · simp [Code.nodeRefs] at hn
    · exact Or.inr (expandFields_refs tl n hn)
theorem expandWildFields_refs (v : VExpr) : ∀ (items : Items),
    ∀ n ∈ (expandWildFields v items).nodeRefs, n ∈ items.allIds false
  | .nil, n, hn => by simp [expandWildFields, Codes.nodeRefs] at hn
  | .cons ops key p tl, n, hn => by
    simp only [expandWildFields, Codes.nodeRefs, List.mem_append] at hn
    simp only [Items.allIds, Bool.false_and, Bool.false_eq_true, if_false, List.mem_append]
    rcases hn with hn | hn
    · left
      cases ops with
      | none => simp [Code.nodeRefs] at hn
      | some o =>
        simp only at hn
        split at hn
        · split at hn <;> exact expandPat_refs _ p n hn
        · simp [Code.nodeRefs] at hn
    · exact Or.inr (expandWildFields_refs v tl n hn)
theorem expandEntries_refs (v : VExpr) (node : Nat) : ∀ (items : Items),
    ∀ n ∈ (expandEntries v node items).nodeRefs, n = node ∨ n ∈ items.allIds false
  | .nil, n, hn => by simp [expandEntries, Codes.nodeRefs] at hn
  | .cons ops key p tl, n, hn => by
    simp only [expandEntries, Codes.nodeRefs, List.mem_append] at hn
    simp only [Items.allIds, Bool.false_and, Bool.false_eq_true, if_false, List.mem_append]
    rcases hn with hn | hn
    · cases key with
      | none => simp [Code.nodeRefs] at hn
      | some k =>
        simp only [Code.nodeRefs, List.mem_cons] at hn
        rcases hn with rfl | hn
        · exact Or.inl rfl
        · exact Or.inr (Or.inl (expandPat_refs _ p n hn))
    · rcases expandEntries_refs v node tl n hn with h | h
      · exact Or.inl h
      · exact Or.inr (Or.inr h)
end

/-- **Every node the assertion code refers to is defined** (and, with `C14_ids_nodup`, exactly once). -/
theorem C14_refs_defined (p : Pat) :
    ∀ n ∈ (expand p).body.nodeRefs, n ∈ (expand p).nodes.map (·.1) := by
  intro n hn
  simp only [expand, genNodes_ids]
  exact expandPat_refs rootVExpr p n hn

end AsModel
