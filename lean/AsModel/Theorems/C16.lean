import AsModel.WiringResolve
/-!
# C16 — disabling the regex feature removes only regex matching

`wiring` is generated from the two manifests on every run.  `resolve` is cargo's additive
feature resolution for this two-crate graph.  A dependent crate selects
`(defaultFeatures, regex)` for `assert-struct`; which `cfg(feature = "regex")` the two
crates are then compiled with follows.
-/
namespace AsModel.Generated

def allSelections : List Selection := [⟨true, false⟩, ⟨true, true⟩, ⟨false, false⟩, ⟨false, true⟩]

theorem allSelections_complete (s : Selection) : s ∈ allSelections := by
  cases s with
  | mk d r => cases d <;> cases r <;> simp [allSelections]

/-- **The macro is the same function in every configuration a dependent can select**: its
`regex` cfg is on whatever the dependent chooses, so the parser and the code generator do not
change when default features are turned off. -/
theorem C16_macro_cfg_constant (sel : Selection) : (resolve wiring sel).macroRegex = true := by
  cases sel with
  | mk d r => cases d <;> cases r <;> decide

/-- Turning default features off (and not asking for `regex`) turns the runtime crate's
`regex` cfg off: the `Regex` re-export and the six string / regex `Like` impls disappear. -/
theorem C16_runtime_delta : (resolve wiring ⟨false, false⟩).runtimeRegex = false ∧
    (resolve wiring ⟨true, false⟩).runtimeRegex = true := by decide

/-- The macro's own `cfg(not(feature = "regex"))` path (where `=~` is not recognised at all,
so user `Like` patterns would stop working) is dead: no selection reaches it. -/
theorem C16_dead_branch : ∀ sel ∈ allSelections, (resolve wiring sel).macroRegex = true := by decide

/-- Items of the runtime crate gated on its `regex` feature. -/
def gatedItems : List String :=
  ["__macro_support::Regex", "Like<&str> for String", "Like<String> for String", "Like<&str> for &str",
   "Like<String> for &str", "Like<Regex> for String", "Like<Regex> for &str"]

/-- What a template of the expansion needs from the runtime crate beyond the always-present items. -/
def templateNeeds : String → List String
  | "regex" => ["__macro_support::Regex", "Like<Regex> for String"]   -- `=~ "literal"`
  | _ => []                                                            -- every other template, incl. `=~ expr` with a user impl

/-- **A regex literal is rejected at compile time when the feature is off**: its template names
an item that is absent — it is not accepted with another meaning. -/
theorem C16_literal_rejected :
    (resolve wiring ⟨false, false⟩).runtimeRegex = false ∧
      ∃ item ∈ templateNeeds "regex", item ∈ gatedItems := by
  refine ⟨by decide, "__macro_support::Regex", by simp [templateNeeds], by simp [gatedItems]⟩

/-- Every other template needs no gated item, so it is compiled from the same tokens against the
same items in both configurations. -/
theorem C16_unaffected (t : String) (h : t ≠ "regex") : templateNeeds t = [] := by
  unfold templateNeeds
  split
  · exact absurd rfl h
  · rfl

end AsModel.Generated
