import AsModel.WiringResolve
import AsModel.Generated.Gating
import AsModel.RuntimeItems
/-!
# C16 — disabling the regex feature removes only regex matching

`wiring` is generated from the two manifests on every run.  `resolve` is cargo's additive
feature resolution for this two-crate graph.  A dependent crate selects
`(defaultFeatures, regex)` for `assert-struct`; which `cfg(feature = "regex")` the two
crates are then compiled with follows.
-/
namespace AsModel.Generated

def allSelections : List Selection := [⟨true, false⟩, ⟨true, true⟩, ⟨false, false⟩, ⟨false, true⟩]

theorem allSelections_complete (s : Selection) : s ∈ allSelections := by
  cases s with
  | mk d r => cases d <;> cases r <;> simp [allSelections]

/-- **The macro is the same function in every configuration a dependent can select**: its
`regex` cfg is on whatever the dependent chooses, so the parser and the code generator do not
change when default features are turned off. -/
theorem C16_macro_cfg_constant (sel : Selection) : (resolve wiring sel).macroRegex = true := by
  cases sel with
  | mk d r => cases d <;> cases r <;> decide

/-- Turning default features off (and not asking for `regex`) turns the runtime crate's
`regex` cfg off: the `Regex` re-export and the six string / regex `Like` impls disappear. -/
theorem C16_runtime_delta : (resolve wiring ⟨false, false⟩).runtimeRegex = false ∧
    (resolve wiring ⟨true, false⟩).runtimeRegex = true := by decide

/-- The macro's own `cfg(not(feature = "regex"))` path (where `=~` is not recognised at all,
so user `Like` patterns would stop working) is dead: no selection reaches it. -/
theorem C16_dead_branch : ∀ sel ∈ allSelections, (resolve wiring sel).macroRegex = true := by decide

/-! ### Which items exist in which configuration (`Generated/Gating.lean`: read from assert-struct/src/*.rs on every run) -/

/-- **Disabling the feature removes only regex matching**: the items of the runtime crate compiled
only with `regex` are the `Regex` re-export of the macro's support module and the module of the
six string / regex `Like` impls - nothing else in the crate is gated, and nothing is compiled only
*without* the feature (no item changes meaning). -/
theorem C16_gated_is_regex_matching_only :
    gatingRead = true ∧ withoutItems = [] ∧
    gatedItems = ["__macro_support::Regex", "like_impls", "impl Like<&str> for String", "impl Like<String> for String",
      "impl Like<&str> for &str", "impl Like<String> for &str", "impl Like<regex::Regex> for String",
      "impl Like<regex::Regex> for &str"] := by decide

open AsModel (baseItems templateItems templateNames)

/-- **Every template other than the regex literal's names only items that exist in every
configuration**: it is compiled from the same tokens against the same items with and without the
feature - in particular `=~ expr` with a user `Like` impl (the trait itself is not gated). -/
theorem C16_unaffected : ∀ t ∈ templateNames, t ≠ "regex" → ∀ i ∈ baseItems ++ templateItems t, i ∈ openItems := by
  decide

/-- **A regex literal is rejected at compile time when the feature is off**: its template names
`__macro_support::Regex`, which does not exist then - it is not accepted with another meaning. -/
theorem C16_literal_rejected :
    (resolve wiring ⟨false, false⟩).runtimeRegex = false ∧
      "__macro_support::Regex" ∈ templateItems "regex" ∧ "__macro_support::Regex" ∈ gatedItems ∧
      "__macro_support::Regex" ∉ openItems := by
  decide

/-- User `Like` patterns keep working: the `like` template needs the trait only, which is open. -/
theorem C16_user_like_survives : ∀ i ∈ templateItems "like", i ∈ openItems ∧ i ∉ gatedItems := by decide

end AsModel.Generated
