import AsModel.Expand
/-!
# C09 — the asserted value is only borrowed

`consumes` is the syntactic judgment "this template takes its value expression by
value in a position that moves a non-`Copy` operand": a by-value `match` with
bindings, a by-value function argument, `matches!` on the expression itself with a
binding pattern (the tuple template matched by value on the pinned tree; it matches on
a reference since the `fix:` commit).  It is evaluated on the asserted expression (`Core.root` with no
prefix), which is an owned place.
-/
namespace AsModel

/-- The value expression is the bare asserted expression (an owned place, not a borrow of it). -/
def VExpr.isBareRoot (v : VExpr) : Bool :=
  v.pre.isEmpty && (match v.core with | .root => true | _ => false)

mutual
/-- Does the generated code take the asserted expression by value somewhere? -/
def Code.consumesRoot : Code → Bool
  | .tuple _ _ body => body.consumesRoot      -- `match &V { (..) => .. }`: by reference
  | .closure _ v _ _ => v.isBareRoot          -- `check_closure_condition(V, c)`: V passed by value
  | .seq cs => cs.consumesRoot
  | .enumTuple _ _ _ _ body _ | .structNamed _ _ _ _ _ _ body _ | .slice _ _ body _ => body.consumesRoot
  | .mapGet _ _ _ body _ => body.consumesRoot
  | .set _ preds _ _ => preds.consumesRoot
  | _ => false
def Codes.consumesRoot : Codes → Bool
  | .nil => false
  | .cons c tl => c.consumesRoot || tl.consumesRoot
end

end AsModel

namespace AsModel

/-- A two-element tuple pattern at the root. -/
def exRootTuple : Pat :=
  .tuple 2 default (.cons none none (.simple 0 default) (.cons none none (.simple 1 default) .nil))

/-- On the pinned tree the property was false: a closure pattern at the root received the
asserted expression itself by value (and a tuple pattern matched it by value). -/
theorem C09_pinned_counterexample :
    (expandPat (VExpr.ofCore .root) (.closure 0 default)).consumesRoot = true := by
  simp [expandPat, Code.consumesRoot, VExpr.isBareRoot, VExpr.ofCore]

/-- A value expression that is not the bare asserted expression stays that way under field operations. -/
theorem applyOp_not_bare (v : VExpr) (op : FieldOp) (h : v.isBareRoot = false) :
    (applyOp v op).isBareRoot = false := by
  cases op <;> simp_all [applyOp, VExpr.isBareRoot]

theorem foldl_applyOp_not_bare (ops : List FieldOp) (v : VExpr) (h : v.isBareRoot = false) :
    (ops.foldl applyOp v).isBareRoot = false := by
  induction ops generalizing v with
  | nil => simpa using h
  | cons op ops ih => exact ih _ (applyOp_not_bare v op h)

theorem fieldValue_not_bare (v : VExpr) (ops : FieldOps) (h : v.isBareRoot = false) :
    (fieldValue v ops).isBareRoot = false := by
  unfold fieldValue
  split
  · exact foldl_applyOp_not_bare _ _ h
  · exact h

theorem wildBase_not_bare (v : VExpr) (rsp : Sp) (f : FieldName) :
    (VExpr.ofCore (wildBase v rsp f)).isBareRoot = false := by
  cases f <;> simp [wildBase, VExpr.ofCore, VExpr.isBareRoot]

mutual
/-- The expansion of any pattern on a value expression other than the bare asserted
expression never takes the asserted expression by value. -/
theorem expandPat_not_consumes (v : VExpr) (h : v.isBareRoot = false) :
    ∀ p : Pat, (expandPat v p).consumesRoot = false
  | .simple .. | .string .. | .cmp .. | .range .. | .regex .. | .like .. | .wild _ => by
    simp [expandPat, Code.consumesRoot]
  | .closure id e => by simp [expandPat, Code.consumesRoot, h]
  | .enum id path elems => by
    unfold expandPat
    split
    · simp [Code.consumesRoot]
    · simp [Code.consumesRoot, expandElems_not_consumes elems 0 Name.elem]
  | .tuple id sp elems => by
    simp [expandPat, Code.consumesRoot, expandElems_not_consumes elems 0 Name.tupleElem]
  | .slice id sp elems => by
    simp [expandPat, Code.consumesRoot, expandSliceElems_not_consumes elems 0]
  | .struct id (some path) fields rest => by
    simp [expandPat, Code.consumesRoot, expandFields_not_consumes fields]
  | .struct id none fields rest => by
    simp [expandPat, Code.consumesRoot, expandWildFields_not_consumes v fields]
  | .set id sp elems rest => by
    simp [expandPat, Code.consumesRoot, expandSetElems_not_consumes elems]
  | .map id sp entries rest => by
    have := expandEntries_not_consumes v id entries
    unfold expandPat
    simp only [Code.consumesRoot]
    split <;> simp_all [Codes.append, Codes.consumesRoot, Code.consumesRoot]

theorem expandElems_not_consumes : ∀ (items : Items) (i : Nat) (mk : Nat → Name),
    (expandElems items i mk).consumesRoot = false
  | .nil, _, _ => by simp [expandElems, Codes.consumesRoot]
  | .cons ops key p tl, i, mk => by
    unfold expandElems
    split
    · exact expandElems_not_consumes tl (i + 1) mk
    · simp only [Codes.consumesRoot, Bool.or_eq_false_iff]
      refine ⟨?_, expandElems_not_consumes tl (i + 1) mk⟩
      cases ops with
      | none => exact expandPat_not_consumes _ (by simp [VExpr.ofCore, VExpr.isBareRoot]) p
      | some o => exact expandPat_not_consumes _ (fieldValue_not_bare _ _ (by simp [VExpr.ofCore, VExpr.isBareRoot])) p

theorem expandSliceElems_not_consumes : ∀ (items : Items) (i : Nat),
    (expandSliceElems items i).consumesRoot = false
  | .nil, _ => by simp [expandSliceElems, Codes.consumesRoot]
  | .cons ops key p tl, i => by
    unfold expandSliceElems
    split
    · exact expandSliceElems_not_consumes tl (i + 1)
    · simp only [Codes.consumesRoot, Bool.or_eq_false_iff]
      exact ⟨expandPat_not_consumes _ (by simp [VExpr.ofCore, VExpr.isBareRoot]) p,
        expandSliceElems_not_consumes tl (i + 1)⟩

theorem expandSetElems_not_consumes : ∀ (items : Items), (expandSetElems items).consumesRoot = false
  | .nil => by simp [expandSetElems, Codes.consumesRoot]
  | .cons ops key p tl => by
    simp only [expandSetElems, Codes.consumesRoot, Bool.or_eq_false_iff]
    exact ⟨expandPat_not_consumes _ (by simp [VExpr.ofCore, VExpr.isBareRoot]) p,
      expandSetElems_not_consumes tl⟩

theorem expandFields_not_consumes : ∀ (items : Items), (expandFields items).consumesRoot = false
  | .nil => by simp [expandFields, Codes.consumesRoot]
  | .cons ops key p tl => by
    simp only [expandFields, Codes.consumesRoot, Bool.or_eq_false_iff]
    refine ⟨?_, expandFields_not_consumes tl⟩
    cases ops with
    | none => simp [Code.consumesRoot]
    | some o =>
      simp only
      split
      · exact expandPat_not_consumes _ (fieldValue_not_bare _ _ (by simp [VExpr.ofCore, VExpr.isBareRoot])) p
      · simp [Code.consumesRoot]

theorem expandWildFields_not_consumes (v : VExpr) : ∀ (items : Items),
    (expandWildFields v items).consumesRoot = false
  | .nil => by simp [expandWildFields, Codes.consumesRoot]
  | .cons ops key p tl => by
    simp only [expandWildFields, Codes.consumesRoot, Bool.or_eq_false_iff]
    refine ⟨?_, expandWildFields_not_consumes v tl⟩
    cases ops with
    | none => simp [Code.consumesRoot]
    | some o =>
      simp only
      split
      · split
        · exact expandPat_not_consumes _ (foldl_applyOp_not_bare _ _ (wildBase_not_bare v _ _)) p
        · exact expandPat_not_consumes _ (by simp [VExpr.isBareRoot]) p
      · simp [Code.consumesRoot]

theorem expandEntries_not_consumes (v : VExpr) (node : Nat) : ∀ (items : Items),
    (expandEntries v node items).consumesRoot = false
  | .nil => by simp [expandEntries, Codes.consumesRoot]
  | .cons ops key p tl => by
    simp only [expandEntries, Codes.consumesRoot, Bool.or_eq_false_iff]
    refine ⟨?_, expandEntries_not_consumes v node tl⟩
    cases key with
    | none => simp [Code.consumesRoot]
    | some k =>
      simp only [Code.consumesRoot]
      exact expandPat_not_consumes _ (by simp [VExpr.ofCore, VExpr.isBareRoot]) p
end

/-- **C09.** For every pattern, the expansion never takes the asserted expression by value:
the only place its tokens appear is `let __assert_struct_value = &(expr);`. -/
theorem C09_borrow_only (p : Pat) : (expand p).body.consumesRoot = false :=
  expandPat_not_consumes rootVExpr (by simp [rootVExpr, VExpr.ofCore, VExpr.isBareRoot]) p

/-- Non-vacuity: the root tuple pattern that used to move the value. -/
example : (expand exRootTuple).body.consumesRoot = false := C09_borrow_only _

end AsModel
