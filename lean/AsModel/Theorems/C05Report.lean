import AsModel.Theorems.C06Report
/-!
# C03 / C05 on the report as displayed — every annotation pairs an entry's own span with its own label

`Theorems/C05.lean` and `C03.lean` speak about the entries the expansion pushes.  What the
user reads is what `Display for ErrorReport` hands to the renderer.  These theorems say that
`Display` neither re-pairs nor re-orders: the annotations are, in push order, one per entry,
each made of the byte span of *that* entry's node and the label computed from *that* entry's
kind, actual text and expected text - for every source text and every sequence of pushes.
A `Display` that sorts the entries but not the labels (or the other way round), de-duplicates
one of the two lists, or keys labels by position satisfies none of them.
-/
namespace AsModel.Runtime

/-- The annotation `Display` makes of one entry. -/
def ErrCtx.annotation (src : List Char) (e : ErrCtx) : Annotation :=
  let sp := annotationSpan src e.node.ls e.node.cs e.node.le e.node.ce
  ⟨sp.1, sp.2, errorLabel e.node.kind e.actual e.expected⟩

/-- **C03 / C05 on the displayed report**: for every report built by `ErrorReport::new` and
any sequence of pushes, over every source text, the annotations handed to the renderer are
exactly the pushed entries' own annotations, in push order. -/
theorem C05_annotations_are_entries_own (m f : String) (es : List ErrCtx) (src : List Char) :
    ((es.foldl (fun r e => r.push e.node e.actual e.expected) (Report.new m f)).annotations src)
      = es.map (ErrCtx.annotation src) := by
  simp [Report.annotations, pushes_errors, Report.new, ErrCtx.annotation, ErrCtx.label]

/-- Each annotation carries the label of the entry whose node gave it its span. -/
theorem C05_annotation_label_is_own_entrys (r : Report) (src : List Char) :
    ∀ a ∈ r.annotations src, ∃ e ∈ r.errors,
      (a.start, a.stop) = annotationSpan src e.node.ls e.node.cs e.node.le e.node.ce ∧
      a.label = errorLabel e.node.kind e.actual e.expected := by
  intro a ha
  simp only [Report.annotations, List.mem_map] at ha
  obtain ⟨e, he, rfl⟩ := ha
  exact ⟨e, he, rfl, rfl⟩

/-- The `i`-th annotation belongs to the `i`-th pushed entry (no re-pairing by position). -/
theorem C05_annotation_index (r : Report) (src : List Char) (i : Nat) (h : i < r.errors.length) :
    (r.annotations src)[i]? = some (ErrCtx.annotation src r.errors[i]) := by
  simp [Report.annotations, ErrCtx.annotation, ErrCtx.label, h]

/-- The fallback listing (source unreadable) pairs every entry's line with its own label too. -/
theorem C05_listing_pairs_own (m f : String) (es : List ErrCtx) (g n t : Bool) (h : es ≠ []) :
    (es.foldl (fun r e => r.push e.node e.actual e.expected) (Report.new m f)).display none g n t
      = .listing (fallbackDisplay f (es.map fun e => (e.node.ls, errorLabel e.node.kind e.actual e.expected))) := by
  have he : (es.foldl (fun r e => r.push e.node e.actual e.expected) (Report.new m f)).errors = es := by
    simp [pushes_errors, Report.new]
  have hp : (es.foldl (fun r e => r.push e.node e.actual e.expected) (Report.new m f)).relPath = f := by
    simp [pushes_relPath, Report.new]
  unfold Report.display
  rw [he, hp]
  have : es.isEmpty = false := by cases es <;> simp_all
  simp [this, ErrCtx.label]

/-- Non-vacuity: two entries with different labels on different lines - swapping the labels
gives a different list of annotations. -/
example :
    let n1 : PNode := ⟨.simple "1", 1, 0, 1, 1⟩
    let n2 : PNode := ⟨.simple "2", 2, 0, 2, 1⟩
    let src := "ab\ncd\n".toList
    [ErrCtx.annotation src ⟨n1, "x", none⟩, ErrCtx.annotation src ⟨n2, "y", none⟩] ≠
      [ErrCtx.annotation src ⟨n1, "y", none⟩, ErrCtx.annotation src ⟨n2, "x", none⟩] := by
  decide

end AsModel.Runtime
