import AsModel.Theorems.C13Parse
/-!
# C12, parser side: a wildcard struct pattern without `..` is never accepted

`Pat.parserShaped` (the postcondition the parser's program logic establishes for every
accepted pattern, `C13_accepted_is_shaped`) says of every struct pattern in the tree that it
has a path or ends in `..`.  So `_ { a: 1 }` - which the expansion would have to treat as a
partial match, there being no type to check exhaustiveness against - is rejected, at every
depth, for every token stream and every answer of `syn`'s parsers.
-/
namespace AsModel

mutual
/-- Every wildcard struct pattern in the tree ends in `..`. -/
def Pat.wildStructsOpen : Pat → Bool
  | .struct _ path items rest => (path.isSome || rest) && items.wildStructsOpen
  | .enum _ _ items | .tuple _ _ items | .slice _ _ items | .set _ _ items _ | .map _ _ items _ =>
    items.wildStructsOpen
  | _ => true
def Items.wildStructsOpen : Items → Bool
  | .nil => true
  | .cons _ _ p tl => p.wildStructsOpen && tl.wildStructsOpen
end

mutual
theorem wildOpen_of_shaped : ∀ p : Pat, p.parserShaped = true → p.wildStructsOpen = true
  | .struct _ path items rest, h => by
    simp only [Pat.parserShaped, Bool.and_eq_true] at h
    simp only [Pat.wildStructsOpen, Bool.and_eq_true]
    exact ⟨h.1, itemsWildOpen_of_shaped items h.2⟩
  | .enum _ _ items, h | .tuple _ _ items, h | .slice _ _ items, h | .set _ _ items _, h
  | .map _ _ items _, h => by
    simp only [Pat.parserShaped] at h
    simp only [Pat.wildStructsOpen]
    exact itemsWildOpen_of_shaped items h
  | .simple .., _ | .string .., _ | .cmp .., _ | .range .., _ | .regex .., _ | .like .., _
  | .wild _, _ | .closure .., _ => rfl
theorem itemsWildOpen_of_shaped : ∀ items : Items, items.parserShaped = true → items.wildStructsOpen = true
  | .nil, _ => rfl
  | .cons _ _ p tl, h => by
    simp only [Items.parserShaped, Bool.and_eq_true] at h
    simp only [Items.wildStructsOpen, Bool.and_eq_true]
    exact ⟨wildOpen_of_shaped p h.1.2, itemsWildOpen_of_shaped tl h.2⟩
end

/-- **C12: a wildcard struct pattern without `..` is rejected, never treated as a partial match** -
at the root and at every depth of every accepted invocation, for every token stream, every
answer of `syn`'s own parsers, every recursion budget and every earlier state of the node counter. -/
theorem C12_wildcard_needs_rest (o : Oracle) (ts : List TT) (fuel prev : Nat) (v : UExpr) (p : Pat) (n : Nat)
    (h : parseAssert o ts fuel prev = .accept v p n) : p.wildStructsOpen = true :=
  wildOpen_of_shaped p (C13_accepted_is_shaped o ts fuel prev v p n h)

/-- The root case spelled out. -/
theorem C12_root_wildcard_needs_rest (o : Oracle) (ts : List TT) (fuel prev : Nat) (v : UExpr) (id : Nat)
    (fields : Items) (rest : Bool) (n : Nat)
    (h : parseAssert o ts fuel prev = .accept v (.struct id none fields rest) n) : rest = true := by
  have := C12_wildcard_needs_rest o ts fuel prev v _ n h
  simp only [Pat.wildStructsOpen, Bool.and_eq_true] at this
  simpa using this.1

-- the predicate can fail: `_ { }` without `..`, also nested in `Some(..)`-like positions
example : (Pat.struct 0 none .nil false).wildStructsOpen = false := by decide
example : (Pat.tuple 0 default (.cons none none (.struct 1 none .nil false) .nil)).wildStructsOpen = false := by decide
example : (Pat.struct 0 none .nil true).wildStructsOpen = true := by decide

end AsModel
