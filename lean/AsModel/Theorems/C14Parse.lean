import AsModel.Proofs.ParseIds
/-!
# C14 — the parser hands out distinct node ids, whatever speculative parsing consumed

`C14_ids_nodup` needs the ids of the pattern's nodes to be distinct.  Here that is proved of
the parser model: the ids stored in whatever a parser returns are pairwise distinct and lie
between the counter's value when it started and its value when it finished, while forks and
failing alternatives only ever move the counter forward.  The statement is for every token
stream, every behaviour of `syn`'s own parsers and every start value of the counter.
-/
namespace AsModel

def idsIn (l : List Nat) (n k : Nat) : Prop := l.Nodup ∧ ∀ i ∈ l, n ≤ i ∧ i < k
def patQ (n : Nat) (p : Pat) (k : Nat) : Prop := idsIn p.allIds n k
def itemsQ (n : Nat) (it : Items) (k : Nat) : Prop := ∀ skip, idsIn (it.allIds skip) n k
def itemsBQ (n : Nat) (r : Items × Bool) (k : Nat) : Prop := itemsQ n r.1 k

theorem idsIn_nil (n k : Nat) : idsIn [] n k := ⟨List.nodup_nil, by intro i hi; cases hi⟩

theorem idsIn_single (i n k : Nat) (h1 : n ≤ i) (h2 : i < k) : idsIn [i] n k :=
  ⟨by simp, by intro j hj; simp at hj; subst hj; exact ⟨h1, h2⟩⟩

theorem idsIn_mono {l : List Nat} {n k n' k' : Nat} (h : idsIn l n k) (h1 : n' ≤ n) (h2 : k ≤ k') : idsIn l n' k' :=
  ⟨h.1, fun i hi => by have := h.2 i hi; omega⟩

theorem idsIn_append {l1 l2 : List Nat} {n k m : Nat} (h1 : idsIn l1 n k) (h2 : idsIn l2 k m)
    (hnk : n ≤ k) (hkm : k ≤ m) : idsIn (l1 ++ l2) n m := by
  refine ⟨?_, ?_⟩
  · rw [List.nodup_append]
    refine ⟨h1.1, h2.1, ?_⟩
    intro a ha b hb
    have := h1.2 a ha; have := h2.2 b hb; omega
  · intro i hi
    rcases List.mem_append.mp hi with h | h
    · have := h1.2 i h; omega
    · have := h2.2 i h; omega

theorem itemsQ_nil (n k : Nat) : itemsQ n .nil k := by
  intro skip; simp only [Items.allIds]; exact idsIn_nil n k

theorem itemsQ_cons {ops : Option FieldOps} {key : Option UExpr} {p : Pat} {tl : Items} {n k m : Nat}
    (hp : patQ n p k) (ht : itemsQ k tl m) (hnk : n ≤ k) (hkm : k ≤ m) : itemsQ n (.cons ops key p tl) m := by
  intro skip
  simp only [Items.allIds]
  refine idsIn_append (k := k) ?_ (ht skip) hnk hkm
  split
  · exact idsIn_nil n k
  · exact hp

/-- A composite whose own id is handed out after its children's. -/
theorem idsIn_snoc {l : List Nat} {n k : Nat} (h : idsIn l n k) (hnk : n ≤ k) : idsIn (l ++ [k]) n (k + 1) :=
  idsIn_append h (idsIn_single k k (k + 1) (Nat.le_refl _) (Nat.lt_succ_self _)) hnk (Nat.le_succ _)

/-- A struct pattern takes its own id before its fields'. -/
theorem idsIn_struct {l : List Nat} {n k : Nat} (h : idsIn l (n + 1) k) (hnk : n + 1 ≤ k) : idsIn (l ++ [n]) n k := by
  refine ⟨?_, ?_⟩
  · rw [List.nodup_append]
    refine ⟨h.1, by simp, ?_⟩
    intro a ha b hb
    simp at hb; subst hb
    have := h.2 a ha; omega
  · intro i hi
    rcases List.mem_append.mp hi with h' | h'
    · have := h.2 i h'; omega
    · simp at h'; subst h'; omega

/-- All the parsers of the mutual block, at one fuel level, from every counter value. -/
structure AllIds (o : Oracle) (fuel : Nat) : Prop where
  pattern : ∀ n, (parsePattern o fuel).cnt n (patQ n)
  struct_ : ∀ n, (parseStruct o fuel).cnt n (patQ n)
  fields : ∀ n, (parseFields o fuel).cnt n (itemsBQ n)
  elems : ∀ n pos, (parseElems o fuel pos).cnt n (itemsQ n)
  list : ∀ n, (parseList o fuel).cnt n (itemsQ n)
  set : ∀ n, (parseSet o fuel).cnt n (patQ n)
  setElems : ∀ n, (parseSetElems o fuel).cnt n (itemsBQ n)
  map : ∀ n, (parseMap o fuel).cnt n (patQ n)
  entries : ∀ n, (parseEntries o fuel).cnt n (itemsBQ n)

theorem allIds_zero (o : Oracle) : AllIds o 0 := by
  constructor
  · intro n; unfold parsePattern; exact cnt_outOfFuel _ _
  · intro n; unfold parseStruct; exact cnt_outOfFuel _ _
  · intro n; unfold parseFields; exact cnt_outOfFuel _ _
  · intro n pos; unfold parseElems; exact cnt_outOfFuel _ _
  · intro n; unfold parseList; exact cnt_outOfFuel _ _
  · intro n; unfold parseSet; exact cnt_outOfFuel _ _
  · intro n; unfold parseSetElems; exact cnt_outOfFuel _ _
  · intro n; unfold parseMap; exact cnt_outOfFuel _ _
  · intro n; unfold parseEntries; exact cnt_outOfFuel _ _

/-- A leaf that takes the next id. -/
theorem leaf_next (n : Nat) (mk : Nat → Pat) (h : ∀ id, (mk id).allIds = [id]) :
    (nextId >>= fun id => pure (mk id) : P Pat).cnt n (patQ n) := by
  refine cnt_bind _ _ n _ _ (cnt_nextId n) ?_
  intro id k hk ⟨h1, h2⟩
  subst h1 h2
  apply cnt_pure
  unfold patQ; rw [h]; exact idsIn_single _ _ _ (Nat.le_refl _) (Nat.lt_succ_self _)

theorem ids_parseStringLit (n : Nat) : parseStringLit.cnt n (patQ n) := by
  refine ⟨?_, ?_⟩
  · intro c s a c' s' hs he
    unfold parseStringLit at he
    split at he
    · cases he
      refine ⟨by simp only; omega, ?_⟩
      unfold patQ; simp only [Pat.allIds, Pat.id]
      exact idsIn_single _ _ _ (by omega) (by omega)
    · cases he
  · intro c s m hs he
    unfold parseStringLit at he
    split at he
    · cases he
    · cases he; omega

theorem ids_parseComparison (o : Oracle) (n : Nat) : (parseComparison o).cnt n (patQ n) := by
  unfold parseComparison
  apply cnt_bind_same _ _ _ _ ctrOnly_parseCmpOp; intro ⟨op, sp⟩
  apply cnt_bind_same _ _ _ _ (ctrOnly_oracleExpr o); intro e
  exact leaf_next n (fun id => .cmp id op sp e) (fun id => rfl)

theorem ids_list_step (o : Oracle) (fuel : Nat) (ih : AllIds o fuel) (n : Nat) :
    (parseList o (fuel + 1)).cnt n (itemsQ n) := by
  unfold parseList
  apply cnt_bind_same _ _ _ _ ctrOnly_getCur; intro c
  apply cnt_ite
  · apply cnt_pure; exact itemsQ_nil _ _
  · refine cnt_bind _ _ n _ _ (ih.pattern n) ?_
    intro p k hnk hp
    apply cnt_bind_same _ _ _ _ ctrOnly_getCur; intro c1
    apply cnt_ite
    · apply cnt_pure; exact itemsQ_cons hp (itemsQ_nil _ _) hnk (Nat.le_refl _)
    · apply cnt_bind_same _ _ _ _ (ctrOnly_of_stateless (stateless_punct1 _)); intro _
      refine cnt_bind _ _ k _ _ (ih.list k) ?_
      intro tl m hkm ht
      apply cnt_pure; exact itemsQ_cons hp ht hnk hkm

theorem ids_fields_step (o : Oracle) (fuel : Nat) (ih : AllIds o fuel) (n : Nat) :
    (parseFields o (fuel + 1)).cnt n (itemsBQ n) := by
  unfold parseFields
  apply cnt_bind_same _ _ _ _ ctrOnly_getCur; intro c
  apply cnt_ite
  · apply cnt_pure; exact itemsQ_nil _ _
  · apply cnt_ite
    · apply cnt_bind_same _ _ _ _ (ctrOnly_of_stateless (stateless_punct2 _ _)); intro _
      apply cnt_pure; exact itemsQ_nil _ _
    · apply cnt_bind_same _ _ _ _ (ctrOnly_parseFieldOps o fuel); intro ops
      apply cnt_bind_same _ _ _ _ (ctrOnly_of_stateless (stateless_punct1 _)); intro _
      refine cnt_bind _ _ n _ _ (ih.pattern n) ?_
      intro p k hnk hp
      apply cnt_bind_same _ _ _ _ ctrOnly_getCur; intro c1
      apply cnt_ite
      · apply cnt_pure; exact itemsQ_cons hp (itemsQ_nil _ _) hnk (Nat.le_refl _)
      · apply cnt_bind_same _ _ _ _ (ctrOnly_of_stateless (stateless_punct1 _)); intro _
        apply cnt_bind_same _ _ _ _ ctrOnly_getCur; intro c2
        apply cnt_ite
        · apply cnt_bind_same _ _ _ _ (ctrOnly_of_stateless (stateless_punct2 _ _)); intro _
          apply cnt_pure; exact itemsQ_cons hp (itemsQ_nil _ _) hnk (Nat.le_refl _)
        · refine cnt_bind _ _ k _ _ (ih.fields k) ?_
          intro ⟨tl, rest⟩ m hkm ht
          apply cnt_pure; exact itemsQ_cons hp ht hnk hkm

theorem ids_setElems_step (o : Oracle) (fuel : Nat) (ih : AllIds o fuel) (n : Nat) :
    (parseSetElems o (fuel + 1)).cnt n (itemsBQ n) := by
  unfold parseSetElems
  apply cnt_bind_same _ _ _ _ ctrOnly_getCur; intro c
  apply cnt_ite
  · apply cnt_pure; exact itemsQ_nil _ _
  · apply cnt_ite
    · apply cnt_bind_same _ _ _ _ (ctrOnly_of_stateless (stateless_punct2 _ _)); intro _
      apply cnt_bind_same _ _ _ _ ctrOnly_getCur; intro c1
      apply cnt_ite
      · apply cnt_bind_same _ _ _ _ (ctrOnly_of_stateless (stateless_punct1 _)); intro _
        apply cnt_pure; exact itemsQ_nil _ _
      · apply cnt_pure; exact itemsQ_nil _ _
    · refine cnt_bind _ _ n _ _ (ih.pattern n) ?_
      intro p k hnk hp
      apply cnt_bind_same _ _ _ _ ctrOnly_getCur; intro c1
      apply cnt_ite
      · apply cnt_pure; exact itemsQ_cons hp (itemsQ_nil _ _) hnk (Nat.le_refl _)
      · apply cnt_bind_same _ _ _ _ (ctrOnly_of_stateless (stateless_punct1 _)); intro _
        apply cnt_bind_same _ _ _ _ ctrOnly_getCur; intro c2
        apply cnt_ite
        · apply cnt_bind_same _ _ _ _ (ctrOnly_of_stateless (stateless_punct2 _ _)); intro _
          apply cnt_pure; exact itemsQ_cons hp (itemsQ_nil _ _) hnk (Nat.le_refl _)
        · refine cnt_bind _ _ k _ _ (ih.setElems k) ?_
          intro ⟨tl, rest⟩ m hkm ht
          apply cnt_pure; exact itemsQ_cons hp ht hnk hkm

theorem ids_entries_step (o : Oracle) (fuel : Nat) (ih : AllIds o fuel) (n : Nat) :
    (parseEntries o (fuel + 1)).cnt n (itemsBQ n) := by
  unfold parseEntries
  apply cnt_bind_same _ _ _ _ ctrOnly_getCur; intro c
  apply cnt_ite
  · apply cnt_pure; exact itemsQ_nil _ _
  · apply cnt_ite
    · apply cnt_bind_same _ _ _ _ (ctrOnly_of_stateless (stateless_punct2 _ _)); intro _
      apply cnt_pure; exact itemsQ_nil _ _
    · apply cnt_bind_same _ _ _ _ (ctrOnly_oracleExpr o); intro key
      apply cnt_bind_same _ _ _ _ (ctrOnly_of_stateless (stateless_punct1 _)); intro _
      refine cnt_bind _ _ n _ _ (ih.pattern n) ?_
      intro p k hnk hp
      apply cnt_bind_same _ _ _ _ ctrOnly_getCur; intro c1
      apply cnt_ite
      · apply cnt_pure; exact itemsQ_cons hp (itemsQ_nil _ _) hnk (Nat.le_refl _)
      · apply cnt_bind_same _ _ _ _ (ctrOnly_of_stateless (stateless_punct1 _)); intro _
        apply cnt_bind_same _ _ _ _ ctrOnly_getCur; intro c2
        apply cnt_ite
        · apply cnt_bind_same _ _ _ _ (ctrOnly_of_stateless (stateless_punct2 _ _)); intro _
          apply cnt_pure; exact itemsQ_cons hp (itemsQ_nil _ _) hnk (Nat.le_refl _)
        · refine cnt_bind _ _ k _ _ (ih.entries k) ?_
          intro ⟨tl, rest⟩ m hkm ht
          apply cnt_pure; exact itemsQ_cons hp ht hnk hkm

/-- One tuple element: whatever the speculative parse consumed, the element's ids lie between
the counter before the fork and the counter afterwards. -/
theorem ids_elemHead (pp : P Pat) (pfo : P FieldOps) (pos n : Nat) (hpp : ∀ k, pp.cnt k (patQ k))
    (hpfo : pfo.ctrOnly) : (elemHead pp pfo pos).cnt n (fun r m => ∃ k, n ≤ k ∧ k ≤ m ∧ patQ k r.2 m) := by
  unfold elemHead
  refine cnt_bind _ _ n _ _ (cnt_fork pp n _ (hpp n)) ?_
  intro spec k hnk _
  apply cnt_ite
  · refine cnt_bind _ _ k _ _ (hpp k) ?_
    intro p m hkm hp
    apply cnt_pure; exact ⟨k, hnk, hkm, hp⟩
  · apply cnt_bind_same _ _ _ _ hpfo; intro ops
    split
    · apply cnt_ite
      · apply cnt_bind_same _ _ _ _ (ctrOnly_of_stateless (stateless_punct1 _)); intro _
        refine cnt_bind _ _ k _ _ (hpp k) ?_
        intro p m hkm hp
        apply cnt_pure; exact ⟨k, hnk, hkm, hp⟩
      · exact cnt_fail _ _
    · exact cnt_fail _ _

theorem patQ_mono {n n' : Nat} {p : Pat} {k : Nat} (h : patQ n p k) (h1 : n' ≤ n) : patQ n' p k :=
  idsIn_mono h h1 (Nat.le_refl _)

theorem ids_elems_step (o : Oracle) (fuel : Nat) (ih : AllIds o fuel) (n pos : Nat) :
    (parseElems o (fuel + 1) pos).cnt n (itemsQ n) := by
  unfold parseElems
  apply cnt_bind_same _ _ _ _ ctrOnly_getCur; intro c
  apply cnt_ite
  · apply cnt_pure; exact itemsQ_nil _ _
  · refine cnt_bind _ _ n _ _ (ids_elemHead _ _ pos n ih.pattern (ctrOnly_parseFieldOps o fuel)) ?_
    intro ⟨ops, p⟩ m hnm ⟨k, hnk, hkm, hp⟩
    have hp' : patQ n p m := patQ_mono hp hnk
    apply cnt_bind_same _ _ _ _ ctrOnly_getCur; intro c1
    apply cnt_ite
    · apply cnt_pure; exact itemsQ_cons hp' (itemsQ_nil _ _) hnm (Nat.le_refl _)
    · apply cnt_bind_same _ _ _ _ (ctrOnly_of_stateless (stateless_punct1 _)); intro _
      refine cnt_bind _ _ m _ _ (ih.elems m (pos + 1)) ?_
      intro tl m' hmm ht
      apply cnt_pure; exact itemsQ_cons hp' ht hnm hmm

theorem ids_struct_step (o : Oracle) (fuel : Nat) (ih : AllIds o fuel) (n : Nat) :
    (parseStruct o (fuel + 1)).cnt n (patQ n) := by
  unfold parseStruct
  refine cnt_bind _ _ n _ _ (cnt_nextId n) ?_
  intro id k hnk ⟨h1, h2⟩
  subst h1 h2
  apply cnt_bind_same _ _ _ _ (ctrOnly_structPath o); intro path
  refine cnt_bind _ _ (id + 1) _ _ (cnt_withGroup _ _ _ _ (fun _ _ => ih.fields (id + 1))) ?_
  intro ⟨fields, rest⟩ m hm hf
  apply cnt_ite
  · exact cnt_fail _ _
  · apply cnt_pure
    unfold patQ; simp only [Pat.allIds]
    exact idsIn_struct (hf false) hm

theorem ids_set_step (o : Oracle) (fuel : Nat) (ih : AllIds o fuel) (n : Nat) :
    (parseSet o (fuel + 1)).cnt n (patQ n) := by
  unfold parseSet
  apply cnt_bind_same _ _ _ _ (ctrOnly_of_stateless (stateless_punct1 _)); intro hashSp
  refine cnt_bind _ _ n (fun (r : Items × Bool × Sp) k => itemsQ n r.1 k) _ ?_ ?_
  · apply cnt_withGroup; intro _ sc
    refine cnt_bind _ _ n _ _ (ih.setElems n) ?_
    intro ⟨e, r⟩ k hnk he
    apply cnt_pure; exact he
  · intro ⟨elems, rest, closeSp⟩ k hnk he
    refine cnt_bind _ _ k _ _ (cnt_nextId k) ?_
    intro id m _ ⟨h1, h2⟩
    subst h1 h2
    apply cnt_pure
    unfold patQ; simp only [Pat.allIds]
    exact idsIn_snoc (he false) hnk

theorem ids_map_step (o : Oracle) (fuel : Nat) (ih : AllIds o fuel) (n : Nat) :
    (parseMap o (fuel + 1)).cnt n (patQ n) := by
  unfold parseMap
  apply cnt_bind_same _ _ _ _ (ctrOnly_of_stateless (stateless_punct1 _)); intro _
  apply cnt_bind_same _ _ _ _ ctrOnly_getCur; intro c
  refine cnt_bind _ _ n _ _ (cnt_withGroup _ _ _ _ (fun _ _ => ih.entries n)) ?_
  intro ⟨entries, rest⟩ k hnk he
  refine cnt_bind _ _ k _ _ (cnt_nextId k) ?_
  intro id m _ ⟨h1, h2⟩
  subst h1 h2
  apply cnt_pure
  unfold patQ; simp only [Pat.allIds]
  exact idsIn_snoc (he false) hnk

theorem ids_enumArgs (pe : P Items) (n : Nat) (h : pe.cnt n (itemsQ n)) : (enumArgs pe).cnt n (itemsQ n) := by
  unfold enumArgs
  apply cnt_bind_same _ _ _ _ ctrOnly_getCur; intro c
  apply cnt_ite
  · exact cnt_withGroup _ _ _ _ (fun _ _ => h)
  · apply cnt_pure; exact itemsQ_nil _ _

theorem ids_pattern_step (o : Oracle) (fuel : Nat) (ih : AllIds o fuel) (n : Nat) :
    (parsePattern o (fuel + 1)).cnt n (patQ n) := by
  unfold parsePattern
  apply cnt_bind_same _ _ _ _ ctrOnly_getCur; intro c
  dsimp only
  apply cnt_ite
  · -- closure
    refine ⟨?_, ?_⟩
    · intro c0 s0 a c' s' hs he
      split at he
      · split at he
        · cases he
          refine ⟨by simp only; omega, ?_⟩
          unfold patQ; simp only [Pat.allIds, Pat.id]
          exact idsIn_single _ _ _ (by omega) (by omega)
        · cases he
      · cases he
    · intro c0 s0 m hs he
      split at he
      · split at he
        · cases he
        · cases he; omega
      · cases he; omega
  apply cnt_ite
  · apply cnt_ite
    · exact ih.struct_ n
    · apply cnt_bind_same _ _ _ _ (ctrOnly_advance _); intro _
      exact leaf_next n (fun id => .wild id) (fun id => rfl)
  apply cnt_ite
  · exact ids_parseComparison o n
  apply cnt_ite
  · apply cnt_ite
    · exact ids_parseComparison o n
    · apply cnt_ite
      · apply cnt_bind_same _ _ _ _ (ctrOnly_of_stateless (stateless_punct1 _)); intro _
        apply cnt_bind_same _ _ _ _ (ctrOnly_of_stateless (stateless_punct1 _)); intro _
        apply cnt_bind_same _ _ _ _ (ctrOnly_oracleExpr o); intro e
        refine cnt_bind _ _ n _ _ (cnt_nextId n) ?_
        intro id k hk ⟨h1, h2⟩
        subst h1 h2
        split
        · apply cnt_pure; unfold patQ; simp only [Pat.allIds, Pat.id]
          exact idsIn_single _ _ _ (Nat.le_refl _) (Nat.lt_succ_self _)
        · apply cnt_pure; unfold patQ; simp only [Pat.allIds, Pat.id]
          exact idsIn_single _ _ _ (Nat.le_refl _) (Nat.lt_succ_self _)
      · exact cnt_fail _ _
  apply cnt_ite
  · exact ih.set n
  apply cnt_ite
  · exact ih.map n
  apply cnt_ite
  · refine cnt_bind _ _ n _ _ (cnt_withGroup _ _ _ _ (fun _ _ => ih.list n)) ?_
    intro elems k hnk he
    refine cnt_bind _ _ k _ _ (cnt_nextId k) ?_
    intro id m _ ⟨h1, h2⟩
    subst h1 h2
    apply cnt_pure
    unfold patQ; simp only [Pat.allIds]
    exact idsIn_snoc (he true) hnk
  apply cnt_ite
  · refine cnt_bind _ _ n _ _ (cnt_withGroup _ _ _ _ (fun _ _ => ih.elems n 0)) ?_
    intro elems k hnk he
    refine cnt_bind _ _ k _ _ (cnt_nextId k) ?_
    intro id m _ ⟨h1, h2⟩
    subst h1 h2
    apply cnt_pure
    unfold patQ; simp only [Pat.allIds]
    exact idsIn_snoc (he false) hnk
  split
  · apply cnt_ite
    · exact ih.struct_ n
    · apply cnt_bind_same _ _ _ _ (ctrOnly_oraclePath o); intro path
      refine cnt_bind _ _ n _ _ (ids_enumArgs _ n (ih.elems n 0)) ?_
      intro elems k hnk he
      refine cnt_bind _ _ k _ _ (cnt_nextId k) ?_
      intro id m _ ⟨h1, h2⟩
      subst h1 h2
      apply cnt_pure
      unfold patQ; simp only [Pat.allIds]
      exact idsIn_snoc (he false) hnk
  · split
    · apply cnt_ite
      · -- a range pattern: the speculative `PatternRange` parse took an id of its own
        refine cnt_bind _ _ n _ _ (cnt_nextId n) ?_
        intro _ k _ ⟨_, h2⟩
        subst h2
        apply cnt_bind_same _ _ _ _ (ctrOnly_oracleExpr o); intro e
        refine cnt_bind _ _ (n + 1) _ _ (cnt_nextId (n + 1)) ?_
        intro id m _ ⟨h1, h2⟩
        subst h1 h2
        apply cnt_pure
        unfold patQ; simp only [Pat.allIds, Pat.id]
        exact idsIn_single _ _ _ (by omega) (by omega)
      · apply cnt_ite
        · exact ids_parseStringLit n
        · apply cnt_bind_same _ _ _ _ (ctrOnly_oracleExpr o); intro e
          exact leaf_next n (fun id => .simple id e) (fun id => rfl)
    · apply cnt_ite
      · exact ids_parseStringLit n
      · exact cnt_fail _ _

theorem allIds (o : Oracle) : ∀ fuel, AllIds o fuel
  | 0 => allIds_zero o
  | fuel + 1 =>
    have ih := allIds o fuel
    { pattern := ids_pattern_step o fuel ih
      struct_ := ids_struct_step o fuel ih
      fields := ids_fields_step o fuel ih
      elems := ids_elems_step o fuel ih
      list := ids_list_step o fuel ih
      set := ids_set_step o fuel ih
      setElems := ids_setElems_step o fuel ih
      map := ids_map_step o fuel ih
      entries := ids_entries_step o fuel ih }

/-- **The parser gives the nodes of an accepted pattern pairwise distinct ids**, all below the
final counter value — for every token stream, every answer of `syn`'s parsers, and whatever the
counter was when the invocation started (it is reset first). -/
theorem C14_parser_ids (o : Oracle) (ts : List TT) (fuel prev : Nat) (v : UExpr) (p : Pat) (n : Nat)
    (h : parseAssert o ts fuel prev = .accept v p n) : p.allIds.Nodup ∧ ∀ i ∈ p.allIds, i < n := by
  unfold parseAssert at h
  simp only at h
  split at h
  · rename_i v' pat c' s heq
    split at h
    · cases h
    · cases h
      have hcnt : (do
          let value ← oracleExpr o
          let _ ← punct1 ','
          let pat ← parsePattern o fuel
          pure (value, pat) : P (UExpr × Pat)).cnt 0 (fun r k => patQ 0 r.2 k) := by
        apply cnt_bind_same _ _ _ _ (ctrOnly_oracleExpr o); intro value
        apply cnt_bind_same _ _ _ _ (ctrOnly_of_stateless (stateless_punct1 _)); intro _
        refine cnt_bind _ _ 0 _ _ ((allIds o fuel).pattern 0) ?_
        intro pat k _ hp
        apply cnt_pure; exact hp
      obtain ⟨_, h2⟩ := hcnt.ok _ _ _ _ _ rfl heq
      exact ⟨h2.1, fun i hi => (h2.2 i hi).2⟩
  · cases h
  · cases h

/-- **C14: every `static __PATTERN_NODE_n` of an accepted invocation is defined exactly once**
(`genNodes_ids` identifies the emitted definitions with the pattern's ids; the parser makes
them distinct). -/
theorem C14_nodes_defined_once (o : Oracle) (ts : List TT) (fuel prev : Nat) (v : UExpr) (p : Pat) (n : Nat)
    (h : parseAssert o ts fuel prev = .accept v p n) : ((genNodes p none).map (·.1)).Nodup :=
  C14_ids_nodup p (C14_parser_ids o ts fuel prev v p n h).1

/-- **History independence**: the outcome is a function of the invocation's tokens (and of what
`syn` answers for them) alone; the counter left behind by earlier invocations is not an input. -/
theorem C14_history_independent (o : Oracle) (ts : List TT) (fuel a b : Nat) :
    parseAssert o ts fuel a = parseAssert o ts fuel b := rfl

end AsModel
