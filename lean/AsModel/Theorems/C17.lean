import AsModel.Runtime.Cache
/-!
# C17 — reports are independent of environment, history and concurrency

Theorems over the transition system of `Runtime/Cache.lean`: any number of threads, any
initial cache contents consistent with the file system (cold or warm), **every**
interleaving (induction over the schedule).
-/
namespace AsModel.Runtime

/-- Per-thread invariant. -/
def TInv (fs : FilePath → Option Content) (t : TState) : Prop :=
  ((t.pc = .wantWrite ∨ t.pc = .writing ∨ t.pc = .returning) → fs t.path = some t.loc) ∧
  (t.pc = .done → t.result = some (fs t.path))

/-- The cache only ever holds the file's real content; every thread's local state is consistent. -/
def Inv (fs : FilePath → Option Content) (s : CState) : Prop :=
  (∀ p c, s.cache p = some c → fs p = some c) ∧ ∀ t ∈ s.threads, TInv fs t

theorem stepThread_inv (fs : FilePath → Option Content) (s : CState) (t t' : TState)
    (c' : FilePath → Option Content) (hinv : Inv fs s) (ht : TInv fs t)
    (h : stepThread fs s t = some (t', c')) :
    (∀ p c, c' p = some c → fs p = some c) ∧ TInv fs t' := by
  unfold stepThread at h
  obtain ⟨hc, _⟩ := hinv
  cases hpc : t.pc with
  | wantRead =>
    simp only [hpc] at h
    split at h
    · simp at h
    · simp only [Option.some.injEq, Prod.mk.injEq] at h
      obtain ⟨rfl, rfl⟩ := h
      exact ⟨hc, by simp [TInv]⟩
  | reading =>
    simp only [hpc] at h
    cases hcp : s.cache t.path with
    | some c =>
      simp only [hcp, Option.some.injEq, Prod.mk.injEq] at h
      obtain ⟨rfl, rfl⟩ := h
      exact ⟨hc, by simp [TInv, hc _ _ hcp]⟩
    | none =>
      simp only [hcp, Option.some.injEq, Prod.mk.injEq] at h
      obtain ⟨rfl, rfl⟩ := h
      exact ⟨hc, by simp [TInv]⟩
  | fsRead =>
    simp only [hpc] at h
    cases hf : fs t.path with
    | none =>
      simp only [hf, Option.some.injEq, Prod.mk.injEq] at h
      obtain ⟨rfl, rfl⟩ := h
      exact ⟨hc, by simp [TInv, hf]⟩
    | some c =>
      simp only [hf, Option.some.injEq, Prod.mk.injEq] at h
      obtain ⟨rfl, rfl⟩ := h
      exact ⟨hc, by simp [TInv, hf]⟩
  | wantWrite =>
    simp only [hpc] at h
    split at h
    · simp at h
    · simp only [Option.some.injEq, Prod.mk.injEq] at h
      obtain ⟨rfl, rfl⟩ := h
      have := ht.1 (Or.inl hpc)
      exact ⟨hc, by simp [TInv, this]⟩
  | writing =>
    simp only [hpc, Option.some.injEq, Prod.mk.injEq] at h
    obtain ⟨rfl, rfl⟩ := h
    have hloc := ht.1 (Or.inr (Or.inl hpc))
    refine ⟨?_, by simp [TInv, hloc]⟩
    intro p c hpcache
    by_cases hp : p = t.path
    · subst hp
      simp only [if_true] at hpcache
      cases hcp : s.cache t.path with
      | some c0 => simp only [hcp, Option.some.injEq] at hpcache; subst hpcache; exact hc _ _ hcp
      | none => simp only [hcp, Option.some.injEq] at hpcache; subst hpcache; exact hloc
    · simp only [hp, if_false] at hpcache
      exact hc _ _ hpcache
  | returning =>
    simp only [hpc, Option.some.injEq, Prod.mk.injEq] at h
    obtain ⟨rfl, rfl⟩ := h
    have hloc := ht.1 (Or.inr (Or.inr hpc))
    exact ⟨hc, by simp [TInv, hloc]⟩
  | done => simp [hpc] at h

theorem step_inv (fs : FilePath → Option Content) (s s' : CState) (i : Nat) (hinv : Inv fs s)
    (h : step fs s i = some s') : Inv fs s' := by
  unfold step at h
  cases hti : s.threads[i]? with
  | none => simp [hti] at h
  | some t =>
    simp only [hti] at h
    cases hst : stepThread fs s t with
    | none => simp [hst] at h
    | some r =>
      obtain ⟨t', c'⟩ := r
      simp only [hst, Option.map_some, Option.some.injEq] at h
      subst h
      have htm : t ∈ s.threads := List.mem_of_getElem? hti
      obtain ⟨hc', ht'⟩ := stepThread_inv fs s t t' c' hinv (hinv.2 t htm) hst
      refine ⟨hc', ?_⟩
      intro u hu
      rcases List.mem_or_eq_of_mem_set hu with hu' | rfl
      · exact hinv.2 u hu'
      · exact ht'

/-- **The invariant holds in every reachable state, for every interleaving.** -/
theorem C17_cache_inv (fs : FilePath → Option Content) :
    ∀ (sched : List Nat) (s : CState), Inv fs s → Inv fs (runSched fs s sched) := by
  intro sched
  induction sched with
  | nil => intro s h; exact h
  | cons i is ih =>
    intro s h
    simp only [runSched]
    cases hs : step fs s i with
    | none => simpa [hs] using ih s h
    | some s' => simpa [hs] using ih s' (step_inv fs s s' i h hs)

/-- **Every thread gets exactly its own file's content** (or `None` if the file cannot be
read), whatever the other threads do and whatever was cached before. -/
theorem C17_own_result (fs : FilePath → Option Content) (sched : List Nat) (s : CState)
    (h : Inv fs s) : ∀ t ∈ (runSched fs s sched).threads, t.pc = .done → t.result = some (fs t.path) :=
  fun t ht hd => ((C17_cache_inv fs sched s h).2 t ht).2 hd

/-- Fresh threads over a cache consistent with the file system (cold or warm) satisfy the invariant. -/
theorem C17_initial_inv (fs : FilePath → Option Content) (cache : FilePath → Option Content)
    (paths : List FilePath) (hc : ∀ p c, cache p = some c → fs p = some c) :
    Inv fs { cache := cache, threads := paths.map fun p => ⟨p, .wantRead, 0, none⟩ } := by
  refine ⟨hc, ?_⟩
  intro t ht
  simp only [List.mem_map] at ht
  obtain ⟨p, _, rfl⟩ := ht
  simp [TInv]

/-- **No deadlock**: while some thread has not finished, some thread can take a step. -/
theorem C17_no_deadlock (fs : FilePath → Option Content) (s : CState)
    (h : ∃ t ∈ s.threads, t.pc ≠ .done) : ∃ i, (step fs s i).isSome = true := by
  -- a thread holding the write lock can always proceed; else a reader; else anybody
  have pick : ∀ t ∈ s.threads, (stepThread fs s t).isSome = true → ∃ i, (step fs s i).isSome = true := by
    intro t ht hst
    obtain ⟨i, hi, hget⟩ := List.mem_iff_getElem.1 ht
    refine ⟨i, ?_⟩
    have : s.threads[i]? = some t := by rw [List.getElem?_eq_getElem hi, hget]
    simp [step, this, hst]
  by_cases hw : s.anyAt .writing = true
  · obtain ⟨t, ht, hpc⟩ := List.any_eq_true.1 hw
    have hpc' : t.pc = .writing := by simpa using hpc
    exact pick t ht (by simp [stepThread, hpc'])
  · by_cases hr : s.anyAt .reading = true
    · obtain ⟨t, ht, hpc⟩ := List.any_eq_true.1 hr
      have hpc' : t.pc = .reading := by simpa using hpc
      exact pick t ht (by simp only [stepThread, hpc']; cases s.cache t.path <;> simp)
    · obtain ⟨t, ht, hnd⟩ := h
      have hw' : s.anyAt .writing = false := by simpa using hw
      have hr' : s.anyAt .reading = false := by simpa using hr
      refine pick t ht ?_
      cases hpc : t.pc with
      | wantRead => simp [stepThread, hpc, hw']
      | reading => simp only [stepThread, hpc]; cases s.cache t.path <;> simp
      | fsRead => simp only [stepThread, hpc]; cases fs t.path <;> simp
      | wantWrite => simp [stepThread, hpc, hw', hr']
      | writing => simp [stepThread, hpc]
      | returning => simp [stepThread, hpc]
      | done => exact absurd hpc hnd

/-! ### Colour and the plain-output guard -/

/-- The renderer is styled iff no plain-output guard is alive on the thread, `NO_COLOR` is
unset and stderr is a terminal (`Display for ErrorReport`). -/
def styled (guardAlive noColor isTty : Bool) : Bool := !(guardAlive || noColor || !isTty)

theorem C17_colour (g n t : Bool) : styled g n t = true ↔ (g = false ∧ n = false ∧ t = true) := by
  cases g <;> cases n <;> cases t <;> simp [styled]

theorem guardDepth_eq_live : ∀ (h : List GuardEv), WellFormed h → (guardDepth h : Int) = liveGuards h
  | [], _ => rfl
  | .new :: es, hw => by
    have := guardDepth_eq_live es hw
    simp only [guardDepth, liveGuards]; omega
  | .drop :: es, hw => by
    have := guardDepth_eq_live es hw.1
    have hpos := hw.2
    simp only [guardDepth, liveGuards]; omega

/-- **The plain-output flag is on exactly while some guard of this thread is alive**, for
every history of guard creations and drops (nested or not). -/
theorem C17_guard (h : List GuardEv) (hw : WellFormed h) : 0 < guardDepth h ↔ 0 < liveGuards h := by
  have := guardDepth_eq_live h hw
  omega

/-- The pinned flag implementation got nested guards wrong: after `new, new, drop` one guard is
alive but the flag is off. -/
theorem C17_pinned_guard_counterexample :
    guardFlagV0 [.drop, .new, .new] = false ∧ 0 < liveGuards [.drop, .new, .new] ∧
      WellFormed [.drop, .new, .new] := by
  refine ⟨rfl, by decide, ?_⟩
  simp [WellFormed, liveGuards]

/-! Non-vacuity: two threads, one file, a cold cache, one particular interleaving. -/
example : ((runSched (fun _ => some 7) { cache := fun _ => none, threads := [⟨0, .wantRead, 0, none⟩, ⟨0, .wantRead, 0, none⟩] }
    [0, 1, 0, 1, 0, 1, 0, 0, 0, 1, 1, 1, 1]).threads.map (·.result)) = [some (some 7), some (some 7)] := by decide

end AsModel.Runtime
