import AsModel.Anchor
import AsModel.Theorems.C15Parse
/-!
# C04 — every node's recorded location is made of that node's own tokens

`Pat.location` (model of `Pattern::location`, tied token-exactly by T2) is what the node table
records and the report marks.  Here: for every sub-pattern of every accepted invocation the
location is anchored on the tokens the grammar assigns to that sub-pattern — leaf patterns on
their whole token run, struct / enum patterns inside their path (before the group that holds
their children), tuple / slice / map patterns on exactly their opening delimiter, set patterns
from `#` to the closing parenthesis (`Span::join`; under rustc `#` alone, see `noJoin`).
Wildcards record no location (they never fail).  Siblings and parents are other token runs.

Hypotheses about `syn` and the token tree are the decidable `oracleSpansOk` / `tokensWf`,
evaluated by the driver on every input of the T1 tie.
-/
namespace AsModel

/-- The cursor is at a real position of the token tree `ts`. -/
def CurOk (ts : List TT) (c : Cur) : Prop :=
  ∃ toks pre, seqAt ts c.path = some toks ∧ toks = pre ++ c.rest ∧ c.total = toks.length

theorem advance_advance (c : Cur) (a b : Nat) : (c.advance a).advance b = c.advance (a + b) := by
  simp [Cur.advance, List.drop_drop]

theorem curOk_advance {ts : List TT} {c : Cur} (h : CurOk ts c) (n : Nat) : CurOk ts (c.advance n) := by
  obtain ⟨toks, pre, h1, h2, h3⟩ := h
  refine ⟨toks, pre ++ c.rest.take n, h1, ?_, h3⟩
  simp [Cur.advance, h2, List.append_assoc]

theorem curOk_idx {ts : List TT} {c : Cur} (h : CurOk ts c) :
    ∃ toks pre, seqAt ts c.path = some toks ∧ toks = pre ++ c.rest ∧ c.idx = pre.length := by
  obtain ⟨toks, pre, h1, h2, h3⟩ := h
  refine ⟨toks, pre, h1, h2, ?_⟩
  simp [Cur.idx, h3, h2]

theorem seqAt_snoc : ∀ (path : List Nat) (ts toks : List TT) (i : Nat) (d : Delim) (a b e : Sp) (inner : List TT),
    seqAt ts path = some toks → toks[i]? = some (.group d a b e inner) → seqAt ts (path ++ [i]) = some inner
  | [], ts, toks, i, d, a, b, e, inner, h1, h2 => by
    simp only [seqAt] at h1; cases h1
    simp [seqAt, h2]
  | j :: path, ts, toks, i, d, a, b, e, inner, h1, h2 => by
    simp only [seqAt, List.cons_append] at h1 ⊢
    split at h1
    · exact seqAt_snoc path _ toks i d a b e inner h1 h2
    · cases h1

theorem curOk_group {ts : List TT} {c ic c' : Cur} {d : Delim} {so sc : Sp} (h : CurOk ts c)
    (hg : GroupAt d c so sc ic c') : CurOk ts ic ∧ CurOk ts c' := by
  obtain ⟨sp, inner, rest, hr, hic, hc'⟩ := hg
  refine ⟨?_, hc' ▸ curOk_advance h 1⟩
  obtain ⟨toks, pre, h1, h2, hi⟩ := curOk_idx h
  subst hic
  refine ⟨inner, [], ?_, by simp [Cur.inner], by simp [Cur.inner]⟩
  simp only [Cur.inner]
  apply seqAt_snoc c.path ts toks c.idx d sp so sc inner h1
  rw [h2, hi, hr]; simp

/-- A clean oracle answer at an in-tree cursor: the run it covers is the next `n` tokens. -/
theorem run_of_lookup {ts : List TT} {c : Cur} (h : CurOk ts c) (n : Nat)
    (hrun : ∃ run, runAt ts c.path c.idx n = some run) :
    1 ≤ n ∧ n ≤ c.rest.length ∧ runAt ts c.path c.idx n = some (c.rest.take n) := by
  obtain ⟨toks, pre, h1, h2, hi⟩ := curOk_idx h
  obtain ⟨run, hr⟩ := hrun
  unfold runAt at hr ⊢
  rw [h1] at hr ⊢
  simp only at hr ⊢
  split at hr
  · rename_i hcond
    have hlen : n ≤ c.rest.length := by
      have := hcond.2; rw [h2, hi] at this; simp at this; omega
    refine ⟨hcond.1, hlen, ?_⟩
    rw [if_pos hcond, h2, hi]; simp
  · cases hr

theorem mem_of_lookup {α β : Type} [BEq α] [LawfulBEq α] {l : List (α × β)} {k : α} {b : β}
    (h : l.lookup k = some b) : (k, b) ∈ l := by
  obtain ⟨l1, l2, hl, _⟩ := List.lookup_eq_some_iff.mp h
  rw [hl]; simp

theorem exprAt_spans {ts : List TT} {o : Oracle} {c c' : Cur} {e : UExpr} (hc : CurOk ts c) (ho : oracleSpansOk ts o = true)
    (he : ExprAt o c e c') : ∃ n, 1 ≤ n ∧ n ≤ c.rest.length ∧ c' = c.advance n ∧ exprSpansOk e (c.rest.take n) = true := by
  obtain ⟨n, hl, hc'⟩ := he
  have hmem := mem_of_lookup hl
  unfold oracleSpansOk at ho
  simp only [Bool.and_eq_true, List.all_eq_true] at ho
  have h := ho.1.1 _ hmem
  simp only at h
  split at h
  · rename_i run hrun
    obtain ⟨h1, h2, h3⟩ := run_of_lookup hc n ⟨run, hrun⟩
    rw [h3] at hrun; cases hrun
    exact ⟨n, h1, h2, hc', h⟩
  · cases h

theorem pathAt_spans {ts : List TT} {o : Oracle} {c c' : Cur} {p : UPath} (hc : CurOk ts c) (ho : oracleSpansOk ts o = true)
    (he : PathAt o c p c') : ∃ n, 1 ≤ n ∧ n ≤ c.rest.length ∧ c' = c.advance n ∧ pathSpansOk p (c.rest.take n) = true := by
  obtain ⟨n, hl, hc'⟩ := he
  have hmem := mem_of_lookup hl
  unfold oracleSpansOk at ho
  simp only [Bool.and_eq_true, List.all_eq_true] at ho
  have h := ho.1.2 _ hmem
  simp only at h
  split at h
  · rename_i run hrun
    obtain ⟨h1, h2, h3⟩ := run_of_lookup hc n ⟨run, hrun⟩
    rw [h3] at hrun; cases hrun
    exact ⟨n, h1, h2, hc', h⟩
  · cases h

theorem closureAt_spans {ts : List TT} {o : Oracle} {c c' : Cur} {e : UExpr} (hc : CurOk ts c) (ho : oracleSpansOk ts o = true)
    (he : ClosureAt o c e c') : ∃ n, 1 ≤ n ∧ n ≤ c.rest.length ∧ c' = c.advance n ∧ covers e.sp (c.rest.take n) = true ∧
      firstTokOk e (c.rest.take n) = true := by
  obtain ⟨n, isp, hl, hc'⟩ := he
  have hmem := mem_of_lookup hl
  unfold oracleSpansOk at ho
  simp only [Bool.and_eq_true, List.all_eq_true] at ho
  have h := ho.2 _ hmem
  simp only at h
  split at h
  · rename_i run hrun
    obtain ⟨h1, h2, h3⟩ := run_of_lookup hc n ⟨run, hrun⟩
    rw [h3] at hrun; cases hrun
    rw [Bool.and_eq_true] at h
    exact ⟨n, h1, h2, hc', h.1, h.2⟩
  · cases h

/-- **Where a pattern's recorded location must lie**, relative to the cursor `c` at which the
grammar starts the pattern and the cursor `c'` behind it. -/
def Anchored (c : Cur) (p : Pat) (c' : Cur) : Prop :=
  match p with
  | .wild _ | .struct _ none _ _ => True
  | .tuple _ sp _ | .slice _ sp _ =>
    -- exactly the opening delimiter of the pattern's own group
    ∃ d g sc ts r, c.rest = .group d g sp sc ts :: r ∧ c' = c.advance 1
  | .map _ sp _ _ =>
    ∃ j hs d g sc ts r, c.rest = .punct '#' j hs :: .group d g sp sc ts :: r ∧ c' = c.advance 2
  | .set _ sp _ _ =>
    -- from `#` to the closing parenthesis
    c' = c.advance 2 ∧ 2 ≤ c.rest.length ∧ covers sp (c.rest.take 2) = true
  | .simple .. | .string .. | .cmp .. | .range .. | .closure .. =>
    -- the whole pattern
    ∃ k, 1 ≤ k ∧ k ≤ c.rest.length ∧ c' = c.advance k ∧ covers p.location (c.rest.take k) = true
  | .regex .. | .like .. =>
    -- the expression after `=~`
    ∃ k, 1 ≤ k ∧ 2 + k ≤ c.rest.length ∧ c' = c.advance (2 + k) ∧ covers p.location ((c.rest.drop 2).take k) = true
  | .struct _ (some _) _ _ | .enum .. =>
    -- inside the path, which comes before the group holding the children
    ∃ k, 1 ≤ k ∧ k ≤ c.rest.length ∧ (c' = c.advance k ∨ c' = c.advance (k + 1)) ∧
      (c.rest.take k).any (fun t => p.location.sameStart t.span) = true ∧
      (c.rest.take k).any (fun t => p.location.sameEnd t.span) = true

theorem covers_single (t : TT) : covers t.span [t] = true := by
  simp [covers, Sp.sameStart, Sp.sameEnd]

theorem take_succ_of_cons {α} (x : α) (xs : List α) : (x :: xs).take 1 = [x] := by simp

theorem covers_prefix {sp1 sp2 : Sp} {l : List TT} {j n : Nat} (hj : 1 ≤ j) (hjl : j ≤ l.length) (hn : 1 ≤ n)
    (hnl : j + n ≤ l.length)
    (h1 : match l.head? with | some a => sp1.sameStart a.span = true | none => False)
    (h2 : covers sp2 ((l.drop j).take n) = true) :
    covers ⟨sp1.ls, sp1.cs, sp2.le, sp2.ce⟩ (l.take (j + n)) = true := by
  have hsplit : l.take (j + n) = l.take j ++ (l.drop j).take n := by
    rw [List.take_add]
  unfold covers at h2 ⊢
  cases l with
  | nil => simp at hjl; omega
  | cons a rest =>
    simp only [List.head?_cons] at h1
    have hh : ((a :: rest).take (j + n)).head? = some a := by
      cases hjn : j + n with
      | zero => omega
      | succ m => simp
    rw [hh]
    have hlast : ((a :: rest).take (j + n)).getLast? = (((a :: rest).drop j).take n).getLast? := by
      rw [hsplit]
      have hne : ((a :: rest).drop j).take n ≠ [] := by
        intro hnil
        have := congrArg List.length hnil
        simp only [List.length_take, List.length_drop, List.length_nil] at this
        omega
      rw [List.getLast?_append]
      cases hg : (((a :: rest).drop j).take n).getLast? with
      | none => exact absurd (List.getLast?_eq_none_iff.mp hg) hne
      | some y => rfl
    rw [hlast]
    split at h2
    · rename_i x y hx hy
      rw [hy]
      simp only [Bool.and_eq_true] at h2 ⊢
      refine ⟨?_, ?_⟩
      · simpa [Sp.sameStart] using h1
      · simpa [Sp.sameEnd] using h2.2
    · cases h2

theorem wf_group {d : Delim} {sp so sc : Sp} {inner : List TT} (h : (TT.group d sp so sc inner).wf = true) :
    sp.sameStart so = true ∧ sp.sameEnd sc = true ∧ tokensWf inner = true := by
  unfold TT.wf at h
  simp only [Bool.and_eq_true, List.all_eq_true] at h
  refine ⟨h.1.1, h.1.2, ?_⟩
  unfold tokensWf
  simp only [List.all_eq_true]
  intro t ht
  exact h.2 ⟨t, ht⟩ (List.mem_attach _ _)

theorem wf_seqAt : ∀ (path : List Nat) (ts toks : List TT), tokensWf ts = true → seqAt ts path = some toks →
    tokensWf toks = true
  | [], ts, toks, h, h1 => by simp only [seqAt] at h1; cases h1; exact h
  | i :: path, ts, toks, h, h1 => by
    simp only [seqAt] at h1
    split at h1
    · rename_i d a b e inner hi
      have hmem : TT.group d a b e inner ∈ ts := List.mem_of_getElem? hi
      have hw : (TT.group d a b e inner).wf = true := by
        unfold tokensWf at h
        exact (List.all_eq_true.mp h) _ hmem
      exact wf_seqAt path inner toks (wf_group hw).2.2 h1
    · cases h1

theorem wf_at_cursor {ts : List TT} {c : Cur} (hts : tokensWf ts = true) (hc : CurOk ts c) : ∀ t ∈ c.rest, t.wf = true := by
  obtain ⟨toks, pre, h1, h2, _⟩ := hc
  have := wf_seqAt c.path ts toks hts h1
  unfold tokensWf at this
  intro t ht
  exact (List.all_eq_true.mp this) t (by rw [h2]; exact List.mem_append_right _ ht)

theorem location_sameStart_path (id : Nat) (path : UPath) (t : TT) (f : Items) (r : Bool) :
    (Pat.struct id (some path) f r).location.sameStart t.span = path.first.sameStart t.span := rfl

/-- **One derivation, one anchor**: the location of the pattern a grammar rule derives lies on
the tokens that rule consumed, as `Anchored` says for its kind. -/
theorem anchored_of_derivation {ts : List TT} {o : Oracle} {c c' : Cur} {p : Pat}
    (hts : tokensWf ts = true) (ho : oracleSpansOk ts o = true) (hc : CurOk ts c) (hg : GPat o c p c') :
    Anchored c p c' := by
  cases hg with
  | closure _ id e _ _ hcl hcls =>
    obtain ⟨n, h1, h2, h3, h4, _⟩ := closureAt_spans hc ho hcl
    exact ⟨n, h1, h2, h3, h4⟩
  | wild => trivial
  | cmp _ op sp c1 e _ id hop he =>
    have key : ∀ j, 1 ≤ j → j ≤ c.rest.length → c1 = c.advance j →
        (match c.rest.head? with | some a => sp.sameStart a.span = true | none => False) →
        Anchored c (.cmp id op sp e) c' := by
      intro j hj hjl hc1 hhead
      have hc1ok : CurOk ts c1 := hc1 ▸ curOk_advance hc j
      obtain ⟨n, h1, h2, h3, h4⟩ := exprAt_spans hc1ok ho he
      have hlen : j + n ≤ c.rest.length := by
        rw [hc1] at h2; simp [Cur.advance] at h2; omega
      refine ⟨j + n, by omega, hlen, ?_, ?_⟩
      · rw [h3, hc1, advance_advance]
      · unfold exprSpansOk at h4
        simp only [Bool.and_eq_true] at h4
        have h5 := h4.1.1
        rw [hc1] at h5
        exact covers_prefix hj hjl h1 hlen hhead h5
    cases hop with
    | lt _ _ hp | gt _ _ hp =>
      obtain ⟨j, rest, hr, hc1⟩ := hp
      exact key 1 (Nat.le_refl _) (by rw [hr]; simp) hc1 (by rw [hr]; simp [TT.span, Sp.sameStart])
    | le _ _ hp | ge _ _ hp | eq _ _ hp | ne _ _ hp =>
      obtain ⟨s1, j, s2, rest, hr, hsp, hc1⟩ := hp
      exact key 2 (by omega) (by rw [hr]; simp) hc1 (by rw [hr, hsp]; simp [TT.span, Sp.sameStart])
  | regex _ s1 c1 s2 c2 e _ v sp id h1 h2 he hv =>
    obtain ⟨j1, r1, hr1, hc1⟩ := h1
    obtain ⟨j2, r2, hr2, hc2⟩ := h2
    have hc2' : c2 = c.advance 2 := by rw [hc2, hc1, advance_advance]
    have hc2ok : CurOk ts c2 := hc2' ▸ curOk_advance hc 2
    obtain ⟨n, g1, g2, g3, g4⟩ := exprAt_spans hc2ok ho he
    have hsp : sp = e.sp := by
      unfold strLitValue? at hv
      split at hv
      · cases hv; rfl
      · cases hv
    refine ⟨n, g1, ?_, ?_, ?_⟩
    · rw [hc2'] at g2; simp [Cur.advance] at g2; omega
    · rw [g3, hc2', advance_advance]
    · unfold exprSpansOk at g4
      simp only [Bool.and_eq_true] at g4
      have := g4.1.1
      rw [hc2'] at this
      simpa [Pat.location, hsp, Cur.advance] using this
  | like _ s1 c1 s2 c2 e _ id h1 h2 he hv =>
    obtain ⟨j1, r1, hr1, hc1⟩ := h1
    obtain ⟨j2, r2, hr2, hc2⟩ := h2
    have hc2' : c2 = c.advance 2 := by rw [hc2, hc1, advance_advance]
    have hc2ok : CurOk ts c2 := hc2' ▸ curOk_advance hc 2
    obtain ⟨n, g1, g2, g3, g4⟩ := exprAt_spans hc2ok ho he
    refine ⟨n, g1, ?_, ?_, ?_⟩
    · rw [hc2'] at g2; simp [Cur.advance] at g2; omega
    · rw [g3, hc2', advance_advance]
    · unfold exprSpansOk at g4
      simp only [Bool.and_eq_true] at g4
      have := g4.1.1
      rw [hc2'] at this
      simpa [Pat.location, Cur.advance] using this
  | set _ hs c1 so sc ic _ elems rest ie id hp hgr _ _ =>
    obtain ⟨j, r1, hr1, hc1⟩ := hp
    obtain ⟨gsp, inner, r2, hr2, _, hc'⟩ := hgr
    have hr2' : c.rest = .punct '#' j hs :: .group .paren gsp so sc inner :: r2 := by
      rw [hc1] at hr2; simp only [Cur.advance, hr1, List.drop_succ_cons, List.drop_zero] at hr2
      rw [hr1, hr2]
    have hwf := wf_at_cursor hts hc (.group .paren gsp so sc inner) (by rw [hr2']; simp)
    obtain ⟨_, hend, _⟩ := wf_group hwf
    refine ⟨by rw [hc', hc1, advance_advance], by rw [hr2']; simp, ?_⟩
    rw [hr2']
    simp only [covers, List.take_succ_cons, List.take_zero, List.head?_cons, List.getLast?_cons_cons,
      List.getLast?_singleton, TT.span, Bool.and_eq_true]
    refine ⟨by simp [Sp.sameStart], ?_⟩
    simp only [Sp.sameEnd, Bool.and_eq_true, beq_iff_eq] at hend ⊢
    exact ⟨hend.1.symm, hend.2.symm⟩
  | map _ hs c1 so sc ic _ entries rest ie id hp hgr _ _ =>
    obtain ⟨j, r1, hr1, hc1⟩ := hp
    obtain ⟨gsp, inner, r2, hr2, _, hc'⟩ := hgr
    have hr2' : c.rest = .punct '#' j hs :: .group .brace gsp so sc inner :: r2 := by
      rw [hc1] at hr2; simp only [Cur.advance, hr1, List.drop_succ_cons, List.drop_zero] at hr2
      rw [hr1, hr2]
    exact ⟨j, hs, .brace, gsp, sc, inner, r2, hr2', by rw [hc', hc1, advance_advance]⟩
  | slice _ so sc ic _ elems ie id hgr _ _ =>
    obtain ⟨gsp, inner, r2, hr2, _, hc'⟩ := hgr
    exact ⟨.bracket, gsp, sc, inner, r2, hr2, hc'⟩
  | tuple _ so sc ic _ elems ie id hgr _ _ =>
    obtain ⟨gsp, inner, r2, hr2, _, hc'⟩ := hgr
    exact ⟨.paren, gsp, sc, inner, r2, hr2, hc'⟩
  | struct _ path c1 so sc ic _ fields rest ie id _ hpa hgr _ _ =>
    obtain ⟨n, g1, g2, g3, g4⟩ := pathAt_spans hc ho hpa
    obtain ⟨gsp, inner, r2, hr2, _, hc'⟩ := hgr
    unfold pathSpansOk at g4
    simp only [Bool.and_eq_true] at g4
    exact ⟨n, g1, g2, Or.inr (by rw [hc', g3, advance_advance]), g4.1, g4.2⟩
  | wildStruct => trivial
  | unit _ path _ id _ hpa _ _ =>
    obtain ⟨n, g1, g2, g3, g4⟩ := pathAt_spans hc ho hpa
    unfold pathSpansOk at g4
    simp only [Bool.and_eq_true] at g4
    exact ⟨n, g1, g2, Or.inl g3, g4.1, g4.2⟩
  | variant _ path c1 so sc ic _ elems ie id _ hpa hgr _ _ =>
    obtain ⟨n, g1, g2, g3, g4⟩ := pathAt_spans hc ho hpa
    obtain ⟨gsp, inner, r2, hr2, _, hc'⟩ := hgr
    unfold pathSpansOk at g4
    simp only [Bool.and_eq_true] at g4
    exact ⟨n, g1, g2, Or.inr (by rw [hc', g3, advance_advance]), g4.1, g4.2⟩
  | range _ e _ id _ _ he hr =>
    obtain ⟨n, g1, g2, g3, g4⟩ := exprAt_spans hc ho he
    refine ⟨n, g1, g2, g3, ?_⟩
    unfold exprSpansOk at g4
    simp only [Bool.and_eq_true] at g4
    unfold isRangeExpr at hr
    split at hr
    · rename_i st lim en hcls
      have := g4.2
      simp only [hcls] at this
      simpa [Pat.location, hcls, rangeSpan] using this
    · cases hr
  | string _ text sp value rest id _ _ _ hr =>
    refine ⟨1, Nat.le_refl _, by rw [hr]; simp, rfl, ?_⟩
    rw [hr]
    simp [Pat.location, covers, TT.span, Sp.sameStart, Sp.sameEnd]
  | simple _ e _ id _ _ he _ _ =>
    obtain ⟨n, g1, g2, g3, g4⟩ := exprAt_spans hc ho he
    unfold exprSpansOk at g4
    simp only [Bool.and_eq_true] at g4
    exact ⟨n, g1, g2, g3, g4.1.1⟩

/-! ## Every sub-pattern has a derivation of its own, at a cursor inside the token tree -/

mutual
/-- The pattern and all its sub-patterns. -/
def Pat.nodes : Pat → List Pat
  | .struct id path items rest => .struct id path items rest :: items.nodes
  | .enum id path items => .enum id path items :: items.nodes
  | .tuple id sp items => .tuple id sp items :: items.nodes
  | .slice id sp items => .slice id sp items :: items.nodes
  | .set id sp items rest => .set id sp items rest :: items.nodes
  | .map id sp items rest => .map id sp items rest :: items.nodes
  | .simple id e => [.simple id e]
  | .string id v sp t => [.string id v sp t]
  | .cmp id op sp e => [.cmp id op sp e]
  | .range id e => [.range id e]
  | .regex id v sp => [.regex id v sp]
  | .like id e => [.like id e]
  | .wild id => [.wild id]
  | .closure id e => [.closure id e]
def Items.nodes : Items → List Pat
  | .nil => []
  | .cons _ _ p tl => p.nodes ++ tl.nodes
end

theorem punctAt_ok {ts : List TT} {ch : Char} {c c' : Cur} {sp : Sp} (hc : CurOk ts c) (h : PunctAt ch c sp c') : CurOk ts c' := by
  obtain ⟨_, _, _, hc'⟩ := h; exact hc' ▸ curOk_advance hc 1

theorem punct2At_ok {ts : List TT} {a b : Char} {c c' : Cur} {sp : Sp} (hc : CurOk ts c) (h : Punct2At a b c sp c') : CurOk ts c' := by
  obtain ⟨_, _, _, _, _, _, hc'⟩ := h; exact hc' ▸ curOk_advance hc 2

theorem exprAt_ok {ts : List TT} {o : Oracle} {c c' : Cur} {e : UExpr} (hc : CurOk ts c) (h : ExprAt o c e c') : CurOk ts c' := by
  obtain ⟨n, _, hc'⟩ := h; exact hc' ▸ curOk_advance hc n

theorem pathAt_ok {ts : List TT} {o : Oracle} {c c' : Cur} {p : UPath} (hc : CurOk ts c) (h : PathAt o c p c') : CurOk ts c' := by
  obtain ⟨n, _, hc'⟩ := h; exact hc' ▸ curOk_advance hc n

theorem cmpOp_ok {ts : List TT} {c c' : Cur} {op : Runtime.CmpOp} {sp : Sp} (hc : CurOk ts c) (h : GCmpOp c op sp c') : CurOk ts c' := by
  cases h with
  | lt _ _ hp | gt _ _ hp => exact punctAt_ok hc hp
  | le _ _ hp | ge _ _ hp | eq _ _ hp | ne _ _ hp => exact punct2At_ok hc hp

theorem op_ok {ts : List TT} {o : Oracle} {c c' : Cur} {ops : List FieldOp} (hc : CurOk ts c) (h : GOp o c ops c') : CurOk ts c' := by
  cases h
  · exact curOk_advance (punctAt_ok hc ‹PunctAt '.' c _ _›) 1
  · exact curOk_advance (punctAt_ok hc ‹PunctAt '.' c _ _›) 1
  · exact curOk_advance (punctAt_ok hc ‹PunctAt '.' c _ _›) 1
  · exact curOk_advance (punctAt_ok hc ‹PunctAt '.' c _ _›) 1
  · exact (curOk_group (curOk_advance (punctAt_ok hc ‹PunctAt '.' c _ _›) 1) ‹GroupAt _ _ _ _ _ _›).2
  · exact (curOk_group hc ‹GroupAt _ c _ _ _ _›).2

theorem post_ok {ts : List TT} {o : Oracle} {c c' : Cur} {ops : List FieldOp} (hc : CurOk ts c) (h : GPost o c ops c') : CurOk ts c' := by
  induction h with
  | nil => exact hc
  | cons _ _ _ _ _ hop _ ih => exact ih (op_ok hc hop)

theorem fieldOps_ok {ts : List TT} {o : Oracle} {c c' : Cur} {f : FieldOps} (hc : CurOk ts c) (h : GFieldOps o c f c') : CurOk ts c' := by
  cases h
  rename_i name c1 post hn hp
  have h1 : CurOk ts c1 := by
    cases hn <;> exact curOk_advance (curOk_advance hc _) 1
  exact post_ok h1 hp

/-- A pattern occurs in the grammar's derivation at a cursor inside the token tree. -/
def Derived (ts : List TT) (o : Oracle) (q : Pat) : Prop := ∃ cq cq', CurOk ts cq ∧ GPat o cq q cq'

mutual
theorem sub_pat {ts : List TT} {o : Oracle} : ∀ {c : Cur} {p : Pat} {c' : Cur}, GPat o c p c' → CurOk ts c →
    CurOk ts c' ∧ ∀ q ∈ p.nodes, Derived ts o q
  | _, _, _, .closure c id e c' hs hcl hcls, hc =>
    ⟨by obtain ⟨n, _, _, hc'⟩ := hcl; exact hc' ▸ curOk_advance hc n,
     by intro q hq; simp only [Pat.nodes, List.mem_singleton] at hq; subst hq; exact ⟨c, c', hc, .closure c id e c' hs hcl hcls⟩⟩
  | _, _, _, .wild c id hw hb, hc =>
    ⟨curOk_advance hc 1, by intro q hq; simp only [Pat.nodes, List.mem_singleton] at hq; subst hq; exact ⟨c, _, hc, .wild c id hw hb⟩⟩
  | _, _, _, .cmp c op sp c1 e c' id hop he, hc =>
    ⟨exprAt_ok (cmpOp_ok hc hop) he,
     by intro q hq; simp only [Pat.nodes, List.mem_singleton] at hq; subst hq; exact ⟨c, c', hc, .cmp c op sp c1 e c' id hop he⟩⟩
  | _, _, _, .regex c s1 c1 s2 c2 e c' v sp id h1 h2 he hv, hc =>
    ⟨exprAt_ok (punctAt_ok (punctAt_ok hc h1) h2) he,
     by intro q hq; simp only [Pat.nodes, List.mem_singleton] at hq; subst hq; exact ⟨c, c', hc, .regex c s1 c1 s2 c2 e c' v sp id h1 h2 he hv⟩⟩
  | _, _, _, .like c s1 c1 s2 c2 e c' id h1 h2 he hv, hc =>
    ⟨exprAt_ok (punctAt_ok (punctAt_ok hc h1) h2) he,
     by intro q hq; simp only [Pat.nodes, List.mem_singleton] at hq; subst hq; exact ⟨c, c', hc, .like c s1 c1 s2 c2 e c' id h1 h2 he hv⟩⟩
  | _, _, _, .set c hs c1 so sc ic c' elems rest ie id hp hg hS hend, hc =>
    have hgo := curOk_group (punctAt_ok hc hp) hg
    ⟨hgo.2, by
      intro q hq
      simp only [Pat.nodes, List.mem_cons] at hq
      rcases hq with hq | hq
      · subst hq; exact ⟨c, c', hc, .set c hs c1 so sc ic c' elems rest ie id hp hg hS hend⟩
      · exact (sub_set hS hgo.1).2 q hq⟩
  | _, _, _, .map c hs c1 so sc ic c' entries rest ie id hp hg hE hend, hc =>
    have hgo := curOk_group (punctAt_ok hc hp) hg
    ⟨hgo.2, by
      intro q hq
      simp only [Pat.nodes, List.mem_cons] at hq
      rcases hq with hq | hq
      · subst hq; exact ⟨c, c', hc, .map c hs c1 so sc ic c' entries rest ie id hp hg hE hend⟩
      · exact (sub_entries hE hgo.1).2 q hq⟩
  | _, _, _, .slice c so sc ic c' elems ie id hg hL hend, hc =>
    have hgo := curOk_group hc hg
    ⟨hgo.2, by
      intro q hq
      simp only [Pat.nodes, List.mem_cons] at hq
      rcases hq with hq | hq
      · subst hq; exact ⟨c, c', hc, .slice c so sc ic c' elems ie id hg hL hend⟩
      · exact (sub_list hL hgo.1).2 q hq⟩
  | _, _, _, .tuple c so sc ic c' elems ie id hg hL hend, hc =>
    have hgo := curOk_group hc hg
    ⟨hgo.2, by
      intro q hq
      simp only [Pat.nodes, List.mem_cons] at hq
      rcases hq with hq | hq
      · subst hq; exact ⟨c, c', hc, .tuple c so sc ic c' elems ie id hg hL hend⟩
      · exact (sub_elems hL hgo.1).2 q hq⟩
  | _, _, _, .struct c path c1 so sc ic c' fields rest ie id hns hpa hg hF hend, hc =>
    have hgo := curOk_group (pathAt_ok hc hpa) hg
    ⟨hgo.2, by
      intro q hq
      simp only [Pat.nodes, List.mem_cons] at hq
      rcases hq with hq | hq
      · subst hq; exact ⟨c, c', hc, .struct c path c1 so sc ic c' fields rest ie id hns hpa hg hF hend⟩
      · exact (sub_fields hF hgo.1).2 q hq⟩
  | _, _, _, .wildStruct c so sc ic c' fields ie id hw hg hF hend, hc =>
    have hgo := curOk_group (curOk_advance hc 1) hg
    ⟨hgo.2, by
      intro q hq
      simp only [Pat.nodes, List.mem_cons] at hq
      rcases hq with hq | hq
      · subst hq; exact ⟨c, c', hc, .wildStruct c so sc ic c' fields ie id hw hg hF hend⟩
      · exact (sub_fields hF hgo.1).2 q hq⟩
  | _, _, _, .unit c path c' id hns hpa hb hp, hc =>
    ⟨pathAt_ok hc hpa, by
      intro q hq
      simp only [Pat.nodes, Items.nodes, List.mem_cons, List.not_mem_nil, or_false] at hq
      subst hq; exact ⟨c, c', hc, .unit c path c' id hns hpa hb hp⟩⟩
  | _, _, _, .variant c path c1 so sc ic c' elems ie id hns hpa hg hL hend, hc =>
    have hgo := curOk_group (pathAt_ok hc hpa) hg
    ⟨hgo.2, by
      intro q hq
      simp only [Pat.nodes, List.mem_cons] at hq
      rcases hq with hq | hq
      · subst hq; exact ⟨c, c', hc, .variant c path c1 so sc ic c' elems ie id hns hpa hg hL hend⟩
      · exact (sub_elems hL hgo.1).2 q hq⟩
  | _, _, _, .range c e c' id hns hnp he hr, hc =>
    ⟨exprAt_ok hc he, by intro q hq; simp only [Pat.nodes, List.mem_singleton] at hq; subst hq; exact ⟨c, c', hc, .range c e c' id hns hnp he hr⟩⟩
  | _, _, _, .string c text sp value rest id hns hnp hnr hr, hc =>
    ⟨curOk_advance hc 1, by intro q hq; simp only [Pat.nodes, List.mem_singleton] at hq; subst hq; exact ⟨c, _, hc, .string c text sp value rest id hns hnp hnr hr⟩⟩
  | _, _, _, .simple c e c' id hns hnp he hnr hnl, hc =>
    ⟨exprAt_ok hc he, by intro q hq; simp only [Pat.nodes, List.mem_singleton] at hq; subst hq; exact ⟨c, c', hc, .simple c e c' id hns hnp he hnr hnl⟩⟩
theorem sub_fields {ts : List TT} {o : Oracle} : ∀ {c : Cur} {items : Items} {r : Bool} {c' : Cur}, GFields o c items r c' → CurOk ts c →
    CurOk ts c' ∧ ∀ q ∈ items.nodes, Derived ts o q
  | _, _, _, _, .nil _, hc => ⟨hc, by intro q hq; simp [Items.nodes] at hq⟩
  | _, _, _, _, .rest _ _ _ hp, hc => ⟨punct2At_ok hc hp, by intro q hq; simp [Items.nodes] at hq⟩
  | _, _, _, _, .last _ ops c1 _ c2 p _ hops hcol hp, hc =>
    have h := sub_pat hp (punctAt_ok (fieldOps_ok hc hops) hcol)
    ⟨h.1, by intro q hq; simp only [Items.nodes, List.append_nil] at hq; exact h.2 q hq⟩
  | _, _, _, _, .cons _ ops c1 _ c2 p c3 _ c4 tl _ _ hops hcol hp hcom htl, hc =>
    have h := sub_pat hp (punctAt_ok (fieldOps_ok hc hops) hcol)
    have ht := sub_fields htl (punctAt_ok h.1 hcom)
    ⟨ht.1, by
      intro q hq
      simp only [Items.nodes, List.mem_append] at hq
      rcases hq with hq | hq
      · exact h.2 q hq
      · exact ht.2 q hq⟩
theorem sub_elems {ts : List TT} {o : Oracle} : ∀ {c : Cur} {pos : Nat} {items : Items} {c' : Cur}, GElems o c pos items c' → CurOk ts c →
    CurOk ts c' ∧ ∀ q ∈ items.nodes, Derived ts o q
  | _, _, _, _, .nil _ _, hc => ⟨hc, by intro q hq; simp [Items.nodes] at hq⟩
  | _, _, _, _, .lastPos _ _ p _ hp, hc =>
    have h := sub_pat hp hc
    ⟨h.1, by intro q hq; simp only [Items.nodes, List.append_nil] at hq; exact h.2 q hq⟩
  | _, _, _, _, .lastIdx _ _ ops c1 _ c2 p _ hops _ hcol hp, hc =>
    have h := sub_pat hp (punctAt_ok (fieldOps_ok hc hops) hcol)
    ⟨h.1, by intro q hq; simp only [Items.nodes, List.append_nil] at hq; exact h.2 q hq⟩
  | _, _, _, _, .consPos _ _ p c1 _ c2 tl _ hp hcom htl, hc =>
    have h := sub_pat hp hc
    have ht := sub_elems htl (punctAt_ok h.1 hcom)
    ⟨ht.1, by
      intro q hq
      simp only [Items.nodes, List.mem_append] at hq
      rcases hq with hq | hq
      · exact h.2 q hq
      · exact ht.2 q hq⟩
  | _, _, _, _, .consIdx _ _ ops c1 _ c2 p c3 _ c4 tl _ hops _ hcol hp hcom htl, hc =>
    have h := sub_pat hp (punctAt_ok (fieldOps_ok hc hops) hcol)
    have ht := sub_elems htl (punctAt_ok h.1 hcom)
    ⟨ht.1, by
      intro q hq
      simp only [Items.nodes, List.mem_append] at hq
      rcases hq with hq | hq
      · exact h.2 q hq
      · exact ht.2 q hq⟩
theorem sub_list {ts : List TT} {o : Oracle} : ∀ {c : Cur} {items : Items} {c' : Cur}, GList o c items c' → CurOk ts c →
    CurOk ts c' ∧ ∀ q ∈ items.nodes, Derived ts o q
  | _, _, _, .nil _, hc => ⟨hc, by intro q hq; simp [Items.nodes] at hq⟩
  | _, _, _, .last _ p _ hp, hc =>
    have h := sub_pat hp hc
    ⟨h.1, by intro q hq; simp only [Items.nodes, List.append_nil] at hq; exact h.2 q hq⟩
  | _, _, _, .cons _ p c1 _ c2 tl _ hp hcom htl, hc =>
    have h := sub_pat hp hc
    have ht := sub_list htl (punctAt_ok h.1 hcom)
    ⟨ht.1, by
      intro q hq
      simp only [Items.nodes, List.mem_append] at hq
      rcases hq with hq | hq
      · exact h.2 q hq
      · exact ht.2 q hq⟩
theorem sub_set {ts : List TT} {o : Oracle} : ∀ {c : Cur} {items : Items} {r : Bool} {c' : Cur}, GSet o c items r c' → CurOk ts c →
    CurOk ts c' ∧ ∀ q ∈ items.nodes, Derived ts o q
  | _, _, _, _, .nil _, hc => ⟨hc, by intro q hq; simp [Items.nodes] at hq⟩
  | _, _, _, _, .rest _ _ _ hp, hc => ⟨punct2At_ok hc hp, by intro q hq; simp [Items.nodes] at hq⟩
  | _, _, _, _, .restComma _ _ c1 _ _ hp hcom, hc =>
    ⟨punctAt_ok (punct2At_ok hc hp) hcom, by intro q hq; simp [Items.nodes] at hq⟩
  | _, _, _, _, .last _ p _ _ hp, hc =>
    have h := sub_pat hp hc
    ⟨h.1, by intro q hq; simp only [Items.nodes, List.append_nil] at hq; exact h.2 q hq⟩
  | _, _, _, _, .lastRest _ p c1 _ c2 _ _ _ hp hcom hdd, hc =>
    have h := sub_pat hp hc
    ⟨punct2At_ok (punctAt_ok h.1 hcom) hdd, by intro q hq; simp only [Items.nodes, List.append_nil] at hq; exact h.2 q hq⟩
  | _, _, _, _, .cons _ p c1 _ c2 tl _ _ _ hp hcom htl, hc =>
    have h := sub_pat hp hc
    have ht := sub_setTail htl (punctAt_ok h.1 hcom)
    ⟨ht.1, by
      intro q hq
      simp only [Items.nodes, List.mem_append] at hq
      rcases hq with hq | hq
      · exact h.2 q hq
      · exact ht.2 q hq⟩
theorem sub_setTail {ts : List TT} {o : Oracle} : ∀ {c : Cur} {items : Items} {r : Bool} {c' : Cur}, GSetTail o c items r c' → CurOk ts c →
    CurOk ts c' ∧ ∀ q ∈ items.nodes, Derived ts o q
  | _, _, _, _, .nil _, hc => ⟨hc, by intro q hq; simp [Items.nodes] at hq⟩
  | _, _, _, _, .last _ p _ _ hp, hc =>
    have h := sub_pat hp hc
    ⟨h.1, by intro q hq; simp only [Items.nodes, List.append_nil] at hq; exact h.2 q hq⟩
  | _, _, _, _, .lastRest _ p c1 _ c2 _ _ _ hp hcom hdd, hc =>
    have h := sub_pat hp hc
    ⟨punct2At_ok (punctAt_ok h.1 hcom) hdd, by intro q hq; simp only [Items.nodes, List.append_nil] at hq; exact h.2 q hq⟩
  | _, _, _, _, .cons _ p c1 _ c2 tl _ _ _ hp hcom htl, hc =>
    have h := sub_pat hp hc
    have ht := sub_setTail htl (punctAt_ok h.1 hcom)
    ⟨ht.1, by
      intro q hq
      simp only [Items.nodes, List.mem_append] at hq
      rcases hq with hq | hq
      · exact h.2 q hq
      · exact ht.2 q hq⟩
theorem sub_entries {ts : List TT} {o : Oracle} : ∀ {c : Cur} {items : Items} {r : Bool} {c' : Cur}, GEntries o c items r c' → CurOk ts c →
    CurOk ts c' ∧ ∀ q ∈ items.nodes, Derived ts o q
  | _, _, _, _, .nil _, hc => ⟨hc, by intro q hq; simp [Items.nodes] at hq⟩
  | _, _, _, _, .rest _ _ _ hp, hc => ⟨punct2At_ok hc hp, by intro q hq; simp [Items.nodes] at hq⟩
  | _, _, _, _, .last _ key c1 _ c2 p _ _ hk hcol hp, hc =>
    have h := sub_pat hp (punctAt_ok (exprAt_ok hc hk) hcol)
    ⟨h.1, by intro q hq; simp only [Items.nodes, List.append_nil] at hq; exact h.2 q hq⟩
  | _, _, _, _, .cons _ key c1 _ c2 p c3 _ c4 tl _ _ _ hk hcol hp hcom htl, hc =>
    have h := sub_pat hp (punctAt_ok (exprAt_ok hc hk) hcol)
    have ht := sub_entries htl (punctAt_ok h.1 hcom)
    ⟨ht.1, by
      intro q hq
      simp only [Items.nodes, List.mem_append] at hq
      rcases hq with hq | hq
      · exact h.2 q hq
      · exact ht.2 q hq⟩
end

/-- **C04, anchor selection**: for every invocation the parser accepts, every sub-pattern's
recorded location is anchored on that sub-pattern's own tokens (`Anchored`), given that `syn`
reports spans from first to last token and group tokens span their delimiters - both
evaluated on every input by the driver. -/
theorem C04_every_node_anchored (o : Oracle) (ts : List TT) (fuel prev : Nat) (v : UExpr) (p : Pat) (n : Nat)
    (hts : tokensWf ts = true) (ho : oracleSpansOk ts o = true)
    (h : parseAssert o ts fuel prev = .accept v p n) :
    ∀ q ∈ p.nodes, ∃ cq cq', CurOk ts cq ∧ GPat o cq q cq' ∧ Anchored cq q cq' := by
  obtain ⟨c1, sp, c2, c3, h1, h2, h3, _⟩ := C15_accepted_in_grammar o ts fuel prev v p n h
  have hc0 : CurOk ts ⟨[], ts.length, ts, Sp.callSite⟩ := ⟨ts, [], rfl, rfl, rfl⟩
  have hc2 : CurOk ts c2 := punctAt_ok (exprAt_ok hc0 h1) h2
  intro q hq
  obtain ⟨cq, cq', hcq, hg⟩ := (sub_pat h3 hc2).2 q hq
  exact ⟨cq, cq', hcq, hg, anchored_of_derivation hts ho hcq hg⟩

/-! ## Without `Span::join` (a real compiler session on stable)

`Pat.noJoin` is the pattern as the macro sees it under rustc: a multi-token expression reports
the span of its first token, a set pattern the span of `#`.  What T3 compares the reported
positions with is `p.noJoin`; here its locations are anchored on the same token runs. -/

def AnchoredNJ (c : Cur) (p : Pat) : Prop :=
  match p with
  | .simple .. | .closure .. =>
    -- the first token of the pattern
    ∃ t rest, c.rest = t :: rest ∧ p.noJoin.location = t.span
  | .like .. =>
    -- the first token of the expression after `=~`
    ∃ a b t rest, c.rest = a :: b :: t :: rest ∧ p.noJoin.location = t.span
  | .cmp _ _ sp _ =>
    -- from the operator to the end of the operand's first token
    ∃ a k t, c.rest.head? = some a ∧ sp.sameStart a.span = true ∧ (k = 1 ∨ k = 2) ∧ c.rest[k]? = some t ∧
      p.noJoin.location = ⟨sp.ls, sp.cs, t.span.le, t.span.ce⟩
  | .set .. =>
    -- the `#`
    ∃ j hs rest, c.rest = .punct '#' j hs :: rest ∧ p.noJoin.location = hs
  | .range .. => True           -- operands keep their own spans; validated on compiled programs (T3)
  | .struct .. | .enum .. | .tuple .. | .slice .. | .map .. | .string .. | .regex .. | .wild .. =>
    -- no `join` involved: as in `Anchored`
    p.noJoin.location = p.location

theorem firstTok_location {e : UExpr} {l : List TT} {n : Nat} (hn : 1 ≤ n) (h : firstTokOk e (l.take n) = true) :
    ∃ t rest, l = t :: rest ∧ e.noJoin.sp = t.span := by
  unfold firstTokOk at h
  cases l with
  | nil => simp at h
  | cons t rest =>
    cases ht : e.toks with
    | nil => simp [ht] at h
    | cons t0 ts =>
      have hh : ((t :: rest).take n).head? = some t := by
        cases n with
        | zero => omega
        | succ m => simp
      simp only [ht, hh, List.head?_cons, beq_iff_eq] at h
      exact ⟨t, rest, rfl, by simp [UExpr.noJoin, ht, h]⟩

theorem UPath.noJoin_first (p : UPath) : p.noJoin.first = p.first := by
  unfold UPath.noJoin; split <;> rfl

theorem UPath.noJoin_last (p : UPath) : p.noJoin.last = p.last := by
  unfold UPath.noJoin; split <;> rfl

theorem anchoredNJ_of_derivation {ts : List TT} {o : Oracle} {c c' : Cur} {p : Pat}
    (hts : tokensWf ts = true) (ho : oracleSpansOk ts o = true) (hc : CurOk ts c) (hg : GPat o c p c') :
    AnchoredNJ c p := by
  cases hg with
  | closure _ id e _ _ hcl hcls =>
    obtain ⟨n, h1, h2, h3, _, h5⟩ := closureAt_spans hc ho hcl
    obtain ⟨t, rest, hr, hsp⟩ := firstTok_location h1 h5
    exact ⟨t, rest, hr, by simp [Pat.noJoin, Pat.location, hsp]⟩
  | wild => rfl
  | cmp _ op sp c1 e _ id hop he =>
    have key : ∀ j, (j = 1 ∨ j = 2) → j ≤ c.rest.length → c1 = c.advance j →
        (∃ a, c.rest.head? = some a ∧ sp.sameStart a.span = true) → AnchoredNJ c (.cmp id op sp e) := by
      intro j hj hjl hc1 ⟨a, ha, hsa⟩
      have hc1ok : CurOk ts c1 := hc1 ▸ curOk_advance hc j
      obtain ⟨n, h1, h2, h3, h4⟩ := exprAt_spans hc1ok ho he
      unfold exprSpansOk at h4
      simp only [Bool.and_eq_true] at h4
      obtain ⟨t, rest, hr, hsp⟩ := firstTok_location h1 h4.1.2
      refine ⟨a, j, t, ha, hsa, hj, ?_, ?_⟩
      · rw [hc1] at hr
        simp only [Cur.advance] at hr
        have : c.rest[j]? = (c.rest.drop j)[0]? := by simp
        rw [this, hr]; rfl
      · simp [Pat.noJoin, Pat.location, hsp]
    cases hop with
    | lt _ _ hp | gt _ _ hp =>
      obtain ⟨j, rest, hr, hc1⟩ := hp
      exact key 1 (Or.inl rfl) (by rw [hr]; simp) hc1 ⟨_, by rw [hr]; rfl, by simp [TT.span, Sp.sameStart]⟩
    | le _ _ hp | ge _ _ hp | eq _ _ hp | ne _ _ hp =>
      obtain ⟨s1, j, s2, rest, hr, hsp, hc1⟩ := hp
      exact key 2 (Or.inr rfl) (by rw [hr]; simp) hc1 ⟨_, by rw [hr]; rfl, by rw [hsp]; simp [TT.span, Sp.sameStart]⟩
  | regex => rfl
  | like _ s1 c1 s2 c2 e _ id h1 h2 he hv =>
    obtain ⟨j1, r1, hr1, hc1⟩ := h1
    obtain ⟨j2, r2, hr2, hc2⟩ := h2
    have hc2' : c2 = c.advance 2 := by rw [hc2, hc1, advance_advance]
    have hc2ok : CurOk ts c2 := hc2' ▸ curOk_advance hc 2
    obtain ⟨n, g1, g2, g3, g4⟩ := exprAt_spans hc2ok ho he
    unfold exprSpansOk at g4
    simp only [Bool.and_eq_true] at g4
    obtain ⟨t, rest, hr, hsp⟩ := firstTok_location g1 g4.1.2
    have hr2' : c1.rest = r1 := by rw [hc1]; simp [Cur.advance, hr1]
    rw [hr2'] at hr2
    have hr3 : c2.rest = r2 := by rw [hc2]; simp [Cur.advance, hr2', hr2]
    rw [hr3] at hr
    refine ⟨.punct '=' j1 s1, .punct '~' j2 s2, t, rest, ?_, by simp [Pat.noJoin, Pat.location, hsp]⟩
    rw [hr1, hr2, hr]
  | set _ hs c1 so sc ic _ elems rest ie id hp hgr _ _ =>
    obtain ⟨j, r1, hr1, hc1⟩ := hp
    have hwf := wf_at_cursor hts hc (.punct '#' j hs) (by rw [hr1]; simp)
    unfold TT.wf at hwf
    simp only [Bool.and_eq_true, beq_iff_eq] at hwf
    refine ⟨j, hs, r1, hr1, ?_⟩
    simp only [Pat.noJoin, Pat.location]
    cases hs with
    | mk a b c' d =>
      simp only at hwf
      simp [hwf.1, hwf.2]
  | map => rfl
  | slice => rfl
  | tuple => rfl
  | struct => simp [AnchoredNJ, Pat.noJoin, Pat.location, UPath.noJoin_first, UPath.noJoin_last]
  | wildStruct => rfl
  | unit => simp [AnchoredNJ, Pat.noJoin, Pat.location, UPath.noJoin_first, UPath.noJoin_last]
  | variant => simp [AnchoredNJ, Pat.noJoin, Pat.location, UPath.noJoin_first, UPath.noJoin_last]
  | range => trivial
  | string => rfl
  | simple _ e _ id _ _ he _ _ =>
    obtain ⟨n, g1, g2, g3, g4⟩ := exprAt_spans hc ho he
    unfold exprSpansOk at g4
    simp only [Bool.and_eq_true] at g4
    obtain ⟨t, rest, hr, hsp⟩ := firstTok_location g1 g4.1.2
    exact ⟨t, rest, hr, by simp [Pat.noJoin, Pat.location, hsp]⟩

/-- **C04, anchor selection under rustc**: for every accepted invocation, every sub-pattern's
location *as recorded without `Span::join`* sits on the first token(s) of the sub-pattern's own
run (`AnchoredNJ`), or is the location `C04_every_node_anchored` speaks about. -/
theorem C04_every_node_anchored_noJoin (o : Oracle) (ts : List TT) (fuel prev : Nat) (v : UExpr) (p : Pat) (n : Nat)
    (hts : tokensWf ts = true) (ho : oracleSpansOk ts o = true)
    (h : parseAssert o ts fuel prev = .accept v p n) :
    ∀ q ∈ p.nodes, ∃ cq cq', CurOk ts cq ∧ GPat o cq q cq' ∧ AnchoredNJ cq q := by
  intro q hq
  obtain ⟨cq, cq', hcq, hg, _⟩ := C04_every_node_anchored o ts fuel prev v p n hts ho h q hq
  exact ⟨cq, cq', hcq, hg, anchoredNJ_of_derivation hts ho hcq hg⟩

mutual
/-- The sub-patterns of the join-free pattern are the join-free sub-patterns. -/
theorem nodes_noJoin : ∀ p : Pat, p.noJoin.nodes = p.nodes.map Pat.noJoin
  | .struct id path items rest => by simp [Pat.noJoin, Pat.nodes, items_nodes_noJoin items]
  | .enum id path items => by simp [Pat.noJoin, Pat.nodes, items_nodes_noJoin items]
  | .tuple id sp items => by simp [Pat.noJoin, Pat.nodes, items_nodes_noJoin items]
  | .slice id sp items => by simp [Pat.noJoin, Pat.nodes, items_nodes_noJoin items]
  | .set id sp items rest => by simp [Pat.noJoin, Pat.nodes, items_nodes_noJoin items]
  | .map id sp items rest => by simp [Pat.noJoin, Pat.nodes, items_nodes_noJoin items]
  | .simple .. | .string .. | .cmp .. | .range .. | .regex .. | .like .. | .wild .. | .closure .. => by
    simp [Pat.noJoin, Pat.nodes]
theorem items_nodes_noJoin : ∀ items : Items, items.noJoin.nodes = items.nodes.map Pat.noJoin
  | .nil => rfl
  | .cons o k p tl => by
    simp [Items.noJoin, Items.nodes, nodes_noJoin p, items_nodes_noJoin tl]
end

end AsModel
