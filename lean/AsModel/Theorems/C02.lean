import AsModel.Theorems.C01
/-!
# C02 — a matching value never fails the assertion
-/
namespace AsModel

/-- **C02 (completeness).** If the (pattern, value) pair type-checks and the value satisfies
the pattern, the assertion pushes nothing. -/
theorem C02_complete (P : Prims) (p : Pat) (v : Val) (hs : p.safe = true)
    (hty : (frontier P p v).isSome = true) (hsat : sat P p v = true) :
    run P (expand p) v = some [] := by
  rw [run_eq_frontier P p v hs]
  have h := frontier_agree P p v
  cases hf : frontier P p v with
  | none => simp [hf] at hty
  | some es =>
    rw [hf] at h
    rw [h.2 hsat]

/-- `_` places no constraint at all. -/
theorem C02_wildcard_unconstrained (P : Prims) (id : Nat) (v : Val) :
    run P (expand (.wild id)) v = some [] := by
  rw [run_eq_frontier P _ v rfl]; rfl

/-- `#{..}` places no constraint at all. -/
theorem C02_empty_map_rest (P : Prims) (id : Nat) (sp : Sp) (v : Val) :
    sat P (.map id sp .nil true) v = true := by
  unfold sat
  cases v.autoDeref <;> simp [satEntries, Items.length]

/-- `#(..)` places no constraint at all (on a collection). -/
theorem C02_empty_set_rest (P : Prims) (id : Nat) (sp : Sp) (v : Val) (vs : List Val)
    (hv : v.elems? = some vs) : sat P (.set id sp .nil true) v = true := by
  simp [sat, hv, Runtime.setMatch, Items.length, Runtime.setBacktrack]

/-- Fields omitted under `..` place no constraint: the verdict of a struct pattern with `..`
depends only on the listed fields. -/
theorem C02_struct_rest (P : Prims) (id : Nat) (path : UPath) (fields : Items) (ctor : String)
    (names : List String) (vals : List Val) (hc : P.ctor path ctor = true) :
    sat P (.struct id (some path) fields true) (.adt ctor names vals) =
      satFields P fields (.adt ctor names vals) := by
  simp [sat, hc]

/-- Listing two fields in the other order does not change the verdict. -/
theorem C02_field_order_irrelevant (P : Prims) (o1 o2 : Option FieldOps) (k1 k2 : Option UExpr)
    (p1 p2 : Pat) (tl : Items) (v : Val) :
    satFields P (.cons o1 k1 p1 (.cons o2 k2 p2 tl)) v =
      satFields P (.cons o2 k2 p2 (.cons o1 k1 p1 tl)) v := by
  simp only [satFields]
  rw [← Bool.and_assoc, ← Bool.and_assoc]
  congr 1
  exact Bool.and_comm _ _

/-- Repeating a field assertion does not change the verdict. -/
theorem C02_field_repeat_irrelevant (P : Prims) (o : Option FieldOps) (k : Option UExpr)
    (p : Pat) (tl : Items) (v : Val) :
    satFields P (.cons o k p (.cons o k p tl)) v = satFields P (.cons o k p tl) v := by
  simp only [satFields]
  rw [← Bool.and_assoc, Bool.and_self]

/-- A rest element in a slice matches any number of elements, including none:
`[.., a]` is satisfied by any non-empty sequence whose last element satisfies `a`. -/
theorem C02_slice_rest_then_last (P : Prims) (id rid : Nat) (sp : Sp) (rest : UExpr) (a : Pat)
    (hrest : (Pat.range rid rest).isSliceRest = true) (ha : a.isSliceRest = false)
    (vs : List Val) (x : Val) :
    sat P (.slice id sp (.cons none none (.range rid rest) (.cons none none a .nil))) (.seq (vs ++ [x]))
      = sat P a x := by
  simp [sat, Val.autoDeref, Items.countRest, hrest, ha, Items.length, satSlice]

end AsModel
