import AsModel.Proofs.ParseTerm
import AsModel.Theorems.C13Parse
/-!
# C13 — the front end terminates (the third outcome of `C13_front_end_total` cannot occur)

`C13_no_out_of_fuel`: with a budget of `2 * tokens + 8` (tokens counted with the content of
groups; the driver uses `2 * tokens + 16`) the parser model never runs out of fuel, for every
token stream and every oracle — including oracles that claim zero-token expressions.  Together
with `C13_front_end_total`: every invocation is rejected or accepted with a pattern on which the
code generator reaches no panic site.
-/
namespace AsModel

local notation "mu" => ttCount

/-- The cursor has not moved backwards (no more tokens remain than before). -/
def Le (c : Cur) {α : Type} : α → Cur → PSt → Prop := fun _ c' _ => mu c'.rest ≤ mu c.rest
def Any {α : Type} : α → Cur → PSt → Prop := fun _ _ _ => True

theorem term_any {α} {p : P α} {c : Cur} {s : PSt} {Q : α → Cur → PSt → Prop} (h : p.term c s Q) : p.term c s Any :=
  term_weaken _ _ _ _ _ h (fun _ _ _ _ => trivial)

theorem term_parseArgs (o : Oracle) : ∀ (fuel : Nat) (acc : List UExpr) (c : Cur) (s : PSt), mu c.rest + 1 ≤ fuel →
    (parseArgs o fuel acc).term c s Any
  | 0, _, _, _, h => by omega
  | fuel + 1, acc, c, s, h => by
    unfold parseArgs
    apply term_getCur
    apply term_ite
    · intro _; exact term_pure _ _ _ _ trivial
    · intro _
      refine term_bind _ _ _ _ _ _ (term_oracleExpr o c s) ?_
      intro e c1 s1 h1
      apply term_getCur
      apply term_ite
      · intro _
        refine term_bind _ _ _ _ _ _ (term_punct1 ',' c1 s1) ?_
        intro _ c2 s2 h2
        exact term_parseArgs o fuel _ c2 s2 (by omega)
      · intro _; exact term_pure _ _ _ _ trivial

/-- One postfix operation: never out of fuel with `fuel ≥ tokens`, and strictly consumes. -/
theorem term_parseOneOp (o : Oracle) (fuel : Nat) (c : Cur) (s : PSt) (h : mu c.rest ≤ fuel) :
    (parseOneOp o fuel).term c s (fun _ c' _ => mu c'.rest + 1 ≤ mu c.rest) := by
  unfold parseOneOp
  apply term_getCur
  apply term_ite
  · intro _
    refine term_bind _ _ _ _ _ _ (term_punct1 '.' c s) ?_
    intro dot c1 s1 h1
    apply term_getCur
    split
    · apply term_advance; apply term_pure; have := mu_advance_le c1 1; omega
    · split
      · apply term_advance; apply term_pure; have := mu_advance_le c1 1; omega
      · exact term_fail _ _ _
    · split
      · split
        · apply term_ite
          · intro _; apply term_advance; apply term_pure; have := mu_advance_le c1 1; omega
          · intro _; exact term_fail _ _ _
        · exact term_fail _ _ _
      · exact term_fail _ _ _
    · refine term_bind _ _ _ _ _ _ (term_anyIdent c1 s1) ?_
      intro name c2 s2 h2
      apply term_getCur
      apply term_ite
      · intro _
        refine term_bind _ _ _ _ _ _ (term_withGroup .paren _ c2 s2 ?_) ?_
        · intro so sc ic hic
          exact term_parseArgs o fuel [] ic s2 (by omega)
        · intro args c3 s3 h3
          apply term_pure; omega
      · intro _; apply term_pure; omega
  · intro _
    apply term_ite
    · intro _
      refine term_withGroup .bracket _ c s ?_
      intro so sc ic hic
      refine term_bind _ _ _ _ _ _ (term_oracleExpr o ic s) ?_
      intro e ie si _
      exact term_pure _ _ _ _ trivial
    · intro _; exact term_fail _ _ _

theorem term_parseOpsLoop (o : Oracle) : ∀ (fuel : Nat) (acc : List FieldOp) (c : Cur) (s : PSt), mu c.rest + 1 ≤ fuel →
    (parseOpsLoop o fuel acc).term c s (Le c)
  | 0, _, _, _, h => by omega
  | fuel + 1, acc, c, s, h => by
    unfold parseOpsLoop
    apply term_getCur
    apply term_ite
    · intro _
      refine term_bind _ _ _ _ _ _ (term_parseOneOp o fuel c s (by omega)) ?_
      intro ops c1 s1 h1
      refine term_weaken _ _ _ _ _ (term_parseOpsLoop o fuel _ c1 s1 (by omega)) ?_
      intro r c' s' h'
      unfold Le at h' ⊢; omega
    · intro _; apply term_pure; unfold Le; omega

theorem term_parseFieldOps (o : Oracle) (fuel : Nat) (c : Cur) (s : PSt) (h : mu c.rest + 1 ≤ fuel) :
    (parseFieldOps o fuel).term c s (Le c) := by
  unfold parseFieldOps
  apply term_getCur
  apply term_advance
  refine term_bind _ _ _ _ _ _ (term_parseFieldName _ s) ?_
  intro name c1 s1 h1
  have h0 := mu_advance_le c (countStars c.rest)
  refine term_bind _ _ _ _ _ _ (term_parseOpsLoop o fuel _ c1 s1 (by omega)) ?_
  intro ops c' s' h'
  apply term_pure
  unfold Le at h' ⊢; omega

theorem term_parseCmpOp (c : Cur) (s : PSt) : parseCmpOp.term c s (Le c) := by
  unfold parseCmpOp
  apply term_getCur
  repeat' (first
    | (apply term_ite <;> intro _)
    | exact term_fail _ _ _
    | (refine term_bind _ _ _ _ _ _ (term_punct2 _ _ c s) ?_; intro sp c' s' h'; apply term_pure; unfold Le; omega)
    | (refine term_bind _ _ _ _ _ _ (term_punct1 _ c s) ?_; intro sp c' s' h'; apply term_pure; unfold Le; omega))

theorem term_parseComparison (o : Oracle) (c : Cur) (s : PSt) : (parseComparison o).term c s (Le c) := by
  unfold parseComparison
  refine term_bind _ _ _ _ _ _ (term_parseCmpOp c s) ?_
  intro ⟨op, sp⟩ c1 s1 h1
  refine term_bind _ _ _ _ _ _ (term_oracleExpr o c1 s1) ?_
  intro e c2 s2 h2
  apply term_nextId; intro s3
  apply term_pure
  unfold Le at h1 ⊢; omega

theorem term_parseStringLit (c : Cur) (s : PSt) : parseStringLit.term c s (Le c) := by
  refine ⟨?_, ?_⟩
  · unfold parseStringLit; split <;> simp
  · intro p c' s' he
    unfold parseStringLit at he
    split at he
    · cases he; exact mu_advance_le c 1
    · cases he

theorem term_structPath (o : Oracle) (c : Cur) (s : PSt) : (structPath o).term c s (Le c) := by
  unfold structPath
  apply term_getCur
  apply term_ite
  · intro _; apply term_advance; apply term_pure; exact mu_advance_le c 1
  · intro _
    refine term_bind _ _ _ _ _ _ (term_oraclePath o c s) ?_
    intro p c' s' h'
    apply term_pure; exact h'

structure AllTerm (o : Oracle) (fuel : Nat) : Prop where
  pattern : ∀ c s, 2 * mu c.rest + 10 ≤ fuel → (parsePattern o fuel).term c s (Le c)
  struct_ : ∀ c s, 2 * mu c.rest + 9 ≤ fuel → (parseStruct o fuel).term c s (Le c)
  fields : ∀ c s, 2 * mu c.rest + 10 ≤ fuel → (parseFields o fuel).term c s Any
  elems : ∀ pos c s, 2 * mu c.rest + 11 ≤ fuel → (parseElems o fuel pos).term c s Any
  list : ∀ c s, 2 * mu c.rest + 11 ≤ fuel → (parseList o fuel).term c s Any
  set : ∀ c s, 2 * mu c.rest + 9 ≤ fuel → (parseSet o fuel).term c s (Le c)
  setElems : ∀ c s, 2 * mu c.rest + 11 ≤ fuel → (parseSetElems o fuel).term c s Any
  map : ∀ c s, 2 * mu c.rest + 9 ≤ fuel → (parseMap o fuel).term c s (Le c)
  entries : ∀ c s, 2 * mu c.rest + 10 ≤ fuel → (parseEntries o fuel).term c s Any

theorem allTerm_zero (o : Oracle) : AllTerm o 0 := by
  constructor <;> intros <;> omega

theorem term_list_step (o : Oracle) (fuel : Nat) (ih : AllTerm o fuel) (c : Cur) (s : PSt)
    (h : 2 * mu c.rest + 11 ≤ fuel + 1) : (parseList o (fuel + 1)).term c s Any := by
  unfold parseList
  apply term_getCur
  apply term_ite
  · intro _; exact term_pure _ _ _ _ trivial
  · intro _
    refine term_bind _ _ _ _ _ _ (ih.pattern c s (by omega)) ?_
    intro p c1 s1 h1
    unfold Le at h1
    apply term_getCur
    apply term_ite
    · intro _; exact term_pure _ _ _ _ trivial
    · intro _
      refine term_bind _ _ _ _ _ _ (term_punct1 ',' c1 s1) ?_
      intro _ c2 s2 h2
      refine term_bind _ _ _ _ _ _ (ih.list c2 s2 (by omega)) ?_
      intro tl c' s' _
      exact term_pure _ _ _ _ trivial

theorem term_fields_step (o : Oracle) (fuel : Nat) (ih : AllTerm o fuel) (c : Cur) (s : PSt)
    (h : 2 * mu c.rest + 10 ≤ fuel + 1) : (parseFields o (fuel + 1)).term c s Any := by
  unfold parseFields
  apply term_getCur
  apply term_ite
  · intro _; exact term_pure _ _ _ _ trivial
  intro _
  apply term_ite
  · intro _
    refine term_bind _ _ _ _ _ _ (term_punct2 '.' '.' c s) ?_
    intro _ c' s' _
    exact term_pure _ _ _ _ trivial
  intro _
  refine term_bind _ _ _ _ _ _ (term_parseFieldOps o fuel c s (by omega)) ?_
  intro ops c1 s1 h1
  unfold Le at h1
  refine term_bind _ _ _ _ _ _ (term_punct1 ':' c1 s1) ?_
  intro _ c2 s2 h2
  refine term_bind _ _ _ _ _ _ (ih.pattern c2 s2 (by omega)) ?_
  intro p c3 s3 h3
  unfold Le at h3
  apply term_getCur
  apply term_ite
  · intro _; exact term_pure _ _ _ _ trivial
  intro _
  refine term_bind _ _ _ _ _ _ (term_punct1 ',' c3 s3) ?_
  intro _ c4 s4 h4
  apply term_getCur
  apply term_ite
  · intro _
    refine term_bind _ _ _ _ _ _ (term_punct2 '.' '.' c4 s4) ?_
    intro _ c' s' _
    exact term_pure _ _ _ _ trivial
  · intro _
    refine term_bind _ _ _ _ _ _ (ih.fields c4 s4 (by omega)) ?_
    intro ⟨tl, rest⟩ c' s' _
    exact term_pure _ _ _ _ trivial

theorem term_entries_step (o : Oracle) (fuel : Nat) (ih : AllTerm o fuel) (c : Cur) (s : PSt)
    (h : 2 * mu c.rest + 10 ≤ fuel + 1) : (parseEntries o (fuel + 1)).term c s Any := by
  unfold parseEntries
  apply term_getCur
  apply term_ite
  · intro _; exact term_pure _ _ _ _ trivial
  intro _
  apply term_ite
  · intro _
    refine term_bind _ _ _ _ _ _ (term_punct2 '.' '.' c s) ?_
    intro _ c' s' _
    exact term_pure _ _ _ _ trivial
  intro _
  refine term_bind _ _ _ _ _ _ (term_oracleExpr o c s) ?_
  intro key c1 s1 h1
  refine term_bind _ _ _ _ _ _ (term_punct1 ':' c1 s1) ?_
  intro _ c2 s2 h2
  refine term_bind _ _ _ _ _ _ (ih.pattern c2 s2 (by omega)) ?_
  intro p c3 s3 h3
  unfold Le at h3
  apply term_getCur
  apply term_ite
  · intro _; exact term_pure _ _ _ _ trivial
  intro _
  refine term_bind _ _ _ _ _ _ (term_punct1 ',' c3 s3) ?_
  intro _ c4 s4 h4
  apply term_getCur
  apply term_ite
  · intro _
    refine term_bind _ _ _ _ _ _ (term_punct2 '.' '.' c4 s4) ?_
    intro _ c' s' _
    exact term_pure _ _ _ _ trivial
  · intro _
    refine term_bind _ _ _ _ _ _ (ih.entries c4 s4 (by omega)) ?_
    intro ⟨tl, rest⟩ c' s' _
    exact term_pure _ _ _ _ trivial

theorem term_setElems_step (o : Oracle) (fuel : Nat) (ih : AllTerm o fuel) (c : Cur) (s : PSt)
    (h : 2 * mu c.rest + 11 ≤ fuel + 1) : (parseSetElems o (fuel + 1)).term c s Any := by
  unfold parseSetElems
  apply term_getCur
  apply term_ite
  · intro _; exact term_pure _ _ _ _ trivial
  intro _
  apply term_ite
  · intro _
    refine term_bind _ _ _ _ _ _ (term_punct2 '.' '.' c s) ?_
    intro _ c1 s1 _
    apply term_getCur
    apply term_ite
    · intro _
      refine term_bind _ _ _ _ _ _ (term_punct1 ',' c1 s1) ?_
      intro _ c' s' _
      exact term_pure _ _ _ _ trivial
    · intro _; exact term_pure _ _ _ _ trivial
  intro _
  refine term_bind _ _ _ _ _ _ (ih.pattern c s (by omega)) ?_
  intro p c1 s1 h1
  unfold Le at h1
  apply term_getCur
  apply term_ite
  · intro _; exact term_pure _ _ _ _ trivial
  intro _
  refine term_bind _ _ _ _ _ _ (term_punct1 ',' c1 s1) ?_
  intro _ c2 s2 h2
  apply term_getCur
  apply term_ite
  · intro _
    refine term_bind _ _ _ _ _ _ (term_punct2 '.' '.' c2 s2) ?_
    intro _ c' s' _
    exact term_pure _ _ _ _ trivial
  · intro _
    refine term_bind _ _ _ _ _ _ (ih.setElems c2 s2 (by omega)) ?_
    intro ⟨tl, rest⟩ c' s' _
    exact term_pure _ _ _ _ trivial

theorem term_elemHead (pp : P Pat) (pfo : P FieldOps) (pos : Nat) (c : Cur) (s : PSt)
    (hpp : ∀ c' s', mu c'.rest ≤ mu c.rest → pp.term c' s' (Le c'))
    (hpfo : ∀ s', pfo.term c s' (Le c)) : (elemHead pp pfo pos).term c s (Le c) := by
  unfold elemHead
  refine term_bind _ _ _ _ _ _ (term_fork pp c s (term_any (hpp c s (Nat.le_refl _)))) ?_
  intro spec cf sf hcf
  subst cf
  apply term_ite
  · intro _
    refine term_bind _ _ _ _ _ _ (hpp c sf (Nat.le_refl _)) ?_
    intro p c' s' h'
    apply term_pure; exact h'
  · intro _
    refine term_bind _ _ _ _ _ _ (hpfo sf) ?_
    intro ops c1 s1 h1
    unfold Le at h1
    split
    · apply term_ite
      · intro _
        refine term_bind _ _ _ _ _ _ (term_punct1 ':' c1 s1) ?_
        intro _ c2 s2 h2
        refine term_bind _ _ _ _ _ _ (hpp c2 s2 (by omega)) ?_
        intro p c' s' h'
        apply term_pure
        unfold Le at h' ⊢; omega
      · intro _; exact term_fail _ _ _
    · exact term_fail _ _ _

theorem term_elems_step (o : Oracle) (fuel : Nat) (ih : AllTerm o fuel) (pos : Nat) (c : Cur) (s : PSt)
    (h : 2 * mu c.rest + 11 ≤ fuel + 1) : (parseElems o (fuel + 1) pos).term c s Any := by
  unfold parseElems
  apply term_getCur
  apply term_ite
  · intro _; exact term_pure _ _ _ _ trivial
  intro _
  refine term_bind _ _ _ _ _ _
    (term_elemHead _ _ pos c s (fun c' s' hle => ih.pattern c' s' (by omega))
      (fun s' => term_parseFieldOps o fuel c s' (by omega))) ?_
  intro ⟨ops, p⟩ c1 s1 h1
  unfold Le at h1
  apply term_getCur
  apply term_ite
  · intro _; exact term_pure _ _ _ _ trivial
  intro _
  refine term_bind _ _ _ _ _ _ (term_punct1 ',' c1 s1) ?_
  intro _ c2 s2 h2
  refine term_bind _ _ _ _ _ _ (ih.elems (pos + 1) c2 s2 (by omega)) ?_
  intro tl c' s' _
  exact term_pure _ _ _ _ trivial

theorem term_struct_step (o : Oracle) (fuel : Nat) (ih : AllTerm o fuel) (c : Cur) (s : PSt)
    (h : 2 * mu c.rest + 9 ≤ fuel + 1) : (parseStruct o (fuel + 1)).term c s (Le c) := by
  unfold parseStruct
  apply term_nextId; intro s0
  refine term_bind _ _ _ _ _ _ (term_structPath o c s0) ?_
  intro path c1 s1 h1
  unfold Le at h1
  refine term_bind _ _ _ _ _ _ (term_withGroup .brace _ c1 s1 ?_) ?_
  · intro so sc ic hic
    exact ih.fields ic s1 (by omega)
  · intro ⟨fields, rest⟩ c' s' h'
    apply term_ite
    · intro _; exact term_fail _ _ _
    · intro _; apply term_pure; unfold Le; omega

theorem term_set_step (o : Oracle) (fuel : Nat) (ih : AllTerm o fuel) (c : Cur) (s : PSt)
    (h : 2 * mu c.rest + 9 ≤ fuel + 1) : (parseSet o (fuel + 1)).term c s (Le c) := by
  unfold parseSet
  refine term_bind _ _ _ _ _ _ (term_punct1 '#' c s) ?_
  intro hs c1 s1 h1
  refine term_bind _ _ _ _ _ _ (term_withGroup .paren _ c1 s1 ?_) ?_
  · intro so sc ic hic
    refine term_bind _ _ _ _ _ _ (ih.setElems ic s1 (by omega)) ?_
    intro ⟨e, r⟩ ie si _
    exact term_pure _ _ _ _ trivial
  · intro ⟨elems, rest, closeSp⟩ c' s' h'
    apply term_nextId; intro s3
    apply term_pure; unfold Le; omega

theorem term_map_step (o : Oracle) (fuel : Nat) (ih : AllTerm o fuel) (c : Cur) (s : PSt)
    (h : 2 * mu c.rest + 9 ≤ fuel + 1) : (parseMap o (fuel + 1)).term c s (Le c) := by
  unfold parseMap
  refine term_bind _ _ _ _ _ _ (term_punct1 '#' c s) ?_
  intro hs c1 s1 h1
  apply term_getCur
  refine term_bind _ _ _ _ _ _ (term_withGroup .brace _ c1 s1 ?_) ?_
  · intro so sc ic hic
    exact ih.entries ic s1 (by omega)
  · intro ⟨entries, rest⟩ c' s' h'
    apply term_nextId; intro s3
    apply term_pure; unfold Le; omega

theorem term_enumArgs (pe : P Items) (c : Cur) (s : PSt)
    (h : ∀ ic s', mu ic.rest + 1 ≤ mu c.rest → pe.term ic s' Any) : (enumArgs pe).term c s (Le c) := by
  unfold enumArgs
  apply term_getCur
  apply term_ite
  · intro _
    refine term_weaken _ _ _ _ _ (term_withGroup .paren _ c s (fun so sc ic hic => h ic s hic)) ?_
    intro a c' s' h'
    unfold Le; omega
  · intro _; apply term_pure; unfold Le; omega

theorem term_pattern_step (o : Oracle) (fuel : Nat) (ih : AllTerm o fuel) (c : Cur) (s : PSt)
    (h : 2 * mu c.rest + 10 ≤ fuel + 1) : (parsePattern o (fuel + 1)).term c s (Le c) := by
  unfold parsePattern
  apply term_getCur
  dsimp only
  apply term_ite
  · intro _
    refine ⟨?_, ?_⟩
    · split
      · split <;> simp
      · simp
    · intro p c' s' he
      split at he
      · split at he
        · cases he; exact mu_advance_le c _
        · cases he
      · cases he
  intro _
  apply term_ite
  · intro _
    apply term_ite
    · intro _; exact ih.struct_ c s (by omega)
    · intro _
      apply term_advance
      apply term_nextId; intro s1
      apply term_pure; exact mu_advance_le c 1
  intro _
  apply term_ite
  · intro _; exact term_parseComparison o c s
  intro _
  apply term_ite
  · intro _
    apply term_ite
    · intro _; exact term_parseComparison o c s
    intro _
    apply term_ite
    · intro _
      refine term_bind _ _ _ _ _ _ (term_punct1 '=' c s) ?_
      intro _ c1 s1 h1
      refine term_bind _ _ _ _ _ _ (term_punct1 '~' c1 s1) ?_
      intro _ c2 s2 h2
      refine term_bind _ _ _ _ _ _ (term_oracleExpr o c2 s2) ?_
      intro e c3 s3 h3
      apply term_nextId; intro s4
      split
      · apply term_pure; unfold Le; omega
      · apply term_pure; unfold Le; omega
    · intro _; exact term_fail _ _ _
  intro _
  apply term_ite
  · intro _; exact ih.set c s (by omega)
  intro _
  apply term_ite
  · intro _; exact ih.map c s (by omega)
  intro _
  apply term_ite
  · intro _
    refine term_bind _ _ _ _ _ _ (term_withGroup .bracket _ c s (fun so sc ic hic => ih.list ic s (by omega))) ?_
    intro elems c' s' h'
    apply term_nextId; intro s1
    apply term_pure; unfold Le; omega
  intro _
  apply term_ite
  · intro _
    refine term_bind _ _ _ _ _ _ (term_withGroup .paren _ c s (fun so sc ic hic => ih.elems 0 ic s (by omega))) ?_
    intro elems c' s' h'
    apply term_nextId; intro s1
    apply term_pure; unfold Le; omega
  intro _
  split
  · apply term_ite
    · intro _; exact ih.struct_ c s (by omega)
    · intro _
      refine term_bind _ _ _ _ _ _ (term_oraclePath o c s) ?_
      intro path c1 s1 h1
      refine term_bind _ _ _ _ _ _ (term_enumArgs _ c1 s1 (fun ic s' hic => ih.elems 0 ic s' (by omega))) ?_
      intro elems c' s' h'
      unfold Le at h'
      apply term_nextId; intro s2
      apply term_pure; unfold Le; omega
  · split
    · apply term_ite
      · intro _
        apply term_nextId; intro s1
        refine term_bind _ _ _ _ _ _ (term_oracleExpr o c s1) ?_
        intro e c' s' h'
        apply term_nextId; intro s2
        apply term_pure; exact h'
      · intro _
        apply term_ite
        · intro _; exact term_parseStringLit c s
        · intro _
          refine term_bind _ _ _ _ _ _ (term_oracleExpr o c s) ?_
          intro e c' s' h'
          apply term_nextId; intro s2
          apply term_pure; exact h'
    · apply term_ite
      · intro _; exact term_parseStringLit c s
      · intro _; exact term_fail _ _ _

theorem allTerm (o : Oracle) : ∀ fuel, AllTerm o fuel
  | 0 => allTerm_zero o
  | fuel + 1 =>
    have ih := allTerm o fuel
    { pattern := term_pattern_step o fuel ih
      struct_ := term_struct_step o fuel ih
      fields := term_fields_step o fuel ih
      elems := term_elems_step o fuel ih
      list := term_list_step o fuel ih
      set := term_set_step o fuel ih
      setElems := term_setElems_step o fuel ih
      map := term_map_step o fuel ih
      entries := term_entries_step o fuel ih }

/-- **The parser terminates within a linear budget**: with `fuel ≥ 2 * tokens + 8` the outcome
is never `outOfFuel` — for every token stream and every oracle. -/
theorem C13_no_out_of_fuel (o : Oracle) (ts : List TT) (fuel prev : Nat) (h : 2 * ttCount ts + 8 ≤ fuel) :
    parseAssert o ts fuel prev ≠ .outOfFuel := by
  have hterm : (do
      let value ← oracleExpr o
      let _ ← punct1 ','
      let pat ← parsePattern o fuel
      pure (value, pat) : P (UExpr × Pat)).term ⟨[], ts.length, ts, Sp.callSite⟩ ⟨0, false⟩ Any := by
    refine term_bind _ _ _ _ _ _ (term_oracleExpr o _ _) ?_
    intro value c1 s1 h1
    simp only at h1
    refine term_bind _ _ _ _ _ _ (term_punct1 ',' c1 s1) ?_
    intro _ c2 s2 h2
    refine term_bind _ _ _ _ _ _ ((allTerm o fuel).pattern c2 s2 (by omega)) ?_
    intro pat c3 s3 _
    exact term_pure _ _ _ _ trivial
  intro hout
  unfold parseAssert at hout
  simp only at hout
  split at hout
  · split at hout <;> cases hout
  · cases hout
  · rename_i hf
    exact hterm.live hf

/-- **C13, complete**: within the budget every invocation is either rejected or accepted with a
pattern on which the code generator reaches none of its panic sites. -/
theorem C13_front_end_total_terminating (o : Oracle) (ts : List TT) (fuel prev : Nat) (h : 2 * ttCount ts + 8 ≤ fuel) :
    (∃ n, parseAssert o ts fuel prev = .reject n) ∨
    (∃ v p n, parseAssert o ts fuel prev = .accept v p n ∧ p.expandPanics = false) := by
  rcases C13_front_end_total o ts fuel prev with h1 | h2 | h3
  · exact .inl h1
  · exact absurd h2 (C13_no_out_of_fuel o ts fuel prev h)
  · exact .inr h3

end AsModel
