import AsModel.Expand
/-!
# C13 — the macro front-end is total (expansion half)

The parser is tied differentially (T1).  What is proved here is about the code generator:
its panic sites (`root_field_name`'s `panic!` / `expect`, `tail_operations`' `expect`, and
`syn::Index::from`'s assertion) are unreachable for every pattern whose field operations
have the shape the parser produces, which T1 validates on every accepted input.
-/
namespace AsModel

/-- The shape `FieldOperation::parse` produces: optional leading dereference, then a field,
then postfix operations; tuple indices below `u32::MAX`. -/
def FieldOps.parserShaped (o : FieldOps) : Bool :=
  (match o.ops with
    | .deref _ _ :: op :: _ => op.isField
    | op :: _ => op.isField
    | [] => false) &&
  !(o.ops.any FieldOp.indexTooLarge)

mutual
def Pat.parserShaped : Pat → Bool
  | .struct _ path items rest => (path.isSome || rest) && items.parserShaped   -- a wildcard struct `_ { .. }` always ends in `..`
  | .enum _ _ items | .tuple _ _ items | .slice _ _ items | .set _ _ items _
  | .map _ _ items _ => items.parserShaped
  | _ => true
def Items.parserShaped : Items → Bool
  | .nil => true
  | .cons ops _ p tl => (match ops with | some o => o.parserShaped | none => true) && p.parserShaped && tl.parserShaped
end

theorem parserShaped_no_panic (o : FieldOps) (h : o.parserShaped = true) : o.panics = false := by
  unfold FieldOps.parserShaped at h
  simp only [Bool.and_eq_true, Bool.not_eq_eq_eq_not, Bool.not_true] at h
  obtain ⟨hshape, hidx⟩ := h
  unfold FieldOps.panics
  simp only [hidx, Bool.or_false]
  cases hops : o.ops with
  | nil => simp [hops] at hshape
  | cons a rest =>
    cases a with
    | deref c sp =>
      cases rest with
      | nil => simp [hops, FieldOp.isField] at hshape
      | cons b rest2 =>
        simp only [hops] at hshape
        cases b <;> simp_all [FieldOps.rootFieldName?, FieldOps.tailOps?, FieldOp.isField, FieldOp.isDeref,
          FieldOp.fieldName?, List.find?, List.findIdx?, List.findIdx?.go]
    | named n sp =>
      cases rest <;> simp [FieldOps.rootFieldName?, FieldOps.tailOps?, hops, FieldOp.isField, FieldOp.isDeref,
        FieldOp.fieldName?, List.find?, List.findIdx?, List.findIdx?.go]
    | unnamed i sp =>
      cases rest <;> simp [FieldOps.rootFieldName?, FieldOps.tailOps?, hops, FieldOp.isField, FieldOp.isDeref,
        FieldOp.fieldName?, List.find?, List.findIdx?, List.findIdx?.go]
    | method n sp args => simp [hops, FieldOp.isField] at hshape
    | await sp => simp [hops, FieldOp.isField] at hshape
    | index e sp => simp [hops, FieldOp.isField] at hshape

mutual
/-- **The code generator never panics on a pattern the parser can produce.** -/
theorem C13_expand_no_panic : ∀ p : Pat, p.parserShaped = true → p.expandPanics = false
  | .struct _ _ items _, h => by
    simp only [Pat.parserShaped, Bool.and_eq_true] at h
    simp only [Pat.expandPanics]
    exact items_no_panic items h.2
  | .enum _ _ items, h | .tuple _ _ items, h | .slice _ _ items, h
  | .set _ _ items _, h | .map _ _ items _, h => by
    simp only [Pat.parserShaped] at h
    simp only [Pat.expandPanics]
    exact items_no_panic items h
  | .simple .., _ | .string .., _ | .cmp .., _ | .range .., _ | .regex .., _ | .like .., _
  | .wild _, _ | .closure .., _ => rfl
theorem items_no_panic : ∀ items : Items, items.parserShaped = true → items.expandPanics = false
  | .nil, _ => rfl
  | .cons ops key p tl, h => by
    simp only [Items.parserShaped, Bool.and_eq_true] at h
    obtain ⟨⟨ho, hp⟩, ht⟩ := h
    simp only [Items.expandPanics, Bool.or_eq_false_iff]
    refine ⟨⟨?_, C13_expand_no_panic p hp⟩, items_no_panic tl ht⟩
    cases ops with
    | none => rfl
    | some o => exact parserShaped_no_panic o ho
end

end AsModel
