import AsModel.Theorems.Refine
import AsModel.Proofs.Sat
/-!
# C01 — a passing assertion implies the value really matches the pattern

`run P (expand p) v` is the model of the whole expansion executed on the asserted
value `v`; `some []` means "no entry pushed": the assertion returns normally.
`sat` is the documented meaning (`Sat.lean`).  `P` interprets user expressions,
`Debug`, comparison and matchers and is universally quantified.
-/
namespace AsModel

/-- The whole expansion computes the specification's frontier. -/
theorem run_eq_frontier (P : Prims) (p : Pat) (v : Val) (hs : p.safe = true) :
    run P (expand p) v = frontier P p v := by
  unfold run expand
  exact refine P p rootVExpr _ ⟨v, 1⟩ hs (by simp [rootVExpr, evalV_ofCore, evalCore, Name.key])

/-- **C01 (soundness).** If the assertion returns normally, the value satisfies the pattern. -/
theorem C01_sound (P : Prims) (p : Pat) (v : Val) (hs : p.safe = true)
    (hpass : run P (expand p) v = some []) : sat P p v = true := by
  rw [run_eq_frontier P p v hs] at hpass
  have h := frontier_agree P p v
  rw [hpass] at h
  exact h.1 rfl

/-- Documented meaning of the leaf forms, stated outright. -/
theorem C01_cmp_meaning (P : Prims) (id : Nat) (op : Runtime.CmpOp) (sp : Sp) (e : UExpr) (v : Val) :
    sat P (.cmp id op sp e) v = P.cmp op v e := rfl
theorem C01_simple_meaning (P : Prims) (id : Nat) (e : UExpr) (v : Val) :
    sat P (.simple id e) v = P.lit e v := rfl
theorem C01_range_meaning (P : Prims) (id : Nat) (e : UExpr) (v : Val) :
    sat P (.range id e) v = P.inRange e v := rfl
theorem C01_closure_meaning (P : Prims) (id : Nat) (e : UExpr) (v : Val) :
    sat P (.closure id e) v = P.closure e v := rfl
theorem C01_like_meaning (P : Prims) (id : Nat) (e : UExpr) (v : Val) :
    sat P (.like id e) v = P.like e v := rfl

/-- **No leaf is vacuous**: whenever the leaf's own test can be false for some value, the
assertion fails on that value (it is never silently dropped). -/
theorem C01_leaf_can_fail (P : Prims) (id : Nat) (op : Runtime.CmpOp) (sp : Sp) (e : UExpr) (v : Val)
    (h : P.cmp op v e = false) :
    run P (expand (.cmp id op sp e)) v ≠ some [] := by
  rw [run_eq_frontier P _ v rfl]
  simp [frontier, h]

/-- The pinned code's vacuous form, kept as a statement about the interpretation: a path
that resolves to nothing is a fresh binding (`P.unitPath` answers `true` for every value),
so `field: some_identifier` cannot fail.  (Known finding; see DESIGN.md section 9 #1.) -/
theorem C01_binding_path_is_vacuous (P : Prims) (id : Nat) (path : UPath)
    (hbind : ∀ v, P.unitPath path v = true) (v : Val) :
    run P (expand (.enum id path .nil)) v = some [] := by
  rw [run_eq_frontier P _ v rfl]
  simp [frontier, Items.length, hbind]

end AsModel
