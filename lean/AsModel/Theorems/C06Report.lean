import AsModel.Runtime.Report
import AsModel.Theorems.C06
/-!
# The report as a whole (`Runtime/Report.lean`): C06, C17, C18 on `Display for ErrorReport`

The theorems of `C06.lean` are about one span; these are about the report the expansion
builds with `ErrorReport::new` and any sequence of `push`es, and what `Display` hands to
the renderer (or writes itself in the fallback) for every source text - present, absent,
edited since compilation - and every colour setting.
-/
namespace AsModel.Runtime

/-- `push` appends: after any sequence of pushes the report holds exactly those entries, in order. -/
theorem pushes_errors (r : Report) : ∀ es : List ErrCtx,
    (es.foldl (fun r e => r.push e.node e.actual e.expected) r).errors = r.errors ++ es
  | [] => by simp
  | e :: es => by
    simp only [List.foldl_cons]
    rw [pushes_errors (r.push e.node e.actual e.expected) es]
    simp [Report.push]

theorem pushes_relPath (r : Report) : ∀ es : List ErrCtx,
    (es.foldl (fun r e => r.push e.node e.actual e.expected) r).relPath = r.relPath
  | [] => rfl
  | e :: es => by
    simp only [List.foldl_cons]
    rw [pushes_relPath (r.push e.node e.actual e.expected) es]
    rfl

/-- **No entry is dropped, added or reordered** between the pushes of the expansion and what
the renderer is handed: one annotation per entry, in push order, carrying that entry's label. -/
theorem C06_one_annotation_per_entry (r : Report) (src : List Char) :
    (r.annotations src).length = r.errors.length ∧
    (r.annotations src).map (·.label) = r.errors.map ErrCtx.label := by
  simp [Report.annotations, Function.comp_def]

/-- **Every annotation of every report meets the renderer's contract**, whatever the source
text is now (empty, truncated, edited since compilation, non-ASCII) and whatever positions
the nodes recorded. -/
theorem C06_annotations_meet_contract (r : Report) (src : List Char) :
    ∀ a ∈ r.annotations src, rendererOk src a.start a.stop = true := by
  intro a ha
  simp only [Report.annotations, List.mem_map] at ha
  obtain ⟨e, _, rfl⟩ := ha
  exact C06_rendererOk src e.node.ls e.node.cs e.node.le e.node.ce

/-- **A non-empty report always displays something with every entry in it**: the snippet with
one annotation per entry when the source can be read, the listing with one located line per
entry when it cannot. -/
theorem C06_display_total (r : Report) (source : Option (List Char)) (g n t : Bool) (h : r.errors ≠ []) :
    (∃ src, source = some src ∧
        r.display source g n t = .snippet (rendererStyled g n t) r.relPath (r.annotations src)) ∨
    (source = none ∧
        r.display source g n t = .listing (fallbackDisplay r.relPath (r.errors.map fun e => (e.node.ls, e.label)))) := by
  have : r.errors.isEmpty = false := by cases hr : r.errors <;> simp_all
  cases source with
  | some src => exact Or.inl ⟨src, rfl, by simp [Report.display, this]⟩
  | none => exact Or.inr ⟨rfl, by simp [Report.display, this]⟩

/-- The expansion's protocol - `new`, then pushes, then `if !is_empty() { panic!("{}", report) }` -
shows exactly the pushed entries: the report is non-empty iff something was pushed. -/
theorem C06_is_empty_iff_nothing_pushed (m f : String) (es : List ErrCtx) :
    ((es.foldl (fun r e => r.push e.node e.actual e.expected) (Report.new m f)).isEmpty = true) ↔ es = [] := by
  simp [Report.isEmpty, pushes_errors, Report.new]

/-- **C18: the path displayed is the compiler's own relative file string**, in the snippet
header and on every line of the fallback listing, whatever `CARGO_MANIFEST_DIR` was and
however the absolute path was resolved. -/
theorem C18_display_path (m f : String) (es : List ErrCtx) (source : Option (List Char)) (g n t : Bool) :
    let r := es.foldl (fun r e => r.push e.node e.actual e.expected) (Report.new m f)
    (∀ s p as, r.display source g n t = .snippet s p as → p = f) ∧
    (∀ text, r.display source g n t = .listing text →
      text = fallbackDisplay f (r.errors.map fun e => (e.node.ls, e.label))) := by
  intro r
  have hp : r.relPath = f := by simp [r, pushes_relPath, Report.new]
  constructor
  · intro s p as h
    unfold Report.display at h
    split at h
    · simp at h
    · cases source <;> simp at h
      rw [← h.2.1, hp]
  · intro text h
    unfold Report.display at h
    split at h
    · simp at h
    · cases source <;> simp at h
      rw [← h, hp]

/-- **C18: an absolute compiler path is used as it is** (a path dependency outside the workspace). -/
theorem C18_absolute_file (m f : String) (h : f.startsWith "/" = true) : absoluteSourcePath m f = f := by
  simp [absoluteSourcePath, pushPath, h]

/-- **C17: colour escapes only when stderr is a terminal, `NO_COLOR` is unset and no guard is
alive** - on the report as displayed. -/
theorem C17_display_styled_iff (r : Report) (src : List Char) (g n t : Bool) (s : Bool) (p : String)
    (as : List Annotation) (h : r.display (some src) g n t = .snippet s p as) :
    s = true ↔ (g = false ∧ n = false ∧ t = true) := by
  unfold Report.display at h
  split at h
  · simp at h
  · simp at h
    rw [← h.1]
    cases g <;> cases n <;> cases t <;> simp [rendererStyled]

/-- **C17: the plain-text report is a function of the entries, the displayed path and the
source text** - nothing else enters (no working directory, no history): two reports with the
same entries and file string display identically on the same source under the guard. -/
theorem C17_plain_report_determined (r r' : Report) (source : Option (List Char)) (n t n' t' : Bool)
    (he : r.errors = r'.errors) (hp : r.relPath = r'.relPath) :
    r.display source true n t = r'.display source true n' t' := by
  unfold Report.display Report.annotations
  simp [he, hp, rendererStyled]

/-! Non-vacuity: a report with two entries over a two-line source. -/
def exNode (l c : Nat) : PNode := ⟨.simple "1", l, c, l, c + 1⟩
def exReport : Report :=
  ((Report.new "/ws/pkg" "pkg/src/a.rs").push (exNode 1 0) "2" none).push (exNode 2 2) "é" none

example : exReport.display (some "ab\nxyéz".toList) false false true =
    .snippet true "pkg/src/a.rs" [⟨0, 1, "got 2"⟩, ⟨5, 7, "got é"⟩] := by decide
example : exReport.display none false false true =
    .listing "assert_struct! failed:\n  --> pkg/src/a.rs:1\n  got 2\n  --> pkg/src/a.rs:2\n  got é" := by decide

end AsModel.Runtime
