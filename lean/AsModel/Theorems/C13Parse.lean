import AsModel.Proofs.Parse
/-!
# C13 — the macro front-end is total: parser and code generator together

`Parse.lean` models the parser (every `pattern/*.rs` parser and `parse.rs`) as total functions;
a token stream is either accepted with an AST or rejected (`syn::Error` → `compile_error!`).
The panic sites that remain are in the code generator, and `C13_expand_no_panic` shows them
unreachable for `parserShaped` patterns.  Here: **every pattern the parser accepts is
`parserShaped`**, for every token stream and every behaviour of `syn`'s own parsers (the oracle
is universally quantified), so the composition parse-then-expand never reaches a panic site.
-/
namespace AsModel

def shapedP (p : Pat) : Prop := p.parserShaped = true
def shapedI (i : Items) : Prop := i.parserShaped = true
def shapedIB (r : Items × Bool) : Prop := r.1.parserShaped = true

/-- All the parsers of the mutual block, at one fuel level. -/
structure AllShaped (o : Oracle) (fuel : Nat) : Prop where
  pattern : (parsePattern o fuel).sat shapedP
  struct_ : (parseStruct o fuel).sat shapedP
  fields : (parseFields o fuel).sat shapedIB
  elems : ∀ pos, (parseElems o fuel pos).sat shapedI
  list : (parseList o fuel).sat shapedI
  set : (parseSet o fuel).sat shapedP
  setElems : (parseSetElems o fuel).sat shapedIB
  map : (parseMap o fuel).sat shapedP
  entries : (parseEntries o fuel).sat shapedIB

theorem parseStringLit_sat : parseStringLit.sat shapedP := by
  refine ⟨?_⟩
  intro c s a c' s' he
  unfold parseStringLit at he
  split at he
  · cases he; rfl
  · cases he

theorem parseComparison_sat (o : Oracle) : (parseComparison o).sat shapedP := by
  unfold parseComparison
  apply sat_bind'; intro ⟨op, sp⟩
  apply sat_bind'; intro e
  apply sat_bind'; intro id
  apply sat_pure; rfl

theorem cons_shaped {ops : Option FieldOps} {key : Option UExpr} {p : Pat} {tl : Items}
    (ho : ∀ o, ops = some o → o.parserShaped = true) (hp : shapedP p) (ht : shapedI tl) :
    shapedI (.cons ops key p tl) := by
  unfold shapedI Items.parserShaped
  rw [Bool.and_eq_true, Bool.and_eq_true]
  refine ⟨⟨?_, hp⟩, ht⟩
  cases ops with
  | none => rfl
  | some o => exact ho o rfl

theorem allShaped_zero (o : Oracle) : AllShaped o 0 := by
  constructor
  · unfold parsePattern; exact sat_outOfFuel _
  · unfold parseStruct; exact sat_outOfFuel _
  · unfold parseFields; exact sat_outOfFuel _
  · intro pos; unfold parseElems; exact sat_outOfFuel _
  · unfold parseList; exact sat_outOfFuel _
  · unfold parseSet; exact sat_outOfFuel _
  · unfold parseSetElems; exact sat_outOfFuel _
  · unfold parseMap; exact sat_outOfFuel _
  · unfold parseEntries; exact sat_outOfFuel _

theorem list_step (o : Oracle) (fuel : Nat) (ih : AllShaped o fuel) : (parseList o (fuel + 1)).sat shapedI := by
  unfold parseList
  apply sat_bind'; intro c
  apply sat_ite'
  · apply sat_pure; rfl
  · refine sat_bind _ _ shapedP _ ih.pattern ?_
    intro p hp
    apply sat_bind'; intro c1
    apply sat_ite'
    · apply sat_pure; exact cons_shaped (by intro o h; cases h) hp rfl
    · apply sat_bind'; intro _
      refine sat_bind _ _ shapedI _ ih.list ?_
      intro tl ht
      apply sat_pure; exact cons_shaped (by intro o h; cases h) hp ht

theorem fields_step (o : Oracle) (fuel : Nat) (ih : AllShaped o fuel) : (parseFields o (fuel + 1)).sat shapedIB := by
  unfold parseFields
  apply sat_bind'; intro c
  apply sat_ite'
  · apply sat_pure; rfl
  · apply sat_ite'
    · apply sat_bind'; intro _
      apply sat_pure; rfl
    · refine sat_bind _ _ _ _ (parseFieldOps_sat o fuel) ?_
      intro ops hops
      apply sat_bind'; intro _
      refine sat_bind _ _ shapedP _ ih.pattern ?_
      intro p hp
      apply sat_bind'; intro c1
      apply sat_ite'
      · apply sat_pure; exact cons_shaped (by intro o h; cases h; exact hops) hp rfl
      · apply sat_bind'; intro _
        apply sat_bind'; intro c2
        apply sat_ite'
        · apply sat_bind'; intro _
          apply sat_pure; exact cons_shaped (by intro o h; cases h; exact hops) hp rfl
        · refine sat_bind _ _ shapedIB _ ih.fields ?_
          intro ⟨tl, rest⟩ ht
          apply sat_pure; exact cons_shaped (by intro o h; cases h; exact hops) hp ht

theorem setElems_step (o : Oracle) (fuel : Nat) (ih : AllShaped o fuel) : (parseSetElems o (fuel + 1)).sat shapedIB := by
  unfold parseSetElems
  apply sat_bind'; intro c
  apply sat_ite'
  · apply sat_pure; rfl
  · apply sat_ite'
    · apply sat_bind'; intro _
      apply sat_bind'; intro c1
      apply sat_ite'
      · apply sat_bind'; intro _
        apply sat_pure; rfl
      · apply sat_pure; rfl
    · refine sat_bind _ _ shapedP _ ih.pattern ?_
      intro p hp
      apply sat_bind'; intro c1
      apply sat_ite'
      · apply sat_pure; exact cons_shaped (by intro o h; cases h) hp rfl
      · apply sat_bind'; intro _
        apply sat_bind'; intro c2
        apply sat_ite'
        · apply sat_bind'; intro _
          apply sat_pure; exact cons_shaped (by intro o h; cases h) hp rfl
        · refine sat_bind _ _ shapedIB _ ih.setElems ?_
          intro ⟨tl, rest⟩ ht
          apply sat_pure; exact cons_shaped (by intro o h; cases h) hp ht

theorem entries_step (o : Oracle) (fuel : Nat) (ih : AllShaped o fuel) : (parseEntries o (fuel + 1)).sat shapedIB := by
  unfold parseEntries
  apply sat_bind'; intro c
  apply sat_ite'
  · apply sat_pure; rfl
  · apply sat_ite'
    · apply sat_bind'; intro _
      apply sat_pure; rfl
    · apply sat_bind'; intro key
      apply sat_bind'; intro _
      refine sat_bind _ _ shapedP _ ih.pattern ?_
      intro p hp
      apply sat_bind'; intro c1
      apply sat_ite'
      · apply sat_pure; exact cons_shaped (by intro o h; cases h) hp rfl
      · apply sat_bind'; intro _
        apply sat_bind'; intro c2
        apply sat_ite'
        · apply sat_bind'; intro _
          apply sat_pure; exact cons_shaped (by intro o h; cases h) hp rfl
        · refine sat_bind _ _ shapedIB _ ih.entries ?_
          intro ⟨tl, rest⟩ ht
          apply sat_pure; exact cons_shaped (by intro o h; cases h) hp ht

theorem elemHead_sat (pp : P Pat) (pfo : P FieldOps) (pos : Nat) (hpp : pp.sat shapedP)
    (hpfo : pfo.sat (fun f => f.parserShaped = true)) :
    (elemHead pp pfo pos).sat (fun r => (∀ o, r.1 = some o → o.parserShaped = true) ∧ shapedP r.2) := by
  unfold elemHead
  apply sat_bind'; intro spec
  apply sat_ite'
  · refine sat_bind _ _ shapedP _ hpp ?_
    intro p hp
    apply sat_pure; exact ⟨(by intro o h; cases h), hp⟩
  · refine sat_bind _ _ _ _ hpfo ?_
    intro ops hops
    split
    · apply sat_ite'
      · apply sat_bind'; intro _
        refine sat_bind _ _ shapedP _ hpp ?_
        intro p hp
        apply sat_pure; exact ⟨(by intro o h; cases h; exact hops), hp⟩
      · exact sat_fail _
    · exact sat_fail _

theorem elems_step (o : Oracle) (fuel : Nat) (ih : AllShaped o fuel) (pos : Nat) :
    (parseElems o (fuel + 1) pos).sat shapedI := by
  unfold parseElems
  apply sat_bind'; intro c
  apply sat_ite'
  · apply sat_pure; rfl
  · refine sat_bind _ _ _ _ (elemHead_sat _ _ pos ih.pattern (parseFieldOps_sat o fuel)) ?_
    intro ⟨ops, p⟩ ⟨hops, hp⟩
    apply sat_bind'; intro c1
    apply sat_ite'
    · apply sat_pure; exact cons_shaped hops hp rfl
    · apply sat_bind'; intro _
      refine sat_bind _ _ shapedI _ (ih.elems (pos + 1)) ?_
      intro tl ht
      apply sat_pure; exact cons_shaped hops hp ht

theorem struct_step (o : Oracle) (fuel : Nat) (ih : AllShaped o fuel) : (parseStruct o (fuel + 1)).sat shapedP := by
  unfold parseStruct
  apply sat_bind'; intro id
  apply sat_bind'; intro path
  refine sat_bind _ _ shapedIB _ ?_ ?_
  · apply sat_withGroup; intro _ _; exact ih.fields
  · intro ⟨fields, rest⟩ hf
    by_cases hc : (path.isNone && !rest) = true
    · simp only [hc, if_true]; exact sat_fail _
    · simp only [hc, Bool.false_eq_true, if_false]
      apply sat_pure
      show (Pat.struct id path fields rest).parserShaped = true
      have hf' : fields.parserShaped = true := hf
      cases path <;> cases rest <;> simp_all [Pat.parserShaped]

theorem set_step (o : Oracle) (fuel : Nat) (ih : AllShaped o fuel) : (parseSet o (fuel + 1)).sat shapedP := by
  unfold parseSet
  apply sat_bind'; intro hashSp
  refine sat_bind _ _ (fun r : Items × Bool × Sp => shapedI r.1) _ ?_ ?_
  · apply sat_withGroup; intro _ sc
    refine sat_bind _ _ shapedIB _ ih.setElems ?_
    intro ⟨e, r⟩ he
    apply sat_pure; exact he
  · intro ⟨elems, rest, closeSp⟩ he
    apply sat_bind'; intro id
    apply sat_pure; exact he

theorem map_step (o : Oracle) (fuel : Nat) (ih : AllShaped o fuel) : (parseMap o (fuel + 1)).sat shapedP := by
  unfold parseMap
  apply sat_bind'; intro _
  apply sat_bind'; intro c
  refine sat_bind _ _ shapedIB _ ?_ ?_
  · apply sat_withGroup; intro _ _; exact ih.entries
  · intro ⟨entries, rest⟩ he
    apply sat_bind'; intro id
    apply sat_pure; exact he

theorem enumArgs_sat (pe : P Items) (h : pe.sat shapedI) : (enumArgs pe).sat shapedI := by
  unfold enumArgs
  apply sat_bind'; intro c
  apply sat_ite'
  · apply sat_withGroup; intro _ _; exact h
  · apply sat_pure; rfl

theorem pattern_step (o : Oracle) (fuel : Nat) (ih : AllShaped o fuel) : (parsePattern o (fuel + 1)).sat shapedP := by
  unfold parsePattern
  apply sat_bind'; intro c
  dsimp only
  apply sat_ite'
  · -- closure
    refine ⟨?_⟩
    intro c0 s0 a c' s' he
    split at he
    · split at he
      · cases he; rfl
      · cases he
    · cases he
  apply sat_ite'
  · apply sat_ite'
    · exact ih.struct_
    · apply sat_bind'; intro _
      apply sat_bind'; intro id
      apply sat_pure; rfl
  apply sat_ite'
  · exact parseComparison_sat o
  apply sat_ite'
  · apply sat_ite'
    · exact parseComparison_sat o
    · apply sat_ite'
      · apply sat_bind'; intro _
        apply sat_bind'; intro _
        apply sat_bind'; intro e
        apply sat_bind'; intro id
        split
        · apply sat_pure; rfl
        · apply sat_pure; rfl
      · exact sat_fail _
  apply sat_ite'
  · exact ih.set
  apply sat_ite'
  · exact ih.map
  apply sat_ite'
  · refine sat_bind _ _ shapedI _ ?_ ?_
    · apply sat_withGroup; intro _ _; exact ih.list
    · intro elems he
      apply sat_bind'; intro id
      apply sat_pure; exact he
  apply sat_ite'
  · refine sat_bind _ _ shapedI _ ?_ ?_
    · apply sat_withGroup; intro _ _; exact ih.elems 0
    · intro elems he
      apply sat_bind'; intro id
      apply sat_pure; exact he
  split
  · apply sat_ite'
    · exact ih.struct_
    · apply sat_bind'; intro path
      refine sat_bind _ _ shapedI _ (enumArgs_sat _ (ih.elems 0)) ?_
      intro elems he
      apply sat_bind'; intro id
      apply sat_pure; exact he
  · split
    · apply sat_ite'
      · apply sat_bind'; intro _
        apply sat_bind'; intro e
        apply sat_bind'; intro id
        apply sat_pure; rfl
      · apply sat_ite'
        · exact parseStringLit_sat
        · apply sat_bind'; intro e
          apply sat_bind'; intro id
          apply sat_pure; rfl
    · apply sat_ite'
      · exact parseStringLit_sat
      · exact sat_fail _

theorem allShaped (o : Oracle) : ∀ fuel, AllShaped o fuel
  | 0 => allShaped_zero o
  | fuel + 1 =>
    have ih := allShaped o fuel
    { pattern := pattern_step o fuel ih
      struct_ := struct_step o fuel ih
      fields := fields_step o fuel ih
      elems := elems_step o fuel ih
      list := list_step o fuel ih
      set := set_step o fuel ih
      setElems := setElems_step o fuel ih
      map := map_step o fuel ih
      entries := entries_step o fuel ih }

/-- **Whatever the parser accepts has the shape the code generator relies on** — for every token
stream, every answer of `syn`'s own parsers, every recursion budget and every earlier state of
the node counter. -/
theorem C13_accepted_is_shaped (o : Oracle) (ts : List TT) (fuel prev : Nat) (v : UExpr) (p : Pat) (n : Nat)
    (h : parseAssert o ts fuel prev = .accept v p n) : p.parserShaped = true := by
  unfold parseAssert at h
  simp only at h
  split at h
  · rename_i v' pat c' s heq
    split at h
    · cases h
    · cases h
      have hsat : (do
          let value ← oracleExpr o
          let _ ← punct1 ','
          let pat ← parsePattern o fuel
          pure (value, pat) : P (UExpr × Pat)).sat (fun r => shapedP r.2) := by
        apply sat_bind'; intro value
        apply sat_bind'; intro _
        refine sat_bind _ _ shapedP _ (allShaped o fuel).pattern ?_
        intro pat hp
        apply sat_pure; exact hp
      exact hsat.h _ _ _ _ _ heq
  · cases h
  · cases h

/-- **C13, front end end-to-end**: an invocation is rejected (a `syn::Error`, reported as a
compile error) or accepted with a pattern on which the code generator reaches none of its
panic sites. -/
theorem C13_front_end_total (o : Oracle) (ts : List TT) (fuel prev : Nat) :
    (∃ n, parseAssert o ts fuel prev = .reject n) ∨ parseAssert o ts fuel prev = .outOfFuel ∨
    (∃ v p n, parseAssert o ts fuel prev = .accept v p n ∧ p.expandPanics = false) := by
  cases h : parseAssert o ts fuel prev with
  | reject n => exact .inl ⟨n, rfl⟩
  | outOfFuel => exact .inr (.inl rfl)
  | accept v p n =>
    exact .inr (.inr ⟨v, p, n, rfl, C13_expand_no_panic p (C13_accepted_is_shaped o ts fuel prev v p n h)⟩)

end AsModel
