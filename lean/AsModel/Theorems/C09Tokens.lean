import AsModel.Render
/-!
# C09 on the token stream — the asserted expression's tokens occur once, behind `&`

`Theorems/C09.lean` proves a judgment about the generator's IR (`consumesRoot`).  The
artefact the T2 tie compares with the real `expand::expand`, token by token, is
`Render.lean`'s token stream - so the statement is lifted to it here: for every pattern
the rendered assertion code does not depend on the asserted expression's tokens at all
(`C09_body_ignores_value`), and the whole rendered expansion is a fixed frame around at
most ONE copy of those tokens, which stands in `let __assert_struct_value = & ( … ) ;`
(`C09_tokens_value_once`).  A model that follows a generator which splices the expression
anywhere else no longer satisfies these theorems.
-/
namespace AsModel

/-- The chain does not start at the asserted expression's own tokens. -/
def Core.rootFree : Core → Bool
  | .root => false
  | .var _ => true
  | .paren _ c => c.rootFree
  | .method c _ _ _ => c.rootFree
  | .await c _ => c.rootFree
  | .named c _ _ => c.rootFree
  | .unnamed c _ _ _ => c.rootFree
  | .index c _ _ => c.rootFree

def VExpr.rootFree (v : VExpr) : Bool := v.core.rootFree

def Actual.rootFree : Actual → Bool
  | .dbg v | .dbgRef v | .mapLen v => v.rootFree
  | .dbgActual | .missingKey => true

def Push.rootFree (p : Push) : Bool := p.actual.rootFree

mutual
/-- No value expression anywhere in the code starts at the asserted expression's tokens. -/
def Code.rootFree : Code → Bool
  | .skip => true
  | .seq cs => cs.rootFree
  | .simple _ v _ push | .string _ v _ _ push | .cmp _ v _ _ push | .unitVariant _ v _ push
  | .range _ v _ push | .regex _ v _ push | .like _ v _ push | .closure _ v _ push
  | .mapLen _ v _ push => v.rootFree && push.rootFree
  | .enumTuple _ v _ _ body push | .structNamed _ v _ _ _ _ body push | .slice v _ body push =>
    v.rootFree && (body.rootFree && push.rootFree)
  | .tuple v _ body => v.rootFree && body.rootFree
  | .mapGet _ v _ body push => v.rootFree && (body.rootFree && push.rootFree)
  | .set v preds _ _ => v.rootFree && preds.rootFree
def Codes.rootFree : Codes → Bool
  | .nil => true
  | .cons c tl => c.rootFree && tl.rootFree
end

/-! ### Rendering a root-free piece of code ignores the value tokens -/

theorem Core.toks_rootFree (value : Toks) : ∀ c : Core, c.rootFree = true → c.toks value = c.toks []
  | .root, h => by simp [Core.rootFree] at h
  | .var _, _ => rfl
  | .paren pre c, h => by simp only [Core.toks]; rw [Core.toks_rootFree value c h]
  | .method c _ _ _, h => by simp only [Core.toks]; rw [Core.toks_rootFree value c h]
  | .await c _, h => by simp only [Core.toks]; rw [Core.toks_rootFree value c h]
  | .named c _ _, h => by simp only [Core.toks]; rw [Core.toks_rootFree value c h]
  | .unnamed c _ _ _, h => by simp only [Core.toks]; rw [Core.toks_rootFree value c h]
  | .index c _ _, h => by simp only [Core.toks]; rw [Core.toks_rootFree value c h]

theorem VExpr.toks_rootFree (value : Toks) (v : VExpr) (h : v.rootFree = true) :
    v.toks value = v.toks [] := by
  unfold VExpr.toks; rw [Core.toks_rootFree value v.core h]

theorem Actual.toks_rootFree (value : Toks) (a : Actual) (h : a.rootFree = true) :
    a.toks value = a.toks [] := by
  cases a <;> simp only [Actual.toks] <;> first | rfl | (rw [VExpr.toks_rootFree value _ h])

theorem Push.toks_rootFree (value : Toks) (p : Push) (h : p.rootFree = true) :
    p.toks value = p.toks [] := by
  unfold Push.toks; rw [Actual.toks_rootFree value p.actual h]

mutual
theorem Code.toks_rootFree (value : Toks) : ∀ c : Code, c.rootFree = true → c.toks value = c.toks []
  | .skip, _ => rfl
  | .seq cs', h => by
    simp only [Code.toks]; exact Codes.toks_rootFree value cs' (by simpa [Code.rootFree] using h)
  | .simple sp v e push, h => by
    simp only [Code.rootFree, Bool.and_eq_true] at h
    simp only [Code.toks]; rw [VExpr.toks_rootFree value v h.1, Push.toks_rootFree value push h.2]
  | .string sp v lit s push, h => by
    simp only [Code.rootFree, Bool.and_eq_true] at h
    simp only [Code.toks]; rw [VExpr.toks_rootFree value v h.1, Push.toks_rootFree value push h.2]
  | .cmp sp v op e push, h => by
    simp only [Code.rootFree, Bool.and_eq_true] at h
    simp only [Code.toks]; rw [VExpr.toks_rootFree value v h.1, Push.toks_rootFree value push h.2]
  | .unitVariant sp v path push, h => by
    simp only [Code.rootFree, Bool.and_eq_true] at h
    simp only [Code.toks]; rw [VExpr.toks_rootFree value v h.1, Push.toks_rootFree value push h.2]
  | .range sp v e push, h => by
    simp only [Code.rootFree, Bool.and_eq_true] at h
    simp only [Code.toks]; rw [VExpr.toks_rootFree value v h.1, Push.toks_rootFree value push h.2]
  | .regex sp v pat push, h => by
    simp only [Code.rootFree, Bool.and_eq_true] at h
    simp only [Code.toks]; rw [VExpr.toks_rootFree value v h.1, Push.toks_rootFree value push h.2]
  | .like sp v e push, h => by
    simp only [Code.rootFree, Bool.and_eq_true] at h
    simp only [Code.toks]; rw [VExpr.toks_rootFree value v h.1, Push.toks_rootFree value push h.2]
  | .closure sp v e push, h => by
    simp only [Code.rootFree, Bool.and_eq_true] at h
    simp only [Code.toks]; rw [VExpr.toks_rootFree value v h.1, Push.toks_rootFree value push h.2]
  | .mapLen sp v n push, h => by
    simp only [Code.rootFree, Bool.and_eq_true] at h
    simp only [Code.toks]; rw [VExpr.toks_rootFree value v h.1, Push.toks_rootFree value push h.2]
  | .enumTuple sp v path binders body push, h => by
    simp only [Code.rootFree, Bool.and_eq_true] at h
    simp only [Code.toks]
    rw [VExpr.toks_rootFree value v h.1, Push.toks_rootFree value push h.2.2,
      Codes.toks_rootFree value body h.2.1]
  | .structNamed sp v path fields fsps rest body push, h => by
    simp only [Code.rootFree, Bool.and_eq_true] at h
    simp only [Code.toks]
    rw [VExpr.toks_rootFree value v h.1, Push.toks_rootFree value push h.2.2,
      Codes.toks_rootFree value body h.2.1]
  | .slice v parts body push, h => by
    simp only [Code.rootFree, Bool.and_eq_true] at h
    simp only [Code.toks]
    rw [VExpr.toks_rootFree value v h.1, Push.toks_rootFree value push h.2.2,
      Codes.toks_rootFree value body h.2.1]
  | .tuple v binders body, h => by
    simp only [Code.rootFree, Bool.and_eq_true] at h
    simp only [Code.toks]
    rw [VExpr.toks_rootFree value v h.1, Codes.toks_rootFree value body h.2]
  | .mapGet sp v key body push, h => by
    simp only [Code.rootFree, Bool.and_eq_true] at h
    simp only [Code.toks]
    rw [VExpr.toks_rootFree value v h.1, Push.toks_rootFree value push h.2.2,
      Code.toks_rootFree value body h.2.1]
  | .set v preds rest node, h => by
    simp only [Code.rootFree, Bool.and_eq_true] at h
    simp only [Code.toks]
    rw [VExpr.toks_rootFree value v h.1, Codes.predToks_rootFree value preds 0 h.2]
theorem Codes.toks_rootFree (value : Toks) : ∀ c : Codes, c.rootFree = true → c.toks value = c.toks []
  | .nil, _ => rfl
  | .cons c tl, h => by
    simp only [Codes.rootFree, Bool.and_eq_true] at h
    simp only [Codes.toks]
    rw [Code.toks_rootFree value c h.1, Codes.toks_rootFree value tl h.2]
theorem Codes.predToks_rootFree (value : Toks) : ∀ (c : Codes) (i : Nat), c.rootFree = true →
    c.predToks value i = c.predToks [] i
  | .nil, _, _ => rfl
  | .cons c tl, i, h => by
    simp only [Codes.rootFree, Bool.and_eq_true] at h
    simp only [Codes.predToks]
    rw [Code.toks_rootFree value c h.1, Codes.predToks_rootFree value tl (i + 1) h.2]
end

/-! ### The generator only ever produces root-free code below the root binding -/

theorem applyOp_rootFree (v : VExpr) (op : FieldOp) (h : v.rootFree = true) :
    (applyOp v op).rootFree = true := by
  cases op <;> simpa [applyOp, VExpr.rootFree, Core.rootFree] using h

theorem foldl_applyOp_rootFree (ops : List FieldOp) (v : VExpr) (h : v.rootFree = true) :
    (ops.foldl applyOp v).rootFree = true := by
  induction ops generalizing v with
  | nil => exact h
  | cons o tl ih => exact ih _ (applyOp_rootFree v o h)

theorem fieldValue_rootFree (v : VExpr) (ops : FieldOps) (h : v.rootFree = true) :
    (fieldValue v ops).rootFree = true := by
  unfold fieldValue
  split
  · exact foldl_applyOp_rootFree _ _ h
  · exact h

theorem wildBase_rootFree (v : VExpr) (rsp : Sp) (f : FieldName) (h : v.rootFree = true) :
    (wildBase v rsp f).rootFree = true := by
  cases f <;> simpa [wildBase, Core.rootFree, VExpr.rootFree] using h

theorem var_rootFree (n : Name) : (VExpr.ofCore (.var n)).rootFree = true := rfl

theorem Codes.append_rootFree : ∀ (a b : Codes), a.rootFree = true → b.rootFree = true →
    (a.append b).rootFree = true
  | .nil, _, _, hb => hb
  | .cons c tl, b, ha, hb => by
    simp only [Codes.rootFree, Bool.and_eq_true] at ha
    simp only [Codes.append, Codes.rootFree, Bool.and_eq_true]
    exact ⟨ha.1, Codes.append_rootFree tl b ha.2 hb⟩

mutual
theorem expandPat_rootFree (v : VExpr) (h : v.rootFree = true) :
    ∀ p : Pat, (expandPat v p).rootFree = true
  | .simple .. | .cmp .. | .range .. | .regex .. | .like .. | .closure .. => by
    simp [expandPat, Code.rootFree, dbgPush, Push.rootFree, Actual.rootFree, h]
  | .string .. => by simp [expandPat, Code.rootFree, Push.rootFree, Actual.rootFree, h]
  | .wild _ => by simp [expandPat, Code.rootFree]
  | .enum id path elems => by
    unfold expandPat
    split
    · simp [Code.rootFree, dbgPush, Push.rootFree, Actual.rootFree, h]
    · simp [Code.rootFree, dbgPush, Push.rootFree, Actual.rootFree, h,
        expandElems_rootFree elems 0 Name.elem]
  | .tuple id sp elems => by
    simp [expandPat, Code.rootFree, h, expandElems_rootFree elems 0 Name.tupleElem]
  | .slice id sp elems => by
    simp [expandPat, Code.rootFree, Push.rootFree, Actual.rootFree, h,
      expandSliceElems_rootFree elems 0]
  | .struct id (some path) fields rest => by
    simp [expandPat, Code.rootFree, dbgPush, Push.rootFree, Actual.rootFree, h,
      expandFields_rootFree fields]
  | .struct id none fields rest => by
    simp [expandPat, Code.rootFree, expandWildFields_rootFree v h fields]
  | .set id sp elems rest => by
    simp [expandPat, Code.rootFree, h, expandSetElems_rootFree elems]
  | .map id sp entries rest => by
    have he := expandEntries_rootFree v h id entries
    unfold expandPat
    simp only [Code.rootFree]
    apply Codes.append_rootFree _ _ _ he
    split
    · rfl
    · simp [Codes.rootFree, Code.rootFree, Push.rootFree, Actual.rootFree, h]

theorem expandElems_rootFree : ∀ (items : Items) (i : Nat) (mk : Nat → Name),
    (expandElems items i mk).rootFree = true
  | .nil, _, _ => by simp [expandElems, Codes.rootFree]
  | .cons ops key p tl, i, mk => by
    unfold expandElems
    split
    · exact expandElems_rootFree tl (i + 1) mk
    · simp only [Codes.rootFree, Bool.and_eq_true]
      refine ⟨?_, expandElems_rootFree tl (i + 1) mk⟩
      cases ops with
      | none => exact expandPat_rootFree _ (var_rootFree _) p
      | some o => exact expandPat_rootFree _ (fieldValue_rootFree _ _ (var_rootFree _)) p

theorem expandSliceElems_rootFree : ∀ (items : Items) (i : Nat),
    (expandSliceElems items i).rootFree = true
  | .nil, _ => by simp [expandSliceElems, Codes.rootFree]
  | .cons ops key p tl, i => by
    unfold expandSliceElems
    split
    · exact expandSliceElems_rootFree tl (i + 1)
    · simp only [Codes.rootFree, Bool.and_eq_true]
      exact ⟨expandPat_rootFree _ (var_rootFree _) p, expandSliceElems_rootFree tl (i + 1)⟩

theorem expandSetElems_rootFree : ∀ (items : Items), (expandSetElems items).rootFree = true
  | .nil => by simp [expandSetElems, Codes.rootFree]
  | .cons ops key p tl => by
    simp only [expandSetElems, Codes.rootFree, Bool.and_eq_true]
    exact ⟨expandPat_rootFree _ (var_rootFree _) p, expandSetElems_rootFree tl⟩

theorem expandFields_rootFree : ∀ (items : Items), (expandFields items).rootFree = true
  | .nil => by simp [expandFields, Codes.rootFree]
  | .cons ops key p tl => by
    simp only [expandFields, Codes.rootFree, Bool.and_eq_true]
    refine ⟨?_, expandFields_rootFree tl⟩
    cases ops with
    | none => simp [Code.rootFree]
    | some o =>
      simp only
      split
      · exact expandPat_rootFree _ (fieldValue_rootFree _ _ (var_rootFree _)) p
      · simp [Code.rootFree]

theorem expandWildFields_rootFree (v : VExpr) (h : v.rootFree = true) : ∀ (items : Items),
    (expandWildFields v items).rootFree = true
  | .nil => by simp [expandWildFields, Codes.rootFree]
  | .cons ops key p tl => by
    simp only [expandWildFields, Codes.rootFree, Bool.and_eq_true]
    refine ⟨?_, expandWildFields_rootFree v h tl⟩
    cases ops with
    | none => simp [Code.rootFree]
    | some o =>
      simp only
      split
      · split
        · exact expandPat_rootFree _ (foldl_applyOp_rootFree _ (VExpr.ofCore _) (wildBase_rootFree v _ _ h)) p
        · exact expandPat_rootFree ⟨_, _⟩ (wildBase_rootFree v _ _ h) p
      · simp [Code.rootFree]

theorem expandEntries_rootFree (v : VExpr) (h : v.rootFree = true) (node : Nat) : ∀ (items : Items),
    (expandEntries v node items).rootFree = true
  | .nil => by simp [expandEntries, Codes.rootFree]
  | .cons ops key p tl => by
    simp only [expandEntries, Codes.rootFree, Bool.and_eq_true]
    refine ⟨?_, expandEntries_rootFree v h node tl⟩
    cases key with
    | none => simp [Code.rootFree]
    | some k =>
      simp only [Code.rootFree, Bool.and_eq_true]
      exact ⟨h, expandPat_rootFree _ (var_rootFree _) p, by simp [Push.rootFree, Actual.rootFree]⟩
end

/-! ### Property theorems -/

/-- **The rendered assertion code never contains the asserted expression's tokens**: for
every pattern the token stream of the assertion is the same whatever those tokens are. -/
theorem C09_body_ignores_value (p : Pat) (value : Toks) :
    (expand p).body.toks value = (expand p).body.toks [] :=
  Code.toks_rootFree value _ (expandPat_rootFree rootVExpr rfl p)

/-- The tokens in front of the asserted expression: a `let` that binds a *reference*. -/
def letOpen : Toks := tq cs "let __assert_struct_value = & ("
def letClose : Toks := tq cs ") ;"

/-- **C09 on the token stream.** For every pattern there is a fixed frame `pre … post` -
chosen before the asserted expression is known - such that the whole rendered expansion is
the frame around at most one copy of the asserted expression's tokens, and that copy stands
in `let __assert_struct_value = & ( … ) ;`. -/
theorem C09_tokens_value_once (p : Pat) :
    ∃ pre post : Toks, ∀ value : Toks,
      Expansion.toks value (expand p) =
        pre ++ (if ((expand p).body.toks []).isEmpty then [] else letOpen ++ value ++ letClose) ++ post := by
  refine ⟨(expand p).head, (expand p).body.toks [] ++ Expansion.tail, fun value => ?_⟩
  unfold Expansion.toks
  rw [C09_body_ignores_value p value]
  exact List.append_assoc _ _ _

/-- Non-vacuity: a root closure pattern (which used to receive the value itself) - the
value's tokens are not in its assertion code. -/
example (value : Toks) :
    (expand (.closure 0 default)).body.toks value = (expand (.closure 0 default)).body.toks [] :=
  C09_body_ignores_value _ value

/-- The property is not a triviality of the renderer: a chain that starts at the asserted
expression itself does render its tokens. -/
example (t : Tok) : (VExpr.ofCore .root).toks [t] = [t] := rfl

end AsModel
