import AsModel.Render
import AsModel.Theorems.C20Tokens
/-!
# C20 — span provenance of the whole rendered expansion

`C20Tokens.lean` is about one template.  This file is about the whole token stream, at any
nesting depth: **every token of the rendered assertion code carries the call-site span or a
span that already occurs in the invocation** - a span of the pattern's own tokens / recorded
sub-pattern spans, or the span of a token of the asserted expression.  The generator never
fabricates a span and never moves one in from anywhere else (another invocation, a cache).

It is proved in the closed form: for every predicate `P` on spans that holds of the call
site, of every span of the pattern and of every token of the value expression, `P` holds of
every rendered token (`expandPat_spans`); provenance is the instance `P := (· ∈ S)`.

Two layers: `Code.toks_spans` (the renderer only uses the spans the IR carries) and
`expandPat_allSpans` (the generator only puts the pattern's spans into the IR).
-/
namespace AsModel

variable (P : Sp → Prop)

/-! ### Which spans a piece of syntax carries -/

def Toks.allSpans (ts : Toks) : Prop := ∀ t ∈ ts, P t.sp

def UExpr.allSpans (e : UExpr) : Prop := P e.sp ∧ Toks.allSpans P e.toks
def UPath.allSpans (p : UPath) : Prop := P p.sp ∧ Toks.allSpans P p.toks
def FieldName.allSpans : FieldName → Prop
  | .ident i => P i.sp
  | .index _ => True
def Name.allSpans : Name → Prop
  | .field f => f.allSpans P
  | _ => True
def Pre.allSpans : Pre → Prop
  | .star sp | .amp sp => P sp

def Core.allSpans : Core → Prop
  | .root => True
  | .var n => n.allSpans P
  | .paren pre c => (∀ x ∈ pre, x.allSpans P) ∧ c.allSpans
  | .method c sp name args => c.allSpans ∧ P sp ∧ P name.sp ∧ ∀ a ∈ args, a.allSpans P
  | .await c sp => c.allSpans ∧ P sp
  | .named c sp name => c.allSpans ∧ P sp ∧ P name.sp
  | .unnamed c sp isp _ => c.allSpans ∧ P sp ∧ P isp
  | .index c sp e => c.allSpans ∧ P sp ∧ e.allSpans P

def VExpr.allSpans (v : VExpr) : Prop := (∀ x ∈ v.pre, x.allSpans P) ∧ v.core.allSpans P

def Actual.allSpans : Actual → Prop
  | .dbg v | .dbgRef v | .mapLen v => v.allSpans P
  | .dbgActual | .missingKey => True

def Push.allSpans (p : Push) : Prop := P p.sp ∧ p.actual.allSpans P

def Binder.allSpans : Binder → Prop
  | .bind n => n.allSpans P
  | _ => True

mutual
def Code.allSpans : Code → Prop
  | .skip => True
  | .seq cs' => cs'.allSpans
  | .simple sp v e push | .cmp sp v _ e push | .range sp v e push | .like sp v e push
  | .closure sp v e push => P sp ∧ v.allSpans P ∧ e.allSpans P ∧ push.allSpans P
  | .string sp v lit _ push => P sp ∧ v.allSpans P ∧ P lit.sp ∧ push.allSpans P
  | .unitVariant sp v path push => P sp ∧ v.allSpans P ∧ path.allSpans P ∧ push.allSpans P
  | .enumTuple sp v path binders body push =>
    P sp ∧ v.allSpans P ∧ path.allSpans P ∧ (∀ b ∈ binders, b.allSpans P) ∧ body.allSpans ∧ push.allSpans P
  | .structNamed sp v path fields fsps _ body push =>
    P sp ∧ v.allSpans P ∧ path.allSpans P ∧ ((∀ f ∈ fields, f.allSpans P) ∧ (∀ s ∈ fsps, P s)) ∧ body.allSpans ∧ push.allSpans P
  | .tuple v binders body => v.allSpans P ∧ (∀ b ∈ binders, b.allSpans P) ∧ body.allSpans
  | .slice v parts body push => v.allSpans P ∧ (∀ b ∈ parts, b.allSpans P) ∧ body.allSpans ∧ push.allSpans P
  | .regex sp v _ push | .mapLen sp v _ push => P sp ∧ v.allSpans P ∧ push.allSpans P
  | .mapGet sp v key body push => P sp ∧ v.allSpans P ∧ key.allSpans P ∧ body.allSpans ∧ push.allSpans P
  | .set v preds _ _ => v.allSpans P ∧ preds.allSpans
def Codes.allSpans : Codes → Prop
  | .nil => True
  | .cons c tl => c.allSpans ∧ tl.allSpans
end

/-! ### Layer 1: the renderer only uses the spans the IR carries -/

section render
variable {P}

theorem tq_allSpans {sp : Sp} (h : P sp) (s : String) : Toks.allSpans P (tq sp s) :=
  fun _ ht => mem_tq ht ▸ h

theorem tstr_allSpans {sp : Sp} (h : P sp) (s : String) : Toks.allSpans P (tstr sp s) :=
  fun _ ht => (mem_tstr ht).1 ▸ h

theorem append_allSpans {a b : Toks} (ha : Toks.allSpans P a) (hb : Toks.allSpans P b) :
    Toks.allSpans P (a ++ b) := by
  intro t ht
  rcases List.mem_append.1 ht with h | h
  · exact ha t h
  · exact hb t h

theorem nil_allSpans : Toks.allSpans P [] := fun _ h => by simp at h

theorem sepBy_allSpans {sep : Toks} {xs : List Toks} (hs : Toks.allSpans P sep)
    (hx : ∀ x ∈ xs, Toks.allSpans P x) : Toks.allSpans P (sepBy sep xs) := by
  intro t ht
  rcases mem_sepBy ht with h | h
  · exact hs t h
  · obtain ⟨x, hx', htx⟩ := List.mem_flatten.1 h
    exact hx x hx' t htx

theorem flatMap_allSpans {α} {xs : List α} {f : α → Toks} (h : ∀ x ∈ xs, Toks.allSpans P (f x)) :
    Toks.allSpans P (xs.flatMap f) := by
  intro t ht
  obtain ⟨x, hx, htx⟩ := List.mem_flatMap.1 ht
  exact h x hx t htx

theorem FieldName.toks_allSpans (hcs : P Sp.callSite) (f : FieldName) (h : f.allSpans P) : Toks.allSpans P f.toks := by
  cases f with
  | ident i => intro t ht; simp only [FieldName.toks, List.mem_singleton] at ht; subst ht; exact h
  | index n => exact tq_allSpans hcs _

theorem Name.toks_allSpans (hcs : P Sp.callSite) (n : Name) (h : n.allSpans P) : Toks.allSpans P n.toks := by
  cases n with
  | field f =>
    cases f with
    | ident i => intro t ht; simp only [Name.toks, List.mem_singleton] at ht; subst ht; exact h
    | index k => exact tq_allSpans hcs _
  | _ => exact tq_allSpans hcs _

theorem preToks_allSpans (ps : List Pre) (h : ∀ x ∈ ps, x.allSpans P) : Toks.allSpans P (preToks ps) := by
  unfold preToks
  apply flatMap_allSpans
  intro x hx
  have := h x hx
  cases x <;> exact fun t ht => mem_tq ht ▸ this

theorem argToks_allSpans {sp : Sp} (hsp : P sp) (args : List UExpr) (h : ∀ a ∈ args, a.allSpans P) :
    Toks.allSpans P (argToks sp args) := by
  unfold argToks
  refine sepBy_allSpans (tq_allSpans hsp _) ?_
  intro x hx
  obtain ⟨a, ha, rfl⟩ := List.mem_map.1 hx
  exact (h a ha).2

theorem Core.toks_allSpans (hcs : P Sp.callSite) {value : Toks} (hv : Toks.allSpans P value) :
    ∀ c : Core, c.allSpans P → Toks.allSpans P (c.toks value)
  | .root, _ => hv
  | .var n, h => Name.toks_allSpans hcs n h
  | .paren pre c, h => by
    simp only [Core.toks]
    exact append_allSpans (append_allSpans (append_allSpans (tq_allSpans hcs _) (preToks_allSpans pre h.1))
      (Core.toks_allSpans hcs hv c h.2)) (tq_allSpans hcs _)
  | .method c sp name args, h => by
    simp only [Core.toks]
    refine append_allSpans (append_allSpans (append_allSpans (append_allSpans (append_allSpans
      (Core.toks_allSpans hcs hv c h.1) (tq_allSpans h.2.1 _)) ?_) (tq_allSpans h.2.1 _))
      (argToks_allSpans h.2.1 args h.2.2.2)) (tq_allSpans h.2.1 _)
    intro t ht; simp only [List.mem_singleton] at ht; subst ht; exact h.2.2.1
  | .await c sp, h => by
    simp only [Core.toks]
    exact append_allSpans (Core.toks_allSpans hcs hv c h.1) (tq_allSpans h.2 _)
  | .named c sp name, h => by
    simp only [Core.toks]
    refine append_allSpans (append_allSpans (Core.toks_allSpans hcs hv c h.1) (tq_allSpans h.2.1 _)) ?_
    intro t ht; simp only [List.mem_singleton] at ht; subst ht; exact h.2.2
  | .unnamed c sp isp i, h => by
    simp only [Core.toks]
    exact append_allSpans (append_allSpans (Core.toks_allSpans hcs hv c h.1) (tq_allSpans h.2.1 _))
      (tq_allSpans h.2.2 _)
  | .index c sp e, h => by
    simp only [Core.toks]
    exact append_allSpans (append_allSpans (append_allSpans (Core.toks_allSpans hcs hv c h.1)
      (tq_allSpans h.2.1 _)) h.2.2.2) (tq_allSpans h.2.1 _)

theorem VExpr.toks_allSpans (hcs : P Sp.callSite) {value : Toks} (hv : Toks.allSpans P value) (v : VExpr) (h : v.allSpans P) :
    Toks.allSpans P (v.toks value) := by
  unfold VExpr.toks
  exact append_allSpans (preToks_allSpans v.pre h.1) (Core.toks_allSpans hcs hv v.core h.2)

theorem Push.toks_allSpans (hcs : P Sp.callSite) {value : Toks} (hv : Toks.allSpans P value) (p : Push) (h : p.allSpans P) :
    Toks.allSpans P (p.toks value) := by
  have hexp : Toks.allSpans P p.expected.toks := by
    cases p.expected <;> simp only [Expected.toks] <;>
      repeat (first
        | apply append_allSpans
        | exact tq_allSpans hcs _
        | exact tstr_allSpans hcs _)
  have hact : Toks.allSpans P (p.actual.toks value) := by
    have ha := h.2
    cases hpa : p.actual <;> rw [hpa] at ha <;> simp only [Actual.toks] <;>
      repeat (first
        | exact VExpr.toks_allSpans hcs hv _ ha
        | exact tq_allSpans hcs _
        | exact tstr_allSpans hcs _
        | apply append_allSpans)
  unfold Push.toks nodeIdent
  repeat (first
    | apply append_allSpans
    | exact tq_allSpans h.1 _
    | exact tq_allSpans hcs _
    | exact hexp
    | exact hact)


theorem supportPath_allSpans {sp : Sp} (h : P sp) : Toks.allSpans P (supportPath sp) := tq_allSpans h _

theorem singleton_allSpans {t : Tok} (h : P t.sp) : Toks.allSpans P [t] := by
  intro t' ht; simp only [List.mem_singleton] at ht; subst ht; exact h

theorem Binder.toks_allSpans (hcs : P Sp.callSite) (b : Binder) (h : b.allSpans P) : Toks.allSpans P b.toks := by
  cases b with
  | bind n => exact Name.toks_allSpans hcs n h
  | wild => exact tq_allSpans hcs _
  | rest => exact tq_allSpans hcs _

theorem binders_allSpans (hcs : P Sp.callSite) {sp : Sp} (hsp : P sp) (bs : List Binder) (h : ∀ b ∈ bs, b.allSpans P) :
    Toks.allSpans P (sepBy (tq sp ",") (bs.map Binder.toks)) := by
  refine sepBy_allSpans (tq_allSpans hsp _) ?_
  intro x hx
  obtain ⟨b, hb, rfl⟩ := List.mem_map.1 hx
  exact Binder.toks_allSpans hcs b (h b hb)

theorem FieldName.toksAt_allSpans {s : Sp} (hs : P s) (f : FieldName) (h : f.allSpans P) : Toks.allSpans P (f.toksAt s) := by
  cases f with
  | ident i => intro t ht; simp only [FieldName.toksAt, List.mem_singleton] at ht; subst ht; exact h
  | index n => exact tq_allSpans hs _

theorem fields_allSpans (hcs : P Sp.callSite) {sp : Sp} (hsp : P sp) (fs : List FieldName) (ss : List Sp)
    (h : (∀ f ∈ fs, f.allSpans P) ∧ (∀ s ∈ ss, P s)) :
    Toks.allSpans P (sepBy (tq sp ",") ((fs.zip ss).map fun x => x.1.toksAt x.2 ++ tq sp ":" ++ (Name.field x.1).toks)) := by
  refine sepBy_allSpans (tq_allSpans hsp _) ?_
  intro x hx
  obtain ⟨⟨f, s⟩, hf, rfl⟩ := List.mem_map.1 hx
  have hf1 := h.1 f (List.of_mem_zip hf).1
  have hs1 := h.2 s (List.of_mem_zip hf).2
  exact append_allSpans (append_allSpans (FieldName.toksAt_allSpans hs1 f hf1) (tq_allSpans hsp _))
    (Name.toks_allSpans hcs (.field f) hf1)

theorem restMarker_allSpans (hcs : P Sp.callSite) (rest : Bool) (fs : List FieldName) :
    Toks.allSpans P (if !rest then [] else if fs.isEmpty then tq cs ". ." else tq cs ", . .") := by
  split
  · exact nil_allSpans
  · split <;> exact tq_allSpans hcs _

theorem predRefs_allSpans (hcs : P Sp.callSite) (n : Nat) :
    Toks.allSpans P (sepBy (tq cs ",") ((List.range n).map fun i => tq cs s!"& __set_pred_{i}")) := by
  refine sepBy_allSpans (tq_allSpans hcs _) ?_
  intro x hx
  obtain ⟨i, _, rfl⟩ := List.mem_map.1 hx
  exact tq_allSpans hcs _

attribute [local irreducible] VExpr.toks Push.toks supportPath tq tstr sepBy Code.toks Codes.toks Codes.predToks

macro "spans_auto" hcs:ident hv:ident : tactic => `(tactic|
  repeat (first
    | apply append_allSpans
    | assumption
    | exact nil_allSpans
    | exact VExpr.toks_allSpans $hcs $hv _ (by assumption)
    | exact Push.toks_allSpans $hcs $hv _ (by assumption)
    | exact binders_allSpans $hcs (by assumption) _ (by assumption)
    | exact fields_allSpans $hcs (by assumption) _ _ (by assumption)
    | exact restMarker_allSpans $hcs _ _
    | exact predRefs_allSpans $hcs _
    | exact supportPath_allSpans (by assumption)
    | exact singleton_allSpans (by assumption)
    | exact tq_allSpans (by assumption) _
    | exact tstr_allSpans (by assumption) _))

mutual
theorem Code.toks_allSpans (hcs : P Sp.callSite) {value : Toks} (hv : Toks.allSpans P value) :
    ∀ c : Code, c.allSpans P → Toks.allSpans P (c.toks value)
  | .skip, _ => by simp only [Code.toks]; exact nil_allSpans
  | .seq cs', h => by simp only [Code.toks]; exact Codes.toks_allSpans hcs hv cs' h
  | .simple sp v e push, h => by
    obtain ⟨hsp, hv', ⟨_, he⟩, hp⟩ := h
    have hcs' : P cs := hcs
    simp only [Code.toks]; spans_auto hcs hv
  | .cmp sp v op e push, h => by
    obtain ⟨hsp, hv', ⟨_, he⟩, hp⟩ := h
    have hcs' : P cs := hcs
    simp only [Code.toks]; spans_auto hcs hv
  | .range sp v e push, h => by
    obtain ⟨hsp, hv', ⟨_, he⟩, hp⟩ := h
    have hcs' : P cs := hcs
    simp only [Code.toks]; spans_auto hcs hv
  | .like sp v e push, h => by
    obtain ⟨hsp, hv', ⟨_, he⟩, hp⟩ := h
    have hcs' : P cs := hcs
    simp only [Code.toks]; spans_auto hcs hv
  | .closure sp v e push, h => by
    obtain ⟨hsp, hv', ⟨_, he⟩, hp⟩ := h
    have hcs' : P cs := hcs
    simp only [Code.toks]; spans_auto hcs hv
  | .string sp v lit s push, h => by
    obtain ⟨hsp, hv', hl, hp⟩ := h
    have hcs' : P cs := hcs
    simp only [Code.toks]; split <;> spans_auto hcs hv
  | .unitVariant sp v path push, h => by
    obtain ⟨hsp, hv', ⟨_, hpath⟩, hp⟩ := h
    have hcs' : P cs := hcs
    simp only [Code.toks]; spans_auto hcs hv
  | .enumTuple sp v path binders body push, h => by
    obtain ⟨hsp, hv', ⟨_, hpath⟩, hb, hbody, hp⟩ := h
    have hcs' : P cs := hcs
    have := Codes.toks_allSpans hcs hv body hbody
    simp only [Code.toks]; spans_auto hcs hv
  | .structNamed sp v path fields fsps rest body push, h => by
    obtain ⟨hsp, hv', ⟨_, hpath⟩, hf, hbody, hp⟩ := h
    have hcs' : P cs := hcs
    have := Codes.toks_allSpans hcs hv body hbody
    simp only [Code.toks]; spans_auto hcs hv
  | .tuple v binders body, h => by
    obtain ⟨hv', hb, hbody⟩ := h
    have hcs' : P cs := hcs
    have := Codes.toks_allSpans hcs hv body hbody
    simp only [Code.toks]; spans_auto hcs hv
  | .slice v parts body push, h => by
    obtain ⟨hv', hb, hbody, hp⟩ := h
    have hcs' : P cs := hcs
    have := Codes.toks_allSpans hcs hv body hbody
    simp only [Code.toks]; spans_auto hcs hv
  | .regex sp v pat push, h => by
    obtain ⟨hsp, hv', hp⟩ := h
    have hcs' : P cs := hcs
    simp only [Code.toks]; spans_auto hcs hv
  | .mapLen sp v n push, h => by
    obtain ⟨hsp, hv', hp⟩ := h
    have hcs' : P cs := hcs
    simp only [Code.toks]; spans_auto hcs hv
  | .mapGet sp v key body push, h => by
    obtain ⟨hsp, hv', ⟨_, hk⟩, hbody, hp⟩ := h
    have hcs' : P cs := hcs
    have := Code.toks_allSpans hcs hv body hbody
    simp only [Code.toks]; split <;> spans_auto hcs hv
  | .set v preds rest node, h => by
    obtain ⟨hv', hpreds⟩ := h
    have hcs' : P cs := hcs
    have := Codes.predToks_allSpans hcs hv preds 0 hpreds
    simp only [Code.toks, nodeIdent]; split <;> spans_auto hcs hv
theorem Codes.toks_allSpans (hcs : P Sp.callSite) {value : Toks} (hv : Toks.allSpans P value) :
    ∀ c : Codes, c.allSpans P → Toks.allSpans P (c.toks value)
  | .nil, _ => by simp only [Codes.toks]; exact nil_allSpans
  | .cons c tl, h => by
    simp only [Codes.toks]
    exact append_allSpans (Code.toks_allSpans hcs hv c h.1) (Codes.toks_allSpans hcs hv tl h.2)
theorem Codes.predToks_allSpans (hcs : P Sp.callSite) {value : Toks} (hv : Toks.allSpans P value) :
    ∀ (c : Codes) (i : Nat), c.allSpans P → Toks.allSpans P (c.predToks value i)
  | .nil, _, _ => by simp only [Codes.predToks]; exact nil_allSpans
  | .cons c tl, i, h => by
    have hcs' : P cs := hcs
    have h1 := Code.toks_allSpans hcs hv c h.1
    have h2 := Codes.predToks_allSpans hcs hv tl (i + 1) h.2
    simp only [Codes.predToks]; spans_auto hcs hv
end


end render

/-! ### Layer 2: the generator only puts the pattern's own spans into the IR -/

def FieldOp.allSpans : FieldOp → Prop
  | .deref _ sp | .await sp | .unnamed _ sp => P sp
  | .method name sp args => P name.sp ∧ P sp ∧ ∀ a ∈ args, a.allSpans P
  | .named name sp => P name.sp ∧ P sp
  | .index e sp => e.allSpans P ∧ P sp

def FieldOps.allSpans (f : FieldOps) : Prop := ∀ o ∈ f.ops, o.allSpans P

mutual
/-- Every span the pattern carries - its recorded sub-pattern spans and its own tokens' spans -
satisfies `P`. -/
def Pat.allSpans : Pat → Prop
  | .simple _ e | .cmp _ _ _ e | .range _ e | .like _ e | .closure _ e => e.allSpans P
  | .string _ _ sp tok => P sp ∧ P tok.sp
  | .regex _ _ sp => P sp
  | .wild _ => True
  | .struct _ (some path) fields _ => path.allSpans P ∧ fields.allSpans
  | .struct _ none fields _ => fields.allSpans
  | .enum _ path elems => path.allSpans P ∧ elems.allSpans
  | .tuple _ _ elems | .slice _ _ elems | .set _ _ elems _ | .map _ _ elems _ => elems.allSpans
def Items.allSpans : Items → Prop
  | .nil => True
  | .cons ops key p tl =>
    (match ops with | some o => o.allSpans P | none => True) ∧
    (match key with | some k => k.allSpans P | none => True) ∧ p.allSpans ∧ tl.allSpans
end

section generate
variable {P}

theorem applyOp_allSpans (v : VExpr) (op : FieldOp) (hv : v.allSpans P) (ho : op.allSpans P) :
    (applyOp v op).allSpans P := by
  cases op with
  | deref count sp =>
    refine ⟨?_, hv.2⟩
    intro x hx
    simp only [applyOp, List.mem_append, List.mem_replicate] at hx
    rcases hx with ⟨_, rfl⟩ | hx
    · exact ho
    · exact hv.1 x hx
  | method name sp args => exact ⟨hv.1, hv.2, ho.2.1, ho.1, ho.2.2⟩
  | await sp => exact ⟨hv.1, hv.2, ho⟩
  | named name sp => exact ⟨hv.1, hv.2, ho.2, ho.1⟩
  | unnamed i sp => exact ⟨hv.1, hv.2, ho, ho⟩
  | index e sp => exact ⟨hv.1, hv.2, ho.2, ho.1⟩

theorem foldl_applyOp_allSpans (ops : List FieldOp) (v : VExpr) (hv : v.allSpans P)
    (ho : ∀ o ∈ ops, o.allSpans P) : (ops.foldl applyOp v).allSpans P := by
  induction ops generalizing v with
  | nil => exact hv
  | cons o tl ih =>
    exact ih _ (applyOp_allSpans v o hv (ho o (by simp))) (fun o' ho' => ho o' (by simp [ho']))

theorem fieldName?_allSpans (op : FieldOp) (ho : op.allSpans P) (f : FieldName) (h : op.fieldName? = some f) :
    f.allSpans P := by
  cases op <;> simp only [FieldOp.fieldName?, Option.some.injEq, reduceCtorEq] at h
  · subst h; exact ho.1
  · subst h; trivial

theorem rootFieldName?_allSpans (ops : FieldOps) (ho : ops.allSpans P) (f : FieldName)
    (h : ops.rootFieldName? = some f) : f.allSpans P := by
  unfold FieldOps.rootFieldName? at h
  split at h
  · next op heq => exact fieldName?_allSpans op (ho op (by simp [heq])) f h
  · split at h
    · next op hfind => exact fieldName?_allSpans op (ho op (List.mem_of_find?_eq_some hfind)) f h
    · simp at h

theorem FieldOp.span_allSpans (op : FieldOp) (ho : op.allSpans P) : P op.span := by
  cases op <;> simp only [FieldOp.span, FieldOp.allSpans] at * <;> first | exact ho | exact ho.2 | exact ho.2.1

theorem rootFieldSp_allSpans (hcs : P Sp.callSite) (ops : FieldOps) (ho : ops.allSpans P) : P ops.rootFieldSp := by
  unfold FieldOps.rootFieldSp
  split
  · next op heq => exact FieldOp.span_allSpans op (ho op (by simp [heq]))
  · split
    · next op hfind => exact FieldOp.span_allSpans op (ho op (List.mem_of_find?_eq_some hfind))
    · exact hcs

theorem tailOps?_allSpans (ops : FieldOps) (ho : ops.allSpans P) (tl : FieldOps)
    (h : ops.tailOps? = some (some tl)) : tl.allSpans P := by
  unfold FieldOps.tailOps? at h
  split at h
  · split at h <;> simp at h
  · split at h
    · simp at h
    · simp only at h
      split at h
      · simp at h
      · simp only [Option.some.injEq] at h
        subst h
        intro o hmem
        simp only [List.mem_append] at hmem
        rcases hmem with hm | hm
        · exact ho o (List.mem_of_mem_take hm)
        · exact ho o (List.mem_of_mem_drop hm)

theorem fieldValue_allSpans (v : VExpr) (ops : FieldOps) (hv : v.allSpans P) (ho : ops.allSpans P) :
    (fieldValue v ops).allSpans P := by
  unfold fieldValue
  split
  · next tl heq => exact foldl_applyOp_allSpans _ _ hv (tailOps?_allSpans ops ho tl heq)
  · exact hv

theorem wildBase_allSpans (hcs : P Sp.callSite) (v : VExpr) (rsp : Sp) (hr : P rsp) (f : FieldName) (hv : v.allSpans P) (hf : f.allSpans P) :
    (wildBase v rsp f).allSpans P := by
  cases f with
  | ident i => exact ⟨⟨hv.1, hv.2⟩, hcs, hf⟩
  | index n => exact ⟨⟨hv.1, hv.2⟩, hcs, hr⟩

theorem var_allSpans (n : Name) (h : n.allSpans P) : (VExpr.ofCore (.var n)).allSpans P :=
  ⟨fun _ hx => by simp [VExpr.ofCore] at hx, h⟩

theorem dedupNames_subset : ∀ (fs seen : List FieldName) (f : FieldName), f ∈ dedupNames fs seen → f ∈ fs
  | [], _, _, h => by simp [dedupNames] at h
  | g :: gs, seen, f, h => by
    unfold dedupNames at h
    split at h
    · exact List.mem_cons_of_mem _ (dedupNames_subset gs seen f h)
    · rcases List.mem_cons.1 h with rfl | h'
      · simp
      · exact List.mem_cons_of_mem _ (dedupNames_subset gs _ f h')

theorem rootNames_allSpans : ∀ (items : Items), items.allSpans P → ∀ f ∈ items.rootNames, f.allSpans P
  | .nil, _, f, h => by simp [Items.rootNames] at h
  | .cons ops key p tl, hi, f, h => by
    unfold Items.rootNames at h
    obtain ⟨ho, _, _, htl⟩ := hi
    split at h
    · next g heq =>
      rcases List.mem_cons.1 h with rfl | h'
      · cases ops with
        | none => simp at heq
        | some o => exact rootFieldName?_allSpans o ho _ (by simpa using heq)
      · exact rootNames_allSpans tl htl f h'
    · exact rootNames_allSpans tl htl f h

theorem dedupSps_subset : ∀ (fs : List FieldName) (ss : List Sp) (seen : List FieldName) (s : Sp),
    s ∈ dedupSps fs ss seen → s ∈ ss
  | [], _, _, _, h => by simp [dedupSps] at h
  | _ :: _, [], _, _, h => by simp [dedupSps] at h
  | f :: fs, s' :: ss, seen, s, h => by
    unfold dedupSps at h
    split at h
    · exact List.mem_cons_of_mem _ (dedupSps_subset fs ss seen s h)
    · rcases List.mem_cons.1 h with rfl | h'
      · simp
      · exact List.mem_cons_of_mem _ (dedupSps_subset fs ss _ s h')

theorem rootSps_allSpans (hcs : P Sp.callSite) : ∀ (items : Items), items.allSpans P → ∀ s ∈ items.rootSps, P s
  | .nil, _, s, h => by simp [Items.rootSps] at h
  | .cons ops key p tl, hi, s, h => by
    unfold Items.rootSps at h
    obtain ⟨ho, _, _, htl⟩ := hi
    split at h
    · rcases List.mem_cons.1 h with rfl | h'
      · cases ops with
        | none => exact hcs
        | some o => exact rootFieldSp_allSpans hcs o ho
      · exact rootSps_allSpans hcs tl htl s h'
    · exact rootSps_allSpans hcs tl htl s h

theorem Codes.append_allSpans : ∀ (a b : Codes), a.allSpans P → b.allSpans P → (a.append b).allSpans P
  | .nil, _, _, hb => hb
  | .cons c tl, b, ha, hb => ⟨ha.1, Codes.append_allSpans tl b ha.2 hb⟩

theorem elemBinders_allSpans (mk : Nat → Name) (hmk : ∀ i, (mk i).allSpans P) :
    ∀ (items : Items) (i : Nat), ∀ b ∈ elemBinders items i mk, b.allSpans P
  | .nil, _, b, h => by simp [elemBinders] at h
  | .cons _ _ p tl, i, b, h => by
    unfold elemBinders at h
    rcases List.mem_cons.1 h with rfl | h'
    · split
      · trivial
      · exact hmk i
    · exact elemBinders_allSpans mk hmk tl (i + 1) b h'

theorem sliceParts_allSpans : ∀ (items : Items) (i : Nat), ∀ b ∈ sliceParts items i, b.allSpans P
  | .nil, _, b, h => by simp [sliceParts] at h
  | .cons _ _ p tl, i, b, h => by
    unfold sliceParts at h
    rcases List.mem_cons.1 h with rfl | h'
    · split
      · trivial
      · split <;> trivial
    · exact sliceParts_allSpans tl (i + 1) b h'


theorem dbgPush_allSpans {sp : Sp} (hsp : P sp) (node : Nat) (v : VExpr) (hv : v.allSpans P) :
    (dbgPush sp node v).allSpans P := ⟨hsp, hv⟩

theorem mapSp_ok (hcs : P Sp.callSite) : ∀ (entries : Items), entries.allSpans P →
    P (match entries with | .cons _ (some k) _ _ => k.sp | _ => Sp.callSite)
  | .nil, _ => hcs
  | .cons _ none _ _, _ => hcs
  | .cons _ (some k) _ _, h => h.2.1.1

mutual
theorem expandPat_allSpans (hcs : P Sp.callSite) (v : VExpr) (hv : v.allSpans P) :
    ∀ p : Pat, p.allSpans P → (expandPat v p).allSpans P
  | .simple id e, h => ⟨h.1, hv, h, dbgPush_allSpans h.1 _ _ hv⟩
  | .string id value sp tok, h => ⟨h.1, hv, h.2, h.1, trivial⟩
  | .cmp id op osp e, h => ⟨h.1, hv, h, h.1, hv⟩
  | .range id e, h => ⟨h.1, hv, h, dbgPush_allSpans h.1 _ _ hv⟩
  | .like id e, h => ⟨h.1, hv, h, dbgPush_allSpans h.1 _ _ hv⟩
  | .closure id e, h => ⟨h.1, hv, h, dbgPush_allSpans h.1 _ _ hv⟩
  | .regex id pat sp, h => ⟨h, hv, dbgPush_allSpans h _ _ hv⟩
  | .wild _, _ => trivial
  | .enum id path elems, h => by
    unfold expandPat
    split
    · exact ⟨h.1.1, hv, h.1, dbgPush_allSpans h.1.1 _ _ hv⟩
    · exact ⟨h.1.1, hv, h.1, elemBinders_allSpans Name.elem (fun _ => trivial) elems 0,
        expandElems_allSpans hcs Name.elem (fun _ => trivial) elems 0 h.2, dbgPush_allSpans h.1.1 _ _ hv⟩
  | .tuple id sp elems, h =>
    ⟨hv, elemBinders_allSpans Name.tupleElem (fun _ => trivial) elems 0,
      expandElems_allSpans hcs Name.tupleElem (fun _ => trivial) elems 0 h⟩
  | .slice id sp elems, h =>
    ⟨hv, sliceParts_allSpans elems 0, expandSliceElems_allSpans hcs elems 0 h, hcs, hv⟩
  | .struct id (some path) fields rest, h =>
    ⟨h.1.1, hv, h.1, ⟨fun f hf => rootNames_allSpans fields h.2 f (dedupNames_subset _ _ f hf),
        fun s hs => rootSps_allSpans hcs fields h.2 s (dedupSps_subset _ _ _ s hs)⟩,
      expandFields_allSpans hcs fields h.2, dbgPush_allSpans h.1.1 _ _ hv⟩
  | .struct id none fields rest, h => expandWildFields_allSpans hcs v hv fields h
  | .set id sp elems rest, h => ⟨hv, expandSetElems_allSpans hcs elems h⟩
  | .map id sp entries rest, h => by
    have he := expandEntries_allSpans hcs v hv id entries h
    have hm := mapSp_ok hcs entries h
    unfold expandPat
    simp only [Code.allSpans]
    apply Codes.append_allSpans _ _ _ he
    split
    · trivial
    · exact ⟨⟨hm, hv, hm, hv⟩, trivial⟩

theorem expandElems_allSpans (hcs : P Sp.callSite) (mk : Nat → Name) (hmk : ∀ i, (mk i).allSpans P) :
    ∀ (items : Items) (i : Nat), items.allSpans P → (expandElems items i mk).allSpans P
  | .nil, _, _ => trivial
  | .cons ops key p tl, i, h => by
    unfold expandElems
    split
    · exact expandElems_allSpans hcs mk hmk tl (i + 1) h.2.2.2
    · refine ⟨?_, expandElems_allSpans hcs mk hmk tl (i + 1) h.2.2.2⟩
      cases ops with
      | none => exact expandPat_allSpans hcs _ (var_allSpans _ (hmk i)) p h.2.2.1
      | some o => exact expandPat_allSpans hcs _ (fieldValue_allSpans _ _ (var_allSpans _ (hmk i)) h.1) p h.2.2.1

theorem expandSliceElems_allSpans (hcs : P Sp.callSite) :
    ∀ (items : Items) (i : Nat), items.allSpans P → (expandSliceElems items i).allSpans P
  | .nil, _, _ => trivial
  | .cons ops key p tl, i, h => by
    unfold expandSliceElems
    split
    · exact expandSliceElems_allSpans hcs tl (i + 1) h.2.2.2
    · exact ⟨expandPat_allSpans hcs _ (var_allSpans (.elem i) trivial) p h.2.2.1,
        expandSliceElems_allSpans hcs tl (i + 1) h.2.2.2⟩

theorem expandSetElems_allSpans (hcs : P Sp.callSite) :
    ∀ (items : Items), items.allSpans P → (expandSetElems items).allSpans P
  | .nil, _ => trivial
  | .cons ops key p tl, h =>
    ⟨expandPat_allSpans hcs _ (var_allSpans .setElem trivial) p h.2.2.1, expandSetElems_allSpans hcs tl h.2.2.2⟩

theorem expandFields_allSpans (hcs : P Sp.callSite) :
    ∀ (items : Items), items.allSpans P → (expandFields items).allSpans P
  | .nil, _ => trivial
  | .cons ops key p tl, h => by
    unfold expandFields
    refine ⟨?_, expandFields_allSpans hcs tl h.2.2.2⟩
    cases ops with
    | none => trivial
    | some o =>
      simp only
      split
      · next f hf =>
        exact expandPat_allSpans hcs _
          (fieldValue_allSpans _ _ (var_allSpans (.field f) (rootFieldName?_allSpans o h.1 f hf)) h.1) p h.2.2.1
      · trivial

theorem expandWildFields_allSpans (hcs : P Sp.callSite) (v : VExpr) (hv : v.allSpans P) :
    ∀ (items : Items), items.allSpans P → (expandWildFields v items).allSpans P
  | .nil, _ => trivial
  | .cons ops key p tl, h => by
    unfold expandWildFields
    refine ⟨?_, expandWildFields_allSpans hcs v hv tl h.2.2.2⟩
    cases ops with
    | none => trivial
    | some o =>
      simp only
      split
      · next f hf =>
        have hb := wildBase_allSpans hcs v o.rootFieldSp (rootFieldSp_allSpans hcs o h.1) f hv (rootFieldName?_allSpans o h.1 f hf)
        split
        · next tl' htl =>
          exact expandPat_allSpans hcs _
            (foldl_applyOp_allSpans _ (VExpr.ofCore _) ⟨fun _ hx => by simp [VExpr.ofCore] at hx, hb⟩
              (tailOps?_allSpans o h.1 tl' htl)) p h.2.2.1
        · refine expandPat_allSpans hcs ⟨_, _⟩ ⟨?_, hb⟩ p h.2.2.1
          intro x hx
          simp only [List.mem_singleton] at hx
          subst hx
          exact hcs
      · trivial

theorem expandEntries_allSpans (hcs : P Sp.callSite) (v : VExpr) (hv : v.allSpans P) (node : Nat) :
    ∀ (items : Items), items.allSpans P → (expandEntries v node items).allSpans P
  | .nil, _ => trivial
  | .cons ops key p tl, h => by
    unfold expandEntries
    refine ⟨?_, expandEntries_allSpans hcs v hv node tl h.2.2.2⟩
    cases key with
    | none => trivial
    | some k =>
      exact ⟨h.2.1.1, hv, h.2.1, expandPat_allSpans hcs _ (var_allSpans .mapValue trivial) p h.2.2.1, h.2.1.1, trivial⟩
end

end generate

/-! ### Property theorems -/

/-- **Closed form.** Whatever holds of the call-site span, of every span the pattern carries
and of every token of the value expression holds of every token of the rendered assertion. -/
theorem expandPat_spans {P : Sp → Prop} (hcs : P Sp.callSite) (v : VExpr) (hv : v.allSpans P)
    (value : Toks) (hval : Toks.allSpans P value) (p : Pat) (hp : p.allSpans P) :
    ∀ t ∈ (expandPat v p).toks value, P t.sp :=
  Code.toks_allSpans hcs hval _ (expandPat_allSpans hcs v hv p hp)

/-- **C20 - span provenance of the whole expansion.** For every pattern, at any nesting
depth: if `S` contains every span the pattern carries (its tokens' spans and the recorded
spans of its sub-patterns, paths, operands and field operations) and the spans of the
asserted expression's tokens, then every token of the rendered assertion code is stamped
with the call site or with a span from `S`.  The generator fabricates no span. -/
theorem C20_span_provenance (S : List Sp) (p : Pat) (value : Toks)
    (hp : p.allSpans (fun sp => sp = Sp.callSite ∨ sp ∈ S))
    (hval : ∀ t ∈ value, t.sp ∈ S) :
    ∀ t ∈ (expand p).body.toks value, t.sp = Sp.callSite ∨ t.sp ∈ S :=
  expandPat_spans (P := fun sp => sp = Sp.callSite ∨ sp ∈ S) (Or.inl rfl) rootVExpr
    ⟨fun _ hx => by simp [rootVExpr, VExpr.ofCore] at hx, trivial⟩ value
    (fun t ht => Or.inr (hval t ht)) p hp

/-! ### The whole output block -/

section whole
variable {P : Sp → Prop}

attribute [local irreducible] tq tstr sepBy supportPath

theorem nodeIdent_allSpans (hcs : P Sp.callSite) (id : Nat) : Toks.allSpans P (nodeIdent id) := tq_allSpans hcs _

theorem refList_allSpans (hcs : P Sp.callSite) (ids : List Nat) : Toks.allSpans P (refList ids) := by
  have hcs' : P cs := hcs
  unfold refList
  refine append_allSpans (append_allSpans (tq_allSpans hcs' _) (sepBy_allSpans (tq_allSpans hcs' _) ?_)) (tq_allSpans hcs' _)
  intro x hx
  obtain ⟨i, _, rfl⟩ := List.mem_map.1 hx
  exact append_allSpans (tq_allSpans hcs' _) (nodeIdent_allSpans hcs i)

theorem entryList_allSpans (hcs : P Sp.callSite) (es : List (String × Nat)) : Toks.allSpans P (entryList es) := by
  have hcs' : P cs := hcs
  unfold entryList
  refine append_allSpans (append_allSpans (tq_allSpans hcs' _) (sepBy_allSpans (tq_allSpans hcs' _) ?_)) (tq_allSpans hcs' _)
  intro x hx
  obtain ⟨⟨k, i⟩, _, rfl⟩ := List.mem_map.1 hx
  exact append_allSpans (append_allSpans (append_allSpans (append_allSpans (tq_allSpans hcs' _) (tstr_allSpans hcs' _))
    (tq_allSpans hcs' _)) (nodeIdent_allSpans hcs i)) (tq_allSpans hcs' _)

macro "cs_auto" hcs:ident : tactic => `(tactic|
  repeat (first
    | assumption
    | exact nil_allSpans
    | exact refList_allSpans $hcs _
    | exact entryList_allSpans $hcs _
    | exact nodeIdent_allSpans $hcs _
    | exact supportPath_allSpans (by assumption)
    | exact tq_allSpans (by assumption) _
    | exact tstr_allSpans (by assumption) _
    | apply append_allSpans))

attribute [local irreducible] refList entryList nodeIdent

theorem nodeKindToks_allSpans (hcs : P Sp.callSite) (k : Runtime.NodeKind) : Toks.allSpans P (nodeKindToks k) := by
  have hcs' : P cs := hcs
  cases k <;> simp only [nodeKindToks, kindPath, boolTok]
  case enumVariant path args => cases args <;> simp only [] <;> cs_auto hcs
  all_goals cs_auto hcs

attribute [local irreducible] nodeKindToks

theorem NodeDef.toks_allSpans (hcs : P Sp.callSite) (d : NodeDef) : Toks.allSpans P d.toks := by
  have hcs' : P cs := hcs
  have hk := nodeKindToks_allSpans hcs d.kind
  unfold NodeDef.toks
  cases d.parent <;> simp only [] <;> cs_auto hcs

attribute [local irreducible] NodeDef.toks

theorem Expansion.head_allSpans (hcs : P Sp.callSite) (x : Expansion) : Toks.allSpans P x.head := by
  have hcs' : P cs := hcs
  have hnodes : Toks.allSpans P (x.nodes.flatMap fun (id, d) =>
      tq cs "static" ++ nodeIdent id ++ tq cs ":" ++ supportPath cs ++ tq cs "PatternNode =" ++ d.toks ++ tq cs ";") := by
    apply flatMap_allSpans
    intro ⟨id, d⟩ _
    have hd := NodeDef.toks_allSpans hcs d
    simp only []
    cs_auto hcs
  unfold Expansion.head
  cs_auto hcs

theorem Expansion.tail_allSpans (hcs : P Sp.callSite) : Toks.allSpans P Expansion.tail := by
  have hcs' : P cs := hcs
  unfold Expansion.tail
  cs_auto hcs

end whole

/-- **C20 - span provenance of the WHOLE expansion** (node definitions, report set-up, the binding
of the asserted expression, the assertion code, the final `panic!`): every token the macro
returns carries the call-site span or a span that occurs in the invocation. -/
theorem C20_whole_expansion_provenance (S : List Sp) (p : Pat) (value : Toks)
    (hp : p.allSpans (fun sp => sp = Sp.callSite ∨ sp ∈ S))
    (hval : ∀ t ∈ value, t.sp ∈ S) :
    ∀ t ∈ Expansion.toks value (expand p), t.sp = Sp.callSite ∨ t.sp ∈ S := by
  have hcs : (fun sp => sp = Sp.callSite ∨ sp ∈ S) Sp.callSite := Or.inl rfl
  have hv : Toks.allSpans (fun sp => sp = Sp.callSite ∨ sp ∈ S) value := fun t ht => Or.inr (hval t ht)
  have hbody : Toks.allSpans (fun sp => sp = Sp.callSite ∨ sp ∈ S) ((expand p).body.toks value) :=
    fun t ht => C20_span_provenance S p value hp hval t ht
  unfold Expansion.toks
  refine append_allSpans (append_allSpans (append_allSpans (Expansion.head_allSpans hcs _) ?_) hbody)
    (Expansion.tail_allSpans hcs)
  split
  · exact nil_allSpans
  · exact append_allSpans (append_allSpans (tq_allSpans hcs _) hv) (tq_allSpans hcs _)

/-- Non-vacuity: a comparison inside a variant inside a named struct field, with four
distinct spans; the hypothesis is satisfiable with `S` = those spans and the conclusion
speaks about a non-empty token stream. -/
example :
    let s1 : Sp := ⟨3, 4, 3, 8⟩
    let s2 : Sp := ⟨3, 10, 3, 14⟩
    let s3 : Sp := ⟨3, 16, 3, 17⟩
    let s4 : Sp := ⟨3, 5, 3, 6⟩
    let e : UExpr := ⟨.other, s3, "5", [⟨.plain "5", s3⟩]⟩
    let somePath : UPath := ⟨s2, s2, s2, "Some", [⟨.plain "Some", s2⟩]⟩
    let userPath : UPath := ⟨s1, s1, s1, "User", [⟨.plain "User", s1⟩]⟩
    let inner : Pat := .enum 2 somePath (.cons none none (.cmp 3 .gt s3 e) .nil)
    let p : Pat := .struct 1 (some userPath)
      (.cons (some ⟨[.named ⟨"age", s4⟩ s4], s4⟩) none inner .nil) true
    p.allSpans (fun sp => sp = Sp.callSite ∨ sp ∈ [s1, s2, s3, s4]) := by
  simp [Pat.allSpans, Items.allSpans, UPath.allSpans, UExpr.allSpans, FieldOps.allSpans, FieldOp.allSpans,
    Toks.allSpans]

end AsModel
