import AsModel.Nodes
/-!
# C14 / C19 in the regime of a stable compiler

Inside a stable rustc `Span::join` fails, and the parser records different *spans* for the same
tokens (`Pat.noJoin`, validated token by token against the real front end with joins failing).
The theorems here say that spans are all that changes: the pattern tree has the same nodes, in
the same order, with the same kinds (texts, child lists, rest flags) and the same parents.  So
whatever the report says about the pattern (C19) and the shape of the tree (C14) do not depend
on the regime; only source positions do, and those are what C04's `AnchoredNJ` is about.
-/
namespace AsModel

theorem UExpr.noJoin_text (e : UExpr) : e.noJoin.text = e.text := by
  unfold UExpr.noJoin; split <;> rfl

theorem UExpr.noJoinRange_text (e : UExpr) : e.noJoinRange.text = e.text := by
  unfold UExpr.noJoinRange
  split
  · simp [UExpr.noJoin_text]
  · exact UExpr.noJoin_text e

theorem UPath.noJoin_text (p : UPath) : p.noJoin.text = p.text := by
  unfold UPath.noJoin; split <;> rfl

theorem Pat.noJoin_id (p : Pat) : p.noJoin.id = p.id := by
  cases p <;> simp [Pat.noJoin, Pat.id]

theorem UExpr.noJoin_cls (e : UExpr) : e.noJoin.cls = e.cls := by
  unfold UExpr.noJoin; split <;> rfl

theorem Pat.noJoin_isSliceRest (p : Pat) : p.noJoin.isSliceRest = p.isSliceRest := by
  cases p with
  | range id e =>
    simp only [Pat.noJoin, Pat.isSliceRest]
    unfold UExpr.noJoinRange
    cases h : e.cls with
    | range st lim en =>
      simp only
      cases st <;> cases en <;> simp
    | _ => simp [UExpr.noJoin_cls, h]
  | _ => simp [Pat.noJoin, Pat.isSliceRest]

theorem Items.noJoin_ids : ∀ items : Items, items.noJoin.ids = items.ids
  | .nil => rfl
  | .cons o k p tl => by simp [Items.noJoin, Items.ids, Pat.noJoin_id, Items.noJoin_ids tl]

theorem Items.noJoin_length : ∀ items : Items, items.noJoin.length = items.length
  | .nil => rfl
  | .cons o k p tl => by simp [Items.noJoin, Items.length, Items.noJoin_length tl]

theorem Items.noJoin_sliceChildIds : ∀ items : Items, items.noJoin.sliceChildIds = items.sliceChildIds
  | .nil => rfl
  | .cons o k p tl => by
    simp [Items.noJoin, Items.sliceChildIds, Pat.noJoin_id, Pat.noJoin_isSliceRest, Items.noJoin_sliceChildIds tl]

theorem Items.noJoin_hasSliceRest : ∀ items : Items, items.noJoin.hasSliceRest = items.hasSliceRest
  | .nil => rfl
  | .cons o k p tl => by
    simp [Items.noJoin, Items.hasSliceRest, Pat.noJoin_isSliceRest, Items.noJoin_hasSliceRest tl]

theorem Items.noJoin_fieldEntries : ∀ items : Items, items.noJoin.fieldEntries = items.fieldEntries
  | .nil => rfl
  | .cons o k p tl => by simp [Items.noJoin, Items.fieldEntries, Pat.noJoin_id, Items.noJoin_fieldEntries tl]

theorem Items.noJoin_mapEntries : ∀ items : Items, items.noJoin.mapEntries = items.mapEntries
  | .nil => rfl
  | .cons o k p tl => by
    simp only [Items.noJoin, Items.mapEntries, Pat.noJoin_id, Items.noJoin_mapEntries tl]
    cases k <;> simp [UExpr.noJoin_text]

/-- **The kind of every node - its text, its list of children, its rest flag - is the same in
both regimes.** -/
theorem Pat.noJoin_nodeKind (p : Pat) : p.noJoin.nodeKind = p.nodeKind := by
  cases p with
  | struct id path fields rest =>
    cases path <;> simp [Pat.noJoin, Pat.nodeKind, Items.noJoin_fieldEntries, UPath.noJoin_text]
  | range id e => simp [Pat.noJoin, Pat.nodeKind, UExpr.noJoinRange_text]
  | _ =>
    simp [Pat.noJoin, Pat.nodeKind, UExpr.noJoin_text, UPath.noJoin_text, Items.noJoin_ids, Items.noJoin_length,
      Items.noJoin_sliceChildIds, Items.noJoin_hasSliceRest, Items.noJoin_mapEntries]

/-- What a node definition says apart from its position. -/
def shape (x : Nat × NodeDef) : Nat × Runtime.NodeKind × Option Nat := (x.1, x.2.kind, x.2.parent)

mutual
theorem genNodes_noJoin_shape : ∀ (p : Pat) (par : Option Nat),
    (genNodes p.noJoin par).map shape = (genNodes p par).map shape
  | .struct id path fields rest, par => by
    have h := Pat.noJoin_nodeKind (.struct id path fields rest)
    simp only [Pat.noJoin] at h
    simp [Pat.noJoin, genNodes, shape, genNodesItems_noJoin_shape fields id false, h]
  | .enum id path elems, par => by
    have h := Pat.noJoin_nodeKind (.enum id path elems)
    simp only [Pat.noJoin] at h
    simp [Pat.noJoin, genNodes, shape, genNodesItems_noJoin_shape elems id false, h]
  | .tuple id sp elems, par => by
    have h := Pat.noJoin_nodeKind (.tuple id sp elems)
    simp only [Pat.noJoin] at h
    simp [Pat.noJoin, genNodes, shape, genNodesItems_noJoin_shape elems id false, h]
  | .slice id sp elems, par => by
    have h := Pat.noJoin_nodeKind (.slice id sp elems)
    simp only [Pat.noJoin] at h
    simp [Pat.noJoin, genNodes, shape, genNodesItems_noJoin_shape elems id true, h]
  | .set id sp elems rest, par => by
    have h := Pat.noJoin_nodeKind (.set id sp elems rest)
    simp only [Pat.noJoin] at h
    simp [Pat.noJoin, genNodes, shape, genNodesItems_noJoin_shape elems id false, h]
  | .map id sp entries rest, par => by
    have h := Pat.noJoin_nodeKind (.map id sp entries rest)
    simp only [Pat.noJoin] at h
    simp [Pat.noJoin, genNodes, shape, genNodesItems_noJoin_shape entries id false, h]
  | .simple id e, par => by
    have h := Pat.noJoin_nodeKind (.simple id e)
    simp only [Pat.noJoin] at h
    simp [Pat.noJoin, genNodes, shape, h]
  | .cmp id op osp e, par => by
    have h := Pat.noJoin_nodeKind (.cmp id op osp e)
    simp only [Pat.noJoin] at h
    simp [Pat.noJoin, genNodes, shape, h]
  | .range id e, par => by
    have h := Pat.noJoin_nodeKind (.range id e)
    simp only [Pat.noJoin] at h
    simp [Pat.noJoin, genNodes, shape, h]
  | .like id e, par => by
    have h := Pat.noJoin_nodeKind (.like id e)
    simp only [Pat.noJoin] at h
    simp [Pat.noJoin, genNodes, shape, h]
  | .closure id e, par => by
    have h := Pat.noJoin_nodeKind (.closure id e)
    simp only [Pat.noJoin] at h
    simp [Pat.noJoin, genNodes, shape, h]
  | .string .., par | .regex .., par | .wild _, par => by simp [Pat.noJoin, genNodes, shape]
theorem genNodesItems_noJoin_shape : ∀ (items : Items) (par : Nat) (skip : Bool),
    (genNodesItems items.noJoin par skip).map shape = (genNodesItems items par skip).map shape
  | .nil, _, _ => rfl
  | .cons o k p tl, par, skip => by
    simp only [Items.noJoin, genNodesItems, List.map_append, Pat.noJoin_isSliceRest,
      genNodesItems_noJoin_shape tl par skip]
    split
    · rfl
    · rw [genNodes_noJoin_shape p (some par)]
end

/-- **C14 / C19, regime independence.** The pattern tree the macro records inside a stable
compiler (where `Span::join` fails) has the same nodes in the same order, with the same kinds -
texts, child lists, rest flags - and the same parent links as the tree recorded when spans can
be joined; only positions differ. -/
theorem C14_tree_shape_regime_independent (p : Pat) :
    (genNodes p.noJoin none).map shape = (genNodes p none).map shape :=
  genNodes_noJoin_shape p none

theorem lookup_of_shape_eq : ∀ (l1 l2 : List (Nat × NodeDef)), l1.map shape = l2.map shape →
    ∀ (id : Nat) (d : NodeDef), l1.lookup id = some d →
      ∃ d', l2.lookup id = some d' ∧ d'.kind = d.kind ∧ d'.parent = d.parent
  | [], _, _, _, _, h => by simp at h
  | (a, x) :: l1, [], hm, _, _, _ => by simp at hm
  | (a, x) :: l1, (b, y) :: l2, hm, id, d, h => by
    simp only [List.map_cons, List.cons.injEq, shape, Prod.mk.injEq] at hm
    obtain ⟨⟨hab, hk, hp⟩, htl⟩ := hm
    subst hab
    by_cases hid : id = a
    · subst hid
      simp only [List.lookup_cons_self, Option.some.injEq] at h ⊢
      subst h
      exact ⟨y, rfl, hk.symm, hp.symm⟩
    · have hne : (id == a) = false := by simpa using hid
      simp only [List.lookup_cons, hne] at h ⊢
      exact lookup_of_shape_eq l1 l2 htl id d h

/-- **C19, regime independence.** What the report says about a node - its label is a function of
the node's kind (`errorLabel`) - is the same inside a stable compiler as when spans can be joined:
every node of the recorded tree has the same kind and the same parent in both regimes. -/
theorem C19_node_kinds_regime_independent (p : Pat) (id : Nat) (d : NodeDef)
    (h : (genNodes p.noJoin none).lookup id = some d) :
    ∃ d', (genNodes p none).lookup id = some d' ∧ d'.kind = d.kind ∧ d'.parent = d.parent :=
  lookup_of_shape_eq _ _ (C14_tree_shape_regime_independent p) id d h

end AsModel
