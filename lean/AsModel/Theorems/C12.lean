import AsModel.Theorems.Refine
/-!
# C12 — exhaustiveness and shape are enforced at compile time

`none` is "the generated code does not type-check".  The native pattern the expansion
emits lists exactly the fields written, and `..` exactly when written, so rustc's own
destructuring rules decide.
-/
namespace AsModel

/-- The native struct pattern lists exactly the (deduplicated) fields written and `..` iff written. -/
theorem C12_struct_pat_faithful (v : VExpr) (id : Nat) (path : UPath) (fields : Items) (rest : Bool) :
    ∃ body push, expandPat v (.struct id (some path) fields rest) =
      .structNamed path.sp v path (dedupNames fields.rootNames []) (dedupSps fields.rootNames fields.rootSps []) rest body push :=
  ⟨_, _, rfl⟩

/-- Without `..`, a pattern that omits a field of the struct is rejected (E0027). -/
theorem C12_omitted_field_rejected (P : Prims) (env : Env) (v : VExpr) (x : RV) (id : Nat) (path : UPath)
    (fields : Items) (ctor : String) (names : List String) (vals : List Val)
    (hx : evalV P env v = some x) (hv : x.v = .adt ctor names vals) (hc : P.ctor path ctor = true)
    (hmiss : allListed names (dedupNames fields.rootNames []) = false) :
    exec P (expandPat v (.struct id (some path) fields false)) env = none := by
  simp [expandPat, exec, hx, hv, hc, hmiss]

/-- A field that does not exist is rejected (E0026), with or without `..`. -/
theorem C12_unknown_field_rejected (P : Prims) (env : Env) (v : VExpr) (x : RV) (id : Nat) (path : UPath)
    (fields : Items) (rest : Bool) (ctor : String) (names : List String) (vals : List Val)
    (hx : evalV P env v = some x) (hv : x.v = .adt ctor names vals) (hc : P.ctor path ctor = true)
    (g : FieldName) (hg : g ∈ dedupNames fields.rootNames []) (hgn : (Val.adt ctor names vals).field g = none) :
    exec P (expandPat v (.struct id (some path) fields rest)) env = none := by
  have hb : bindFields (Val.adt ctor names vals) (dedupNames fields.rootNames []) env = none := by
    cases h : bindFields (Val.adt ctor names vals) (dedupNames fields.rootNames []) env with
    | none => rfl
    | some env' =>
      obtain ⟨w, hw, _⟩ := bindFields_lookup _ _ _ _ h g ⟨g, hg, rfl⟩
      rw [hgn] at hw; simp at hw
  simp only [expandPat, exec, hx, Option.bind_some, hv, hc, if_true]
  split <;> simp [hb]

/-- With `..` and only existing fields the struct pattern is accepted, whatever is omitted. -/
theorem C12_rest_allows_omission (P : Prims) (fields : Items) (ctor : String) (names : List String)
    (vals : List Val) (id : Nat) (path : UPath) (hc : P.ctor path ctor = true) :
    frontier P (.struct id (some path) fields true) (.adt ctor names vals) =
      frontierFields P fields (.adt ctor names vals) := by
  simp [frontier, hc]

/-- A variant / tuple pattern of the wrong arity is rejected (E0023 / E0308), never treated as partial. -/
theorem C12_variant_arity (P : Prims) (id : Nat) (path : UPath) (elems : Items) (ctor : String)
    (names : List String) (vals : List Val) (h0 : elems.length ≠ 0) (hc : P.ctor path ctor = true)
    (hl : vals.length ≠ elems.length) :
    frontier P (.enum id path elems) (.adt ctor names vals) = none := by
  simp [frontier, h0, hc, hl]

theorem C12_tuple_arity (P : Prims) (id : Nat) (sp : Sp) (elems : Items) (vs : List Val)
    (hs : elems.isSingleParen = false) (hl : vs.length ≠ elems.length) :
    frontier P (.tuple id sp elems) (.tuple vs) = none := by
  simp [frontier, hs, hl]

end AsModel

namespace AsModel

theorem rootSps_length : ∀ (items : Items), items.rootSps.length = items.rootNames.length
  | .nil => rfl
  | .cons ops key p tl => by
    unfold Items.rootSps Items.rootNames
    cases h : ops.bind FieldOps.rootFieldName? with
    | none => simpa using rootSps_length tl
    | some f => simp [rootSps_length tl]

theorem dedupSps_length : ∀ (fs : List FieldName) (ss : List Sp) (seen : List FieldName),
    ss.length = fs.length → (dedupSps fs ss seen).length = (dedupNames fs seen).length
  | [], [], _, _ => by simp [dedupSps, dedupNames]
  | [], _ :: _, _, h => by simp at h
  | _ :: _, [], _, h => by simp at h
  | f :: fs, s :: ss, seen, h => by
    unfold dedupSps dedupNames
    have h' : ss.length = fs.length := by simpa using h
    split
    · exact dedupSps_length fs ss seen h'
    · simp [dedupSps_length fs ss (f :: seen) h']

/-- **Every listed field keeps its key in the rendered destructuring pattern.** Since /repo
757d3fe the renderer pairs each listed field with the span of the access that first named it
(`fields.zip fsps`); the two lists the generator hands it have the same length, so the pairing
drops no field: the keys rendered are exactly `dedupNames fields.rootNames []`, in order. -/
theorem C12_listed_fields_all_keyed (fields : Items) :
    ((dedupNames fields.rootNames []).zip (dedupSps fields.rootNames fields.rootSps [])).map (·.1) =
      dedupNames fields.rootNames [] := by
  have hl := dedupSps_length fields.rootNames fields.rootSps [] (rootSps_length fields)
  exact List.map_fst_zip (Nat.le_of_eq hl.symm)

end AsModel
