import AsModel.Proofs.ParseSound
/-!
# C15 — what the parser accepts is what the grammar derives

`Grammar.lean` states the pattern language declaratively.  Here: **every invocation the parser
accepts is derivable in that grammar, from all of its tokens** (`C15_accepted_in_grammar`), for
every token stream and every behaviour of `syn`'s own parsers.  The listed malformed classes are
then statements about the grammar (no rule derives them), proved below as corollaries on the
parser.
-/
namespace AsModel
open Runtime (CmpOp)

theorem Clean.of_unexp_eq {s s1 s' : PSt} {G : Prop} (h : s1.unexp = s.unexp) (hc : Clean s1 s' G) : Clean s s' G := by
  intro hu
  obtain ⟨a, b⟩ := hc hu
  exact ⟨h ▸ a, b⟩

/-- One tuple element, as the grammar sees it. -/
def ElemAt (o : Oracle) (c : Cur) (pos : Nat) (ops : Option FieldOps) (p : Pat) (c' : Cur) : Prop :=
  (ops = none ∧ GPat o c p c') ∨
  (∃ f c1 sp c2, ops = some f ∧ GFieldOps o c f c1 ∧ f.rootFieldName? = some (.index pos) ∧ PunctAt ':' c1 sp c2 ∧ GPat o c2 p c')

/-- What `PatternStruct::parse` accepts, before the caller's first-token tests are known. -/
def StructAt (o : Oracle) (c : Cur) (p : Pat) (c' : Cur) : Prop :=
  (∃ so sc ic fields ie id, isIdent "_" c.rest = true ∧ GroupAt .brace (c.advance 1) so sc ic c' ∧
    GFields o ic fields true ie ∧ ie.atEnd ∧ p = .struct id none fields true) ∨
  (∃ path c1 so sc ic fields rest ie id, isIdent "_" c.rest = false ∧ PathAt o c path c1 ∧ GroupAt .brace c1 so sc ic c' ∧
    GFields o ic fields rest ie ∧ ie.atEnd ∧ p = .struct id (some path) fields rest)

structure AllSound (o : Oracle) (fuel : Nat) : Prop where
  pattern : ∀ c s, (parsePattern o fuel).okAt c s (fun p c' s' => Clean s s' (GPat o c p c'))
  struct_ : ∀ c s, (parseStruct o fuel).okAt c s (fun p c' s' => Clean s s' (StructAt o c p c'))
  fields : ∀ c s, (parseFields o fuel).okAt c s (fun r c' s' => Clean s s' (GFields o c r.1 r.2 c'))
  elems : ∀ pos c s, (parseElems o fuel pos).okAt c s (fun r c' s' => Clean s s' (GElems o c pos r c'))
  list : ∀ c s, (parseList o fuel).okAt c s (fun r c' s' => Clean s s' (GList o c r c'))
  set : ∀ c s, (parseSet o fuel).okAt c s (fun p c' s' => Clean s s' (GPat o c p c'))
  setElems : ∀ c s, (parseSetElems o fuel).okAt c s (fun r c' s' =>
    Clean s s' (GSet o c r.1 r.2 c' ∧ (isPunct2 '.' '.' c.rest = false → GSetTail o c r.1 r.2 c')))
  map : ∀ c s, (parseMap o fuel).okAt c s (fun p c' s' => Clean s s' (GPat o c p c'))
  entries : ∀ c s, (parseEntries o fuel).okAt c s (fun r c' s' => Clean s s' (GEntries o c r.1 r.2 c'))

theorem allSound_zero (o : Oracle) : AllSound o 0 := by
  constructor
  · intro c s; unfold parsePattern; exact okAt_outOfFuel _ _ _
  · intro c s; unfold parseStruct; exact okAt_outOfFuel _ _ _
  · intro c s; unfold parseFields; exact okAt_outOfFuel _ _ _
  · intro pos c s; unfold parseElems; exact okAt_outOfFuel _ _ _
  · intro c s; unfold parseList; exact okAt_outOfFuel _ _ _
  · intro c s; unfold parseSet; exact okAt_outOfFuel _ _ _
  · intro c s; unfold parseSetElems; exact okAt_outOfFuel _ _ _
  · intro c s; unfold parseMap; exact okAt_outOfFuel _ _ _
  · intro c s; unfold parseEntries; exact okAt_outOfFuel _ _ _

theorem sound_list_step (o : Oracle) (fuel : Nat) (ih : AllSound o fuel) (c : Cur) (s : PSt) :
    (parseList o (fuel + 1)).okAt c s (fun r c' s' => Clean s s' (GList o c r c')) := by
  unfold parseList
  apply okAt_getCur
  apply okAt_ite
  · intro _; apply okAt_pure; exact Clean.refl (GList.nil c)
  · intro _
    refine okAt_bind _ _ _ _ _ _ (ih.pattern c s) ?_
    intro p c1 s1 hp
    apply okAt_getCur
    apply okAt_ite
    · intro _; apply okAt_pure; exact hp.mono (GList.last c p c1)
    · intro _
      refine okAt_bind _ _ _ _ _ _ (okAt_punct1 ',' c1 s1) ?_
      intro sp c2 s2 ⟨hs, hc⟩
      subst s2
      refine okAt_bind _ _ _ _ _ _ (ih.list c2 s1) ?_
      intro tl c' s' ht
      apply okAt_pure
      exact (Clean.trans hp ht).mono (fun ⟨a, b⟩ => GList.cons c p c1 sp c2 tl c' a hc b)

theorem sound_fields_step (o : Oracle) (fuel : Nat) (ih : AllSound o fuel) (c : Cur) (s : PSt) :
    (parseFields o (fuel + 1)).okAt c s (fun r c' s' => Clean s s' (GFields o c r.1 r.2 c')) := by
  unfold parseFields
  apply okAt_getCur
  apply okAt_ite
  · intro _; apply okAt_pure; exact Clean.refl (GFields.nil c)
  intro _
  apply okAt_ite
  · intro _
    refine okAt_bind _ _ _ _ _ _ (okAt_punct2 '.' '.' c s) ?_
    intro sp c' s' ⟨hs, hp⟩
    subst s'
    apply okAt_pure; exact Clean.refl (GFields.rest c sp c' hp)
  intro _
  refine okAt_bind _ _ _ _ _ _ (sound_parseFieldOps o fuel c s) ?_
  intro ops c1 s1 hops
  refine okAt_bind _ _ _ _ _ _ (okAt_punct1 ':' c1 s1) ?_
  intro sp c2 s2 ⟨hs, hcol⟩
  subst s2
  refine okAt_bind _ _ _ _ _ _ (ih.pattern c2 s1) ?_
  intro p c3 s3 hp
  apply okAt_getCur
  apply okAt_ite
  · intro _; apply okAt_pure
    exact (Clean.trans hops hp).mono (fun ⟨a, b⟩ => GFields.last c ops c1 sp c2 p c3 a hcol b)
  intro _
  refine okAt_bind _ _ _ _ _ _ (okAt_punct1 ',' c3 s3) ?_
  intro sp' c4 s4 ⟨hs, hcom⟩
  subst s4
  apply okAt_getCur
  apply okAt_ite
  · intro _
    refine okAt_bind _ _ _ _ _ _ (okAt_punct2 '.' '.' c4 s3) ?_
    intro sp2 c' s' ⟨hs, hdd⟩
    subst s'
    apply okAt_pure
    exact (Clean.trans hops hp).mono (fun ⟨a, b⟩ =>
      GFields.cons c ops c1 sp c2 p c3 sp' c4 .nil true c' a hcol b hcom (GFields.rest c4 sp2 c' hdd))
  · intro _
    refine okAt_bind _ _ _ _ _ _ (ih.fields c4 s3) ?_
    intro ⟨tl, rest⟩ c' s' ht
    apply okAt_pure
    exact (Clean.trans (Clean.trans hops hp) ht).mono (fun ⟨⟨a, b⟩, t⟩ =>
      GFields.cons c ops c1 sp c2 p c3 sp' c4 tl rest c' a hcol b hcom t)

theorem sound_entries_step (o : Oracle) (fuel : Nat) (ih : AllSound o fuel) (c : Cur) (s : PSt) :
    (parseEntries o (fuel + 1)).okAt c s (fun r c' s' => Clean s s' (GEntries o c r.1 r.2 c')) := by
  unfold parseEntries
  apply okAt_getCur
  apply okAt_ite
  · intro _; apply okAt_pure; exact Clean.refl (GEntries.nil c)
  intro _
  apply okAt_ite
  · intro _
    refine okAt_bind _ _ _ _ _ _ (okAt_punct2 '.' '.' c s) ?_
    intro sp c' s' ⟨hs, hp⟩
    subst s'
    apply okAt_pure; exact Clean.refl (GEntries.rest c sp c' hp)
  intro hnd
  have hnd : isPunct2 '.' '.' c.rest = false := by simpa using hnd
  refine okAt_bind _ _ _ _ _ _ (okAt_oracleExpr o c s) ?_
  intro key c1 s1 ⟨_, hkey⟩
  refine okAt_bind _ _ _ _ _ _ (okAt_punct1 ':' c1 s1) ?_
  intro sp c2 s2 ⟨hs, hcol⟩
  subst s2
  refine okAt_bind _ _ _ _ _ _ (ih.pattern c2 s1) ?_
  intro p c3 s3 hp
  apply okAt_getCur
  apply okAt_ite
  · intro _; apply okAt_pure
    exact (Clean.trans hkey hp).mono (fun ⟨a, b⟩ => GEntries.last c key c1 sp c2 p c3 hnd a hcol b)
  intro _
  refine okAt_bind _ _ _ _ _ _ (okAt_punct1 ',' c3 s3) ?_
  intro sp' c4 s4 ⟨hs, hcom⟩
  subst s4
  apply okAt_getCur
  apply okAt_ite
  · intro _
    refine okAt_bind _ _ _ _ _ _ (okAt_punct2 '.' '.' c4 s3) ?_
    intro sp2 c' s' ⟨hs, hdd⟩
    subst s'
    apply okAt_pure
    exact (Clean.trans hkey hp).mono (fun ⟨a, b⟩ =>
      GEntries.cons c key c1 sp c2 p c3 sp' c4 .nil true c' hnd a hcol b hcom (GEntries.rest c4 sp2 c' hdd))
  · intro _
    refine okAt_bind _ _ _ _ _ _ (ih.entries c4 s3) ?_
    intro ⟨tl, rest⟩ c' s' ht
    apply okAt_pure
    exact (Clean.trans (Clean.trans hkey hp) ht).mono (fun ⟨⟨a, b⟩, t⟩ =>
      GEntries.cons c key c1 sp c2 p c3 sp' c4 tl rest c' hnd a hcol b hcom t)

theorem sound_setElems_step (o : Oracle) (fuel : Nat) (ih : AllSound o fuel) (c : Cur) (s : PSt) :
    (parseSetElems o (fuel + 1)).okAt c s (fun r c' s' =>
      Clean s s' (GSet o c r.1 r.2 c' ∧ (isPunct2 '.' '.' c.rest = false → GSetTail o c r.1 r.2 c'))) := by
  unfold parseSetElems
  apply okAt_getCur
  apply okAt_ite
  · intro _; apply okAt_pure; exact Clean.refl ⟨GSet.nil c, fun _ => GSetTail.nil c⟩
  intro _
  apply okAt_ite
  · intro hdots
    refine okAt_bind _ _ _ _ _ _ (okAt_punct2 '.' '.' c s) ?_
    intro sp c1 s1 ⟨hs, hp⟩
    subst s1
    apply okAt_getCur
    apply okAt_ite
    · intro _
      refine okAt_bind _ _ _ _ _ _ (okAt_punct1 ',' c1 s) ?_
      intro sp' c' s' ⟨hs, hcom⟩
      subst s'
      apply okAt_pure
      exact Clean.refl ⟨GSet.restComma c sp c1 sp' c' hp hcom, fun h => by simp [hdots] at h⟩
    · intro _
      apply okAt_pure
      exact Clean.refl ⟨GSet.rest c sp c1 hp, fun h => by simp [hdots] at h⟩
  intro hnd0
  have hnd0 : isPunct2 '.' '.' c.rest = false := by simpa using hnd0
  refine okAt_bind _ _ _ _ _ _ (ih.pattern c s) ?_
  intro p c1 s1 hp
  apply okAt_getCur
  apply okAt_ite
  · intro _; apply okAt_pure
    exact hp.mono (fun a => ⟨GSet.last c p c1 hnd0 a, fun _ => GSetTail.last c p c1 hnd0 a⟩)
  intro _
  refine okAt_bind _ _ _ _ _ _ (okAt_punct1 ',' c1 s1) ?_
  intro sp c2 s2 ⟨hs, hcom⟩
  subst s2
  apply okAt_getCur
  apply okAt_ite
  · intro _
    refine okAt_bind _ _ _ _ _ _ (okAt_punct2 '.' '.' c2 s1) ?_
    intro sp2 c' s' ⟨hs, hdd⟩
    subst s'
    apply okAt_pure
    exact hp.mono (fun a => ⟨GSet.lastRest c p c1 sp c2 sp2 c' hnd0 a hcom hdd, fun _ => GSetTail.lastRest c p c1 sp c2 sp2 c' hnd0 a hcom hdd⟩)
  · intro hnd
    refine okAt_bind _ _ _ _ _ _ (ih.setElems c2 s1) ?_
    intro ⟨tl, rest⟩ c' s' ht
    apply okAt_pure
    have hnd' : isPunct2 '.' '.' c2.rest = false := by simpa using hnd
    exact (Clean.trans hp ht).mono (fun ⟨a, _, t⟩ =>
      ⟨GSet.cons c p c1 sp c2 tl rest c' hnd0 a hcom (t hnd'), fun _ => GSetTail.cons c p c1 sp c2 tl rest c' hnd0 a hcom (t hnd')⟩)

theorem sound_elemHead (o : Oracle) (pp : P Pat) (pfo : P FieldOps) (pos : Nat)
    (hpp : ∀ c s, pp.okAt c s (fun p c' s' => Clean s s' (GPat o c p c')))
    (hpfo : ∀ c s, pfo.okAt c s (fun f c' s' => Clean s s' (GFieldOps o c f c'))) (c : Cur) (s : PSt) :
    (elemHead pp pfo pos).okAt c s (fun r c' s' => Clean s s' (ElemAt o c pos r.1 r.2 c')) := by
  unfold elemHead
  refine okAt_bind _ _ _ _ _ _ (okAt_fork pp c s) ?_
  intro spec cf sf ⟨hc, hu⟩
  subst cf
  apply okAt_ite
  · intro _
    refine okAt_bind _ _ _ _ _ _ (hpp c sf) ?_
    intro p c' s' hp
    apply okAt_pure
    exact Clean.of_unexp_eq hu (hp.mono (fun a => Or.inl ⟨rfl, a⟩))
  · intro _
    refine okAt_bind _ _ _ _ _ _ (hpfo c sf) ?_
    intro ops c1 s1 hops
    split
    · rename_i i hroot
      apply okAt_ite
      · intro hi
        subst hi
        refine okAt_bind _ _ _ _ _ _ (okAt_punct1 ':' c1 s1) ?_
        intro sp c2 s2 ⟨hs, hcol⟩
        subst s2
        refine okAt_bind _ _ _ _ _ _ (hpp c2 s1) ?_
        intro p c' s' hp
        apply okAt_pure
        exact Clean.of_unexp_eq hu ((Clean.trans hops hp).mono (fun ⟨a, b⟩ => Or.inr ⟨ops, c1, sp, c2, rfl, a, hroot, hcol, b⟩))
      · intro _; exact okAt_fail _ _ _
    · exact okAt_fail _ _ _

theorem sound_elems_step (o : Oracle) (fuel : Nat) (ih : AllSound o fuel) (pos : Nat) (c : Cur) (s : PSt) :
    (parseElems o (fuel + 1) pos).okAt c s (fun r c' s' => Clean s s' (GElems o c pos r c')) := by
  unfold parseElems
  apply okAt_getCur
  apply okAt_ite
  · intro _; apply okAt_pure; exact Clean.refl (GElems.nil c pos)
  intro _
  refine okAt_bind _ _ _ _ _ _ (sound_elemHead o _ _ pos ih.pattern (sound_parseFieldOps o fuel) c s) ?_
  intro ⟨ops, p⟩ c1 s1 hel
  apply okAt_getCur
  apply okAt_ite
  · intro _; apply okAt_pure
    refine hel.mono ?_
    intro h
    rcases h with ⟨h1, h2⟩ | ⟨f, ca, sp, cb, h1, h2, h3, h4, h5⟩
    · simp only at h1; subst h1; exact GElems.lastPos c pos p c1 h2
    · simp only at h1; subst h1; exact GElems.lastIdx c pos f ca sp cb p c1 h2 h3 h4 h5
  intro _
  refine okAt_bind _ _ _ _ _ _ (okAt_punct1 ',' c1 s1) ?_
  intro sp' c2 s2 ⟨hs, hcom⟩
  subst s2
  refine okAt_bind _ _ _ _ _ _ (ih.elems (pos + 1) c2 s1) ?_
  intro tl c' s' ht
  apply okAt_pure
  refine (Clean.trans hel ht).mono ?_
  intro ⟨h, t⟩
  rcases h with ⟨h1, h2⟩ | ⟨f, ca, sp, cb, h1, h2, h3, h4, h5⟩
  · simp only at h1; subst h1; exact GElems.consPos c pos p c1 sp' c2 tl c' h2 hcom t
  · simp only at h1; subst h1; exact GElems.consIdx c pos f ca sp cb p c1 sp' c2 tl c' h2 h3 h4 h5 hcom t

theorem sound_structPath (o : Oracle) (c : Cur) (s : PSt) :
    (structPath o).okAt c s (fun path c' s' => s'.ctr = s.ctr ∧ Clean s s'
      ((path = none ∧ isIdent "_" c.rest = true ∧ c' = c.advance 1) ∨
       (∃ p, path = some p ∧ isIdent "_" c.rest = false ∧ PathAt o c p c'))) := by
  unfold structPath
  apply okAt_getCur
  apply okAt_ite
  · intro hi
    apply okAt_advance
    apply okAt_pure
    exact ⟨rfl, Clean.refl (Or.inl ⟨rfl, hi, rfl⟩)⟩
  · intro hni
    refine okAt_bind _ _ _ _ _ _ (okAt_oraclePath o c s) ?_
    intro p c' s' ⟨hc, hp⟩
    apply okAt_pure
    exact ⟨hc, Clean.mono hp (fun a => Or.inr ⟨p, rfl, by simpa using hni, a⟩)⟩

theorem sound_struct_step (o : Oracle) (fuel : Nat) (ih : AllSound o fuel) (c : Cur) (s : PSt) :
    (parseStruct o (fuel + 1)).okAt c s (fun p c' s' => Clean s s' (StructAt o c p c')) := by
  unfold parseStruct
  apply okAt_nextId
  refine okAt_bind _ _ _ _ _ _ (sound_structPath o c _) ?_
  intro path c1 s1 ⟨_, hpath⟩
  refine okAt_bind _ _ _ _ _ _
    (okAt_withGroup .brace (fun _ _ => parseFields o fuel) c1 s1
      (fun so sc ic r ie si => Clean s1 si (GFields o ic r.1 r.2 ie))
      (fun so sc ic c' _ => ih.fields ic s1)) ?_
  intro ⟨fields, rest⟩ c' s' ⟨so, sc, ic, ie, si, hg, hf, _, hfin⟩
  apply okAt_ite
  · intro _; exact okAt_fail _ _ _
  · intro hnr
    apply okAt_pure
    intro hu
    obtain ⟨h1, hend⟩ := hfin hu
    obtain ⟨h2, hF⟩ := hf h1
    obtain ⟨h3, hP⟩ := hpath h2
    refine ⟨h3, ?_⟩
    rcases hP with ⟨hn, hi, hc1⟩ | ⟨pth, hn, hni, hpa⟩
    · subst hn hc1
      have hr : rest = true := by
        cases rest with
        | true => rfl
        | false => simp at hnr
      subst hr
      exact Or.inl ⟨so, sc, ic, fields, ie, _, hi, hg, hF, hend, rfl⟩
    · subst hn
      exact Or.inr ⟨pth, c1, so, sc, ic, fields, rest, ie, _, hni, hpa, hg, hF, hend, rfl⟩

theorem sound_set_step (o : Oracle) (fuel : Nat) (ih : AllSound o fuel) (c : Cur) (s : PSt) :
    (parseSet o (fuel + 1)).okAt c s (fun p c' s' => Clean s s' (GPat o c p c')) := by
  unfold parseSet
  refine okAt_bind _ _ _ _ _ _ (okAt_punct1 '#' c s) ?_
  intro hs c1 s1 ⟨hst, hhash⟩
  subst s1
  refine okAt_bind _ _ _ _ _ _
    (okAt_withGroup .paren _ c1 s
      (fun so sc ic (r : Items × Bool × Sp) ie si => r.2.2 = sc ∧ Clean s si (GSet o ic r.1 r.2.1 ie))
      (fun so sc ic c' _ => ?_)) ?_
  · refine okAt_bind _ _ _ _ _ _ (ih.setElems ic s) ?_
    intro ⟨e, r⟩ ie si he
    apply okAt_pure
    exact ⟨rfl, he.mono (fun a => a.1)⟩
  · intro ⟨elems, rest, closeSp⟩ c' s' ⟨so, sc, ic, ie, si, hg, ⟨hcs, hS⟩, _, hfin⟩
    simp only at hcs
    subst hcs
    apply okAt_nextId
    apply okAt_pure
    intro hu
    obtain ⟨h1, hend⟩ := hfin hu
    obtain ⟨h2, hG⟩ := hS h1
    exact ⟨h2, GPat.set c hs c1 so closeSp ic c' elems rest ie _ hhash hg hG hend⟩

theorem sound_map_step (o : Oracle) (fuel : Nat) (ih : AllSound o fuel) (c : Cur) (s : PSt) :
    (parseMap o (fuel + 1)).okAt c s (fun p c' s' => Clean s s' (GPat o c p c')) := by
  unfold parseMap
  refine okAt_bind _ _ _ _ _ _ (okAt_punct1 '#' c s) ?_
  intro hs c1 s1 ⟨hst, hhash⟩
  subst s1
  apply okAt_getCur
  refine okAt_bind _ _ _ _ _ _
    (okAt_withGroup .brace (fun _ _ => parseEntries o fuel) c1 s
      (fun so sc ic r ie si => Clean s si (GEntries o ic r.1 r.2 ie))
      (fun so sc ic c' _ => ih.entries ic s)) ?_
  intro ⟨entries, rest⟩ c' s' ⟨so, sc, ic, ie, si, hg, hE, _, hfin⟩
  apply okAt_nextId
  apply okAt_pure
  intro hu
  obtain ⟨h1, hend⟩ := hfin hu
  obtain ⟨h2, hG⟩ := hE h1
  refine ⟨h2, ?_⟩
  have hsp : c1.span = so := by
    obtain ⟨sp, ts, rest', hr, _, _⟩ := hg
    simp [Cur.span, hr, TT.sp']
  rw [hsp]
  exact GPat.map c hs c1 so sc ic c' entries rest ie _ hhash hg hG hend

theorem sound_enumArgs (o : Oracle) (pe : P Items)
    (hpe : ∀ c s, pe.okAt c s (fun r c' s' => Clean s s' (GElems o c 0 r c'))) (c : Cur) (s : PSt) :
    (enumArgs pe).okAt c s (fun elems c' s' => s'.ctr = s'.ctr ∧ Clean s s'
      ((elems = .nil ∧ c' = c ∧ isGroup .paren c.rest = false) ∨
       (∃ so sc ic ie, GroupAt .paren c so sc ic c' ∧ GElems o ic 0 elems ie ∧ ie.atEnd))) := by
  unfold enumArgs
  apply okAt_getCur
  apply okAt_ite
  · intro _
    refine okAt_weaken _ _ _ _ _
      (okAt_withGroup .paren (fun _ _ => pe) c s
        (fun so sc ic r ie si => Clean s si (GElems o ic 0 r ie))
        (fun so sc ic c' _ => hpe ic s)) ?_
    intro elems c' s' ⟨so, sc, ic, ie, si, hg, hE, _, hfin⟩
    refine ⟨rfl, ?_⟩
    intro hu
    obtain ⟨h1, hend⟩ := hfin hu
    obtain ⟨h2, hG⟩ := hE h1
    exact ⟨h2, Or.inr ⟨so, sc, ic, ie, hg, hG, hend⟩⟩
  · intro hnp
    apply okAt_pure
    exact ⟨rfl, Clean.refl (Or.inl ⟨rfl, rfl, by simpa using hnp⟩)⟩

theorem sound_parseComparison (o : Oracle) (c : Cur) (s : PSt) :
    (parseComparison o).okAt c s (fun p c' s' => Clean s s' (GPat o c p c')) := by
  unfold parseComparison
  refine okAt_bind _ _ _ _ _ _ (sound_parseCmpOp c s) ?_
  intro ⟨op, sp⟩ c1 s1 ⟨hs, hop⟩
  subst s1
  refine okAt_bind _ _ _ _ _ _ (okAt_oracleExpr o c1 s) ?_
  intro e c' s' ⟨_, he⟩
  apply okAt_nextId
  apply okAt_pure
  exact fun hu => let ⟨a, b⟩ := he hu; ⟨a, GPat.cmp c op sp c1 e c' _ hop b⟩

theorem sound_pattern_step (o : Oracle) (fuel : Nat) (ih : AllSound o fuel) (c : Cur) (s : PSt) :
    (parsePattern o (fuel + 1)).okAt c s (fun p c' s' => Clean s s' (GPat o c p c')) := by
  unfold parsePattern
  apply okAt_getCur
  dsimp only
  apply okAt_ite
  · intro hcl
    refine ⟨?_⟩
    intro p c' s' he
    split at he
    · rename_i n u isp e hl
      split at he
      · rename_i hcls
        cases he
        intro hu
        simp only [Bool.or_eq_false_iff] at hu
        obtain ⟨h1, h2⟩ := hu
        subst h2
        exact ⟨h1, GPat.closure c _ e _ hcl ⟨n, isp, hl, rfl⟩ hcls⟩
      · cases he
    · cases he
  intro n1
  apply okAt_ite
  · intro hw
    apply okAt_ite
    · intro _
      refine okAt_weaken _ _ _ _ _ (ih.struct_ c s) ?_
      intro p c' s' h
      refine Clean.mono h ?_
      intro hS
      rcases hS with ⟨so, sc, ic, fields, ie, id, hi, hg, hF, hend, hp⟩ | ⟨path, c1, so, sc, ic, fields, rest, ie, id, hni, _⟩
      · subst hp; exact GPat.wildStruct c so sc ic c' fields ie id hi hg hF hend
      · rw [hw] at hni; cases hni
    · intro hnb
      apply okAt_advance
      apply okAt_nextId
      apply okAt_pure
      exact fun hu => ⟨hu, GPat.wild c _ hw (by simpa using hnb)⟩
  intro n2
  apply okAt_ite
  · intro _; exact sound_parseComparison o c s
  intro n3
  apply okAt_ite
  · intro _
    apply okAt_ite
    · intro _; exact sound_parseComparison o c s
    intro _
    apply okAt_ite
    · intro _
      refine okAt_bind _ _ _ _ _ _ (okAt_punct1 '=' c s) ?_
      intro s1 c1 st1 ⟨hs, h1⟩
      subst st1
      refine okAt_bind _ _ _ _ _ _ (okAt_punct1 '~' c1 s) ?_
      intro s2 c2 st2 ⟨hs, h2⟩
      subst st2
      refine okAt_bind _ _ _ _ _ _ (okAt_oracleExpr o c2 s) ?_
      intro e c' s' ⟨_, he⟩
      apply okAt_nextId
      split
      · rename_i v sp hv
        apply okAt_pure
        exact fun hu => let ⟨a, b⟩ := he hu; ⟨a, GPat.regex c s1 c1 s2 c2 e c' v sp _ h1 h2 b hv⟩
      · rename_i hv
        apply okAt_pure
        exact fun hu => let ⟨a, b⟩ := he hu; ⟨a, GPat.like c s1 c1 s2 c2 e c' _ h1 h2 b hv⟩
    · intro _; exact okAt_fail _ _ _
  intro n4
  apply okAt_ite
  · intro _; exact ih.set c s
  intro n5
  apply okAt_ite
  · intro _; exact ih.map c s
  intro n6
  apply okAt_ite
  · intro _
    refine okAt_bind _ _ _ _ _ _
      (okAt_withGroup .bracket (fun _ _ => parseList o fuel) c s
        (fun so sc ic r ie si => Clean s si (GList o ic r ie))
        (fun so sc ic c' _ => ih.list ic s)) ?_
    intro elems c' s' ⟨so, sc, ic, ie, si, hg, hL, _, hfin⟩
    apply okAt_nextId
    apply okAt_pure
    intro hu
    obtain ⟨h1, hend⟩ := hfin hu
    obtain ⟨h2, hG⟩ := hL h1
    refine ⟨h2, ?_⟩
    have hsp : c.span = so := by
      obtain ⟨sp, ts, rest', hr, _, _⟩ := hg
      simp [Cur.span, hr, TT.sp']
    rw [hsp]
    exact GPat.slice c so sc ic c' elems ie _ hg hG hend
  intro n7
  apply okAt_ite
  · intro _
    refine okAt_bind _ _ _ _ _ _
      (okAt_withGroup .paren (fun _ _ => parseElems o fuel 0) c s
        (fun so sc ic r ie si => Clean s si (GElems o ic 0 r ie))
        (fun so sc ic c' _ => ih.elems 0 ic s)) ?_
    intro elems c' s' ⟨so, sc, ic, ie, si, hg, hL, _, hfin⟩
    apply okAt_nextId
    apply okAt_pure
    intro hu
    obtain ⟨h1, hend⟩ := hfin hu
    obtain ⟨h2, hG⟩ := hL h1
    refine ⟨h2, ?_⟩
    have hsp : c.span = so := by
      obtain ⟨sp, ts, rest', hr, _, _⟩ := hg
      simp [Cur.span, hr, TT.sp']
    rw [hsp]
    exact GPat.tuple c so sc ic c' elems ie _ hg hG hend
  intro n8
  have hns : startsSpecial c.rest = false := by
    simp only [Bool.not_eq_true] at n1 n2 n3 n4 n5 n6 n7 n8
    simp only [startsSpecial, startsClosure, n1, n2, n3, n4, n5, n6, n7, n8, Bool.or_false]
  split
  · rename_i np up pp hlp
    apply okAt_ite
    · intro _
      -- a struct pattern: `parseStruct` looks at the path again
      refine okAt_weaken _ _ _ _ _ (ih.struct_ c s) ?_
      intro p c' s' h
      refine Clean.mono h ?_
      intro hS
      rcases hS with ⟨so, sc, ic, fields, ie, id, hi, _⟩ | ⟨path, c1, so, sc, ic, fields, rest, ie, id, hni, hpa, hg, hF, hend, hp⟩
      · simp only [Bool.not_eq_true] at n2; rw [n2] at hi; cases hi
      · subst hp; exact GPat.struct c path c1 so sc ic c' fields rest ie id hns hpa hg hF hend
    · intro hnb
      refine okAt_bind _ _ _ _ _ _ (okAt_oraclePath o c s) ?_
      intro path c1 s1 ⟨_, hpath⟩
      refine okAt_bind _ _ _ _ _ _ (sound_enumArgs o _ (ih.elems 0) c1 s1) ?_
      intro elems c' s' ⟨_, hel⟩
      apply okAt_nextId
      apply okAt_pure
      intro hu
      obtain ⟨h1, hE⟩ := hel hu
      obtain ⟨h2, hP⟩ := hpath h1
      refine ⟨h2, ?_⟩
      rcases hE with ⟨hn, hc, hnp⟩ | ⟨so, sc, ic, ie, hg, hG, hend⟩
      · subst hn hc
        have hc1 : c' = c.advance np := by
          obtain ⟨n, hl, hc'⟩ := hP
          rw [hlp] at hl; cases hl; exact hc'
        have hb : isGroup .brace c'.rest = false := by
          rw [hc1]; simpa [Cur.advance] using hnb
        exact GPat.unit c path c' _ hns hP hb hnp
      · exact GPat.variant c path c1 so sc ic c' elems ie _ hns hP hg hG hend
  · rename_i hnopath
    split
    · rename_i n0 u0 e0 hl0
      apply okAt_ite
      · intro hrange
        apply okAt_nextId
        refine okAt_bind _ _ _ _ _ _ (okAt_oracleExpr o c _) ?_
        intro e c' s' ⟨_, he⟩
        apply okAt_nextId
        apply okAt_pure
        intro hu
        obtain ⟨h1, hE⟩ := he hu
        refine ⟨h1, ?_⟩
        -- the expression parsed now is the one the oracle showed to the range test
        obtain ⟨n, hl, hc'⟩ := hE
        rw [hl0] at hl
        cases hl
        exact GPat.range c _ c' _ hns hnopath ⟨_, hl0, hc'⟩ hrange
      · intro hnr
        have hnr : isRangeExpr e0 = false := by simpa using hnr
        apply okAt_ite
        · intro _
          refine ⟨?_⟩
          intro p c' s' he
          unfold parseStringLit at he
          split at he
          · rename_i text sp value rest hr
            cases he
            refine fun hu => ⟨hu, GPat.string c text sp value rest _ hns hnopath ?_ hr⟩
            intro n u e hl
            rw [hl0] at hl; cases hl; exact hnr
          · cases he
        · intro hnl
          refine okAt_bind _ _ _ _ _ _ (okAt_oracleExpr o c s) ?_
          intro e c' s' ⟨_, he⟩
          apply okAt_nextId
          apply okAt_pure
          intro hu
          obtain ⟨h1, hE⟩ := he hu
          refine ⟨h1, ?_⟩
          obtain ⟨n, hl, hc'⟩ := hE
          rw [hl0] at hl
          cases hl
          exact GPat.simple c _ c' _ hns hnopath ⟨_, hl0, hc'⟩ hnr (by simpa using hnl)
    · rename_i hnoexpr
      apply okAt_ite
      · intro _
        refine ⟨?_⟩
        intro p c' s' he
        unfold parseStringLit at he
        split at he
        · rename_i text sp value rest hr
          cases he
          refine fun hu => ⟨hu, GPat.string c text sp value rest _ hns hnopath ?_ hr⟩
          intro n u e hl
          rw [hnoexpr] at hl; cases hl
        · cases he
      · intro _; exact okAt_fail _ _ _

theorem allSound (o : Oracle) : ∀ fuel, AllSound o fuel
  | 0 => allSound_zero o
  | fuel + 1 =>
    have ih := allSound o fuel
    { pattern := sound_pattern_step o fuel ih
      struct_ := sound_struct_step o fuel ih
      fields := sound_fields_step o fuel ih
      elems := sound_elems_step o fuel ih
      list := sound_list_step o fuel ih
      set := sound_set_step o fuel ih
      setElems := sound_setElems_step o fuel ih
      map := sound_map_step o fuel ih
      entries := sound_entries_step o fuel ih }

/-- **Everything the parser accepts is in the grammar, with every token accounted for**: for
every token stream, every answer of `syn`'s parsers and every recursion budget, an accepted
invocation is `value , pattern` where the pattern is derived by the grammar's rules from exactly
the tokens after the comma up to the end of the input, the content of every delimited group
being used up by the rule that opened it. -/
theorem C15_accepted_in_grammar (o : Oracle) (ts : List TT) (fuel prev : Nat) (v : UExpr) (p : Pat) (n : Nat)
    (h : parseAssert o ts fuel prev = .accept v p n) : GAssert o ts v p := by
  unfold parseAssert at h
  simp only at h
  split at h
  · rename_i v' pat c' s heq
    split at h
    · cases h
    · rename_i hfin
      cases h
      have hok : (do
          let value ← oracleExpr o
          let _ ← punct1 ','
          let pat ← parsePattern o fuel
          pure (value, pat) : P (UExpr × Pat)).okAt ⟨[], ts.length, ts, Sp.callSite⟩ ⟨0, false⟩
            (fun r c' s' => Clean ⟨0, false⟩ s' (∃ c1 sp c2, ExprAt o ⟨[], ts.length, ts, Sp.callSite⟩ r.1 c1 ∧
              PunctAt ',' c1 sp c2 ∧ GPat o c2 r.2 c')) := by
        refine okAt_bind _ _ _ _ _ _ (okAt_oracleExpr o _ _) ?_
        intro value c1 s1 ⟨_, hv⟩
        refine okAt_bind _ _ _ _ _ _ (okAt_punct1 ',' c1 s1) ?_
        intro sp c2 s2 ⟨hs, hcom⟩
        subst s2
        refine okAt_bind _ _ _ _ _ _ ((allSound o fuel).pattern c2 s1) ?_
        intro pat c3 s3 hp
        apply okAt_pure
        exact (Clean.trans hv hp).mono (fun ⟨a, b⟩ => ⟨c1, sp, c2, a, hcom, b⟩)
      have hq := hok.h _ _ _ heq
      simp only [Bool.or_eq_true, Bool.not_eq_true', not_or, Bool.not_eq_true] at hfin
      obtain ⟨hu, hrest⟩ := hfin
      obtain ⟨_, c1, sp, c2, h1, h2, h3⟩ := hq hu
      refine ⟨c1, sp, c2, c', h1, h2, h3, ?_⟩
      unfold Cur.atEnd
      cases hr : c'.rest with
      | nil => rfl
      | cons x xs => simp [hr] at hrest
  · cases h
  · cases h

/-! ## The malformed classes, as statements about the grammar

Together with `C15_accepted_in_grammar` each of these says that the parser rejects the class. -/

theorem advance_zero (c : Cur) : c.advance 0 = c := by
  cases c; simp [Cur.advance]

/-- A field-operation chain cannot start at a `.`. -/
theorem no_fieldOps_at_dot (o : Oracle) {c : Cur} {j : Bool} {sp : Sp} {rest : List TT} (h : c.rest = .punct '.' j sp :: rest)
    {f : FieldOps} {c' : Cur} : ¬ GFieldOps o c f c' := by
  intro hg
  cases hg
  rename_i hn hp
  have hs : countStars c.rest = 0 := by rw [h]; simp [countStars]
  rw [hs, advance_zero] at hn
  cases hn
  · rename_i hr _; rw [h] at hr; cases hr
  · rename_i hr; rw [h] at hr; cases hr

/-- **`..` in a struct pattern ends the field list**: where the remaining field tokens start with
`..`, nothing but the end of the braces can follow. -/
theorem C15_rest_last_in_struct (o : Oracle) {c c1 c' : Cur} {sp : Sp} {items : Items} {r : Bool}
    (hdots : Punct2At '.' '.' c sp c1) (hg : GFields o c items r c') (hend : c'.atEnd) : c1.atEnd ∧ r = true := by
  obtain ⟨s1, j, s2, rest, hr, _, hc1⟩ := hdots
  cases hg with
  | nil => unfold Cur.atEnd at hend; rw [hr] at hend; cases hend
  | rest _ sp' _ hp =>
    obtain ⟨_, _, _, _, _, _, hc'⟩ := hp
    rw [hc1, ← hc']; exact ⟨hend, rfl⟩
  | last _ ops ca _ cb p _ hops _ _ => exact absurd hops (no_fieldOps_at_dot o hr)
  | cons _ ops ca _ cb p cc _ cd tl _ _ hops _ _ _ _ => exact absurd hops (no_fieldOps_at_dot o hr)

/-- **`..` in a map pattern ends the entry list.** -/
theorem C15_rest_last_in_map (o : Oracle) {c c1 c' : Cur} {sp : Sp} {items : Items} {r : Bool}
    (hdots : Punct2At '.' '.' c sp c1) (hg : GEntries o c items r c') (hend : c'.atEnd) : c1.atEnd ∧ r = true := by
  obtain ⟨s1, j, s2, rest, hr, _, hc1⟩ := hdots
  have hd : isPunct2 '.' '.' c.rest = true := by rw [hr]; simp [isPunct2]
  cases hg with
  | nil => unfold Cur.atEnd at hend; rw [hr] at hend; cases hend
  | rest _ sp' _ hp =>
    obtain ⟨_, _, _, _, _, _, hc'⟩ := hp
    rw [hc1, ← hc']; exact ⟨hend, rfl⟩
  | last _ key ca _ cb p _ hnd _ _ _ => rw [hd] at hnd; cases hnd
  | cons _ key ca _ cb p cc _ cd tl _ _ hnd _ _ _ _ _ => rw [hd] at hnd; cases hnd

/-- **A leading `..` in a set pattern ends the element list** (it may be followed by one comma). -/
theorem C15_rest_last_in_set (o : Oracle) {c c1 c' : Cur} {sp : Sp} {items : Items} {r : Bool}
    (hdots : Punct2At '.' '.' c sp c1) (hg : GSet o c items r c') (hend : c'.atEnd) :
    (c1.atEnd ∨ ∃ sp' c2, PunctAt ',' c1 sp' c2 ∧ c2.atEnd) ∧ r = true := by
  obtain ⟨s1, j, s2, rest, hr, _, hc1⟩ := hdots
  have hd : isPunct2 '.' '.' c.rest = true := by rw [hr]; simp [isPunct2]
  cases hg with
  | nil => unfold Cur.atEnd at hend; rw [hr] at hend; cases hend
  | rest _ sp' _ hp =>
    obtain ⟨_, _, _, _, _, _, hc'⟩ := hp
    rw [hc1, ← hc']; exact ⟨Or.inl hend, rfl⟩
  | restComma _ sp' ca sp'' _ hp hcom =>
    obtain ⟨_, _, _, _, _, _, hca⟩ := hp
    refine ⟨Or.inr ⟨sp'', c', ?_, hend⟩, rfl⟩
    rw [hc1, ← hca]; exact hcom
  | last _ p _ hnd _ => rw [hd] at hnd; cases hnd
  | lastRest _ p ca _ cb _ _ hnd _ _ _ => rw [hd] at hnd; cases hnd
  | cons _ p ca _ cb tl _ _ hnd _ _ _ => rw [hd] at hnd; cases hnd

/-- **After the first element of a set, `..` must be the very last thing** (no comma after it). -/
theorem C15_rest_last_in_set_tail (o : Oracle) {c c1 c' : Cur} {sp : Sp} {items : Items} {r : Bool}
    (hdots : Punct2At '.' '.' c sp c1) (hg : GSetTail o c items r c') : ¬ c'.atEnd := by
  obtain ⟨s1, j, s2, rest, hr, _, hc1⟩ := hdots
  have hd : isPunct2 '.' '.' c.rest = true := by rw [hr]; simp [isPunct2]
  intro hend
  cases hg with
  | nil => unfold Cur.atEnd at hend; rw [hr] at hend; cases hend
  | last _ p _ hnd _ => rw [hd] at hnd; cases hnd
  | lastRest _ p ca _ cb _ _ hnd _ _ _ => rw [hd] at hnd; cases hnd
  | cons _ p ca _ cb tl _ _ hnd _ _ _ => rw [hd] at hnd; cases hnd

/-- **An indexed tuple element carries the index of its position.** -/
theorem C15_index_is_position (o : Oracle) {c c' : Cur} {pos : Nat} {ops : FieldOps} {key : Option UExpr} {p : Pat} {tl : Items}
    (hg : GElems o c pos (.cons (some ops) key p tl) c') : ops.rootFieldName? = some (.index pos) := by
  cases hg with
  | lastIdx _ _ _ ca _ cb _ _ _ hroot _ _ => exact hroot
  | consIdx _ _ _ ca _ cb _ cc _ cd _ _ _ hroot _ _ _ _ => exact hroot

/-- **A closure pattern has exactly one parameter.** -/
theorem C15_closure_arity (o : Oracle) {c c' : Cur} {id : Nat} {e : UExpr} (hg : GPat o c (.closure id e) c') :
    e.cls = .closure 1 := by
  cases hg with
  | closure _ _ _ _ _ _ hcls => exact hcls

/-- **A comparison operator is followed by an expression** (its operand). -/
theorem C15_operator_has_operand (o : Oracle) {c c' : Cur} {id : Nat} {op : CmpOp} {sp : Sp} {e : UExpr}
    (hg : GPat o c (.cmp id op sp e) c') : ∃ c1, GCmpOp c op sp c1 ∧ ExprAt o c1 e c' := by
  cases hg with
  | cmp _ _ _ c1 _ _ _ hop he => exact ⟨c1, hop, he⟩

/-- **`=` followed by neither `=` nor `~` starts no pattern.** -/
theorem C15_eq_alone (o : Oracle) {c c1 c' : Cur} {sp : Sp} {p : Pat} (heq : PunctAt '=' c sp c1)
    (h1 : isPunct '=' c1.rest = false) (h2 : isPunct '~' c1.rest = false) : ¬ GPat o c p c' := by
  obtain ⟨j, rest, hr, hc1⟩ := heq
  have hrest : c1.rest = rest := by rw [hc1]; simp [Cur.advance, hr]
  have hsp : startsSpecial c.rest = true := by rw [hr]; simp [startsSpecial, startsClosure, isPunct, isIdent, isGroup, peek2]
  intro hg
  cases hg with
  | closure _ _ _ _ hs _ _ => rw [hr] at hs; simp [startsClosure, isPunct, isIdent] at hs
  | wild _ _ hw _ => rw [hr] at hw; simp [isIdent] at hw
  | cmp _ op sp' ca e _ _ hop _ =>
    cases hop
    · rename_i hp; obtain ⟨_, _, _, _, hr', _⟩ := hp; rw [hr] at hr'; cases hr'
    · rename_i hp; obtain ⟨_, _, hr', _⟩ := hp; rw [hr] at hr'; cases hr'
    · rename_i hp; obtain ⟨_, _, _, _, hr', _⟩ := hp; rw [hr] at hr'; cases hr'
    · rename_i hp; obtain ⟨_, _, hr', _⟩ := hp; rw [hr] at hr'; cases hr'
    · rename_i hp
      obtain ⟨_, _, _, _, hr', _⟩ := hp
      rw [hr] at hr'; cases hr'
      rw [hrest] at h1; simp [isPunct] at h1
    · rename_i hp; obtain ⟨_, _, _, _, hr', _⟩ := hp; rw [hr] at hr'; cases hr'
  | regex _ s1 ca s2 cb e _ v sp' _ ha hb _ _ =>
    obtain ⟨_, _, hra, hca⟩ := ha
    obtain ⟨_, _, hrb, _⟩ := hb
    rw [hr] at hra; cases hra
    rw [hca] at hrb; simp only [Cur.advance, hr, List.drop_succ_cons, List.drop_zero] at hrb
    rw [hrest] at h2; rw [hrb] at h2; simp [isPunct] at h2
  | like _ s1 ca s2 cb e _ _ ha hb _ _ =>
    obtain ⟨_, _, hra, hca⟩ := ha
    obtain ⟨_, _, hrb, _⟩ := hb
    rw [hr] at hra; cases hra
    rw [hca] at hrb; simp only [Cur.advance, hr, List.drop_succ_cons, List.drop_zero] at hrb
    rw [hrest] at h2; rw [hrb] at h2; simp [isPunct] at h2
  | set _ hs ca _ _ _ _ _ _ _ _ hp _ _ _ => obtain ⟨_, _, hr', _⟩ := hp; rw [hr] at hr'; cases hr'
  | map _ hs ca _ _ _ _ _ _ _ _ hp _ _ _ => obtain ⟨_, _, hr', _⟩ := hp; rw [hr] at hr'; cases hr'
  | slice _ _ _ _ _ _ _ _ hg _ _ => obtain ⟨_, _, _, hr', _⟩ := hg; rw [hr] at hr'; cases hr'
  | tuple _ _ _ _ _ _ _ _ hg _ _ => obtain ⟨_, _, _, hr', _⟩ := hg; rw [hr] at hr'; cases hr'
  | struct _ _ _ _ _ _ _ _ _ _ _ hs _ _ _ _ => rw [hsp] at hs; cases hs
  | wildStruct _ _ _ _ _ _ _ _ hw _ _ _ => rw [hr] at hw; simp [isIdent] at hw
  | unit _ _ _ _ hs _ _ _ => rw [hsp] at hs; cases hs
  | variant _ _ _ _ _ _ _ _ _ _ hs _ _ _ _ => rw [hsp] at hs; cases hs
  | range _ _ _ _ hs _ _ _ => rw [hsp] at hs; cases hs
  | string _ _ _ _ _ _ hs _ _ _ => rw [hsp] at hs; cases hs
  | simple _ _ _ _ hs _ _ _ _ => rw [hsp] at hs; cases hs

/-- **Nothing trails an accepted invocation**, and the value and the pattern are separated by a
comma: restated from `GAssert` for the parser. -/
theorem C15_no_trailing_tokens (o : Oracle) (ts : List TT) (fuel prev : Nat) (v : UExpr) (p : Pat) (n : Nat)
    (h : parseAssert o ts fuel prev = .accept v p n) :
    ∃ c1 sp c2 c3, ExprAt o ⟨[], ts.length, ts, Sp.callSite⟩ v c1 ∧ PunctAt ',' c1 sp c2 ∧ GPat o c2 p c3 ∧ c3.rest = [] :=
  C15_accepted_in_grammar o ts fuel prev v p n h

/-! ## Non-vacuity: a concrete invocation the parser accepts (`assert_struct!(x, (5, 6))`) -/

def exTokens : List TT :=
  [.ident "x" ⟨1, 1, 1, 2⟩ false, .punct ',' false ⟨1, 2, 1, 3⟩,
   .group .paren ⟨1, 4, 1, 10⟩ ⟨1, 4, 1, 5⟩ ⟨1, 9, 1, 10⟩
     [.lit .int "5" ⟨1, 5, 1, 6⟩ "5", .punct ',' false ⟨1, 6, 1, 7⟩, .lit .int "6" ⟨1, 8, 1, 9⟩ "6"]]

def exOracle : Oracle :=
  { exprs := [(([], 0), (1, false, ⟨.path, ⟨1, 1, 1, 2⟩, "x", []⟩)),
              (([2], 0), (1, false, ⟨.lit, ⟨1, 5, 1, 6⟩, "5", []⟩)),
              (([2], 2), (1, false, ⟨.lit, ⟨1, 8, 1, 9⟩, "6", []⟩))],
    paths := [(([], 0), (1, false, ⟨⟨1, 1, 1, 2⟩, ⟨1, 1, 1, 2⟩, ⟨1, 1, 1, 2⟩, "x", []⟩))],
    closures := [] }

/-- The hypotheses of `C13_accepted_is_shaped`, `C14_parser_ids` and `C15_accepted_in_grammar`
are satisfiable: the model parser accepts this stream (two speculative element parses included:
the final counter is 5 for 3 nodes). -/
example : ∃ v p, parseAssert exOracle exTokens 6 0 = .accept v p 5 := by
  have h : (match parseAssert exOracle exTokens 6 0 with | .accept _ _ n => some n | _ => none) = some 5 := by decide
  split at h
  · rename_i v p n heq; cases h; exact ⟨v, p, heq⟩
  · cases h

/-- … and rejects the same stream with a token trailing inside the parentheses. -/
example : ∃ n, parseAssert exOracle
    [.ident "x" ⟨1, 1, 1, 2⟩ false, .punct ',' false ⟨1, 2, 1, 3⟩,
     .group .paren ⟨1, 4, 1, 10⟩ ⟨1, 4, 1, 5⟩ ⟨1, 9, 1, 10⟩
       [.lit .int "5" ⟨1, 5, 1, 6⟩ "5", .punct ',' false ⟨1, 6, 1, 7⟩, .lit .int "6" ⟨1, 8, 1, 9⟩ "6",
        .punct '#' false ⟨1, 9, 1, 9⟩]] 6 0 = .reject n := by
  generalize hts : ([_, _, _] : List TT) = ts
  have h : (match parseAssert exOracle ts 6 0 with | .reject _ => true | _ => false) = true := by subst hts; decide
  split at h
  · rename_i n heq; exact ⟨n, heq⟩
  · cases h

end AsModel
