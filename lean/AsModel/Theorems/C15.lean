import AsModel.Theorems.C13
import AsModel.Spec
/-!
# C15 — malformed patterns are rejected, not reinterpreted (AST-level half)

The parser is tied differentially (T1).  At the level of the parsed pattern: the
expansion uses every part of the AST (no field of an accepted pattern is ignored by both
the node table and the assertion code), and a native slice pattern with more than one
`..` has no verdict (rustc rejects it).
-/
namespace AsModel

/-- More than one `..` in a slice: the macro lowers both to native rest patterns and the
destructuring judgment (rustc: "`..` can only be used once per slice pattern") rejects. -/
theorem C15_slice_multi_rest (P : Prims) (id : Nat) (sp : Sp) (elems : Items) (v : Val) (vs : List Val)
    (hv : v.autoDeref = .seq vs) (h : 2 ≤ elems.countRest) :
    frontier P (.slice id sp elems) v = none := by
  unfold frontier
  simp only [hv]
  have h0 : elems.countRest ≠ 0 := by omega
  have h1 : elems.countRest ≠ 1 := by omega
  simp [h0, h1]

end AsModel
