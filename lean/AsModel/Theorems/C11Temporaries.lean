import AsModel.Temporaries
/-!
# C11 — temporaries of a field-operation chain outlive every use the template makes of them

"Accepted in a struct-field position ⇒ accepted after field operations that yield that value"
has a half that is about *lifetimes*, not types: a chain such as `name.to_lowercase().as_str()`
creates a temporary that a later call borrows from.  Whether the borrow checker accepts the
generated code then depends only on how the template holds the value expression.
-/
namespace AsModel

/-- Every template of the generator evaluates its value expression as (part of) the scrutinee
or condition of the statement that contains all uses. -/
theorem C11_templates_hold_statement (c : Code) : c.hold = .statement := by
  cases c <;> rfl

/-- **No template lets a temporary of the chain die before its last use**, whatever the chain
and whatever the pattern form: the acceptance of a pattern after field operations cannot
depend on which calls of the chain return owned values. -/
theorem C11_no_dangling_temporaries (c : Code) (chain : List Step) : dangles c.hold chain = false := by
  rw [C11_templates_hold_statement]; rfl

/-- The steps of a field-operation chain, given which methods return an owned value. -/
def FieldOp.step (byValue : String → Bool) : FieldOp → Step
  | .method name _ _ => if byValue name.name then .callValue else .callBorrow
  | .await _ => .callValue
  | _ => .place

def FieldOps.steps (byValue : String → Bool) (ops : FieldOps) : List Step := ops.ops.map (FieldOp.step byValue)

/-- The statement in terms of the generator: a field `a.op₁.….opₙ: p` of any pattern `p`. -/
theorem C11_field_chain_temporaries (v : VExpr) (ops : FieldOps) (p : Pat) (byValue : String → Bool) :
    dangles (expandPat (applyOps v ops) p).hold (ops.steps byValue) = false :=
  C11_no_dangling_temporaries _ _

/-- On the tree before f5121f2 the string-literal template bound `&V` with `let`: the chain
`field.own().borrow()` (`name.to_lowercase().as_str(): "alice"`) is rejected (E0716). -/
theorem C11_pinned_string_counterexample (sp : Sp) (v : VExpr) (lit : Tok) (s : String) (push : Push) :
    dangles (Code.string sp v lit s push).holdPinned [.place, .callValue, .callBorrow] = true := rfl

/-- The same for the set template (`w.own().items(): #(1, 2)`). -/
theorem C11_pinned_set_counterexample (v : VExpr) (preds : Codes) (rest : Bool) (node : Nat) :
    dangles (Code.set v preds rest node).holdPinned [.place, .callValue, .callBorrow] = true := rfl

theorem afterLastValue_none_iff (chain : List Step) : afterLastValue chain = none ↔ Step.callValue ∉ chain := by
  induction chain with
  | nil => simp [afterLastValue]
  | cons s tl ih =>
    cases h : afterLastValue tl with
    | some r =>
      have hm : Step.callValue ∈ tl :=
        Decidable.byContradiction fun hc => by rw [ih.mpr hc] at h; cases h
      simp [afterLastValue, h, hm]
    | none =>
      have hn := ih.mp h
      by_cases hs : s = .callValue
      · simp [afterLastValue, h, hs]
      · have hs' : ¬ Step.callValue = s := fun e => hs e.symm
        simp [afterLastValue, h, hs, hs', hn]

/-- A `let`-held chain without a by-value call never dangles: everything borrows from the
asserted value.  (Why the defect needed a method returning an owned value.) -/
theorem letRef_safe_without_callValue (chain : List Step) (h : Step.callValue ∉ chain) :
    dangles .letRef chain = false := by
  simp [dangles, letRefDangles, (afterLastValue_none_iff chain).mpr h]

theorem afterLastValue_append_value (pre post : List Step) (h : Step.callValue ∉ post) :
    afterLastValue (pre ++ [.callValue] ++ post) = some post := by
  induction pre with
  | nil =>
    simp [afterLastValue, (afterLastValue_none_iff post).mpr h]
  | cons s tl ih =>
    simp only [List.cons_append, List.append_assoc] at ih ⊢
    unfold afterLastValue
    rw [ih]

/-- A `let`-held chain whose last by-value call is followed by places only does not dangle:
that temporary is extended (what fc05304 relied on for `w.get(): #(..)`). -/
theorem letRef_safe_when_only_places_follow (pre post : List Step) (h : ∀ s ∈ post, s = .place) :
    dangles .letRef (pre ++ [.callValue] ++ post) = false := by
  have hv : Step.callValue ∉ post := fun hm => by cases h _ hm
  simp only [dangles, letRefDangles, afterLastValue_append_value pre post hv]
  simp only [List.any_eq_false]
  intro s hs; rw [h s hs]; decide

/-- ... and it dangles exactly when a borrowing call follows the last by-value call. -/
theorem letRef_dangles_iff (pre post : List Step) (hv : Step.callValue ∉ post) :
    dangles .letRef (pre ++ [.callValue] ++ post) = true ↔ Step.callBorrow ∈ post := by
  simp only [dangles, letRefDangles, afterLastValue_append_value pre post hv, List.any_eq_true]
  constructor
  · rintro ⟨s, hs, he⟩; have : s = .callBorrow := by simpa using he
    exact this ▸ hs
  · intro hm; exact ⟨_, hm, by simp⟩

-- non-vacuity: concrete chains on both sides
example : dangles .letRef [.place, .callValue, .place, .place] = false := by decide
example : dangles .letRef [.callValue, .callBorrow, .callValue] = false := by decide
example : dangles .letRef [.callValue, .place, .callBorrow] = true := by decide
example : dangles .statement [.callValue, .place, .callBorrow] = false := by decide

end AsModel
