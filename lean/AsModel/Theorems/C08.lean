import AsModel.Theorems.C09
import AsModel.Exec
/-!
# C08 — expressions are evaluated exactly once; Debug runs only on failure

Counting is syntactic: how many times each template splices its value expression into
code that runs on the passing path and on the failing path.
-/
namespace AsModel

/-- Does the value expression mention the asserted expression's tokens at all? -/
def Core.mentionsRoot : Core → Bool
  | .root => true
  | .var _ => false
  | .paren _ c | .method c _ _ _ | .await c _ | .named c _ _ | .unnamed c _ _ _ | .index c _ _ => c.mentionsRoot

/-- Occurrences of the value expression executed by a leaf template: (passing path, failing path). -/
def Code.leafEvaluations : Code → Option (Nat × Nat)
  | .simple _ _ _ push | .cmp _ _ _ _ push | .unitVariant _ _ _ push | .range _ _ _ push
  | .regex _ _ _ push | .like _ _ _ push | .closure _ _ _ push =>
    some (1, match push.actual with | .dbg _ | .dbgRef _ | .mapLen _ => 2 | _ => 1)
  | .string _ _ _ _ push =>
    some (1, match push.actual with | .dbg _ | .dbgRef _ | .mapLen _ => 2 | _ => 1)
  | _ => none

/-- **The asserted expression is bound once.**  The root pattern is expanded on the binding
`__assert_struct_value`; the expression's own tokens never occur in the assertion code
(they occur once, in `let __assert_struct_value = &(expr);`, see `Expansion.toks`). -/
theorem C08_root_bound_once : rootVExpr.core.mentionsRoot = false := rfl

/-- The string template reads its value expression once on both paths (it binds it to a
temporary); every other leaf template splices it a second time into the error text. -/
theorem C08_string_once (sp : Sp) (v : VExpr) (id : Nat) (value : String) (tok : Tok) :
    (expandPat v (.string id value sp tok)).leafEvaluations = some (1, 1) := rfl

theorem C08_comparison_twice_on_failure (v : VExpr) (id : Nat) (op : Runtime.CmpOp) (sp : Sp) (e : UExpr) :
    (expandPat v (.cmp id op sp e)).leafEvaluations = some (1, 2) := rfl

/-- A binding is a variable: reading it twice is unobservable.  Only value expressions
with field operations (method calls, indexing, `.await`) make the second evaluation
observable — the open finding `chain-twice-on-failure`. -/
def VExpr.isBinding (v : VExpr) : Bool :=
  v.pre.isEmpty && (match v.core with | .var _ => true | _ => false)

/-- **Debug runs only on failure**: a template whose test passes evaluates no push. -/
theorem C08_debug_only_on_failure (P : Prims) (env : Env) (a : Option Val) (push : Push) :
    guardPush P env a true push = some [] := rfl

/-- Patterns that generate no assertion do not evaluate the asserted expression at all
(open finding `zero-evaluations`; the repository's own test suite relies on it). -/
theorem C08_wildcard_generates_nothing (id : Nat) : (expand (.wild id)).body = .skip := rfl

end AsModel
