import AsModel.Theorems.C01
import AsModel.Theorems.C10
/-!
# C03 — every independent mismatch is reported, and nothing else

The report is *exactly* the specification's failure frontier — same entries, same
order (`run_eq_frontier`).  The lemmas below spell out what the frontier is:
concatenation over siblings, one entry for a composite whose own shape fails and
nothing from its descendants, one entry at most for a set.
-/
namespace AsModel

/-- **C03.** The entries pushed are the frontier (in particular the same multiset of nodes). -/
theorem C03_frontier (P : Prims) (p : Pat) (v : Val) (hs : p.safe = true) :
    (run P (expand p) v).map (·.map (·.node)) = (frontier P p v).map (·.map (·.node)) := by
  rw [run_eq_frontier P p v hs]

/-- A sub-pattern that matched contributes no entry. -/
theorem C03_matched_subpattern_has_no_entry (P : Prims) (q : Pat) (w : Val) (es : List Entry)
    (hf : frontier P q w = some es) (hsat : sat P q w = true) : es = [] := by
  have h := frontier_agree P q w
  rw [hf] at h
  exact h.2 hsat

/-- A failing sibling never hides another: the entries of a struct's fields are the
concatenation of the entries of each field. -/
theorem C03_failing_sibling_never_hides (P : Prims) (o : FieldOps) (key : Option UExpr)
    (p : Pat) (tl : Items) (v sub : Val) (a b : List Entry)
    (hsub : fieldSub P v o = some sub) (ha : frontier P p sub = some a)
    (hb : frontierFields P tl v = some b) :
    frontierFields P (.cons (some o) key p tl) v = some (a ++ b) := by
  simp only [frontierFields, hsub, ha, hb, appendO]

/-- A wrong variant yields exactly one entry, for the variant node, and none from inside. -/
theorem C03_wrong_variant_one_entry (P : Prims) (id : Nat) (path : UPath) (elems : Items)
    (ctor : String) (names : List String) (vals : List Val) (hne : elems.length ≠ 0)
    (hc : P.ctor path ctor = false) :
    frontier P (.enum id path elems) (.adt ctor names vals) =
      some [⟨id, P.debug (.adt ctor names vals), none⟩] := by
  simp [frontier, hne, hc, mkEntry]

/-- A slice whose length does not fit yields exactly one entry and none from its elements. -/
theorem C03_slice_length_one_entry (P : Prims) (id : Nat) (sp : Sp) (elems : Items) (vs : List Val)
    (h0 : elems.countRest = 0) (hl : vs.length ≠ elems.length) :
    frontier P (.slice id sp elems) (.seq vs) = some [⟨id, P.debug (.seq vs), none⟩] := by
  simp [frontier, Val.autoDeref, h0, hl, mkEntry]

/-- A set pattern yields at most one entry (its own), never an inner mismatch. -/
theorem C03_set_at_most_one_entry (P : Prims) (id : Nat) (sp : Sp) (elems : Items) (rest : Bool)
    (v : Val) (es : List Entry) (h : frontier P (.set id sp elems rest) v = some es) :
    es.length ≤ 1 ∧ ∀ e ∈ es, e.node = id := by
  unfold frontier at h
  cases hv : v.elems? with
  | none => simp [hv] at h
  | some vs =>
    simp only [hv, Option.some.injEq] at h
    subst h
    refine ⟨by simpa using Runtime.C10_setMatch_at_most_one _ _ _ _, ?_⟩
    intro e he
    simp only [List.mem_map] at he
    obtain ⟨pu, _, rfl⟩ := he
    rfl

/-- Each missing key yields one entry attached to the map node. -/
theorem C03_missing_key_entry (P : Prims) (id : Nat) (k : UExpr) (p : Pat) (keys vals : List Val)
    (h : mapLookup P.valEq (P.key k) keys vals = none) :
    frontierEntries P id (.cons none (some k) p .nil) keys vals =
      some [⟨id, "missing key", some s!"key present: {k.text}"⟩] := by
  simp [frontierEntries, h, appendO]

end AsModel
