import AsModel.Spec
import AsModel.Expand
/-!
# C11 — a pattern means the same in every position

Two halves.

*Verdict.*  The specification gives a pattern one meaning, a function of the sub-value it
is applied to; positions only decide *which* sub-value that is (`C11_variant_elem`,
`C11_tuple_elem`, `C11_slice_elem_exact`, `C11_map_value`, `C11_field`, all statements about
`frontier`); that the expansion computes `frontier` in every position is
`Theorems/Refine.lean`.

*Template.*  The code generated for a pattern does not depend on the position either:
`expandPat` is natural in the value expression it is handed (`expandPat_subst`), so the code
for `p` in a tuple / variant / slice / set / map-value / struct-field position is, token for
token, the code for `p` at the root with the root binder `__assert_struct_value` replaced by
the position's own binder (`C11_template_position_independent` and the per-position
corollaries).  Every one of these positions hands the pattern a bare binder - a name bound
by reference by the surrounding destructuring pattern - never an expression.  Positions after
a field-operation chain hand over the chain applied to the binder (`C11_after_operations`),
which is where the open findings of this property live.  What rustc then accepts is rustc's
business (the oracle of the position sweep); the statement here is that it is asked the same
question in every binder position.
-/
namespace AsModel

/-! ### Verdict half -/

/-- Inside `Some(..)` / `Ok(..)` / `Err(..)` / any one-element variant, the verdict on the
payload is the verdict of the inner pattern on the payload. -/
theorem C11_variant_elem (P : Prims) (id : Nat) (path : UPath) (p : Pat) (ctor : String) (w : Val)
    (hc : P.ctor path ctor = true) :
    frontier P (.enum id path (.cons none none p .nil)) (.adt ctor [] [w]) =
      appendO (frontier P p w) (some []) := by
  simp [frontier, Items.length, hc, frontierElems]

private theorem appendO_nil {α} (a : Option (List α)) : appendO a (some []) = a := by
  cases a <;> simp [appendO]

/-- As the first element of a pair `(p, _)`. -/
theorem C11_tuple_elem (P : Prims) (id j : Nat) (sp : Sp) (p : Pat) (w u : Val) :
    frontier P (.tuple id sp (.cons none none p (.cons none none (.wild j) .nil))) (.tuple [w, u]) =
      frontier P p w := by
  simp [frontier, Items.isSingleParen, Items.length, frontierElems, appendO_nil]

/-- As the only element of a slice pattern `[p]` on a one-element vector. -/
theorem C11_slice_elem (P : Prims) (id : Nat) (sp : Sp) (p : Pat) (w : Val)
    (h : p.isSliceRest = false) :
    frontier P (.slice id sp (.cons none none p .nil)) (.seq [w]) = frontier P p w := by
  simp [frontier, Val.autoDeref, Items.length, Items.countRest, h, frontierSlice, appendO_nil]

/-- As the value of the only entry of a map pattern `#{ k: p }` on a one-entry map with that key. -/
theorem C11_map_value (P : Prims) (id : Nat) (sp : Sp) (k : UExpr) (p : Pat) (key w : Val)
    (hk : P.valEq key (P.key k) = true) :
    frontier P (.map id sp (.cons none (some k) p .nil) false) (.map [key] [w]) = frontier P p w := by
  simp [frontier, Val.autoDeref, Items.length, frontierEntries, mapLookup, hk, appendO_nil, appendO]
  cases frontier P p w <;> simp

/-- As a field of a struct pattern, directly (`f: p`) or after any chain of field operations
(`f.g: p`, `f.0: p`, `f[i]: p`, `*f: p`, `f.m(): p`): the verdict is the verdict of `p` on the
sub-value the chain yields. -/
theorem C11_field (P : Prims) (id : Nat) (path : UPath) (ops : FieldOps) (p : Pat)
    (ctor : String) (names : List String) (vals : List Val) (w : Val)
    (hc : P.ctor path ctor = true) (hs : fieldSub P (.adt ctor names vals) ops = some w) :
    frontier P (.struct id (some path) (.cons (some ops) none p .nil) true) (.adt ctor names vals) =
      frontier P p w := by
  simp [frontier, hc, frontierFields, hs, appendO_nil]

/-- The same through a wildcard struct pattern `_ { f: p, .. }`. -/
theorem C11_wildcard_field (P : Prims) (id : Nat) (ops : FieldOps) (p : Pat) (v w : Val)
    (hs : fieldSub P v ops = some w) :
    frontier P (.struct id none (.cons (some ops) none p .nil) true) v = frontier P p w := by
  simp [frontier, frontierFields, hs, appendO_nil]

/-- As the only element of a set pattern `#(p)` on a one-element collection: the set matches
exactly when `p` matches the element. -/
theorem C11_set_elem (P : Prims) (id : Nat) (sp : Sp) (p : Pat) (w : Val) :
    frontier P (.set id sp (.cons none none p .nil) false) (.seq [w]) = some [] ↔
      frontier P p w = some [] := by
  simp only [frontier, Val.elems?, Val.autoDeref, matchRows, Items.length, List.map]
  cases hf : frontier P p w with
  | none => simp; decide
  | some es =>
    cases es with
    | nil => simp; decide
    | cons e es => simp; decide

/-! ### Template half: substitution of the subject binder -/

/-- Replace the root binder `__assert_struct_value` by `r` in a postfix chain. -/
def Core.subst : Core → Core → Core
  | .root, _ => .root
  | .var n, r => if n = Name.rootValue then r else .var n
  | .paren pre c, r => .paren pre (c.subst r)
  | .method c sp name args, r => .method (c.subst r) sp name args
  | .await c sp, r => .await (c.subst r) sp
  | .named c sp name, r => .named (c.subst r) sp name
  | .unnamed c sp isp i, r => .unnamed (c.subst r) sp isp i
  | .index c sp e, r => .index (c.subst r) sp e

def VExpr.subst (r : Core) (v : VExpr) : VExpr := ⟨v.pre, v.core.subst r⟩

def Actual.subst (r : Core) : Actual → Actual
  | .dbg v => .dbg (v.subst r)
  | .dbgRef v => .dbgRef (v.subst r)
  | .mapLen v => .mapLen (v.subst r)
  | .dbgActual => .dbgActual
  | .missingKey => .missingKey

def Push.subst (r : Core) (p : Push) : Push := { p with actual := p.actual.subst r }

mutual
def Code.subst (r : Core) : Code → Code
  | .skip => .skip
  | .seq cs => .seq (cs.subst r)
  | .simple sp v e push => .simple sp (v.subst r) e (push.subst r)
  | .string sp v lit value push => .string sp (v.subst r) lit value (push.subst r)
  | .cmp sp v op e push => .cmp sp (v.subst r) op e (push.subst r)
  | .unitVariant sp v path push => .unitVariant sp (v.subst r) path (push.subst r)
  | .enumTuple sp v path binders body push =>
    .enumTuple sp (v.subst r) path binders (body.subst r) (push.subst r)
  | .structNamed sp v path fields fsps rest body push =>
    .structNamed sp (v.subst r) path fields fsps rest (body.subst r) (push.subst r)
  | .tuple v binders body => .tuple (v.subst r) binders (body.subst r)
  | .range sp v e push => .range sp (v.subst r) e (push.subst r)
  | .slice v parts body push => .slice (v.subst r) parts (body.subst r) (push.subst r)
  | .regex sp v pattern push => .regex sp (v.subst r) pattern (push.subst r)
  | .like sp v e push => .like sp (v.subst r) e (push.subst r)
  | .closure sp v e push => .closure sp (v.subst r) e (push.subst r)
  | .mapLen sp v n push => .mapLen sp (v.subst r) n (push.subst r)
  | .mapGet sp v key body push => .mapGet sp (v.subst r) key (body.subst r) (push.subst r)
  | .set v preds rest node => .set (v.subst r) (preds.subst r) rest node
def Codes.subst (r : Core) : Codes → Codes
  | .nil => .nil
  | .cons c tl => .cons (c.subst r) (tl.subst r)
end

theorem applyOp_subst (r : Core) (v : VExpr) (op : FieldOp) :
    (applyOp v op).subst r = applyOp (v.subst r) op := by
  cases op <;> simp [applyOp, VExpr.subst, Core.subst]

theorem foldl_applyOp_subst (r : Core) : ∀ (ops : List FieldOp) (v : VExpr),
    (ops.foldl applyOp v).subst r = ops.foldl applyOp (v.subst r)
  | [], _ => rfl
  | op :: ops, v => by
    simp only [List.foldl_cons]
    rw [foldl_applyOp_subst r ops (applyOp v op), applyOp_subst]

theorem applyOps_subst (r : Core) (v : VExpr) (ops : FieldOps) :
    (applyOps v ops).subst r = applyOps (v.subst r) ops :=
  foldl_applyOp_subst r ops.ops v

theorem fieldValue_subst (r : Core) (v : VExpr) (ops : FieldOps) :
    (fieldValue v ops).subst r = fieldValue (v.subst r) ops := by
  unfold fieldValue
  split <;> simp [applyOps_subst]

theorem wildBase_subst (r : Core) (v : VExpr) (rsp : Sp) (f : FieldName) :
    (wildBase v rsp f).subst r = wildBase (v.subst r) rsp f := by
  cases f <;> simp [wildBase, VExpr.subst, Core.subst]

/-- A binder other than the root binder is left alone. -/
theorem binder_subst (r : Core) (n : Name) (h : n ≠ Name.rootValue) :
    (VExpr.ofCore (.var n)).subst r = VExpr.ofCore (.var n) := by
  simp [VExpr.ofCore, VExpr.subst, Core.subst, h]

theorem dbgPush_subst (r : Core) (sp : Sp) (id : Nat) (v : VExpr) :
    (dbgPush sp id v).subst r = dbgPush sp id (v.subst r) := by
  simp [dbgPush, Push.subst, Actual.subst]

theorem Codes.append_subst (r : Core) : ∀ (a b : Codes),
    (a.append b).subst r = (a.subst r).append (b.subst r)
  | .nil, b => by simp [Codes.append, Codes.subst]
  | .cons c tl, b => by simp [Codes.append, Codes.subst, Codes.append_subst r tl b]


mutual
/-- **Naturality.** The generator is parametric in the value expression it is handed:
substituting for the root binder in the generated code is generating the code on the
substituted expression. -/
theorem expandPat_subst (r : Core) : ∀ (v : VExpr) (p : Pat),
    (expandPat v p).subst r = expandPat (v.subst r) p
  | v, .simple .. | v, .range .. | v, .regex .. | v, .like .. | v, .closure .. => by
    simp [expandPat, Code.subst, dbgPush_subst]
  | v, .cmp .. => by
    simp [expandPat, Code.subst, Push.subst, Actual.subst]
  | v, .string .. => by simp [expandPat, Code.subst, Push.subst, Actual.subst]
  | v, .wild _ => by simp [expandPat, Code.subst]
  | v, .enum id path elems => by
    unfold expandPat; split
    · simp [Code.subst, dbgPush_subst]
    · simp [Code.subst, dbgPush_subst, expandElems_subst r elems 0 Name.elem (by intro i; simp)]
  | v, .tuple id sp elems => by
    simp [expandPat, Code.subst, expandElems_subst r elems 0 Name.tupleElem (by intro i; simp)]
  | v, .slice id sp elems => by
    simp [expandPat, Code.subst, Push.subst, Actual.subst, expandSliceElems_subst r elems 0]
  | v, .struct id (some path) fields rest => by
    simp [expandPat, Code.subst, dbgPush_subst, expandFields_subst r fields]
  | v, .struct id none fields rest => by
    simp [expandPat, Code.subst, expandWildFields_subst r v fields]
  | v, .set id sp elems rest => by
    simp [expandPat, Code.subst, expandSetElems_subst r elems]
  | v, .map id sp entries rest => by
    have := expandEntries_subst r v id entries
    unfold expandPat
    simp only [Code.subst, Codes.append_subst, this]
    split <;> simp [Codes.subst, Code.subst, Push.subst, Actual.subst]
theorem expandElems_subst (r : Core) : ∀ (items : Items) (i : Nat) (mk : Nat → Name)
    (_ : ∀ i, mk i ≠ Name.rootValue), (expandElems items i mk).subst r = expandElems items i mk
  | .nil, _, _, _ => by simp [expandElems, Codes.subst]
  | .cons ops key p tl, i, mk, hmk => by
    unfold expandElems
    split
    · exact expandElems_subst r tl (i + 1) mk hmk
    · simp only [Codes.subst, expandElems_subst r tl (i + 1) mk hmk]
      cases ops with
      | none => simp only [expandPat_subst r _ p, binder_subst r _ (hmk i)]
      | some o => simp only [expandPat_subst r _ p, fieldValue_subst, binder_subst r _ (hmk i)]
theorem expandSliceElems_subst (r : Core) : ∀ (items : Items) (i : Nat),
    (expandSliceElems items i).subst r = expandSliceElems items i
  | .nil, _ => by simp [expandSliceElems, Codes.subst]
  | .cons ops key p tl, i => by
    unfold expandSliceElems
    split
    · exact expandSliceElems_subst r tl (i + 1)
    · simp only [Codes.subst, expandSliceElems_subst r tl (i + 1), expandPat_subst r _ p,
        binder_subst r (.elem i) (by simp)]
theorem expandSetElems_subst (r : Core) : ∀ (items : Items),
    (expandSetElems items).subst r = expandSetElems items
  | .nil => by simp [expandSetElems, Codes.subst]
  | .cons ops key p tl => by
    simp only [expandSetElems, Codes.subst, expandSetElems_subst r tl, expandPat_subst r _ p,
      binder_subst r .setElem (by simp)]
theorem expandFields_subst (r : Core) : ∀ (items : Items),
    (expandFields items).subst r = expandFields items
  | .nil => by simp [expandFields, Codes.subst]
  | .cons ops key p tl => by
    simp only [expandFields, Codes.subst, expandFields_subst r tl]
    cases ops with
    | none => simp [Code.subst]
    | some o =>
      simp only
      split
      · simp only [expandPat_subst r _ p, fieldValue_subst, binder_subst r (.field _) (by simp)]
      · simp [Code.subst]
theorem expandWildFields_subst (r : Core) (v : VExpr) : ∀ (items : Items),
    (expandWildFields v items).subst r = expandWildFields (v.subst r) items
  | .nil => by simp [expandWildFields, Codes.subst]
  | .cons ops key p tl => by
    simp only [expandWildFields, Codes.subst, expandWildFields_subst r v tl]
    cases ops with
    | none => simp [Code.subst]
    | some o =>
      simp only
      split
      · split
        · simp only [expandPat_subst r _ p, applyOps_subst]
          simp [VExpr.subst, VExpr.ofCore, wildBase_subst]
        · simp only [expandPat_subst r _ p]
          simp [VExpr.subst, wildBase_subst]
      · simp [Code.subst]
theorem expandEntries_subst (r : Core) (v : VExpr) (node : Nat) : ∀ (items : Items),
    (expandEntries v node items).subst r = expandEntries (v.subst r) node items
  | .nil => by simp [expandEntries, Codes.subst]
  | .cons ops key p tl => by
    simp only [expandEntries, Codes.subst, expandEntries_subst r v node tl]
    cases key with
    | none => simp [Code.subst]
    | some k =>
      simp only [Code.subst, expandPat_subst r _ p, binder_subst r .mapValue (by simp)]
      simp [Push.subst, Actual.subst]
end

/-! ### Template half: the property-level statements -/

theorem rootVExpr_subst (c : Core) : rootVExpr.subst c = VExpr.ofCore c := by
  simp [rootVExpr, VExpr.ofCore, VExpr.subst, Core.subst]

/-- **C11 (template).** The code generated for `p` on a subject bound to the name `n` is the
code generated for `p` at the root with the root binder replaced by `n`: one template per
pattern, whatever the position. -/
theorem C11_template_position_independent (n : Name) (p : Pat) :
    expandPat (VExpr.ofCore (.var n)) p = (expandPat rootVExpr p).subst (.var n) := by
  rw [expandPat_subst, rootVExpr_subst]

/-- The root pattern is expanded on the root binder. -/
theorem C11_root (p : Pat) : (expand p).body = expandPat rootVExpr p := rfl

/-- Tuple elements and enum-variant elements (`Some(..)`, `Ok(..)`, `Err(..)`, `E::V(..)`). -/
theorem C11_elem_code (key : Option UExpr) (p : Pat) (tl : Items) (i : Nat) (mk : Nat → Name)
    (h : p.isWild = false) :
    expandElems (.cons none key p tl) i mk =
      .cons ((expandPat rootVExpr p).subst (.var (mk i))) (expandElems tl (i + 1) mk) := by
  rw [← C11_template_position_independent]
  simp [expandElems, h]

/-- Slice elements. -/
theorem C11_slice_elem_code (ops : Option FieldOps) (key : Option UExpr) (p : Pat) (tl : Items)
    (i : Nat) (h1 : p.isSliceRest = false) (h2 : p.isWild = false) :
    expandSliceElems (.cons ops key p tl) i =
      .cons ((expandPat rootVExpr p).subst (.var (.elem i))) (expandSliceElems tl (i + 1)) := by
  rw [← C11_template_position_independent]
  simp [expandSliceElems, h1, h2]

/-- Set elements (the body of each probe predicate). -/
theorem C11_set_elem_code (ops : Option FieldOps) (key : Option UExpr) (p : Pat) (tl : Items) :
    expandSetElems (.cons ops key p tl) =
      .cons ((expandPat rootVExpr p).subst (.var .setElem)) (expandSetElems tl) := by
  rw [← C11_template_position_independent]
  simp [expandSetElems]

/-- Map values. -/
theorem C11_map_value_code (v : VExpr) (node : Nat) (ops : Option FieldOps) (k : UExpr) (p : Pat)
    (tl : Items) :
    expandEntries v node (.cons ops (some k) p tl) =
      .cons (.mapGet k.sp v k ((expandPat rootVExpr p).subst (.var .mapValue))
        ⟨k.sp, node, .missingKey, .keyPresent k.text⟩) (expandEntries v node tl) := by
  rw [← C11_template_position_independent]
  simp [expandEntries]

/-- Fields of a named struct pattern (also of a struct-like enum variant) written without
further operations. -/
theorem C11_struct_field_code (ops : FieldOps) (key : Option UExpr) (p : Pat) (tl : Items)
    (f : FieldName) (hf : ops.rootFieldName? = some f) (ht : ops.tailOps? = some none) :
    expandFields (.cons (some ops) key p tl) =
      .cons ((expandPat rootVExpr p).subst (.var (.field f))) (expandFields tl) := by
  rw [← C11_template_position_independent]
  simp [expandFields, hf, fieldValue, ht]

/-- A bare binder: a name, nothing spliced before or after it. -/
def VExpr.isBinder : VExpr → Bool
  | ⟨[], .var _⟩ => true
  | _ => false

theorem applyOp_not_binder (v : VExpr) (op : FieldOp) : (applyOp v op).isBinder = false := by
  cases op <;> simp [applyOp, VExpr.isBinder, List.replicate_succ]

theorem foldl_applyOp_not_binder : ∀ (ops : List FieldOp) (v : VExpr), ops ≠ [] →
    (ops.foldl applyOp v).isBinder = false
  | [], _, h => absurd rfl h
  | [op], v, _ => applyOp_not_binder v op
  | op :: op' :: rest, v, _ => by
    simp only [List.foldl_cons]
    exact foldl_applyOp_not_binder (op' :: rest) (applyOp v op) (by simp)

/-- **C11 (where positions differ).** After a chain of field operations the pattern is not
handed a binder but the chain spliced onto one - a place or a temporary of the operation's
result type, not a reference to it.  This is the one way in which a position changes what a
pattern is applied to, and all open findings of C11 (`accept:place/..`, `accept:temporary/..`)
are instances of it. -/
theorem C11_after_operations (ops : FieldOps) (key : Option UExpr) (p : Pat) (tl : Items)
    (f : FieldName) (t : FieldOps) (hf : ops.rootFieldName? = some f)
    (ht : ops.tailOps? = some (some t)) (hne : t.ops ≠ []) :
    expandFields (.cons (some ops) key p tl) =
        .cons (expandPat (applyOps (VExpr.ofCore (.var (.field f))) t) p) (expandFields tl) ∧
      (applyOps (VExpr.ofCore (.var (.field f))) t).isBinder = false := by
  refine ⟨by simp [expandFields, hf, fieldValue, ht], ?_⟩
  exact foldl_applyOp_not_binder t.ops _ hne

/-- Fields of a wildcard struct pattern `_ { f: p, .. }` written without further operations are
handed `&(v).f`: a reference taken explicitly, to the same effect as a binder. -/
theorem C11_wildcard_field_code (v : VExpr) (ops : FieldOps) (key : Option UExpr) (p : Pat)
    (tl : Items) (f : FieldName) (hf : ops.rootFieldName? = some f) (ht : ops.tailOps? = some none) :
    expandWildFields v (.cons (some ops) key p tl) =
      .cons (expandPat ⟨[Pre.amp Sp.callSite], wildBase v ops.rootFieldSp f⟩ p) (expandWildFields v tl) := by
  simp [expandWildFields, hf, ht]

/-- Non-vacuity: the hypotheses of `C11_struct_field_code` / `C11_after_operations` are met by
`name: p` and by `name.len(): p`. -/
example : (FieldOps.mk [.named ⟨"name", default⟩ default] default).rootFieldName? =
      some (.ident ⟨"name", default⟩) ∧
    (FieldOps.mk [.named ⟨"name", default⟩ default] default).tailOps? = some none := by
  decide

example : (FieldOps.mk [.named ⟨"name", default⟩ default, .method ⟨"len", default⟩ default []] default).rootFieldName? =
      some (.ident ⟨"name", default⟩) ∧
    (FieldOps.mk [.named ⟨"name", default⟩ default, .method ⟨"len", default⟩ default []] default).tailOps? =
      some (some ⟨[.method ⟨"len", default⟩ default []], default⟩) := by
  decide

end AsModel
