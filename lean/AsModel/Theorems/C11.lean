import AsModel.Spec
/-!
# C11 — a pattern means the same in every position (verdict half)

The specification gives a pattern one meaning, a function of the sub-value it is
applied to; positions only decide *which* sub-value that is.  The statements below
are about `frontier`; that the expansion computes `frontier` in every position is
`Theorems/Refine.lean`.
-/
namespace AsModel

/-- Inside `Some(..)` / `Ok(..)` / `Err(..)` / any one-element variant, the verdict on the
payload is the verdict of the inner pattern on the payload. -/
theorem C11_variant_elem (P : Prims) (id : Nat) (path : UPath) (p : Pat) (ctor : String) (w : Val)
    (hc : P.ctor path ctor = true) :
    frontier P (.enum id path (.cons none none p .nil)) (.adt ctor [] [w]) =
      appendO (frontier P p w) (some []) := by
  simp [frontier, Items.length, hc, frontierElems]

end AsModel
