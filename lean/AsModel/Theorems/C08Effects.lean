import AsModel.Effects
import AsModel.Theorems.C08
/-!
# C08 on runs: how often chains are evaluated and Debug is called

`Theorems/C08.lean` counts splices per template.  This file talks about *runs* of the
expansion (`execT`: `exec` with a tally of evaluated steps and Debug calls) and about
every pattern at once.
-/
namespace AsModel
open Runtime (setMatch)

/-! ## The tally is a conservative extension of `exec` -/

theorem guardPushT_entries (w : Weights) (P : Prims) (env : Env) (a : Option Val) (t : Bool) (p : Push) (n : Nat) :
    ((guardPushT w P env a t p).map (Tally.tick n)).map (·.entries) = guardPush P env a t p := by
  unfold guardPushT guardPush
  cases t
  · cases p.eval P env a <;> simp [Tally.tick]
  · simp [Tally.tick, Tally.zero]

theorem map_tick_entries (n : Nat) (r : Option Tally) :
    ((r.map (Tally.tick n)).map (·.entries)) = r.map (·.entries) := by
  cases r <;> simp [Tally.tick]

theorem appendT_entries (a b : Option Tally) :
    (appendT a b).map (·.entries) = appendO (a.map (·.entries)) (b.map (·.entries)) := by
  cases a <;> cases b <;> simp [appendT, appendO, Tally.add]

mutual
theorem execT_entries (w : Weights) (P : Prims) : ∀ (c : Code) (env : Env),
    (execT w P c env).map (·.entries) = exec P c env
  | .skip, env => by simp [execT, exec, Tally.zero]
  | .seq cs, env => by simpa [execT, exec] using execsT_entries w P cs env
  | .simple _ v e push, env => by
    simp only [execT, exec]
    cases evalV P env v with
    | none => rfl
    | some x => simpa using guardPushT_entries w P env none _ push _
  | .string _ v _ value push, env => by
    simp only [execT, exec]
    cases evalV P env v with
    | none => rfl
    | some x => simpa using guardPushT_entries w P env _ _ push _
  | .cmp _ v op e push, env => by
    simp only [execT, exec]
    cases evalV P env v with
    | none => rfl
    | some x => simpa using guardPushT_entries w P env none _ push _
  | .unitVariant _ v path push, env => by
    simp only [execT, exec]
    cases evalV P env v with
    | none => rfl
    | some x => simpa using guardPushT_entries w P env none _ push _
  | .range _ v e push, env => by
    simp only [execT, exec]
    cases evalV P env v with
    | none => rfl
    | some x => simpa using guardPushT_entries w P env none _ push _
  | .regex _ v pat push, env => by
    simp only [execT, exec]
    cases evalV P env v with
    | none => rfl
    | some x => simpa using guardPushT_entries w P env none _ push _
  | .like _ v e push, env => by
    simp only [execT, exec]
    cases evalV P env v with
    | none => rfl
    | some x => simpa using guardPushT_entries w P env none _ push _
  | .closure _ v e push, env => by
    simp only [execT, exec]
    cases evalV P env v with
    | none => rfl
    | some x => simpa using guardPushT_entries w P env none _ push _
  | .enumTuple _ v path binders body push, env => by
    simp only [execT, exec]
    cases evalV P env v with
    | none => rfl
    | some x =>
      simp only [Option.bind_some]
      cases x.v with
      | adt ctor names vals =>
        simp only
        split
        · split
          · rw [map_tick_entries]; exact execsT_entries w P body _
          · rfl
        · exact guardPushT_entries w P env none _ push _
      | _ => rfl
  | .structNamed _ v path fields _ rest body push, env => by
    simp only [execT, exec]
    cases evalV P env v with
    | none => rfl
    | some x =>
      simp only [Option.bind_some]
      cases hv : x.v with
      | adt ctor names vals =>
        simp only
        split
        · split
          · cases bindFields (Val.adt ctor names vals) fields env with
            | none => rfl
            | some env' =>
              simp only [Option.bind_some]
              rw [map_tick_entries]; exact execsT_entries w P body _
          · rfl
        · exact guardPushT_entries w P env none _ push _
      | _ => rfl
  | .tuple v binders body, env => by
    simp only [execT, exec]
    cases evalV P env v with
    | none => rfl
    | some x =>
      simp only [Option.bind_some]
      rcases binders with _ | ⟨b, _ | ⟨b2, bs⟩⟩
      · cases x.v with
        | tuple vs =>
          simp only
          split
          · rw [map_tick_entries]; exact execsT_entries w P body _
          · rfl
        | _ => rfl
      · simp only
        rw [map_tick_entries]; exact execsT_entries w P body _
      · cases x.v with
        | tuple vs =>
          simp only
          split
          · rw [map_tick_entries]; exact execsT_entries w P body _
          · rfl
        | _ => rfl
  | .slice v parts body push, env => by
    simp only [execT, exec]
    cases evalV P env v with
    | none => rfl
    | some x =>
      simp only [Option.bind_some]
      cases x.v.autoDeref with
      | seq vs =>
        simp only
        split
        · split
          · rw [map_tick_entries]; exact execsT_entries w P body _
          · exact guardPushT_entries w P env none _ push _
        · split
          · split
            · rw [map_tick_entries]; exact execsT_entries w P body _
            · exact guardPushT_entries w P env none _ push _
          · rfl
      | _ => rfl
  | .mapLen _ v n push, env => by
    simp only [execT, exec]
    cases evalV P env v with
    | none => rfl
    | some x =>
      simp only [Option.bind_some]
      cases x.v.autoDeref with
      | map ks vs => exact guardPushT_entries w P env none _ push _
      | _ => rfl
  | .mapGet _ v key body push, env => by
    simp only [execT, exec]
    cases evalV P env v with
    | none => rfl
    | some x =>
      simp only [Option.bind_some]
      cases x.v.autoDeref with
      | map ks vs =>
        simp only
        cases mapLookup P.valEq (P.key key) ks vs with
        | some val => simp only; rw [map_tick_entries]; exact execT_entries w P body _
        | none => exact guardPushT_entries w P env none _ push _
      | _ => rfl
  | .set v preds rest node, env => by
    simp only [execT, exec]
    cases evalV P env v with
    | none => rfl
    | some x =>
      simp only [Option.bind_some]
      cases x.v.elems? with
      | some vs => rfl
      | none => rfl
theorem execsT_entries (w : Weights) (P : Prims) : ∀ (cs : Codes) (env : Env),
    (execsT w P cs env).map (·.entries) = execs P cs env
  | .nil, env => by simp [execsT, execs, Tally.zero]
  | .cons c tl, env => by
    simp only [execsT, execs, appendT_entries, execT_entries w P c env, execsT_entries w P tl env]
end

/-! ## Runs that push nothing: every step of every chain exactly as often as the code says, no Debug -/

theorem map_tick_some {n : Nat} {r : Option Tally} {t : Tally} (h : r.map (Tally.tick n) = some t) :
    ∃ t', r = some t' ∧ t.entries = t'.entries ∧ t.steps = t'.steps + n ∧ t.debugs = t'.debugs := by
  cases r with
  | none => simp at h
  | some t' => simp at h; subst h; exact ⟨t', rfl, rfl, rfl, rfl⟩

theorem guardPushT_pass {w : Weights} {P : Prims} {env : Env} {a : Option Val} {test : Bool} {p : Push}
    {n : Nat} {t : Tally} (h : (guardPushT w P env a test p).map (Tally.tick n) = some t)
    (he : t.entries = []) : test = true ∧ t.steps = n ∧ t.debugs = 0 := by
  obtain ⟨t', h', e1, e2, e3⟩ := map_tick_some h
  unfold guardPushT at h'
  cases test with
  | false =>
    simp at h'
    obtain ⟨e, _, rfl⟩ := h'
    simp [he] at e1
  | true =>
    simp [Tally.zero] at h'
    subst h'
    simp_all

theorem appendT_some {a b : Option Tally} {t : Tally} (h : appendT a b = some t) :
    ∃ x y, a = some x ∧ b = some y ∧ t = x.add y := by
  cases a <;> cases b <;> simp [appendT] at h
  exact ⟨_, _, rfl, rfl, h.symm⟩

mutual
/-- **A run that pushes nothing evaluates exactly the steps the code's all-matching path
contains, and never calls Debug** - for every piece of assertion code, every environment
and every interpretation of user expressions. -/
theorem execT_pass (w : Weights) (P : Prims) : ∀ (c : Code) (env : Env) (t : Tally),
    execT w P c env = some t → t.entries = [] → t.steps = c.passCost w ∧ t.debugs = 0
  | .skip, env, t, h, _ => by
    simp [execT, Tally.zero] at h; subst h; simp [Code.passCost]
  | .seq cs, env, t, h, he => by
    simp only [execT] at h
    simpa [Code.passCost] using execsT_pass w P cs env t h he
  | .simple _ v e push, env, t, h, he => by
    simp only [execT] at h
    cases hv : evalV P env v with
    | none => simp [hv] at h
    | some x =>
      simp only [hv, Option.bind_some] at h
      have := guardPushT_pass h he
      simp [Code.passCost, this]
  | .string _ v _ value push, env, t, h, he => by
    simp only [execT] at h
    cases hv : evalV P env v with
    | none => simp [hv] at h
    | some x =>
      simp only [hv, Option.bind_some] at h
      have := guardPushT_pass h he
      simp [Code.passCost, this]
  | .cmp _ v op e push, env, t, h, he => by
    simp only [execT] at h
    cases hv : evalV P env v with
    | none => simp [hv] at h
    | some x =>
      simp only [hv, Option.bind_some] at h
      have := guardPushT_pass h he
      simp [Code.passCost, this]
  | .unitVariant _ v path push, env, t, h, he => by
    simp only [execT] at h
    cases hv : evalV P env v with
    | none => simp [hv] at h
    | some x =>
      simp only [hv, Option.bind_some] at h
      have := guardPushT_pass h he
      simp [Code.passCost, this]
  | .range _ v e push, env, t, h, he => by
    simp only [execT] at h
    cases hv : evalV P env v with
    | none => simp [hv] at h
    | some x =>
      simp only [hv, Option.bind_some] at h
      have := guardPushT_pass h he
      simp [Code.passCost, this]
  | .regex _ v pat push, env, t, h, he => by
    simp only [execT] at h
    cases hv : evalV P env v with
    | none => simp [hv] at h
    | some x =>
      simp only [hv, Option.bind_some] at h
      have := guardPushT_pass h he
      simp [Code.passCost, this]
  | .like _ v e push, env, t, h, he => by
    simp only [execT] at h
    cases hv : evalV P env v with
    | none => simp [hv] at h
    | some x =>
      simp only [hv, Option.bind_some] at h
      have := guardPushT_pass h he
      simp [Code.passCost, this]
  | .closure _ v e push, env, t, h, he => by
    simp only [execT] at h
    cases hv : evalV P env v with
    | none => simp [hv] at h
    | some x =>
      simp only [hv, Option.bind_some] at h
      have := guardPushT_pass h he
      simp [Code.passCost, this]
  | .enumTuple _ v path binders body push, env, t, h, he => by
    simp only [execT] at h
    cases hv : evalV P env v with
    | none => simp [hv] at h
    | some x =>
      simp only [hv, Option.bind_some] at h
      cases hx : x.v with
      | adt ctor names vals =>
        simp only [hx] at h
        split at h
        · split at h
          · obtain ⟨t', h', e1, e2, e3⟩ := map_tick_some h
            have := execsT_pass w P body _ t' h' (e1 ▸ he)
            simp only [Code.passCost]; omega
          · simp at h
        · have := guardPushT_pass h he
          simp at this
      | _ => simp [hx] at h
  | .structNamed _ v path fields _ rest body push, env, t, h, he => by
    simp only [execT] at h
    cases hv : evalV P env v with
    | none => simp [hv] at h
    | some x =>
      simp only [hv, Option.bind_some] at h
      cases hx : x.v with
      | adt ctor names vals =>
        simp only [hx] at h
        split at h
        · split at h
          · cases hb : bindFields (Val.adt ctor names vals) fields env with
            | none => simp [hb] at h
            | some env' =>
              simp only [hb, Option.bind_some] at h
              obtain ⟨t', h', e1, e2, e3⟩ := map_tick_some h
              have := execsT_pass w P body _ t' h' (e1 ▸ he)
              simp only [Code.passCost]; omega
          · simp at h
        · have := guardPushT_pass h he
          simp at this
      | _ => simp [hx] at h
  | .tuple v binders body, env, t, h, he => by
    simp only [execT] at h
    cases hv : evalV P env v with
    | none => simp [hv] at h
    | some x =>
      simp only [hv, Option.bind_some] at h
      rcases binders with _ | ⟨b, _ | ⟨b2, bs⟩⟩
      · cases hx : x.v with
        | tuple vs =>
          simp only [hx] at h
          split at h
          · obtain ⟨t', h', e1, e2, e3⟩ := map_tick_some h
            have := execsT_pass w P body _ t' h' (e1 ▸ he)
            simp only [Code.passCost]; omega
          · simp at h
        | _ => simp [hx] at h
      · simp only at h
        obtain ⟨t', h', e1, e2, e3⟩ := map_tick_some h
        have := execsT_pass w P body _ t' h' (e1 ▸ he)
        simp only [Code.passCost]; omega
      · cases hx : x.v with
        | tuple vs =>
          simp only [hx] at h
          split at h
          · obtain ⟨t', h', e1, e2, e3⟩ := map_tick_some h
            have := execsT_pass w P body _ t' h' (e1 ▸ he)
            simp only [Code.passCost]; omega
          · simp at h
        | _ => simp [hx] at h
  | .slice v parts body push, env, t, h, he => by
    simp only [execT] at h
    cases hv : evalV P env v with
    | none => simp [hv] at h
    | some x =>
      simp only [hv, Option.bind_some] at h
      cases hx : x.v.autoDeref with
      | seq vs =>
        simp only [hx] at h
        split at h
        · split at h
          · obtain ⟨t', h', e1, e2, e3⟩ := map_tick_some h
            have := execsT_pass w P body _ t' h' (e1 ▸ he)
            simp only [Code.passCost]; omega
          · have := guardPushT_pass h he
            simp at this
        · split at h
          · split at h
            · obtain ⟨t', h', e1, e2, e3⟩ := map_tick_some h
              have := execsT_pass w P body _ t' h' (e1 ▸ he)
              simp only [Code.passCost]; omega
            · have := guardPushT_pass h he
              simp at this
          · simp at h
      | _ => simp [hx] at h
  | .mapLen _ v n push, env, t, h, he => by
    simp only [execT] at h
    cases hv : evalV P env v with
    | none => simp [hv] at h
    | some x =>
      simp only [hv, Option.bind_some] at h
      cases hx : x.v.autoDeref with
      | map ks vs =>
        simp only [hx] at h
        have := guardPushT_pass h he
        simp [Code.passCost, this]
      | _ => simp [hx] at h
  | .mapGet _ v key body push, env, t, h, he => by
    simp only [execT] at h
    cases hv : evalV P env v with
    | none => simp [hv] at h
    | some x =>
      simp only [hv, Option.bind_some] at h
      cases hx : x.v.autoDeref with
      | map ks vs =>
        simp only [hx] at h
        cases hl : mapLookup P.valEq (P.key key) ks vs with
        | some val =>
          simp only [hl] at h
          obtain ⟨t', h', e1, e2, e3⟩ := map_tick_some h
          have := execT_pass w P body _ t' h' (e1 ▸ he)
          simp only [Code.passCost]; omega
        | none =>
          simp only [hl] at h
          have := guardPushT_pass h he
          simp at this
      | _ => simp [hx] at h
  | .set v preds rest node, env, t, h, he => by
    simp only [execT] at h
    cases hv : evalV P env v with
    | none => simp [hv] at h
    | some x =>
      simp only [hv, Option.bind_some] at h
      cases hx : x.v.elems? with
      | some vs =>
        simp only [hx] at h
        simp at h; subst h
        simp [Code.passCost]
      | none => simp [hx] at h
theorem execsT_pass (w : Weights) (P : Prims) : ∀ (cs : Codes) (env : Env) (t : Tally),
    execsT w P cs env = some t → t.entries = [] → t.steps = cs.passCost w ∧ t.debugs = 0
  | .nil, env, t, h, _ => by
    simp [execsT, Tally.zero] at h; subst h; simp [Codes.passCost]
  | .cons c tl, env, t, h, he => by
    simp only [execsT] at h
    obtain ⟨x, y, hx, hy, rfl⟩ := appendT_some h
    simp only [Tally.add, List.append_eq_nil_iff] at he
    have h1 := execT_pass w P c env x hx he.1
    have h2 := execsT_pass w P tl env y hy he.2
    simp only [Tally.add, Codes.passCost]; omega
end

/-! ## The generator: what the all-matching path of the code generated for a pattern costs -/

theorem applyOp_cost (w : Weights) (ve : VExpr) (op : FieldOp) :
    (applyOp ve op).cost w = ve.cost w + op.cost w := by
  cases op <;> simp [applyOp, VExpr.cost, Core.cost, FieldOp.cost]

theorem foldl_applyOp_cost (w : Weights) : ∀ (ops : List FieldOp) (ve : VExpr),
    (ops.foldl applyOp ve).cost w = ve.cost w + opsCost w ops
  | [], ve => by simp [opsCost]
  | op :: ops, ve => by
    simp only [List.foldl_cons, foldl_applyOp_cost w ops, applyOp_cost, opsCost, List.map_cons, List.sum_cons]
    omega

theorem fieldValue_cost (w : Weights) (base : VExpr) (o : FieldOps) :
    (fieldValue base o).cost w = base.cost w + o.tailCost w := by
  unfold fieldValue FieldOps.tailCost
  cases o.tailOps? with
  | none => simp
  | some t => cases t with
    | none => simp
    | some tl => simp [applyOps, foldl_applyOp_cost]

theorem var_cost (w : Weights) (n : Name) : (VExpr.ofCore (.var n)).cost w = 0 := rfl

theorem wildBase_cost (w : Weights) (v : VExpr) (rsp : Sp) (f : FieldName) : (wildBase v rsp f).cost w = v.cost w := by
  cases f <;> simp [wildBase, Core.cost, VExpr.cost]

theorem Codes.passCost_append (w : Weights) : ∀ (a b : Codes), (a.append b).passCost w = a.passCost w + b.passCost w
  | .nil, b => by simp [Codes.append, Codes.passCost]
  | .cons c tl, b => by simp [Codes.append, Codes.passCost, Codes.passCost_append w tl b]; omega

mutual
/-- **What the generated code costs when everything matches**: the expression the pattern is
handed, as often as the pattern uses it, plus the chains written inside the pattern. -/
theorem expandPat_passCost (w : Weights) : ∀ (p : Pat) (v : VExpr),
    (expandPat v p).passCost w = v.cost w * p.uses + p.inner w
  | .simple _ _, v => by simp [expandPat, Code.passCost, Pat.uses, Pat.inner]
  | .string _ _ _ _, v => by simp [expandPat, Code.passCost, Pat.uses, Pat.inner]
  | .cmp _ _ _ _, v => by simp [expandPat, Code.passCost, Pat.uses, Pat.inner]
  | .range _ _, v => by simp [expandPat, Code.passCost, Pat.uses, Pat.inner]
  | .regex _ _ _, v => by simp [expandPat, Code.passCost, Pat.uses, Pat.inner]
  | .like _ _, v => by simp [expandPat, Code.passCost, Pat.uses, Pat.inner]
  | .closure _ _, v => by simp [expandPat, Code.passCost, Pat.uses, Pat.inner]
  | .wild _, v => by simp [expandPat, Code.passCost, Pat.uses, Pat.inner]
  | .enum _ path elems, v => by
    unfold expandPat
    by_cases h0 : elems.length = 0
    · simp [h0, Code.passCost, Pat.uses, Pat.inner]
    · simp [h0, Code.passCost, Pat.uses, Pat.inner, expandElems_passCost w elems 0 Name.elem]
  | .tuple _ _ elems, v => by
    simp [expandPat, Code.passCost, Pat.uses, Pat.inner, expandElems_passCost w elems 0 Name.tupleElem]
  | .slice _ _ elems, v => by
    simp [expandPat, Code.passCost, Pat.uses, Pat.inner, expandSliceElems_passCost w elems 0]
  | .set _ _ elems rest, v => by simp [expandPat, Code.passCost, Pat.uses, Pat.inner]
  | .struct _ (some path) fields rest, v => by
    simp [expandPat, Code.passCost, Pat.uses, Pat.inner, expandFields_passCost w fields]
  | .struct _ none fields rest, v => by
    simp [expandPat, Code.passCost, Pat.uses, Pat.inner, expandWildFields_passCost w fields v]
  | .map id _ entries rest, v => by
    simp only [expandPat, Code.passCost, Pat.uses, Pat.inner, Codes.passCost_append,
      expandEntries_passCost w entries v id]
    cases rest <;> simp [Codes.passCost, Code.passCost, Nat.mul_add] <;> omega
theorem expandFields_passCost (w : Weights) : ∀ (fs : Items), (expandFields fs).passCost w = fs.innerFields w
  | .nil => by simp [expandFields, Codes.passCost, Items.innerFields]
  | .cons ops _ p tl => by
    simp only [expandFields, Codes.passCost, Items.innerFields, expandFields_passCost w tl]
    cases ops with
    | none => simp [Code.passCost]
    | some o =>
      cases hr : o.rootFieldName? with
      | none => simp [hr, Code.passCost]
      | some f => simp [hr, expandPat_passCost w p, fieldValue_cost, var_cost]
theorem expandWildFields_passCost (w : Weights) : ∀ (fs : Items) (v : VExpr),
    (expandWildFields v fs).passCost w = v.cost w * fs.usesSum + fs.innerFields w
  | .nil, v => by simp [expandWildFields, Codes.passCost, Items.innerFields, Items.usesSum]
  | .cons ops _ p tl, v => by
    simp only [expandWildFields, Codes.passCost, Items.innerFields, Items.usesSum,
      expandWildFields_passCost w tl v]
    cases ops with
    | none => simp [Code.passCost]
    | some o =>
      cases hr : o.rootFieldName? with
      | none => simp [hr, Code.passCost]
      | some f =>
        have hb : Core.cost w (wildBase v o.rootFieldSp f) = Core.cost w v.core := by
          have := wildBase_cost w v o.rootFieldSp f; simpa only [VExpr.cost] using this
        simp only [hr, Option.isSome_some, if_true]
        cases ht : o.tailOps? with
        | none =>
          simp [ht, expandPat_passCost w p, FieldOps.tailCost, VExpr.cost, hb, Nat.mul_add]
          omega
        | some t => cases t with
          | none =>
            simp [ht, expandPat_passCost w p, FieldOps.tailCost, VExpr.cost, hb, Nat.mul_add]
            omega
          | some tl' =>
            have hf := foldl_applyOp_cost w tl'.ops ⟨[], wildBase v o.rootFieldSp f⟩
            simp only [VExpr.cost] at hf
            simp [ht, expandPat_passCost w p, FieldOps.tailCost, applyOps, VExpr.cost,
              VExpr.ofCore, hf, hb, Nat.mul_add, Nat.add_mul]
            omega
theorem expandElems_passCost (w : Weights) : ∀ (items : Items) (i : Nat) (mk : Nat → Name),
    (expandElems items i mk).passCost w = items.innerElems w
  | .nil, _, _ => by simp [expandElems, Codes.passCost, Items.innerElems]
  | .cons ops _ p tl, i, mk => by
    unfold expandElems Items.innerElems
    by_cases hw : p.isWild = true
    · simp [hw, expandElems_passCost w tl (i + 1) mk]
    · simp only [hw, Bool.false_eq_true, if_false, Codes.passCost, expandElems_passCost w tl (i + 1) mk]
      cases ops with
      | none => simp [expandPat_passCost w p, var_cost]
      | some o => simp [expandPat_passCost w p, fieldValue_cost, var_cost]
theorem expandSliceElems_passCost (w : Weights) : ∀ (items : Items) (i : Nat),
    (expandSliceElems items i).passCost w = items.innerSlice w
  | .nil, _ => by simp [expandSliceElems, Codes.passCost, Items.innerSlice]
  | .cons _ _ p tl, i => by
    unfold expandSliceElems Items.innerSlice
    by_cases hs : (p.isSliceRest || p.isWild) = true
    · have hi : p.inner w = 0 := by
        cases p <;> simp [Pat.isSliceRest, Pat.isWild] at hs <;> simp [Pat.inner]
      simp [hs, hi, expandSliceElems_passCost w tl (i + 1)]
    · simp [hs, Codes.passCost, expandPat_passCost w p, var_cost, expandSliceElems_passCost w tl (i + 1)]
theorem expandEntries_passCost (w : Weights) : ∀ (items : Items) (v : VExpr) (node : Nat),
    (expandEntries v node items).passCost w = v.cost w * items.keyed + items.innerEntries w
  | .nil, v, node => by simp [expandEntries, Codes.passCost, Items.keyed, Items.innerEntries]
  | .cons _ key p tl, v, node => by
    simp only [expandEntries, Codes.passCost, Items.keyed, Items.innerEntries, expandEntries_passCost w tl v node]
    cases key with
    | none => simp [Code.passCost]
    | some k => simp [Code.passCost, expandPat_passCost w p, var_cost, Nat.mul_add]; omega
end

/-! ## Debug on every run: at most one call per reported entry -/

theorem guardPushT_debugs {w : Weights} {P : Prims} {env : Env} {a : Option Val} {test : Bool} {p : Push}
    {n : Nat} {t : Tally} (h : (guardPushT w P env a test p).map (Tally.tick n) = some t) :
    t.debugs ≤ t.entries.length := by
  obtain ⟨t', h', e1, _, e3⟩ := map_tick_some h
  unfold guardPushT at h'
  cases test with
  | false =>
    simp at h'
    obtain ⟨e, _, rfl⟩ := h'
    rw [e1, e3]
    simp only [List.length_singleton]
    unfold Push.debugs
    split <;> omega
  | true =>
    simp [Tally.zero] at h'
    subst h'
    simp_all

theorem tick_debugs {n : Nat} {r : Option Tally} {t : Tally} (h : r.map (Tally.tick n) = some t)
    (ih : ∀ t', r = some t' → t'.debugs ≤ t'.entries.length) : t.debugs ≤ t.entries.length := by
  obtain ⟨t', h', e1, _, e3⟩ := map_tick_some h
  have := ih t' h'
  rw [e1, e3]; exact this

mutual
/-- **Debug formatting happens only for reported mismatches**: on every run of every piece of
assertion code - passing or failing, whatever the values - the number of `Debug` calls is at
most the number of entries pushed (set probes excepted, see `Effects.lean`). -/
theorem execT_debugs_le (w : Weights) (P : Prims) : ∀ (c : Code) (env : Env) (t : Tally),
    execT w P c env = some t → t.debugs ≤ t.entries.length
  | .skip, env, t, h => by
    simp [execT, Tally.zero] at h; subst h; simp
  | .seq cs, env, t, h => by
    simp only [execT] at h
    exact execsT_debugs_le w P cs env t h
  | .simple _ v e push, env, t, h => by
    simp only [execT] at h
    cases hv : evalV P env v with
    | none => simp [hv] at h
    | some x =>
      simp only [hv, Option.bind_some] at h
      exact guardPushT_debugs h
  | .string _ v _ value push, env, t, h => by
    simp only [execT] at h
    cases hv : evalV P env v with
    | none => simp [hv] at h
    | some x =>
      simp only [hv, Option.bind_some] at h
      exact guardPushT_debugs h
  | .cmp _ v op e push, env, t, h => by
    simp only [execT] at h
    cases hv : evalV P env v with
    | none => simp [hv] at h
    | some x =>
      simp only [hv, Option.bind_some] at h
      exact guardPushT_debugs h
  | .unitVariant _ v path push, env, t, h => by
    simp only [execT] at h
    cases hv : evalV P env v with
    | none => simp [hv] at h
    | some x =>
      simp only [hv, Option.bind_some] at h
      exact guardPushT_debugs h
  | .range _ v e push, env, t, h => by
    simp only [execT] at h
    cases hv : evalV P env v with
    | none => simp [hv] at h
    | some x =>
      simp only [hv, Option.bind_some] at h
      exact guardPushT_debugs h
  | .regex _ v pat push, env, t, h => by
    simp only [execT] at h
    cases hv : evalV P env v with
    | none => simp [hv] at h
    | some x =>
      simp only [hv, Option.bind_some] at h
      exact guardPushT_debugs h
  | .like _ v e push, env, t, h => by
    simp only [execT] at h
    cases hv : evalV P env v with
    | none => simp [hv] at h
    | some x =>
      simp only [hv, Option.bind_some] at h
      exact guardPushT_debugs h
  | .closure _ v e push, env, t, h => by
    simp only [execT] at h
    cases hv : evalV P env v with
    | none => simp [hv] at h
    | some x =>
      simp only [hv, Option.bind_some] at h
      exact guardPushT_debugs h
  | .enumTuple _ v path binders body push, env, t, h => by
    simp only [execT] at h
    cases hv : evalV P env v with
    | none => simp [hv] at h
    | some x =>
      simp only [hv, Option.bind_some] at h
      cases hx : x.v with
      | adt ctor names vals =>
        simp only [hx] at h
        split at h
        · split at h
          · exact tick_debugs h fun t' h' => execsT_debugs_le w P body _ t' h'
          · simp at h
        · exact guardPushT_debugs h
      | _ => simp [hx] at h
  | .structNamed _ v path fields _ rest body push, env, t, h => by
    simp only [execT] at h
    cases hv : evalV P env v with
    | none => simp [hv] at h
    | some x =>
      simp only [hv, Option.bind_some] at h
      cases hx : x.v with
      | adt ctor names vals =>
        simp only [hx] at h
        split at h
        · split at h
          · cases hb : bindFields (Val.adt ctor names vals) fields env with
            | none => simp [hb] at h
            | some env' =>
              simp only [hb, Option.bind_some] at h
              exact tick_debugs h fun t' h' => execsT_debugs_le w P body _ t' h'
          · simp at h
        · exact guardPushT_debugs h
      | _ => simp [hx] at h
  | .tuple v binders body, env, t, h => by
    simp only [execT] at h
    cases hv : evalV P env v with
    | none => simp [hv] at h
    | some x =>
      simp only [hv, Option.bind_some] at h
      rcases binders with _ | ⟨b, _ | ⟨b2, bs⟩⟩
      · cases hx : x.v with
        | tuple vs =>
          simp only [hx] at h
          split at h
          · exact tick_debugs h fun t' h' => execsT_debugs_le w P body _ t' h'
          · simp at h
        | _ => simp [hx] at h
      · simp only at h
        exact tick_debugs h fun t' h' => execsT_debugs_le w P body _ t' h'
      · cases hx : x.v with
        | tuple vs =>
          simp only [hx] at h
          split at h
          · exact tick_debugs h fun t' h' => execsT_debugs_le w P body _ t' h'
          · simp at h
        | _ => simp [hx] at h
  | .slice v parts body push, env, t, h => by
    simp only [execT] at h
    cases hv : evalV P env v with
    | none => simp [hv] at h
    | some x =>
      simp only [hv, Option.bind_some] at h
      cases hx : x.v.autoDeref with
      | seq vs =>
        simp only [hx] at h
        split at h
        · split at h
          · exact tick_debugs h fun t' h' => execsT_debugs_le w P body _ t' h'
          · exact guardPushT_debugs h
        · split at h
          · split at h
            · exact tick_debugs h fun t' h' => execsT_debugs_le w P body _ t' h'
            · exact guardPushT_debugs h
          · simp at h
      | _ => simp [hx] at h
  | .mapLen _ v n push, env, t, h => by
    simp only [execT] at h
    cases hv : evalV P env v with
    | none => simp [hv] at h
    | some x =>
      simp only [hv, Option.bind_some] at h
      cases hx : x.v.autoDeref with
      | map ks vs =>
        simp only [hx] at h
        exact guardPushT_debugs h
      | _ => simp [hx] at h
  | .mapGet _ v key body push, env, t, h => by
    simp only [execT] at h
    cases hv : evalV P env v with
    | none => simp [hv] at h
    | some x =>
      simp only [hv, Option.bind_some] at h
      cases hx : x.v.autoDeref with
      | map ks vs =>
        simp only [hx] at h
        cases hl : mapLookup P.valEq (P.key key) ks vs with
        | some val =>
          simp only [hl] at h
          exact tick_debugs h fun t' h' => execT_debugs_le w P body _ t' h'
        | none =>
          simp only [hl] at h
          exact guardPushT_debugs h
      | _ => simp [hx] at h
  | .set v preds rest node, env, t, h => by
    simp only [execT] at h
    cases hv : evalV P env v with
    | none => simp [hv] at h
    | some x =>
      simp only [hv, Option.bind_some] at h
      cases hx : x.v.elems? with
      | some vs =>
        simp only [hx] at h
        simp at h; subst h
        simp
      | none => simp [hx] at h
theorem execsT_debugs_le (w : Weights) (P : Prims) : ∀ (cs : Codes) (env : Env) (t : Tally),
    execsT w P cs env = some t → t.debugs ≤ t.entries.length
  | .nil, env, t, h => by
    simp [execsT, Tally.zero] at h; subst h; simp
  | .cons c tl, env, t, h => by
    simp only [execsT] at h
    obtain ⟨x, y, hx, hy, rfl⟩ := appendT_some h
    have h1 := execT_debugs_le w P c env x hx
    have h2 := execsT_debugs_le w P tl env y hy
    simp only [Tally.add, List.length_append]; omega
end

/-! ## Each chain as written, once -/

def FieldOp.effectful : FieldOp → Bool
  | .method .. | .await _ | .index .. => true
  | .deref .. | .named .. | .unnamed .. => false

/-- Does the chain written after the field name contain a step whose evaluation can be observed? -/
def FieldOps.effectful (o : FieldOps) : Bool :=
  match o.tailOps? with
  | some (some tl) => tl.ops.any FieldOp.effectful
  | _ => false

theorem opsCost_zero_of_not_effectful (w : Weights) : ∀ ops : List FieldOp,
    ops.any FieldOp.effectful = false → opsCost w ops = 0
  | [], _ => by simp [opsCost]
  | op :: ops, h => by
    simp only [List.any_cons, Bool.or_eq_false_iff] at h
    have := opsCost_zero_of_not_effectful w ops h.2
    simp only [opsCost, List.map_cons, List.sum_cons] at *
    cases op <;> simp_all [FieldOp.effectful, FieldOp.cost]

theorem tailCost_zero_of_not_effectful (w : Weights) (o : FieldOps) (h : o.effectful = false) :
    o.tailCost w = 0 := by
  unfold FieldOps.effectful at h
  unfold FieldOps.tailCost
  cases ht : o.tailOps? with
  | none => rfl
  | some t => cases t with
    | none => rfl
    | some tl => simp only [ht] at h; exact opsCost_zero_of_not_effectful w tl.ops h

mutual
/-- The chains written inside the pattern, each counted **once**. -/
def Pat.written (w : Weights) : Pat → Nat
  | .struct _ _ fields _ => fields.writtenFields w
  | .enum _ _ elems => if elems.length = 0 then 0 else elems.writtenElems w
  | .tuple _ _ elems => elems.writtenElems w
  | .slice _ _ elems => elems.writtenSlice w
  | .map _ _ entries _ => entries.writtenEntries w
  | _ => 0
def Items.writtenFields (w : Weights) : Items → Nat
  | .nil => 0
  | .cons ops _ p tl =>
    (match ops with
      | some o => if o.rootFieldName?.isSome then o.tailCost w + p.written w else 0
      | none => 0) + tl.writtenFields w
def Items.writtenElems (w : Weights) : Items → Nat
  | .nil => 0
  | .cons ops _ p tl =>
    (if p.isWild then 0 else
      match ops with
      | some o => o.tailCost w + p.written w
      | none => p.written w) + tl.writtenElems w
def Items.writtenSlice (w : Weights) : Items → Nat
  | .nil => 0
  | .cons _ _ p tl => p.written w + tl.writtenSlice w
def Items.writtenEntries (w : Weights) : Items → Nat
  | .nil => 0
  | .cons _ key p tl => (if key.isSome then p.written w else 0) + tl.writtenEntries w
end

mutual
/-- Every chain with an observable step leads to a pattern whose code uses its expression
exactly once (not `_`, not a map pattern, not a wildcard struct with other than one use) -
the complement is the recorded findings `chain-per-entry` and `zero-evaluations`. -/
def Pat.once : Pat → Bool
  | .struct _ _ fields _ => fields.onceFields
  | .enum _ _ elems => elems.length = 0 || elems.onceElems
  | .tuple _ _ elems => elems.onceElems
  | .slice _ _ elems => elems.oncePlain
  | .map _ _ entries _ => entries.oncePlain
  | _ => true
def Items.onceFields : Items → Bool
  | .nil => true
  | .cons ops _ p tl =>
    (match ops with
      | some o => (!o.effectful || p.uses == 1) && p.once
      | none => true) && tl.onceFields
def Items.onceElems : Items → Bool
  | .nil => true
  | .cons ops _ p tl =>
    (p.isWild ||
      (match ops with
        | some o => (!o.effectful || p.uses == 1) && p.once
        | none => p.once)) && tl.onceElems
def Items.oncePlain : Items → Bool
  | .nil => true
  | .cons _ _ p tl => p.once && tl.oncePlain
end

theorem chain_once (w : Weights) (o : FieldOps) (u : Nat) (h : (!o.effectful || u == 1) = true) :
    o.tailCost w * u = o.tailCost w := by
  cases he : o.effectful with
  | false => simp [tailCost_zero_of_not_effectful w o he]
  | true => simp [he] at h; simp [h]

mutual
theorem inner_eq_written (w : Weights) : ∀ p : Pat, p.once = true → p.inner w = p.written w
  | .simple _ _, _ | .string _ _ _ _, _ | .cmp _ _ _ _, _ | .range _ _, _ | .regex _ _ _, _
  | .like _ _, _ | .closure _ _, _ | .wild _, _ | .set _ _ _ _, _ => by simp [Pat.inner, Pat.written]
  | .struct _ (some _) fields _, h => by
    simp only [Pat.once] at h
    simp [Pat.inner, Pat.written, innerFields_eq_written w fields h]
  | .struct _ none fields _, h => by
    simp only [Pat.once] at h
    simp [Pat.inner, Pat.written, innerFields_eq_written w fields h]
  | .enum _ _ elems, h => by
    simp only [Pat.once, Bool.or_eq_true, decide_eq_true_eq] at h
    unfold Pat.inner Pat.written
    by_cases h0 : elems.length = 0
    · simp [h0]
    · simp [h0, innerElems_eq_written w elems (h.resolve_left h0)]
  | .tuple _ _ elems, h => by
    simp only [Pat.once] at h
    simp [Pat.inner, Pat.written, innerElems_eq_written w elems h]
  | .slice _ _ elems, h => by
    simp only [Pat.once] at h
    simp [Pat.inner, Pat.written, innerSlice_eq_written w elems h]
  | .map _ _ entries _, h => by
    simp only [Pat.once] at h
    simp [Pat.inner, Pat.written, innerEntries_eq_written w entries h]
theorem innerFields_eq_written (w : Weights) : ∀ fs : Items, fs.onceFields = true → fs.innerFields w = fs.writtenFields w
  | .nil, _ => rfl
  | .cons ops _ p tl, h => by
    simp only [Items.onceFields, Bool.and_eq_true] at h
    simp only [Items.innerFields, Items.writtenFields, innerFields_eq_written w tl h.2]
    cases ops with
    | none => rfl
    | some o =>
      simp only [Bool.and_eq_true] at h
      simp only [chain_once w o p.uses h.1.1, inner_eq_written w p h.1.2]
theorem innerElems_eq_written (w : Weights) : ∀ fs : Items, fs.onceElems = true → fs.innerElems w = fs.writtenElems w
  | .nil, _ => rfl
  | .cons ops _ p tl, h => by
    simp only [Items.onceElems, Bool.and_eq_true, Bool.or_eq_true] at h
    simp only [Items.innerElems, Items.writtenElems, innerElems_eq_written w tl h.2]
    by_cases hw : p.isWild = true
    · simp [hw]
    · have h1 := h.1.resolve_left hw
      simp only [hw, Bool.false_eq_true, if_false]
      cases ops with
      | none => simp only at h1; simp only [inner_eq_written w p h1]
      | some o =>
        simp only [Bool.and_eq_true] at h1
        simp only [chain_once w o p.uses h1.1, inner_eq_written w p h1.2]
theorem innerSlice_eq_written (w : Weights) : ∀ fs : Items, fs.oncePlain = true → fs.innerSlice w = fs.writtenSlice w
  | .nil, _ => rfl
  | .cons _ _ p tl, h => by
    simp only [Items.oncePlain, Bool.and_eq_true] at h
    simp only [Items.innerSlice, Items.writtenSlice, innerSlice_eq_written w tl h.2, inner_eq_written w p h.1]
theorem innerEntries_eq_written (w : Weights) : ∀ fs : Items, fs.oncePlain = true → fs.innerEntries w = fs.writtenEntries w
  | .nil, _ => rfl
  | .cons _ key p tl, h => by
    simp only [Items.oncePlain, Bool.and_eq_true] at h
    simp only [Items.innerEntries, Items.writtenEntries, innerEntries_eq_written w tl h.2, inner_eq_written w p h.1]
end

/-! ## The property theorems -/

/-- **C08, passing path, every pattern.**  If the assertion returns normally, the run evaluated
the chains written in the pattern - each as often as the pattern it leads to uses it
(`Pat.inner`) - and nothing else, and never called Debug. -/
theorem C08_pass_cost (w : Weights) (P : Prims) (p : Pat) (value : Val) (t : Tally)
    (h : runT w P (expand p) value = some t) (he : t.entries = []) :
    t.steps = p.inner w ∧ t.debugs = 0 := by
  have := execT_pass w P _ _ t h he
  simpa [expand, expandPat_passCost, rootVExpr, var_cost] using this

/-- **C08, passing path: every chain exactly once.**  For a pattern in which no chain with an
observable step leads to `_`, a map pattern or a wildcard struct (`Pat.once`), a passing
assertion evaluates every step of every written chain exactly once - for every kind of step
separately (`w` is arbitrary) - and never calls Debug. -/
theorem C08_chains_once_on_pass (w : Weights) (P : Prims) (p : Pat) (value : Val) (t : Tally)
    (ho : p.once = true) (h : runT w P (expand p) value = some t) (he : t.entries = []) :
    t.steps = p.written w ∧ t.debugs = 0 := by
  rw [← inner_eq_written w p ho]
  exact C08_pass_cost w P p value t h he

/-- **Debug runs only for reported mismatches**, on every run of every expansion. -/
theorem C08_debug_calls_le_entries (w : Weights) (P : Prims) (p : Pat) (value : Val) (t : Tally)
    (h : runT w P (expand p) value = some t) : t.debugs ≤ t.entries.length :=
  execT_debugs_le w P _ _ t h

/-- The tally talks about the same run as the refinement theorem: its entries are `run`'s. -/
theorem C08_tally_conservative (w : Weights) (P : Prims) (p : Pat) (value : Val) :
    (runT w P (expand p) value).map (·.entries) = run P (expand p) value :=
  execT_entries w P _ _

/-- The recorded finding `chain-per-entry`, as a statement about the generator: a map pattern
evaluates the expression it is handed once for the length check (unless `..`) and once per key. -/
theorem C08_map_uses_per_entry (id : Nat) (sp : Sp) (entries : Items) (rest : Bool) :
    (Pat.map id sp entries rest).uses = (if rest then 0 else 1) + entries.keyed := rfl

/-- The recorded finding `chain-twice-on-failure`, as a statement about runs: a failing
comparison evaluates its chain twice (once to test, once more for the error text) and calls
Debug once.  (The string template is the one leaf that evaluates it once: `C08_string_once`.) -/
theorem C08_failing_comparison_twice (w : Weights) (P : Prims) (v : VExpr) (id : Nat) (op : Runtime.CmpOp)
    (sp : Sp) (e : UExpr) (env : Env) (t : Tally)
    (h : execT w P (expandPat v (.cmp id op sp e)) env = some t) (hf : t.entries ≠ []) :
    t.steps = 2 * v.cost w ∧ t.debugs = 1 := by
  simp only [expandPat, execT] at h
  cases hv : evalV P env v with
  | none => simp [hv] at h
  | some x =>
    simp only [hv, Option.bind_some] at h
    obtain ⟨t', h', e1, e2, e3⟩ := map_tick_some h
    unfold guardPushT at h'
    cases hc : P.cmp op x.v e with
    | true => simp [hc, Tally.zero] at h'; subst h'; simp [e1] at hf
    | false =>
      simp [hc] at h'
      obtain ⟨en, _, rfl⟩ := h'
      simp [Push.cost, Push.debugs] at e2 e3
      omega

/-- A failing string-literal pattern evaluates its chain once. -/
theorem C08_failing_string_once (w : Weights) (P : Prims) (v : VExpr) (id : Nat) (value : String) (sp : Sp)
    (tok : Tok) (env : Env) (t : Tally)
    (h : execT w P (expandPat v (.string id value sp tok)) env = some t) :
    t.steps = v.cost w := by
  simp only [expandPat, execT] at h
  cases hv : evalV P env v with
  | none => simp [hv] at h
  | some x =>
    simp only [hv, Option.bind_some] at h
    obtain ⟨t', h', e1, e2, e3⟩ := map_tick_some h
    unfold guardPushT at h'
    cases hc : P.strLit value x.v with
    | true => simp [hc, Tally.zero] at h'; subst h'; simp at e2; omega
    | false =>
      simp [hc] at h'
      obtain ⟨en, _, rfl⟩ := h'
      simp [Push.cost] at e2
      omega

/-! ## Non-vacuity: `W2 { w.get(): == 5 }` on a value that matches / does not match -/

/-- A toy interpretation: `get()` reads field `f`; `== e` compares with 5. -/
def exPrims : Prims where
  debug := fun _ => "dbg"
  lit := fun _ _ => true
  strLit := fun _ _ => true
  cmp := fun _ v _ => match v with | .int 5 => true | _ => false
  inRange := fun _ _ => true
  regex := fun _ _ => true
  like := fun _ _ => true
  closure := fun _ _ => true
  unitPath := fun _ _ => true
  ctor := fun _ _ => true
  key := fun _ => .int 0
  method := fun _ _ v => v.field (.ident ⟨"f", default⟩)
  index := fun _ _ => none
  valEq := fun _ _ => false

def exChainPat : Pat :=
  .struct 0 (some default)
    (.cons (some ⟨[.named ⟨"w", default⟩ default, .method ⟨"get", default⟩ default []], default⟩) none
      (.cmp 1 .eq default default) .nil) false

def exW2 (n : Int) : Val := .adt "W2" ["w"] [.adt "W" ["f"] [.int n]]

example : exChainPat.once = true := by decide
example : exChainPat.written ⟨fun _ => 1, 0, 0⟩ = 1 := by decide
-- the matching value: one call of `get`, no Debug
example : (runT ⟨fun _ => 1, 0, 0⟩ exPrims (expand exChainPat) (exW2 5)).map (fun t => (t.entries, t.steps, t.debugs))
    = some ([], 1, 0) := by decide
-- the other value: one entry, `get` called twice (finding `chain-twice-on-failure`), Debug once
example : (runT ⟨fun _ => 1, 0, 0⟩ exPrims (expand exChainPat) (exW2 6)).map (fun t => (t.entries.length, t.steps, t.debugs))
    = some (1, 2, 1) := by decide

end AsModel
