import AsModel.Runtime.SrcPath
/-!
# C18 — the source snippet is found for every crate layout

Theorems about `absolute_source_path` over lists of path components (any
component type with decidable equality, any lengths).  cargo's conventions are
the hypotheses: `CARGO_MANIFEST_DIR = wsroot ++ pkg`, `file!() = pkg ++ src`
(`pkg = []` for a single package).
-/
namespace AsModel.Runtime
variable {α : Type} [DecidableEq α]

/-- `k` is an overlap of `m` and `f`: the last `k` components of `m` are the first `k` of `f`. -/
def IsOverlap (m f : List α) (k : Nat) : Prop :=
  k ≤ min m.length f.length ∧ m.drop (m.length - k) = f.take k

theorem overlapUpTo_spec (m f : List α) (n : Nat) (hn : n ≤ min m.length f.length) :
    overlapUpTo m f n ≤ n ∧
    (overlapUpTo m f n = 0 ∨ IsOverlap m f (overlapUpTo m f n)) ∧
    ∀ k, overlapUpTo m f n < k → k ≤ n → m.drop (m.length - k) ≠ f.take k := by
  induction n with
  | zero => exact ⟨Nat.le_refl _, Or.inl rfl, fun k h1 h2 => by simp [overlapUpTo] at h1; omega⟩
  | succ n ih =>
    unfold overlapUpTo
    split
    · rename_i h
      exact ⟨Nat.le_refl _, Or.inr ⟨hn, h⟩, fun k h1 h2 => by omega⟩
    · rename_i h
      obtain ⟨h1, h2, h3⟩ := ih (by omega)
      refine ⟨by omega, h2, ?_⟩
      intro k hk1 hk2
      by_cases hk : k = n + 1
      · subst hk; exact h
      · exact h3 k hk1 (by omega)

/-- The overlap the code strips is the *longest* one. -/
theorem overlapLen_longest (m f : List α) :
    ∀ k, IsOverlap m f k → k ≤ overlapLen m f := by
  intro k ⟨hk, he⟩
  have := (overlapUpTo_spec m f (min m.length f.length) (Nat.le_refl _)).2.2 k
  unfold overlapLen
  by_cases h : overlapUpTo m f (min m.length f.length) < k
  · exact absurd he (this h hk)
  · omega

theorem overlapLen_isOverlap (m f : List α) : IsOverlap m f (overlapLen m f) := by
  have := overlapUpTo_spec m f (min m.length f.length) (Nat.le_refl _)
  unfold overlapLen
  rcases this.2.1 with h | h
  · rw [h]; exact ⟨Nat.zero_le _, by simp⟩
  · exact h

/-- In a layout cargo produces, with no spurious longer overlap between the
manifest directory and the file path, the resolved path is the real file. -/
theorem C18_resolves (ws pkg src : List α)
    (hno : ∀ k, pkg.length < k → ¬ IsOverlap (ws ++ pkg) (pkg ++ src) k) :
    absComps (ws ++ pkg) (pkg ++ src) = ws ++ pkg ++ src := by
  have hpk : IsOverlap (ws ++ pkg) (pkg ++ src) pkg.length := by
    refine ⟨by simp; omega, ?_⟩
    simp
  have h1 := overlapLen_longest _ _ _ hpk
  have h2 : overlapLen (ws ++ pkg) (pkg ++ src) = pkg.length := by
    by_cases h : pkg.length < overlapLen (ws ++ pkg) (pkg ++ src)
    · exact absurd (overlapLen_isOverlap _ _) (hno _ h)
    · omega
  unfold absComps
  rw [h2]
  simp

/-- Whatever the layout, the resolved path is the file path appended to a prefix of
the manifest directory obtained by stripping a genuine overlap — it is never an
unrelated path. -/
theorem C18_never_other_file (m f : List α) :
    ∃ k, IsOverlap m f k ∧ absComps m f = m.take (m.length - k) ++ f :=
  ⟨overlapLen m f, overlapLen_isOverlap m f, rfl⟩

/-- The unguarded statement is false: a single package (`pkg = []`) whose directory is
called like the first component of the source path.  (Known finding, DESIGN.md §9 #12.) -/
theorem C18_full_strength_counterexample :
    absComps (["/", "lay", "src"] ++ ([] : List String)) ([] ++ ["src", "main.rs"])
      ≠ ["/", "lay", "src"] ++ [] ++ ["src", "main.rs"] := by decide

/-- Non-vacuity of `C18_resolves`: a nested workspace member. -/
example : absComps (["/", "ws"] ++ ["crates", "a"]) (["crates", "a"] ++ ["src", "lib.rs"])
    = ["/", "ws", "crates", "a", "src", "lib.rs"] := by decide

end AsModel.Runtime
