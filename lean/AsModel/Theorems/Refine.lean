import AsModel.Proofs.Binders
/-!
# The refinement theorem

`exec (expandPat ve p) env = frontier p v` whenever the value expression `ve` evaluates
to (a reference to) `v`: the model of the generated code, run under the model of Rust's
semantics, pushes exactly the entries of the specification's failure frontier — same
nodes, same order, same actual and expected texts — for every pattern (any nesting, any
combination of forms), every value, every environment and every interpretation `P` of
user expressions, `Debug`, comparison and matchers.

Guard: `Pat.safe` (see `Safe.lean`; its complement is the set of known findings).
C01, C02, C03, C05, the macro-level half of C10 and the verdict half of C11 are
corollaries (`Theorems/C01.lean` …).
-/
namespace AsModel
open Runtime (setMatch)

theorem guardPush_dbg (P : Prims) (env : Env) (ve : VExpr) (x : RV) (id : Nat) (sp : Sp)
    (test : Bool) (hx : evalV P env ve = some x) :
    guardPush P env none test (dbgPush sp id ve) = some (if test then [] else [mkEntry P id x.v]) := by
  cases test <;> simp [guardPush, dbgPush, Push.eval, hx, mkEntry, Expected.text?]

theorem appendO_some_nil {α} (a : Option (List α)) : appendO a (some []) = a := by
  cases a <;> simp [appendO]

theorem appendO_none_left {α} (b : Option (List α)) : appendO none b = none := by
  cases b <;> simp [appendO]

theorem appendO_none_right {α} (a : Option (List α)) : appendO a none = none := by
  cases a <;> simp [appendO]

theorem expandSetElems_length : ∀ items : Items, (expandSetElems items).toList.length = items.length
  | .nil => rfl
  | .cons _ _ _ tl => by simp [expandSetElems, Codes.toList, Items.length, expandSetElems_length tl]

theorem execs_append (P : Prims) (env : Env) : ∀ (a b : Codes),
    execs P (a.append b) env = appendO (execs P a env) (execs P b env)
  | .nil, b => by
    simp only [Codes.append, execs]
    cases execs P b env <;> simp [appendO]
  | .cons c tl, b => by
    simp only [Codes.append, execs, execs_append P env tl b]
    cases exec P c env <;> cases execs P tl env <;> cases execs P b env <;> simp [appendO]

/-- Number of elements of a slice pattern that are not `..`. -/
def Items.nonRest (items : Items) : Nat := items.length - items.countRest

theorem Items.countRest_le_length : ∀ items : Items, items.countRest ≤ items.length
  | .nil => Nat.le_refl _
  | .cons _ _ p tl => by
    have := Items.countRest_le_length tl
    unfold Items.countRest Items.length
    split <;> omega

theorem fieldSub_eq (P : Prims) (v : Val) (o : FieldOps) :
    fieldSub P v o = o.rootFieldName?.bind fun f => (v.field f).bind fun w => elemSub P w o := by
  unfold fieldSub elemSub
  cases o.rootFieldName? with
  | none => rfl
  | some f =>
    cases v.field f with
    | none => rfl
    | some w => cases o.tailOps? with
      | none => rfl
      | some t => cases t <;> rfl

theorem elemSub_some_of_noTail (P : Prims) (w : Val) (o : FieldOps)
    (hs : o.spliceSafe = true) (hn : o.hasTail = false) : elemSub P w o = some w := by
  unfold elemSub
  unfold FieldOps.spliceSafe at hs
  unfold FieldOps.hasTail at hn
  cases ht : o.tailOps? with
  | none => simp [ht] at hs
  | some t => cases t with
    | none => rfl
    | some tl => simp [ht] at hn

theorem evalV_none_of_map_none (P : Prims) (env : Env) (ve : VExpr)
    (h : (evalV P env ve).map (·.v) = none) : evalV P env ve = none := by
  cases hv : evalV P env ve with
  | none => rfl
  | some x => simp [hv] at h

theorem evalV_some_of_map_some (P : Prims) (env : Env) (ve : VExpr) (w : Val)
    (h : (evalV P env ve).map (·.v) = some w) : ∃ x, evalV P env ve = some x ∧ x.v = w := by
  cases hv : evalV P env ve with
  | none => simp [hv] at h
  | some x => exact ⟨x, rfl, by simpa [hv] using h⟩

mutual

theorem refine (P : Prims) : ∀ (p : Pat) (ve : VExpr) (env : Env) (x : RV),
    p.safe = true → evalV P env ve = some x → exec P (expandPat ve p) env = frontier P p x.v
  | .simple id e, ve, env, x, _, hx => by
    simp [expandPat, exec, frontier, hx, guardPush_dbg P env ve x id e.sp _ hx]
  | .string id value sp tok, ve, env, x, _, hx => by
    simp only [expandPat, exec, frontier, hx, Option.bind_some]
    cases P.strLit value x.v <;> simp [guardPush, Push.eval, mkEntry, Expected.text?]
  | .cmp id op osp e, ve, env, x, _, hx => by
    simp only [expandPat, exec, frontier, hx, Option.bind_some]
    cases P.cmp op x.v e <;> by_cases ho : op = .eq <;>
      simp [guardPush, Push.eval, hx, Expected.text?, ho]
  | .range id e, ve, env, x, _, hx => by
    simp [expandPat, exec, frontier, hx, guardPush_dbg P env ve x id e.sp _ hx]
  | .regex id pat sp, ve, env, x, _, hx => by
    simp [expandPat, exec, frontier, hx, guardPush_dbg P env ve x id sp _ hx]
  | .like id e, ve, env, x, _, hx => by
    simp [expandPat, exec, frontier, hx, guardPush_dbg P env ve x id e.sp _ hx]
  | .closure id e, ve, env, x, _, hx => by
    simp [expandPat, exec, frontier, hx, guardPush_dbg P env ve x id e.sp _ hx]
  | .wild id, ve, env, x, _, hx => by
    simp [expandPat, exec, frontier]
  | .enum id path elems, ve, env, x, hs, hx => by
    unfold expandPat frontier
    by_cases h0 : elems.length = 0
    · simp [h0, exec, hx, guardPush_dbg P env ve x id path.sp _ hx]
    · simp only [h0, if_false, exec, hx, Option.bind_some]
      cases hv : x.v with
      | adt ctor names vals =>
        simp only
        by_cases hc : P.ctor path ctor = true
        · simp only [hc, if_true, elemBinders_length]
          by_cases hl : vals.length = elems.length
          · simp only [hl, if_true]
            exact refineElems P elems 0 Name.elem _ vals (by simpa [Pat.safe] using hs)
              (elemsBound_bind Name.elem elem_key_inj elems 0 vals env) hl
          · simp [hl]
        · have hc' : P.ctor path ctor = false := by simpa using hc
          have := guardPush_dbg P env ve x id path.sp false hx
          simp [hc', this, hv]
      | _ => simp
  | .struct id (some path) fields rest, ve, env, x, hs, hx => by
    unfold expandPat frontier
    simp only [exec, hx, Option.bind_some]
    cases hv : x.v with
    | adt ctor names vals =>
      simp only
      by_cases hc : P.ctor path ctor = true
      · simp only [hc, if_true, allListed_dedup]
        have hlist : (names.all fun n => fields.rootNames.any fun f => f.toString == n) =
            fields.allNamesListed names := rfl
        rw [hlist]
        by_cases hr : (rest || fields.allNamesListed names) = true
        · simp only [hr, if_true]
          have hsf : fields.safe .field = true := by simpa [Pat.safe] using hs
          cases hb : bindFields (Val.adt ctor names vals) (dedupNames fields.rootNames []) env with
          | none =>
            obtain ⟨g, hg, hgn⟩ := bindFields_none _ _ _ hb
            have hg' := dedupNames_subset _ _ _ hg
            simp only [Option.bind_none]
            exact (frontierFields_missing P fields (Val.adt ctor names vals) hsf g hg' hgn).symm
          | some env' =>
            simp only [Option.bind_some]
            refine refineFields P fields env' (Val.adt ctor names vals) hsf ?_
            intro f hf
            rcases dedupNames_mem fields.rootNames [] f hf with ⟨g, hg, hsg⟩ | ⟨g, hg, _⟩
            · exact bindFields_lookup _ _ _ _ hb f ⟨g, hg, ((sameName_iff_key f g).1 hsg).symm⟩
            · simp at hg
        · simp [hr]
      · have hc' : P.ctor path ctor = false := by simpa using hc
        have := guardPush_dbg P env ve x id path.sp false hx
        simp [hc', this, hv]
    | _ => simp
  | .struct id none fields rest, ve, env, x, hs, hx => by
    simp only [expandPat, exec, frontier]
    exact refineWild P fields ve env x (by simpa [Pat.safe] using hs) hx
  | .tuple id sp elems, ve, env, x, hs, hx => by
    have hs' := hs
    simp only [Pat.safe, Bool.and_eq_true] at hs'
    unfold expandPat frontier
    simp only [exec, hx, Option.bind_some]
    cases elems with
    | nil =>
      simp only [elemBinders, Items.isSingleParen, Bool.false_eq_true, if_false, expandElems]
      cases x.v <;> simp [Items.length, execs, frontierElems, bindElems]
    | cons ops key p tl =>
      cases tl with
      | nil =>
        -- `(p)`: one binder, bound to `&V` itself
        cases ops with
        | some o => simp at hs'
        | none =>
          simp only [elemBinders, Items.isSingleParen, if_true, frontierHead, expandElems]
          have hps : p.safe = true := by
            have := hs'.1
            simp only [Items.safe, Bool.and_eq_true] at this
            exact this.1.2
          by_cases hw : p.isWild = true
          · cases p <;> simp_all [Pat.isWild, execs, frontier]
          · have hw' : p.isWild = false := by simpa using hw
            simp only [hw', Bool.false_eq_true, if_false, execs, appendO_some_nil]
            exact refine P p _ _ ⟨x.v, x.d + 1⟩ hps (by simp [evalV_ofCore, evalCore, Name.key])
      | cons ops2 key2 p2 tl2 =>
        simp only [Items.isSingleParen, Bool.false_eq_true, if_false]
        have hlen : (elemBinders (.cons ops key p (.cons ops2 key2 p2 tl2)) 0 Name.tupleElem).length
            = (Items.cons ops key p (.cons ops2 key2 p2 tl2)).length := elemBinders_length _ _ _
        cases hv : x.v with
        | tuple vs =>
          have : ∀ b, elemBinders (.cons ops key p (.cons ops2 key2 p2 tl2)) 0 Name.tupleElem ≠ [b] := by
            intro b h; have := congrArg List.length h; simp [hlen, Items.length] at this
          split
          · rename_i b heq; exact absurd heq (this b)
          · simp only [hlen]
            by_cases hl : vs.length = (Items.cons ops key p (.cons ops2 key2 p2 tl2)).length
            · simp only [hl, if_true]
              exact refineElems P _ 0 Name.tupleElem _ vs hs'.1
                (elemsBound_bind Name.tupleElem tupleElem_key_inj _ 0 vs env) hl
            · simp [hl]
        | _ =>
          have : ∀ b, elemBinders (.cons ops key p (.cons ops2 key2 p2 tl2)) 0 Name.tupleElem ≠ [b] := by
            intro b h; have := congrArg List.length h; simp [hlen, Items.length] at this
          split
          · rename_i b heq; exact absurd heq (this b)
          · rfl
  | .slice id sp elems, ve, env, x, hs, hx => by
    have hse : elems.safe .plain = true := by simpa [Pat.safe] using hs
    unfold expandPat frontier
    simp only [exec, hx, Option.bind_some]
    cases hv : x.v.autoDeref with
    | seq vs =>
      simp only [sliceParts_countRest, sliceParts_length]
      have hpush : guardPush P env none false ⟨Sp.callSite, id, .dbgRef ve, .none⟩ =
          some [mkEntry P id x.v] := by
        simp [guardPush, Push.eval, hx, mkEntry, Expected.text?]
      by_cases h0 : elems.countRest = 0
      · simp only [h0, if_true, Nat.sub_zero]
        by_cases hl : vs.length = elems.length
        · simp only [hl, if_true]
          exact refineSlice P elems 0 _ vs hse (sliceBound_bind elems 0 vs env)
            (by simp [Items.nonRest, h0, hl])
        · simp [hl, hpush]
      · simp only [h0, if_false]
        by_cases h1 : elems.countRest = 1
        · simp only [h1, if_true]
          by_cases hl : elems.length - 1 ≤ vs.length
          · simp only [hl, if_true]
            exact refineSlice P elems 0 _ vs hse (sliceBound_bind elems 0 vs env)
              (by simp [Items.nonRest, h1, hl])
          · simp [hl, hpush]
        · simp [h1]
    | _ => simp
  | .set id sp elems rest, ve, env, x, hs, hx => by
    have hse : elems.safe .plain = true := by simpa [Pat.safe] using hs
    unfold expandPat frontier
    simp only [exec, hx, Option.bind_some]
    cases hv : x.v.elems? with
    | none => rfl
    | some vs =>
      simp only [expandSetElems_length, refineRows P elems vs env hse]
  | .map id sp entries rest, ve, env, x, hs, hx => by
    have hse : entries.safe .entry = true := by simpa [Pat.safe] using hs
    unfold expandPat frontier
    simp only [exec, execs_append]
    cases hv : x.v.autoDeref with
    | map ks vs =>
      have hent := refineEntries P entries ve env x id ks vs hse hx hv
      rw [hent]
      congr 1
      by_cases hr : rest = true
      · simp [hr, execs]
      · have hr' : rest = false := by simpa using hr
        simp only [hr', Bool.false_eq_true, if_false, execs, exec, hx, Option.bind_some, hv,
          appendO_some_nil, Bool.not_false, Bool.true_and]
        by_cases hl : ks.length = entries.length
        · simp [hl, guardPush]
        · have : (ks.length != entries.length) = true := by simpa using hl
          have h2 : (ks.length == entries.length) = false := by simpa using hl
          simp [this, h2, guardPush, Push.eval, hx, hv, Expected.text?]
    | _ =>
      all_goals
        by_cases hr : rest = true
        · subst hr
          cases entries with
          | nil => simp [Items.length, execs, expandEntries, Codes.append, appendO]
          | cons ops key p tl =>
            have hk : key.isSome = true := by
              simp only [Items.safe, Bool.and_eq_true, itemOk] at hse; exact hse.1.1
            cases key with
            | none => simp at hk
            | some k =>
              simp [Items.length, execs, expandEntries, exec, hx, hv, appendO_none_left, appendO]
        · have hr' : rest = false := by simpa using hr
          subst hr'
          simp [execs, exec, hx, hv, appendO_none_left]

theorem frontierFields_missing (P : Prims) : ∀ (fields : Items) (v : Val),
    fields.safe .field = true → ∀ g, g ∈ fields.rootNames → v.field g = none →
    frontierFields P fields v = none
  | .nil, _, _, g, hg, _ => by simp [Items.rootNames] at hg
  | .cons ops key p tl, v, hs, g, hg, hgn => by
    simp only [Items.safe, Bool.and_eq_true] at hs
    obtain ⟨⟨hok, _⟩, htl⟩ := hs
    cases ops with
    | none => simp [itemOk] at hok
    | some o =>
      simp only [itemOk, Bool.and_eq_true] at hok
      cases hroot : o.rootFieldName? with
      | none => simp [hroot] at hok
      | some f0 =>
        simp only [Items.rootNames, Option.bind_some, hroot] at hg
        simp only [frontierFields]
        rcases List.mem_cons.1 hg with rfl | hg'
        · simp [fieldSub_eq, hroot, hgn, appendO_none_left]
        · rw [frontierFields_missing P tl v htl g hg' hgn, appendO_none_right]

theorem refineNone (P : Prims) : ∀ (p : Pat) (ve : VExpr) (env : Env),
    p.safe = true → p.assertionFree = false → evalV P env ve = none →
    exec P (expandPat ve p) env = none
  | .simple .., ve, env, _, _, h | .string .., ve, env, _, _, h | .cmp .., ve, env, _, _, h
  | .range .., ve, env, _, _, h | .regex .., ve, env, _, _, h | .like .., ve, env, _, _, h
  | .closure .., ve, env, _, _, h => by simp [expandPat, exec, h]
  | .wild _, _, _, _, haf, _ => by simp [Pat.assertionFree] at haf
  | .enum id path elems, ve, env, _, _, h => by
    unfold expandPat; split <;> simp [exec, h]
  | .struct id (some path) fields rest, ve, env, _, _, h => by simp [expandPat, exec, h]
  | .struct id none fields rest, ve, env, hs, haf, h => by
    simp only [expandPat, exec]
    exact refineWildNone P fields ve env (by simpa [Pat.safe] using hs)
      (by simpa [Pat.assertionFree] using haf) h
  | .tuple .., ve, env, _, _, h | .slice .., ve, env, _, _, h | .set .., ve, env, _, _, h => by
    simp [expandPat, exec, h]
  | .map id sp entries rest, ve, env, hs, haf, h => by
    have hse : entries.safe .entry = true := by simpa [Pat.safe] using hs
    unfold expandPat
    simp only [exec, execs_append]
    by_cases hr : rest = true
    · subst hr
      cases entries with
      | nil => simp [Pat.assertionFree] at haf
      | cons ops key p tl =>
        have hk : key.isSome = true := by
          simp only [Items.safe, Bool.and_eq_true, itemOk] at hse; exact hse.1.1
        cases key with
        | none => simp at hk
        | some k => simp [execs, expandEntries, exec, h, appendO_none_left, appendO]
    · have hr' : rest = false := by simpa using hr
      subst hr'
      simp [execs, exec, h, appendO_none_left]

theorem refineWildNone (P : Prims) : ∀ (fields : Items) (ve : VExpr) (env : Env),
    fields.safe .wildField = true → fields.allAssertionFree = false → evalV P env ve = none →
    execs P (expandWildFields ve fields) env = none
  | .nil, _, _, _, haf, _ => by simp [Items.allAssertionFree] at haf
  | .cons ops key p tl, ve, env, hs, _, h => by
    simp only [Items.safe, Bool.and_eq_true] at hs
    obtain ⟨⟨hok, hps⟩, _⟩ := hs
    cases ops with
    | none => simp [itemOk] at hok
    | some o =>
      simp only [itemOk, Bool.and_eq_true, Bool.not_eq_eq_eq_not, Bool.not_true] at hok
      obtain ⟨⟨hroot, hnd⟩, haf⟩ := hok
      cases hr : o.rootFieldName? with
      | none => simp [hr] at hroot
      | some f =>
        simp only [expandWildFields, hr, execs]
        have hev := evalV_wildField P env ve o.rootFieldSp f o hr hnd
        rw [h] at hev
        have hnone := evalV_none_of_map_none P env _ hev
        cases ht : o.tailOps? with
        | none =>
          simp only [ht] at hnone ⊢
          rw [refineNone P p _ env hps haf hnone, appendO_none_left]
        | some t => cases t with
          | none =>
            simp only [ht] at hnone ⊢
            rw [refineNone P p _ env hps haf hnone, appendO_none_left]
          | some tl' =>
            simp only [ht] at hnone ⊢
            rw [refineNone P p _ env hps haf hnone, appendO_none_left]

theorem refineFields (P : Prims) : ∀ (fields : Items) (env : Env) (v : Val),
    fields.safe .field = true →
    (∀ f, f ∈ fields.rootNames → ∃ w, v.field f = some w ∧ env (Name.field f).key = some ⟨w, 1⟩) →
    execs P (expandFields fields) env = frontierFields P fields v
  | .nil, _, _, _, _ => by simp [expandFields, execs, frontierFields]
  | .cons ops key p tl, env, v, hs, hb => by
    simp only [Items.safe, Bool.and_eq_true] at hs
    obtain ⟨⟨hok, hps⟩, htl⟩ := hs
    cases ops with
    | none => simp [itemOk] at hok
    | some o =>
      simp only [itemOk, Bool.and_eq_true] at hok
      obtain ⟨⟨hroot, hss⟩, haf⟩ := hok
      cases hr : o.rootFieldName? with
      | none => simp [hr] at hroot
      | some f =>
        have hmem : f ∈ (Items.cons (some o) key p tl).rootNames := by
          simp [Items.rootNames, hr]
        obtain ⟨w, hw, henv⟩ := hb f hmem
        have htail := refineFields P tl env v htl (fun g hg => hb g (by
          simp only [Items.rootNames, Option.bind_some, hr]; exact List.mem_cons_of_mem _ hg))
        simp only [expandFields, hr, execs, frontierFields, htail, fieldSub_eq, Option.bind_some, hw]
        congr 1
        have hev := evalV_fieldValue P env (.field f) w o henv hss
        cases hsub : elemSub P w o with
        | none =>
          rw [hsub] at hev
          have hnone := evalV_none_of_map_none P env _ hev
          have hnt : o.hasTail = true := by
            cases hh : o.hasTail with
            | true => rfl
            | false => rw [elemSub_some_of_noTail P w o hss hh] at hsub; simp at hsub
          have haf' : p.assertionFree = false := by simpa [hnt] using haf
          exact refineNone P p _ env hps haf' hnone
        | some sub =>
          rw [hsub] at hev
          obtain ⟨x, hx, hxv⟩ := evalV_some_of_map_some P env _ sub hev
          rw [← hxv]
          exact refine P p _ env x hps hx

theorem refineWild (P : Prims) : ∀ (fields : Items) (ve : VExpr) (env : Env) (x : RV),
    fields.safe .wildField = true → evalV P env ve = some x →
    execs P (expandWildFields ve fields) env = frontierFields P fields x.v
  | .nil, _, _, _, _, _ => by simp [expandWildFields, execs, frontierFields]
  | .cons ops key p tl, ve, env, x, hs, hx => by
    simp only [Items.safe, Bool.and_eq_true] at hs
    obtain ⟨⟨hok, hps⟩, htl⟩ := hs
    cases ops with
    | none => simp [itemOk] at hok
    | some o =>
      simp only [itemOk, Bool.and_eq_true, Bool.not_eq_eq_eq_not, Bool.not_true] at hok
      obtain ⟨⟨hroot, hnd⟩, haf⟩ := hok
      cases hr : o.rootFieldName? with
      | none => simp [hr] at hroot
      | some f =>
        have htail := refineWild P tl ve env x htl hx
        simp only [expandWildFields, hr, execs, frontierFields, htail]
        congr 1
        have hev := evalV_wildField P env ve o.rootFieldSp f o hr hnd
        rw [hx] at hev
        simp only [Option.bind_some] at hev
        have key_ : ∀ (vexp : VExpr), (evalV P env vexp).map (·.v) = fieldSub P x.v o →
            exec P (expandPat vexp p) env =
              (match fieldSub P x.v o with | some sub => frontier P p sub | none => none) := by
          intro vexp hv
          cases hsub : fieldSub P x.v o with
          | none =>
            rw [hsub] at hv
            exact refineNone P p _ env hps haf (evalV_none_of_map_none P env _ hv)
          | some sub =>
            rw [hsub] at hv
            obtain ⟨y, hy, hyv⟩ := evalV_some_of_map_some P env _ sub hv
            simp only
            rw [← hyv]
            exact refine P p _ env y hps hy
        cases ht : o.tailOps? with
        | none => simp only [ht] at hev ⊢; exact key_ _ hev
        | some t => cases t with
          | none => simp only [ht] at hev ⊢; exact key_ _ hev
          | some tl' => simp only [ht] at hev ⊢; exact key_ _ hev

theorem refineElems (P : Prims) : ∀ (elems : Items) (i : Nat) (mk : Nat → Name) (env : Env)
    (vals : List Val), elems.safe .elem = true → ElemsBound env mk elems i vals →
    vals.length = elems.length →
    execs P (expandElems elems i mk) env = frontierElems P elems vals
  | .nil, _, _, _, _, _, _, _ => by simp [expandElems, execs, frontierElems]
  | .cons ops key p tl, i, mk, env, vals, hs, hb, hl => by
    simp only [Items.safe, Bool.and_eq_true] at hs
    obtain ⟨⟨hok, hps⟩, htl⟩ := hs
    cases vals with
    | nil => simp [Items.length] at hl
    | cons vi vs =>
      obtain ⟨hbi, hbt⟩ := hb
      have hl' : vs.length = tl.length := by simpa [Items.length] using hl
      have htail := refineElems P tl (i + 1) mk env vs htl hbt hl'
      unfold expandElems
      simp only [frontierElems]
      by_cases hw : p.isWild = true
      · simp only [hw, if_true, htail]
        have hpw : ∃ id, p = .wild id := by cases p <;> simp_all [Pat.isWild]
        obtain ⟨id, rfl⟩ := hpw
        cases ops with
        | none => simp only [frontier]; cases frontierElems P tl vs <;> rfl
        | some o =>
          simp only [itemOk, Bool.and_eq_true, Pat.assertionFree, Bool.not_true, Bool.or_false,
            Bool.not_eq_eq_eq_not] at hok
          simp only [elemSub_some_of_noTail P vi o hok.1 hok.2, frontier]
          cases frontierElems P tl vs <;> rfl
      · have hw' : p.isWild = false := by simpa using hw
        have henv := hbi hw'
        simp only [hw', Bool.false_eq_true, if_false, execs, htail]
        congr 1
        cases ops with
        | none =>
          exact refine P p _ env ⟨vi, 1⟩ hps (by simp [evalV_ofCore, evalCore, henv])
        | some o =>
          simp only [itemOk, Bool.and_eq_true] at hok
          obtain ⟨hss, haf⟩ := hok
          have hev := evalV_fieldValue P env (mk i) vi o henv hss
          simp only
          cases hsub : elemSub P vi o with
          | none =>
            rw [hsub] at hev
            have hnone := evalV_none_of_map_none P env _ hev
            have hnt : o.hasTail = true := by
              cases hh : o.hasTail with
              | true => rfl
              | false => rw [elemSub_some_of_noTail P vi o hss hh] at hsub; simp at hsub
            have haf' : p.assertionFree = false := by simpa [hnt] using haf
            exact refineNone P p _ env hps haf' hnone
          | some sub =>
            rw [hsub] at hev
            obtain ⟨x, hx, hxv⟩ := evalV_some_of_map_some P env _ sub hev
            simp only
            rw [← hxv]
            exact refine P p _ env x hps hx

theorem refineSlice (P : Prims) : ∀ (elems : Items) (i : Nat) (env : Env) (vs : List Val),
    elems.safe .plain = true → SliceBound env elems i vs → elems.nonRest ≤ vs.length →
    execs P (expandSliceElems elems i) env = frontierSlice P elems vs
  | .nil, _, _, _, _, _, _ => by simp [expandSliceElems, execs, frontierSlice]
  | .cons ops key p tl, i, env, vs, hs, hb, hl => by
    simp only [Items.safe, Bool.and_eq_true] at hs
    obtain ⟨⟨_, hps⟩, htl⟩ := hs
    have hcl := Items.countRest_le_length tl
    unfold SliceBound at hb
    unfold expandSliceElems frontierSlice
    by_cases hr : p.isSliceRest = true
    · simp only [hr, if_true, Bool.true_or] at hb ⊢
      refine refineSlice P tl (i + 1) env _ htl hb ?_
      simp only [Items.nonRest, Items.length, Items.countRest, hr, if_true] at hl
      simp only [Items.nonRest, List.length_drop]
      omega
    · have hr' : p.isSliceRest = false := by simpa using hr
      simp only [hr', Bool.false_eq_true, if_false, Bool.false_or] at hb ⊢
      simp only [Items.nonRest, Items.length, Items.countRest, hr', Bool.false_eq_true, if_false] at hl
      cases vs with
      | nil => simp at hl; omega
      | cons vi vs' =>
        obtain ⟨hbi, hbt⟩ := hb
        have htail := refineSlice P tl (i + 1) env vs' htl hbt (by
          simp only [Items.nonRest]; simp at hl; omega)
        by_cases hw : p.isWild = true
        · have hpw : ∃ id, p = .wild id := by cases p <;> simp_all [Pat.isWild]
          obtain ⟨id, rfl⟩ := hpw
          simp only [Pat.isWild, if_true, htail, frontier]
          cases frontierSlice P tl vs' <;> rfl
        · have hw' : p.isWild = false := by simpa using hw
          simp only [hw', Bool.false_eq_true, if_false, execs, htail]
          congr 1
          exact refine P p _ env ⟨vi, 1⟩ hps (by simp [evalV_ofCore, evalCore, Name.key, hbi hw'])

theorem refineRows (P : Prims) : ∀ (elems : Items) (vs : List Val) (env : Env),
    elems.safe .plain = true →
    probeRows P (expandSetElems elems) vs env = matchRows P elems vs
  | .nil, _, _, _ => by simp [expandSetElems, probeRows, matchRows]
  | .cons ops key p tl, vs, env, hs => by
    simp only [Items.safe, Bool.and_eq_true] at hs
    obtain ⟨⟨_, hps⟩, htl⟩ := hs
    simp only [expandSetElems, probeRows, matchRows, refineRows P tl vs env htl]
    congr 1
    apply List.map_congr_left
    intro el _
    show (match exec P (expandPat (VExpr.ofCore (.var .setElem)) p) (env.set Key.setElem ⟨el, 1⟩) with
      | some [] => true | _ => false) = _
    rw [refine P p _ (env.set Key.setElem ⟨el, 1⟩) ⟨el, 1⟩ hps
      (by simp [evalV_ofCore, evalCore, Name.key])]
    rfl

theorem refineEntries (P : Prims) : ∀ (entries : Items) (ve : VExpr) (env : Env) (x : RV) (id : Nat)
    (ks vs : List Val), entries.safe .entry = true → evalV P env ve = some x →
    x.v.autoDeref = .map ks vs →
    execs P (expandEntries ve id entries) env = frontierEntries P id entries ks vs
  | .nil, _, _, _, _, _, _, _, _, _ => by simp [expandEntries, execs, frontierEntries]
  | .cons ops key p tl, ve, env, x, id, ks, vs, hs, hx, hv => by
    simp only [Items.safe, Bool.and_eq_true] at hs
    obtain ⟨⟨hok, hps⟩, htl⟩ := hs
    have htail := refineEntries P tl ve env x id ks vs htl hx hv
    cases key with
    | none => simp [itemOk] at hok
    | some k =>
      simp only [expandEntries, execs, exec, hx, Option.bind_some, hv, frontierEntries, htail]
      congr 1
      cases hlk : mapLookup P.valEq (P.key k) ks vs with
      | none => simp [guardPush, Push.eval, Expected.text?]
      | some val =>
        simp only
        exact refine P p _ (env.set Key.mapValue ⟨val, 1⟩) ⟨val, 1⟩ hps
          (by simp [evalV_ofCore, evalCore, Name.key])

end

end AsModel
