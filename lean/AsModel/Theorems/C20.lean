import AsModel.Expand
/-!
# C20 — type errors point into the pattern

rustc reports a type error at the span of the offending tokens.  What the crate controls
is the span each template token is stamped with (`quote_spanned!`): the theorems say it is
the pattern's own span, whatever value expression the template is handed (so at any depth
and in any position), and that interpolated user tokens keep their own spans (T2).
-/
namespace AsModel

/-- The span a pattern's own template is stamped with (`none`: call site). -/
def Pat.stampSpan : Pat → Option Sp
  | .simple _ e | .cmp _ _ _ e | .range _ e | .like _ e | .closure _ e => some e.sp
  | .string _ _ sp _ | .regex _ _ sp => some sp
  | .enum _ path _ | .struct _ (some path) _ _ => some path.sp
  | .map _ _ (.cons _ (some k) _ _) _ => some k.sp
  | _ => none                         -- tuple, slice, set, wildcard struct, `_`, empty map: call site

/-- The span of the outermost template of a piece of assertion code. -/
def Code.topSpan : Code → Option Sp
  | .simple sp .. | .string sp .. | .cmp sp .. | .unitVariant sp .. | .enumTuple sp .. | .structNamed sp ..
  | .range sp .. | .regex sp .. | .like sp .. | .closure sp .. | .mapLen sp .. | .mapGet sp .. => some sp
  | _ => none

/-- **Span stamps are context-free**: the template generated for a leaf, enum or named-struct
pattern is stamped with that pattern's own span, whatever value expression (position, depth)
it is expanded on. -/
theorem C20_stamp_is_own_span (v : VExpr) (p : Pat)
    (h : match p with
      | .simple .. | .cmp .. | .range .. | .like .. | .closure .. | .string .. | .regex ..
      | .enum .. | .struct _ (some _) _ _ => True
      | _ => False) :
    (expandPat v p).topSpan = p.stampSpan := by
  cases p with
  | enum id path elems => unfold expandPat; split <;> rfl
  | struct id path fields rest => cases path <;> simp_all [expandPat, Code.topSpan, Pat.stampSpan]
  | _ => first | rfl | simp at h

/-- The push of a leaf template carries the same span (the error-text argument is inside it). -/
theorem C20_push_span (v : VExpr) (id : Nat) (op : Runtime.CmpOp) (osp : Sp) (e : UExpr) :
    ∃ push, expandPat v (.cmp id op osp e) = .cmp e.sp v op e push ∧ push.sp = e.sp := ⟨_, rfl, rfl⟩

/-- Field operations carry the span of their own token. -/
theorem C20_field_op_span (v : VExpr) (name : IdentTok) (sp : Sp) (args : List UExpr) :
    (applyOp v (.method name sp args)).core = .method v.core sp name args := rfl

end AsModel
