import AsModel.Nodes
import AsModel.Spec
/-!
# C19 — what a report says about the pattern is true
-/
namespace AsModel
open Runtime (errorLabel NodeKind)

/-- The `==` label shows the operand's own text. -/
theorem C19_eq_expected_text (id : Nat) (sp : Sp) (e : UExpr) (actual : String) :
    errorLabel (Pat.cmp id .eq sp e).nodeKind actual (some e.text) =
      "expected " ++ e.text ++ ", got " ++ actual := rfl

/-- The variant label shows the path as written. -/
theorem C19_variant_text (id : Nat) (path : UPath) (elems : Items) (actual : String)
    (h : elems.length ≠ 0) :
    errorLabel (Pat.enum id path elems).nodeKind actual none =
      "expected variant " ++ (pathStr path.text ++ "(...)") ++ ", got " ++ actual := by
  simp only [Pat.nodeKind, h, if_false]
  rfl

/-- `..` is never counted as an element: the slice node's items are the elements other
than a bare `..`, and its rest flag says whether one was written. -/
theorem C19_slice_node (id : Nat) (sp : Sp) (elems : Items) :
    (Pat.slice id sp elems).nodeKind = .slice elems.sliceChildIds elems.hasSliceRest := rfl

theorem sliceChildIds_length : ∀ items : Items,
    items.sliceChildIds.length + items.countRest = items.length
  | .nil => rfl
  | .cons _ _ p tl => by
    have := sliceChildIds_length tl
    unfold Items.sliceChildIds Items.countRest Items.length
    by_cases h : p.isSliceRest = true
    · rw [if_pos h, if_pos h]; omega
    · rw [if_neg h, if_neg h, List.length_cons]; omega

theorem hasSliceRest_iff : ∀ items : Items, items.hasSliceRest = true ↔ 0 < items.countRest
  | .nil => by simp [Items.hasSliceRest, Items.countRest]
  | .cons _ _ p tl => by
    have := hasSliceRest_iff tl
    unfold Items.hasSliceRest Items.countRest
    by_cases hr : p.isSliceRest = true
    · simp only [hr, Bool.true_or, if_true, true_iff]; omega
    · have hr' : p.isSliceRest = false := by simpa using hr
      simp only [hr', Bool.false_or, Bool.false_eq_true, if_false, Nat.zero_add]; exact this

/-- **Slice wording.**  A slice pattern with `..` is never described as exact; one without
is described as exact with the number of elements written. -/
theorem C19_slice_wording (id : Nat) (sp : Sp) (elems : Items) (actual : String) :
    errorLabel (Pat.slice id sp elems).nodeKind actual none =
      (if 0 < elems.countRest then "slice pattern mismatch, got " ++ actual
       else errorLabel (.slice (List.replicate elems.length 0) false) actual none) := by
  have hlen := sliceChildIds_length elems
  have hiff := hasSliceRest_iff elems
  rw [C19_slice_node]
  by_cases hr : elems.hasSliceRest = true
  · rw [if_pos (hiff.1 hr), hr]; rfl
  · have hn : ¬ 0 < elems.countRest := fun h => hr (hiff.2 h)
    have hl : elems.sliceChildIds.length = elems.length := by omega
    have hr' : elems.hasSliceRest = false := by simpa using hr
    rw [if_neg hn, hr']
    show errorLabel (.slice elems.sliceChildIds false) actual none = _
    unfold errorLabel
    simp only [Bool.false_eq_true, if_false, hl, List.length_replicate]

/-- The exact wording, spelled out: "expected slice with n element(s)". -/
theorem C19_exact_slice_label (n : Nat) (actual : String) :
    errorLabel (.slice (List.replicate n 0) false) actual none =
      "expected slice with " ++ toString n ++ " " ++ (if n = 1 then "element" else "elements") ++
        ", got " ++ actual := by
  unfold errorLabel
  simp only [Bool.false_eq_true, if_false, List.length_replicate]

/-- The pinned tree never set the rest flag (`[.., 5]` was "a slice with 2 elements"); see the
fixed entry in known_findings.json. -/
theorem C19_rest_not_counted (id rid : Nat) (sp : Sp) (e : UExpr) (p : Pat)
    (hrest : (Pat.range rid e).isSliceRest = true) (hp : p.isSliceRest = false) :
    (Pat.slice id sp (.cons none none (.range rid e) (.cons none none p .nil))).nodeKind =
      .slice [p.id] true := by
  simp [Pat.nodeKind, Items.sliceChildIds, Items.hasSliceRest, hrest, hp]

/-- A set pattern is described as exact iff it has no `..`. -/
theorem C19_set_exactness (id : Nat) (sp : Sp) (elems : Items) (rest : Bool) (actual : String) :
    errorLabel (Pat.set id sp elems rest).nodeKind actual none =
      (if rest then "set pattern mismatch, got " ++ actual
       else "set pattern mismatch (exact), got " ++ actual) := rfl

/-- The node of a map pattern lists exactly the written keys. -/
theorem C19_map_entries (id : Nat) (sp : Sp) (entries : Items) (rest : Bool) :
    (Pat.map id sp entries rest).nodeKind = .map entries.mapEntries rest := rfl

end AsModel
