import AsModel.Expand
/-!
# C07 — user expressions keep their call-site meaning

Every identifier the expansion creates has call-site hygiene, so a binder captures a
caller variable of the same name whenever a user expression is in its scope.  What can
be proved is therefore *which names* are ever bound around user expressions.
-/
namespace AsModel

def Binder.names : Binder → List Name
  | .bind n => [n]
  | _ => []

mutual
/-- All binders a pattern's expansion introduces around user expressions. -/
def Code.binders : Code → List Name
  | .seq cs => cs.binders
  | .enumTuple _ _ _ bs body _ => bs.flatMap Binder.names ++ body.binders
  | .structNamed _ _ _ fields _ _ body _ => fields.map Name.field ++ body.binders
  | .tuple _ bs body => bs.flatMap Binder.names ++ body.binders
  | .slice _ bs body _ => bs.flatMap Binder.names ++ body.binders
  | .mapGet _ _ _ body _ => Name.mapValue :: body.binders
  | .set _ preds _ _ => Name.setSrc :: Name.setElem :: preds.binders
  | _ => []
def Codes.binders : Codes → List Name
  | .nil => []
  | .cons c tl => c.binders ++ tl.binders
end

/-- A reserved name: starts with two underscores. -/
def Name.reserved (n : Name) : Bool := ("__".toList).isPrefixOf n.render.toList

/-- **Every name the expansion binds around user expressions is reserved**: positional
binders, map / set binders, the root binding and — since the `fix:` commit — the bindings
of destructured struct fields (`__assert_struct_field_<field>`).  No caller variable with
an ordinary name, in particular none named like a field of the matched struct or like a
sibling field, can be captured. -/
theorem C07_every_binder_reserved (n : Name) : n.reserved = true := by
  cases n with
  | elem i =>
    show ("__".toList).isPrefixOf ("__elem_" ++ toString i).toList = true
    generalize toString i = s; simp [String.toList_append]
  | tupleElem i =>
    show ("__".toList).isPrefixOf ("__tuple_elem_" ++ toString i).toList = true
    generalize toString i = s; simp [String.toList_append]
  | mapValue =>
    show ("__".toList).isPrefixOf ("__map_value" ++ "").toList = true
    simp [String.toList_append]
  | setElem =>
    show ("__".toList).isPrefixOf ("__set_elem" ++ "").toList = true
    simp [String.toList_append]
  | setSrc =>
    show ("__".toList).isPrefixOf ("__set_src" ++ "").toList = true
    simp [String.toList_append]
  | field f =>
    cases f with
    | ident i =>
      show ("__".toList).isPrefixOf ("__assert_struct_field_" ++ i.unraw).toList = true
      generalize i.unraw = s; simp [String.toList_append]
    | index n =>
      show ("__".toList).isPrefixOf ("__assert_struct_field_" ++ toString n).toList = true
      generalize toString n = s; simp [String.toList_append]
  | rootValue =>
    show ("__".toList).isPrefixOf ("__assert_struct_value" ++ "").toList = true
    simp [String.toList_append]

theorem C07_binders_reserved (p : Pat) (n : Name) (_ : n ∈ (expand p).body.binders) :
    n.reserved = true := C07_every_binder_reserved n

/-- On the pinned tree a named struct pattern bound its fields under their own names
(`User { name: == name, .. }` compared the field with itself).  The binder is still there,
under a reserved name. -/
theorem C07_field_binder_present (id : Nat) (path : UPath) (f : IdentTok) (p : Pat) :
    Name.field (.ident f) ∈
      (expandPat rootVExpr (.struct id (some path) (.cons (some ⟨[.named f default], default⟩) none p .nil) true)).binders := by
  simp [expandPat, Code.binders, Items.rootNames, FieldOps.rootFieldName?, FieldOp.fieldName?, dedupNames]

end AsModel
