import AsModel.Syntax
/-
The decidable guard under which the expansion is proved to compute the
specification (`Theorems/Refine.lean`).  It excludes exactly the shapes for which
it does not (known findings, DESIGN.md section 9):

* a dereference followed by further field operations (`*b.len(): 3`): the tokens are
  spliced as `**b.len()`, which Rust reads as `**(b.len())`, not `(**b).len()`;
* a dereference on a field of a wildcard struct (`_ { *n: > 3, .. }`): the field is
  reached by field access, not through a reference binding, and still gets `count + 1` stars;
* shapes the parser never produces (a field assertion whose operations do not start
  with a field, a map entry without a key, an indexed element in a one-element tuple).
-/
namespace AsModel

/-- The operations after the root field are either a lone dereference or contain none. -/
def tailSpliceSafe (tl : List FieldOp) : Bool :=
  (tl.all fun o => !o.isDeref) || (match tl with | [.deref _ _] => true | _ => false)

def FieldOps.spliceSafe (o : FieldOps) : Bool :=
  match o.tailOps? with
  | some (some tl) => tailSpliceSafe tl.ops
  | some none => true
  | none => false

def FieldOps.noDeref (o : FieldOps) : Bool :=
  match o.tailOps? with
  | some (some tl) => tl.ops.all fun op => !op.isDeref
  | some none => true
  | none => false

def FieldOps.hasTail (o : FieldOps) : Bool :=
  match o.tailOps? with
  | some (some _) => true
  | _ => false

/-- What the parent attaches to an item must be what that kind of parent has. -/
inductive ItemKind
  | field        -- named-struct field: operations with a root field, splice-safe
  | wildField    -- wildcard-struct field: additionally no dereference
  | elem         -- tuple / variant element: positional, or indexed and splice-safe
  | plain        -- slice / set element
  | entry        -- map entry: a key
  deriving DecidableEq

/-- `af` = the item's pattern is assertion-free.  Where the sub-value is reached by
operations that can fail to type-check, an assertion-free pattern would hide that. -/
def itemOk (k : ItemKind) (ops : Option FieldOps) (key : Option UExpr) (af : Bool) : Bool :=
  match k with
  | .field => (match ops with
    | some o => o.rootFieldName?.isSome && o.spliceSafe && (!o.hasTail || !af)
    | none => false)
  | .wildField => (match ops with
    | some o => o.rootFieldName?.isSome && o.noDeref && !af
    | none => false)
  | .elem => (match ops with
    | some o => o.spliceSafe && (!o.hasTail || !af)
    | none => true)
  | .plain => true
  | .entry => key.isSome

mutual
/-- Patterns for which the expansion generates no code at all (`_`, `#{..}`, and wildcard
structs made of such fields).  The value expression handed to them is never even
type-checked (DESIGN.md section 9, #13). -/
def Pat.assertionFree : Pat → Bool
  | .wild _ => true
  | .struct _ none fields _ => fields.allAssertionFree
  | .map _ _ .nil true => true
  | _ => false
def Items.allAssertionFree : Items → Bool
  | .nil => true
  | .cons _ _ p tl => p.assertionFree && tl.allAssertionFree
end

mutual
def Pat.safe : Pat → Bool
  | .struct _ (some _) fields _ => fields.safe .field
  | .struct _ none fields _ => fields.safe .wildField
  | .enum _ _ elems => elems.safe .elem
  | .tuple _ _ elems =>
    elems.safe .elem && (match elems with | .cons (some _) _ _ .nil => false | _ => true)
  | .slice _ _ elems => elems.safe .plain
  | .set _ _ elems _ => elems.safe .plain
  | .map _ _ entries _ => entries.safe .entry
  | _ => true
def Items.safe : Items → ItemKind → Bool
  | .nil, _ => true
  | .cons ops key p tl, k => itemOk k ops key p.assertionFree && p.safe && tl.safe k
end

end AsModel
