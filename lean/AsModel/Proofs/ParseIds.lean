import AsModel.Proofs.ParseRun
import AsModel.Theorems.C14
/-
The node counter through the parser: every parser only moves the counter forward, also when it
fails and also inside speculative forks, and the ids stored in an accepted pattern are distinct
and lie between the counter's value before and after.
-/
namespace AsModel

variable {α β : Type}

/-- Counter view of a parser started with counter `n`: on success the counter has not moved
back and `Q result counter` holds; on failure the counter has not moved back. -/
structure P.cnt (p : P α) (n : Nat) (Q : α → Nat → Prop) : Prop where
  ok : ∀ c s a c' s', s.ctr = n → p c s = .ok a c' s' → n ≤ s'.ctr ∧ Q a s'.ctr
  err : ∀ c s m, s.ctr = n → p c s = .err m → n ≤ m

theorem cnt_pure (a : α) (n : Nat) (Q : α → Nat → Prop) (h : Q a n) : (pure a : P α).cnt n Q :=
  ⟨(by intro c s a' c' s' hs he; simp only [pure, P.pure] at he; cases he; exact ⟨by omega, hs ▸ h⟩),
   (by intro c s m hs he; simp only [pure, P.pure] at he; cases he)⟩

theorem cnt_bind (p : P α) (f : α → P β) (n : Nat) (Q1 : α → Nat → Prop) (Q2 : β → Nat → Prop)
    (hp : p.cnt n Q1) (hf : ∀ a k, n ≤ k → Q1 a k → (f a).cnt k Q2) : (p >>= f).cnt n Q2 := by
  refine ⟨?_, ?_⟩
  · intro c s b c'' s'' hs he
    simp only [bind, P.bind] at he
    cases hpc : p c s with
    | ok a c1 s1 =>
      rw [hpc] at he
      obtain ⟨h1, h2⟩ := hp.ok c s a c1 s1 hs hpc
      obtain ⟨h3, h4⟩ := (hf a s1.ctr h1 h2).ok c1 s1 b c'' s'' rfl he
      exact ⟨by omega, h4⟩
    | err m => rw [hpc] at he; cases he
    | fuel => rw [hpc] at he; cases he
  · intro c s m hs he
    simp only [bind, P.bind] at he
    cases hpc : p c s with
    | ok a c1 s1 =>
      rw [hpc] at he
      obtain ⟨h1, h2⟩ := hp.ok c s a c1 s1 hs hpc
      have := (hf a s1.ctr h1 h2).err c1 s1 m rfl he
      omega
    | err m' => rw [hpc] at he; cases he; exact hp.err c s _ hs hpc
    | fuel => rw [hpc] at he; cases he

theorem cnt_fail (n : Nat) (Q : α → Nat → Prop) : (fail : P α).cnt n Q :=
  ⟨(by intro c s a c' s' _ he; cases he), (by intro c s m hs he; simp only [fail] at he; cases he; omega)⟩

theorem cnt_outOfFuel (n : Nat) (Q : α → Nat → Prop) : (outOfFuel : P α).cnt n Q :=
  ⟨(by intro c s a c' s' _ he; cases he), (by intro c s m _ he; cases he)⟩

theorem cnt_ite (b : Prop) [Decidable b] (p q : P α) (n : Nat) (Q : α → Nat → Prop)
    (hp : p.cnt n Q) (hq : q.cnt n Q) : (if b then p else q).cnt n Q := by
  split <;> assumption

theorem cnt_weaken (p : P α) (n : Nat) (Q1 Q2 : α → Nat → Prop) (h : p.cnt n Q1)
    (hq : ∀ a k, n ≤ k → Q1 a k → Q2 a k) : p.cnt n Q2 :=
  ⟨fun c s a c' s' hs he => let ⟨h1, h2⟩ := h.ok c s a c' s' hs he; ⟨h1, hq _ _ h1 h2⟩, h.err⟩

/-- The counter is left where it was. -/
def same (n : Nat) : α → Nat → Prop := fun _ k => k = n

theorem cnt_ctrOnly {p : P α} (h : p.ctrOnly) (n : Nat) : p.cnt n (same n) :=
  ⟨(by intro c s a c' s' hs he; have := h.ok c s a c' s' he; exact ⟨by omega, by unfold same; omega⟩),
   (by intro c s m hs he; have := h.err c s m he; omega)⟩

theorem ctrOnly_getCur : getCur.ctrOnly :=
  ⟨(by intro c s a c' s' he; simp only [getCur] at he; cases he; rfl), (by intro c s m he; cases he)⟩

theorem ctrOnly_advance (k : Nat) : (advance k).ctrOnly :=
  ⟨(by intro c s a c' s' he; simp only [advance] at he; cases he; rfl), (by intro c s m he; cases he)⟩

theorem cnt_nextId (n : Nat) : nextId.cnt n (fun a k => a = n ∧ k = n + 1) :=
  ⟨(by intro c s a c' s' hs he; simp only [nextId] at he; cases he; exact ⟨by simp only; omega, by simp [hs]⟩),
   (by intro c s m _ he; cases he)⟩

theorem cnt_withGroup (d : Delim) (inner : Sp → Sp → P α) (n : Nat) (Q : α → Nat → Prop)
    (h : ∀ a b, (inner a b).cnt n Q) : (withGroup d inner).cnt n Q := by
  refine ⟨?_, ?_⟩
  · intro c s a c' s' hs he
    unfold withGroup at he
    split at he
    · split at he
      · (try simp only at he)
        split at he
        · rename_i hin
          cases he
          exact (h _ _).ok _ _ _ _ _ hs hin |>.imp id id
        · cases he
        · cases he
      · cases he
    · cases he
  · intro c s m hs he
    unfold withGroup at he
    split at he
    · split at he
      · (try simp only at he)
        split at he
        · cases he
        · rename_i hin
          cases he
          exact (h _ _).err _ _ _ hs hin
        · cases he
      · cases he; omega
    · cases he; omega

/-- A speculative parse never fails and only moves the counter forward. -/
theorem cnt_fork (p : P α) (n : Nat) (Q : α → Nat → Prop) (h : p.cnt n Q) :
    (fork p).cnt n (fun _ _ => True) := by
  refine ⟨?_, ?_⟩
  · intro c s a c' s' hs he
    unfold fork at he
    split at he
    · rename_i hp
      cases he
      exact ⟨(h.ok _ _ _ _ _ hs hp).1, trivial⟩
    · rename_i hp
      cases he
      exact ⟨h.err _ _ _ hs hp, trivial⟩
    · cases he
  · intro c s m hs he
    unfold fork at he
    split at he <;> cases he

/-- `bind` when the first action leaves the counter alone. -/
theorem cnt_bind_same (p : P α) (f : α → P β) (n : Nat) (Q : β → Nat → Prop)
    (hp : p.ctrOnly) (hf : ∀ a, (f a).cnt n Q) : (p >>= f).cnt n Q :=
  cnt_bind p f n (same n) Q (cnt_ctrOnly hp n) (fun a k _ hk => by unfold same at hk; subst hk; exact hf a)

/-! ### Parsers that never touch the counter -/

theorem ctrOnly_pure (a : α) : (pure a : P α).ctrOnly :=
  ⟨(by intro c s a' c' s' he; simp only [pure, P.pure] at he; cases he; rfl),
   (by intro c s m he; simp only [pure, P.pure] at he; cases he)⟩

theorem ctrOnly_fail : (fail : P α).ctrOnly :=
  ⟨(by intro c s a c' s' he; cases he), (by intro c s m he; simp only [fail] at he; cases he; rfl)⟩

theorem ctrOnly_outOfFuel : (outOfFuel : P α).ctrOnly :=
  ⟨(by intro c s a c' s' he; cases he), (by intro c s m he; cases he)⟩

theorem ctrOnly_bind (p : P α) (f : α → P β) (hp : p.ctrOnly) (hf : ∀ a, (f a).ctrOnly) : (p >>= f).ctrOnly := by
  refine ⟨?_, ?_⟩
  · intro c s b c'' s'' he
    simp only [bind, P.bind] at he
    cases hpc : p c s with
    | ok a c1 s1 => rw [hpc] at he; rw [(hf a).ok c1 s1 b c'' s'' he, hp.ok c s a c1 s1 hpc]
    | err m => rw [hpc] at he; cases he
    | fuel => rw [hpc] at he; cases he
  · intro c s m he
    simp only [bind, P.bind] at he
    cases hpc : p c s with
    | ok a c1 s1 => rw [hpc] at he; rw [(hf a).err c1 s1 m he, hp.ok c s a c1 s1 hpc]
    | err m' => rw [hpc] at he; cases he; exact hp.err c s _ hpc
    | fuel => rw [hpc] at he; cases he

theorem ctrOnly_ite (b : Prop) [Decidable b] (p q : P α) (hp : p.ctrOnly) (hq : q.ctrOnly) :
    (if b then p else q).ctrOnly := by
  split <;> assumption

theorem ctrOnly_withGroup (d : Delim) (inner : Sp → Sp → P α) (h : ∀ a b, (inner a b).ctrOnly) :
    (withGroup d inner).ctrOnly := by
  refine ⟨?_, ?_⟩
  · intro c s a c' s' he
    unfold withGroup at he
    split at he
    · split at he
      · (try simp only at he)
        split at he
        · rename_i hin
          cases he
          have := (h _ _).ok _ _ _ _ _ hin
          exact this
        · cases he
        · cases he
      · cases he
    · cases he
  · intro c s m he
    unfold withGroup at he
    split at he
    · split at he
      · (try simp only at he)
        split at he
        · cases he
        · rename_i hin
          cases he
          exact (h _ _).err _ _ _ hin
        · cases he
      · cases he; rfl
    · cases he; rfl

theorem ctrOnly_parseArgs (o : Oracle) : ∀ (fuel : Nat) (acc : List UExpr), (parseArgs o fuel acc).ctrOnly
  | 0, _ => by unfold parseArgs; exact ctrOnly_outOfFuel
  | fuel + 1, acc => by
    unfold parseArgs
    apply ctrOnly_bind _ _ ctrOnly_getCur; intro c
    apply ctrOnly_ite
    · exact ctrOnly_pure _
    · apply ctrOnly_bind _ _ (ctrOnly_oracleExpr o); intro e
      apply ctrOnly_bind _ _ ctrOnly_getCur; intro c'
      apply ctrOnly_ite
      · apply ctrOnly_bind _ _ (ctrOnly_of_stateless (stateless_punct1 _)); intro _
        exact ctrOnly_parseArgs o fuel _
      · exact ctrOnly_pure _

theorem ctrOnly_parseOneOp (o : Oracle) (fuel : Nat) : (parseOneOp o fuel).ctrOnly := by
  unfold parseOneOp
  apply ctrOnly_bind _ _ ctrOnly_getCur; intro c
  apply ctrOnly_ite
  · apply ctrOnly_bind _ _ (ctrOnly_of_stateless (stateless_punct1 _)); intro dotSp
    apply ctrOnly_bind _ _ ctrOnly_getCur; intro c1
    split
    · apply ctrOnly_bind _ _ (ctrOnly_advance _); intro _
      exact ctrOnly_pure _
    · split
      · apply ctrOnly_bind _ _ (ctrOnly_advance _); intro _
        exact ctrOnly_pure _
      · exact ctrOnly_fail
    · split
      · split
        · apply ctrOnly_ite
          · apply ctrOnly_bind _ _ (ctrOnly_advance _); intro _
            exact ctrOnly_pure _
          · exact ctrOnly_fail
        · exact ctrOnly_fail
      · exact ctrOnly_fail
    · apply ctrOnly_bind _ _ (ctrOnly_of_stateless stateless_anyIdent); intro name
      apply ctrOnly_bind _ _ ctrOnly_getCur; intro c2
      apply ctrOnly_ite
      · apply ctrOnly_bind; · apply ctrOnly_withGroup; intro _ _; exact ctrOnly_parseArgs o fuel []
        intro args; exact ctrOnly_pure _
      · exact ctrOnly_pure _
  · apply ctrOnly_ite
    · apply ctrOnly_withGroup; intro so sc
      apply ctrOnly_bind _ _ (ctrOnly_oracleExpr o); intro e
      exact ctrOnly_pure _
    · exact ctrOnly_fail

theorem ctrOnly_parseOpsLoop (o : Oracle) : ∀ (fuel : Nat) (acc : List FieldOp), (parseOpsLoop o fuel acc).ctrOnly
  | 0, _ => by unfold parseOpsLoop; exact ctrOnly_outOfFuel
  | fuel + 1, acc => by
    unfold parseOpsLoop
    apply ctrOnly_bind _ _ ctrOnly_getCur; intro c
    apply ctrOnly_ite
    · apply ctrOnly_bind _ _ (ctrOnly_parseOneOp o fuel); intro ops
      exact ctrOnly_parseOpsLoop o fuel _
    · exact ctrOnly_pure _

theorem ctrOnly_parseFieldOps (o : Oracle) (fuel : Nat) : (parseFieldOps o fuel).ctrOnly := by
  unfold parseFieldOps
  apply ctrOnly_bind _ _ ctrOnly_getCur; intro c
  apply ctrOnly_bind _ _ (ctrOnly_advance _); intro _
  apply ctrOnly_bind _ _ (ctrOnly_of_stateless stateless_parseFieldName); intro name
  apply ctrOnly_bind _ _ (ctrOnly_parseOpsLoop o fuel _); intro ops
  exact ctrOnly_pure _

theorem ctrOnly_parseCmpOp : parseCmpOp.ctrOnly := by
  unfold parseCmpOp
  apply ctrOnly_bind _ _ ctrOnly_getCur; intro c
  repeat' (first
    | apply ctrOnly_ite
    | exact ctrOnly_fail
    | (apply ctrOnly_bind _ _ (ctrOnly_of_stateless (stateless_punct2 _ _)); intro sp; exact ctrOnly_pure _)
    | (apply ctrOnly_bind _ _ (ctrOnly_of_stateless (stateless_punct1 _)); intro sp; exact ctrOnly_pure _))

theorem ctrOnly_structPath (o : Oracle) : (structPath o).ctrOnly := by
  unfold structPath
  apply ctrOnly_bind _ _ ctrOnly_getCur; intro c
  apply ctrOnly_ite
  · apply ctrOnly_bind _ _ (ctrOnly_advance _); intro _
    exact ctrOnly_pure _
  · apply ctrOnly_bind _ _ (ctrOnly_oraclePath o); intro p
    exact ctrOnly_pure _

end AsModel
