import AsModel.Exec
import AsModel.Safe
/-!
Helper lemmas for the refinement theorem (`Theorems/Refine.lean`): evaluation of
spliced value expressions, and what the binders of each template are bound to.
-/
namespace AsModel

/-! ### Environments -/

@[simp] theorem Env.set_same (env : Env) (k : Key) (x : RV) : (env.set k x) k = some x := by
  simp [Env.set]

theorem Env.set_other (env : Env) {k j : Key} (x : RV) (h : j ≠ k) : (env.set k x) j = env j := by
  simp [Env.set, h]

/-! ### Prefix operators -/

/-- `n` stars. -/
def starN : Nat → RV → Option RV
  | 0, x => some x
  | n + 1, x => (starN n x).bind RV.star

theorem applyPres_replicate_star (sp : Sp) (n : Nat) (x : RV) :
    applyPres (List.replicate n (Pre.star sp)) x = starN n x := by
  induction n with
  | zero => rfl
  | succ n ih =>
    simp only [List.replicate_succ, applyPres, ih, starN]
    congr 1

theorem applyPres_append (a b : List Pre) (x : RV) :
    applyPres (a ++ b) x = (applyPres b x).bind (applyPres a) := by
  induction a with
  | nil => simp [applyPres]
  | cons p ps ih =>
    simp only [List.cons_append, applyPres, ih]
    cases applyPres b x <;> simp

/-- Stars applied innermost-first: the first removes the reference, the rest unwrap
smart pointers. -/
theorem starN_succ' (n : Nat) (x : RV) : starN (n + 1) x = x.star.bind (starN n) := by
  induction n generalizing x with
  | zero => simp [starN]
  | succ n ih =>
    rw [starN, ih]
    cases x.star <;> simp [starN]

theorem starN_depth0 (n : Nat) (w : Val) :
    starN n ⟨w, 0⟩ = (derefN n w).map fun u => ⟨u, 0⟩ := by
  induction n generalizing w with
  | zero => simp [starN, derefN]
  | succ n ih =>
    rw [starN_succ']
    simp only [RV.star, derefN]
    cases w.deref1 with
    | none => simp
    | some u => simp [ih]

/-- `count + 1` stars on a reference binding strip `count` smart-pointer layers of the value. -/
theorem starN_binder (c : Nat) (w : Val) :
    starN (c + 1) ⟨w, 1⟩ = (derefN c w).map fun u => ⟨u, 0⟩ := by
  rw [starN_succ']
  simp [RV.star, starN_depth0]

/-! ### Postfix operations -/

theorem evalV_ofCore (P : Prims) (env : Env) (c : Core) :
    evalV P env (VExpr.ofCore c) = evalCore P env c := by
  simp only [evalV, VExpr.ofCore]
  cases evalCore P env c <;> simp [applyPres]

/-- A postfix operation spliced after an expression without prefix operators means what
the documentation says, applied to the value reached so far. -/
theorem evalCore_applyOp_postfix (P : Prims) (env : Env) (c : Core) (op : FieldOp)
    (hop : op.isDeref = false) :
    evalCore P env (applyOp ⟨[], c⟩ op).core =
      (evalCore P env c).bind fun x => (opSem P x.v op).map fun u => ⟨u, match op with | .await _ => x.d | _ => 0⟩ := by
  cases op with
  | deref c' sp => simp [FieldOp.isDeref] at hop
  | method name sp args => simp [applyOp, evalCore, opSem]
  | await sp =>
    simp only [applyOp, evalCore, opSem]
    cases evalCore P env c <;> simp
  | named n sp => simp [applyOp, evalCore, opSem]
  | unnamed i sp => simp [applyOp, evalCore, opSem]
  | index e sp => simp [applyOp, evalCore, opSem]

theorem applyOp_postfix_pre (c : Core) (op : FieldOp) (hop : op.isDeref = false) :
    (applyOp ⟨[], c⟩ op).pre = [] := by
  cases op <;> simp_all [applyOp, FieldOp.isDeref]

/-- A chain of postfix operations: the value is the documented left-to-right meaning. -/
theorem eval_foldl_postfix (P : Prims) (env : Env) :
    ∀ (ops : List FieldOp) (c : Core), (ops.all fun o => !o.isDeref) = true →
      ∃ c', ops.foldl applyOp ⟨[], c⟩ = ⟨[], c'⟩ ∧
        ∀ x, evalCore P env c = some x →
          (evalCore P env c').map (·.v) = opsSem P ops x.v := by
  intro ops
  induction ops with
  | nil =>
    intro c _
    exact ⟨c, rfl, fun x hx => by simp [hx, opsSem]⟩
  | cons op ops ih =>
    intro c hall
    simp only [List.all_cons, Bool.and_eq_true, Bool.not_eq_eq_eq_not, Bool.not_true] at hall
    obtain ⟨hop, hrest⟩ := hall
    have hpre := applyOp_postfix_pre c op hop
    obtain ⟨c1, hc1⟩ : ∃ c1, applyOp ⟨[], c⟩ op = ⟨[], c1⟩ := by
      refine ⟨(applyOp ⟨[], c⟩ op).core, ?_⟩
      cases h : applyOp ⟨[], c⟩ op with
      | mk pre core => simp [h] at hpre; simp [hpre]
    obtain ⟨c', hfold, hev⟩ := ih c1 (by simpa using hrest)
    refine ⟨c', by simp [List.foldl_cons, hc1, hfold], ?_⟩
    intro x hx
    have h1 := evalCore_applyOp_postfix P env c op hop
    rw [hc1] at h1
    simp only [hx, Option.bind_some] at h1
    simp only [opsSem]
    cases hsem : opSem P x.v op with
    | none =>
      simp only [hsem, Option.map_none, Option.bind_none] at h1 ⊢
      -- the chain is stuck from here on
      have : ∀ (ops : List FieldOp) (c1 : Core), evalCore P env c1 = none →
          (ops.all fun o => !o.isDeref) = true →
          ∀ c', ops.foldl applyOp ⟨[], c1⟩ = ⟨[], c'⟩ → evalCore P env c' = none := by
        intro ops
        induction ops with
        | nil => intro c1 h _ c' hc'; simp at hc'; rw [← hc']; exact h
        | cons o os ih2 =>
          intro c1 h hall' c' hc'
          simp only [List.all_cons, Bool.and_eq_true, Bool.not_eq_eq_eq_not, Bool.not_true] at hall'
          have hp := applyOp_postfix_pre c1 o hall'.1
          obtain ⟨c2, hc2⟩ : ∃ c2, applyOp ⟨[], c1⟩ o = ⟨[], c2⟩ := by
            cases h' : applyOp ⟨[], c1⟩ o with
            | mk pre core => simp [h'] at hp; exact ⟨core, by simp [hp]⟩
          have h2 := evalCore_applyOp_postfix P env c1 o hall'.1
          rw [hc2, h] at h2
          simp only [Option.bind_none] at h2
          exact ih2 c2 h2 (by simpa using hall'.2) c' (by simpa [List.foldl_cons, hc2] using hc')
      rw [this ops c1 h1 (by simpa using hrest) c' hfold]
      rfl
    | some u =>
      simp only [hsem, Option.map_some] at h1
      have := hev _ h1
      simpa using this

/-- Once a postfix chain is stuck it stays stuck. -/
theorem foldl_postfix_none (P : Prims) (env : Env) :
    ∀ (ops : List FieldOp) (c1 : Core), evalCore P env c1 = none →
      (ops.all fun o => !o.isDeref) = true →
      ∀ c', ops.foldl applyOp ⟨[], c1⟩ = ⟨[], c'⟩ → evalCore P env c' = none := by
  intro ops
  induction ops with
  | nil => intro c1 h _ c' hc'; simp at hc'; rw [← hc']; exact h
  | cons o os ih2 =>
    intro c1 h hall' c' hc'
    simp only [List.all_cons, Bool.and_eq_true, Bool.not_eq_eq_eq_not, Bool.not_true] at hall'
    have hp := applyOp_postfix_pre c1 o hall'.1
    obtain ⟨c2, hc2⟩ : ∃ c2, applyOp ⟨[], c1⟩ o = ⟨[], c2⟩ := by
      cases h' : applyOp ⟨[], c1⟩ o with
      | mk pre core => simp [h'] at hp; exact ⟨core, by simp [hp]⟩
    have h2 := evalCore_applyOp_postfix P env c1 o hall'.1
    rw [hc2, h] at h2
    simp only [Option.bind_none] at h2
    exact ih2 c2 h2 (by simpa using hall'.2) c' (by simpa [List.foldl_cons, hc2] using hc')

/-- Value of a postfix chain applied to a prefix-free base, in one statement. -/
theorem evalV_foldl_postfix (P : Prims) (env : Env) (ops : List FieldOp) (c : Core)
    (hall : (ops.all fun o => !o.isDeref) = true) :
    (evalV P env (ops.foldl applyOp ⟨[], c⟩)).map (·.v) =
      (evalCore P env c).bind fun x => opsSem P ops x.v := by
  obtain ⟨c', hfold, hev⟩ := eval_foldl_postfix P env ops c hall
  rw [hfold]
  have : evalV P env ⟨[], c'⟩ = evalCore P env c' := evalV_ofCore P env c'
  rw [this]
  cases hc : evalCore P env c with
  | none =>
    rw [foldl_postfix_none P env ops c hc hall c' hfold]; rfl
  | some x => simpa using hev x hc

theorem opsSem_single_deref (P : Prims) (c : Nat) (sp : Sp) (w : Val) :
    opsSem P [.deref c sp] w = derefN c w := by
  simp only [opsSem, opSem]
  cases derefN c w <;> simp

/-- **Field operations on a reference binding.**  The value of the expression a field
assertion tests is the documented sub-value. -/
theorem evalV_fieldValue (P : Prims) (env : Env) (n : Name) (w : Val) (o : FieldOps)
    (henv : env n.key = some ⟨w, 1⟩) (hs : o.spliceSafe = true) :
    (evalV P env (fieldValue (VExpr.ofCore (.var n)) o)).map (·.v) = elemSub P w o := by
  unfold FieldOps.spliceSafe at hs
  unfold fieldValue elemSub
  cases ht : o.tailOps? with
  | none => simp [ht] at hs
  | some t =>
    cases t with
    | none =>
      simp only [evalV_ofCore, evalCore, henv, Option.map_some]
    | some tl =>
      simp only [ht] at hs
      simp only [applyOps, VExpr.ofCore]
      unfold tailSpliceSafe at hs
      rw [Bool.or_eq_true] at hs
      rcases hs with hpost | hder
      · rw [evalV_foldl_postfix P env tl.ops _ hpost]
        simp [evalCore, henv]
      · -- a lone dereference
        cases hops : tl.ops with
        | nil => simp [hops] at hder
        | cons op rest =>
          cases op with
          | deref c sp =>
            cases rest with
            | nil =>
              simp only [List.foldl_cons, List.foldl_nil, applyOp, evalV, evalCore, henv,
                Option.bind_some, List.append_nil, applyPres_replicate_star, starN_binder,
                opsSem_single_deref]
              cases derefN c w <;> simp
            | cons _ _ => simp [hops] at hder
          | _ => simp [hops] at hder

theorem evalCore_wildBase (P : Prims) (env : Env) (ve : VExpr) (rsp : Sp) (f : FieldName) :
    evalCore P env (wildBase ve rsp f) =
      (evalV P env ve).bind fun x => (x.v.field f).map fun u => ⟨u, 0⟩ := by
  cases f <;> simp [wildBase, evalCore, evalV]

/-- **Fields of a wildcard struct** are reached by field access on the value expression. -/
theorem evalV_wildField (P : Prims) (env : Env) (ve : VExpr) (rsp : Sp) (f : FieldName) (o : FieldOps)
    (hroot : o.rootFieldName? = some f) (hnd : o.noDeref = true) :
    (evalV P env (match o.tailOps? with
        | some (some tl) => applyOps (VExpr.ofCore (wildBase ve rsp f)) tl
        | _ => ⟨[Pre.amp Sp.callSite], wildBase ve rsp f⟩)).map (·.v) =
      (evalV P env ve).bind fun x => fieldSub P x.v o := by
  unfold FieldOps.noDeref at hnd
  unfold fieldSub
  cases ht : o.tailOps? with
  | none => simp [ht] at hnd
  | some t =>
    cases t with
    | none =>
      have h1 : evalV P env ⟨[Pre.amp Sp.callSite], wildBase ve rsp f⟩ =
          (evalCore P env (wildBase ve rsp f)).bind (applyPres [Pre.amp Sp.callSite]) := rfl
      simp only [h1, evalCore_wildBase, hroot]
      cases hv : evalV P env ve with
      | none => simp
      | some x =>
        simp only [Option.bind_some]
        cases hf : x.v.field f <;> simp [applyPres, applyPre, hf]
    | some tl =>
      simp only [ht] at hnd
      simp only [applyOps, VExpr.ofCore, hroot]
      rw [evalV_foldl_postfix P env tl.ops _ hnd, evalCore_wildBase]
      cases hv : evalV P env ve with
      | none => simp
      | some x =>
        simp only [Option.bind_some]
        cases hf : x.v.field f <;> simp [hf]

end AsModel
