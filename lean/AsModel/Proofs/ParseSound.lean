import AsModel.Grammar
/-
Soundness of the parser with respect to the grammar: whatever a parser returns without having
raised the deferred-unexpected flag is derivable in the grammar from exactly the tokens between
the cursor before and the cursor after.
-/
namespace AsModel
open Runtime (CmpOp)

variable {α β : Type}

/-- What holds when `p` succeeds from cursor `c` and state `s`. -/
structure P.okAt (p : P α) (c : Cur) (s : PSt) (Q : α → Cur → PSt → Prop) : Prop where
  h : ∀ a c' s', p c s = .ok a c' s' → Q a c' s'

theorem okAt_pure (a : α) (c : Cur) (s : PSt) (Q : α → Cur → PSt → Prop) (h : Q a c s) : (pure a : P α).okAt c s Q :=
  ⟨by intro a' c' s' he; simp only [pure, P.pure] at he; cases he; exact h⟩

theorem okAt_bind (p : P α) (f : α → P β) (c : Cur) (s : PSt) (Q1 : α → Cur → PSt → Prop) (Q2 : β → Cur → PSt → Prop)
    (hp : p.okAt c s Q1) (hf : ∀ a c' s', Q1 a c' s' → (f a).okAt c' s' Q2) : (p >>= f).okAt c s Q2 := by
  refine ⟨?_⟩
  intro b c'' s'' he
  simp only [bind, P.bind] at he
  cases hpc : p c s with
  | ok a c1 s1 => rw [hpc] at he; exact (hf a c1 s1 (hp.h a c1 s1 hpc)).h b c'' s'' he
  | err n => rw [hpc] at he; cases he
  | fuel => rw [hpc] at he; cases he

theorem okAt_fail (c : Cur) (s : PSt) (Q : α → Cur → PSt → Prop) : (fail : P α).okAt c s Q :=
  ⟨by intro a c' s' he; cases he⟩

theorem okAt_outOfFuel (c : Cur) (s : PSt) (Q : α → Cur → PSt → Prop) : (outOfFuel : P α).okAt c s Q :=
  ⟨by intro a c' s' he; cases he⟩

theorem okAt_ite (b : Prop) [Decidable b] (p q : P α) (c : Cur) (s : PSt) (Q : α → Cur → PSt → Prop)
    (hp : b → p.okAt c s Q) (hq : ¬b → q.okAt c s Q) : (if b then p else q).okAt c s Q := by
  split
  · exact hp ‹_›
  · exact hq ‹_›

theorem okAt_weaken (p : P α) (c : Cur) (s : PSt) (Q1 Q2 : α → Cur → PSt → Prop)
    (h : p.okAt c s Q1) (hq : ∀ a c' s', Q1 a c' s' → Q2 a c' s') : p.okAt c s Q2 :=
  ⟨fun a c' s' h' => hq _ _ _ (h.h a c' s' h')⟩

/-- `getCur` followed by a continuation. -/
theorem okAt_getCur (f : Cur → P β) (c : Cur) (s : PSt) (Q : β → Cur → PSt → Prop) (h : (f c).okAt c s Q) :
    (getCur >>= f).okAt c s Q :=
  okAt_bind _ _ _ _ (fun a c' s' => a = c ∧ c' = c ∧ s' = s) _
    ⟨by intro a c' s' he; simp only [getCur] at he; cases he; exact ⟨rfl, rfl, rfl⟩⟩
    (by intro a c' s' ⟨h1, h2, h3⟩; subst h1 h2 h3; exact h)

theorem okAt_advance (n : Nat) (f : Unit → P β) (c : Cur) (s : PSt) (Q : β → Cur → PSt → Prop)
    (h : (f ()).okAt (c.advance n) s Q) : (advance n >>= f).okAt c s Q :=
  okAt_bind _ _ _ _ (fun _ c' s' => c' = c.advance n ∧ s' = s) _
    ⟨by intro a c' s' he; simp only [advance] at he; cases he; exact ⟨rfl, rfl⟩⟩
    (by intro a c' s' ⟨h2, h3⟩; subst h2 h3; exact h)

theorem okAt_nextId (f : Nat → P β) (c : Cur) (s : PSt) (Q : β → Cur → PSt → Prop)
    (h : (f s.ctr).okAt c { s with ctr := s.ctr + 1 } Q) : (nextId >>= f).okAt c s Q :=
  okAt_bind _ _ _ _ (fun a c' s' => a = s.ctr ∧ c' = c ∧ s' = { s with ctr := s.ctr + 1 }) _
    ⟨by intro a c' s' he; simp only [nextId] at he; cases he; exact ⟨rfl, rfl, rfl⟩⟩
    (by intro a c' s' ⟨h1, h2, h3⟩; subst h1 h2 h3; exact h)

theorem okAt_punct1 (ch : Char) (c : Cur) (s : PSt) :
    (punct1 ch).okAt c s (fun sp c' s' => s' = s ∧ PunctAt ch c sp c') := by
  refine ⟨?_⟩
  intro sp c' s' he
  unfold punct1 at he
  split at he
  · rename_i c0 j sp0 rest hr
    split at he
    · rename_i hc
      cases he
      have : c0 = ch := by simpa using hc
      subst this
      exact ⟨rfl, j, rest, hr, rfl⟩
    · cases he
  · cases he

theorem okAt_punct2 (a b : Char) (c : Cur) (s : PSt) :
    (punct2 a b).okAt c s (fun sp c' s' => s' = s ∧ Punct2At a b c sp c') := by
  refine ⟨?_⟩
  intro sp c' s' he
  unfold punct2 at he
  split at he
  · rename_i c1 s1 c2 j s2 rest hr
    split at he
    · rename_i hc
      cases he
      have hc' : c1 = a ∧ c2 = b := by simpa using hc
      obtain ⟨h1, h2⟩ := hc'
      subst h1 h2
      exact ⟨rfl, s1, j, s2, rest, hr, rfl, rfl⟩
    · cases he
  · cases he

/-- A clean state after an oracle step means a clean state before and a clean oracle answer. -/
theorem okAt_oracleExpr (o : Oracle) (c : Cur) (s : PSt) :
    (oracleExpr o).okAt c s (fun e c' s' => s'.ctr = s.ctr ∧ (s'.unexp = false → s.unexp = false ∧ ExprAt o c e c')) := by
  refine ⟨?_⟩
  intro e c' s' he
  unfold oracleExpr at he
  split at he
  · rename_i n u e0 hl
    cases he
    refine ⟨rfl, ?_⟩
    intro hu
    simp only [Bool.or_eq_false_iff] at hu
    obtain ⟨h1, h2⟩ := hu
    subst h2
    exact ⟨h1, n, hl, rfl⟩
  · cases he

theorem okAt_oraclePath (o : Oracle) (c : Cur) (s : PSt) :
    (oraclePath o).okAt c s (fun p c' s' => s'.ctr = s.ctr ∧ (s'.unexp = false → s.unexp = false ∧ PathAt o c p c')) := by
  refine ⟨?_⟩
  intro e c' s' he
  unfold oraclePath at he
  split at he
  · rename_i n u e0 hl
    cases he
    refine ⟨rfl, ?_⟩
    intro hu
    simp only [Bool.or_eq_false_iff] at hu
    obtain ⟨h1, h2⟩ := hu
    subst h2
    exact ⟨h1, n, hl, rfl⟩
  · cases he

/-- Entering a group: if the flag is clean afterwards, the content was used up. -/
theorem okAt_withGroup (d : Delim) (inner : Sp → Sp → P α) (c : Cur) (s : PSt) (Qi : Sp → Sp → Cur → α → Cur → PSt → Prop)
    (h : ∀ so sc ic c', GroupAt d c so sc ic c' → (inner so sc).okAt ic s (Qi so sc ic)) :
    (withGroup d inner).okAt c s (fun a c' s' => ∃ so sc ic ie si, GroupAt d c so sc ic c' ∧ Qi so sc ic a ie si ∧
      s'.ctr = si.ctr ∧ (s'.unexp = false → si.unexp = false ∧ ie.atEnd)) := by
  refine ⟨?_⟩
  intro a c' s' he
  unfold withGroup at he
  split at he
  · rename_i d' sp so sc ts rest hr
    split at he
    · rename_i hd
      have hd' : d = d' := by simpa using hd
      subst hd'
      split at he
      · rename_i a1 ic1 s1 hin
        cases he
        have hg : GroupAt d c so sc (c.inner ts sc) (c.advance 1) := ⟨sp, ts, rest, hr, rfl, rfl⟩
        refine ⟨so, sc, _, ic1, s1, hg, (h so sc _ _ hg).h _ _ _ hin, rfl, ?_⟩
        intro hu
        simp only [Bool.or_eq_false_iff] at hu
        refine ⟨hu.1, ?_⟩
        have := hu.2
        unfold Cur.atEnd
        cases hrest : ic1.rest with
        | nil => rfl
        | cons x xs => simp [hrest] at this
      · cases he
      · cases he
    · cases he
  · cases he

/-- A speculative parse leaves cursor and flag alone. -/
theorem okAt_fork (p : P α) (c : Cur) (s : PSt) :
    (fork p).okAt c s (fun _ c' s' => c' = c ∧ s'.unexp = s.unexp) := by
  refine ⟨?_⟩
  intro a c' s' he
  unfold fork at he
  split at he
  · cases he; exact ⟨rfl, rfl⟩
  · cases he; exact ⟨rfl, rfl⟩
  · cases he

/-- If the flag is clean after, it was clean before and `G` holds. -/
def Clean (s s' : PSt) (G : Prop) : Prop := s'.unexp = false → s.unexp = false ∧ G

theorem Clean.trans {s s1 s2 : PSt} {G1 G2 : Prop} (h1 : Clean s s1 G1) (h2 : Clean s1 s2 G2) : Clean s s2 (G1 ∧ G2) := by
  intro hu
  obtain ⟨a, b⟩ := h2 hu
  obtain ⟨c, d⟩ := h1 a
  exact ⟨c, d, b⟩

theorem Clean.refl {s : PSt} {G : Prop} (h : G) : Clean s s G := fun hu => ⟨hu, h⟩

theorem Clean.mono {s s' : PSt} {G1 G2 : Prop} (h : Clean s s' G1) (hg : G1 → G2) : Clean s s' G2 :=
  fun hu => let ⟨a, b⟩ := h hu; ⟨a, hg b⟩

theorem sound_parseArgs (o : Oracle) : ∀ (fuel : Nat) (acc : List UExpr) (c : Cur) (s : PSt),
    (parseArgs o fuel acc).okAt c s (fun args c' s' => Clean s s' (∃ more, args = acc.reverse ++ more ∧ GArgs o c more c'))
  | 0, _, _, _ => by unfold parseArgs; exact okAt_outOfFuel _ _ _
  | fuel + 1, acc, c, s => by
    unfold parseArgs
    apply okAt_getCur
    apply okAt_ite
    · intro _
      apply okAt_pure
      exact Clean.refl ⟨[], by simp, GArgs.nil c⟩
    · intro _
      refine okAt_bind _ _ _ _ _ _ (okAt_oracleExpr o c s) ?_
      intro e c1 s1 ⟨_, he⟩
      apply okAt_getCur
      apply okAt_ite
      · intro _
        refine okAt_bind _ _ _ _ _ _ (okAt_punct1 ',' c1 s1) ?_
        intro sp c2 s2 ⟨hs, hp⟩
        subst s2
        refine okAt_weaken _ _ _ _ _ (sound_parseArgs o fuel (e :: acc) c2 s1) ?_
        intro args c' s' hrec
        refine (Clean.trans he hrec).mono ?_
        intro ⟨hE, more, hm, hG⟩
        exact ⟨e :: more, by simp [hm], GArgs.cons c e c1 sp c2 more c' hE hp hG⟩
      · intro _
        apply okAt_pure
        refine Clean.mono he ?_
        intro hE
        exact ⟨[e], by simp, GArgs.last c e c1 hE⟩

theorem sound_parseOneOp (o : Oracle) (fuel : Nat) (c : Cur) (s : PSt) :
    (parseOneOp o fuel).okAt c s (fun ops c' s' => Clean s s' (GOp o c ops c')) := by
  unfold parseOneOp
  apply okAt_getCur
  apply okAt_ite
  · intro _
    refine okAt_bind _ _ _ _ _ _ (okAt_punct1 '.' c s) ?_
    intro dot c1 s1 ⟨hs, hp⟩
    subst hs
    apply okAt_getCur
    split
    · rename_i sp kw rest hr
      apply okAt_advance
      apply okAt_pure
      exact Clean.refl (GOp.await c dot c1 sp kw rest hp hr)
    · rename_i text sp digits rest hr
      split
      · rename_i n hn
        apply okAt_advance
        apply okAt_pure
        exact Clean.refl (GOp.unnamed c dot c1 text sp digits rest n hp hr hn)
      · exact okAt_fail _ _ _
    · rename_i text sp extra rest hr
      split
      · rename_i a b hab
        split
        · rename_i x y hx hy
          apply okAt_ite
          · intro hd
            apply okAt_advance
            apply okAt_pure
            exact Clean.refl (GOp.float c dot c1 text sp extra rest a b x y hp hr hab hx hy hd)
          · intro _; exact okAt_fail _ _ _
        · exact okAt_fail _ _ _
      · exact okAt_fail _ _ _
    · refine okAt_bind _ _ _ _ (fun name c2 s2 => s2 = s1 ∧ ∃ rest, c1.rest = .ident name.name name.sp false :: rest ∧ c2 = c1.advance 1) _ ?_ ?_
      · refine ⟨?_⟩
        intro name c2 s2 he
        unfold anyIdent at he
        split at he
        · rename_i n sp kw rest hr
          split at he
          · cases he
          · rename_i hk
            cases he
            have : kw = false := by simpa using hk
            subst this
            exact ⟨rfl, rest, hr, rfl⟩
        · cases he
      · intro name c2 s2 ⟨hs, rest, hr, hc2⟩
        subst s2 c2
        apply okAt_getCur
        apply okAt_ite
        · intro _
          refine okAt_bind _ _ _ _ _ _
            (okAt_withGroup .paren (fun _ _ => parseArgs o fuel []) (c1.advance 1) s1
              (fun so sc ic args ie si => Clean s1 si (∃ more, args = ([] : List UExpr).reverse ++ more ∧ GArgs o ic more ie))
              (fun so sc ic c' _ => sound_parseArgs o fuel [] ic s1)) ?_
          intro args c3 s3 ⟨so, sc, ic, ie, si, hg, hargs, _, hfin⟩
          apply okAt_pure
          intro hu
          obtain ⟨h1, hend⟩ := hfin hu
          obtain ⟨h2, more, hm, hG⟩ := hargs h1
          simp at hm
          subst hm
          exact ⟨h2, GOp.method c dot c1 name.name name.sp rest so sc ic c3 args ie hp hr hg hG hend⟩
        · intro _
          apply okAt_pure
          exact Clean.refl (GOp.named c dot c1 name.name name.sp rest hp hr)
  · intro _
    apply okAt_ite
    · intro _
      refine okAt_weaken _ _ _ _ _
        (okAt_withGroup .bracket _ c s
          (fun so sc ic (r : List FieldOp) ie si => ∃ e, r = [.index e so] ∧ Clean s si (ExprAt o ic e ie))
          (fun so sc ic c' _ => ?_)) ?_
      · refine okAt_bind _ _ _ _ _ _ (okAt_oracleExpr o ic s) ?_
        intro e ie si ⟨_, he⟩
        apply okAt_pure
        exact ⟨e, rfl, he⟩
      · intro r c' s' ⟨so, sc, ic, ie, si, hg, ⟨e, hr, he⟩, _, hfin⟩
        intro hu
        obtain ⟨h1, hend⟩ := hfin hu
        obtain ⟨h2, hE⟩ := he h1
        subst hr
        exact ⟨h2, GOp.index c so sc ic c' e ie hg hE hend⟩
    · intro _; exact okAt_fail _ _ _

theorem sound_parseOpsLoop (o : Oracle) : ∀ (fuel : Nat) (acc : List FieldOp) (c : Cur) (s : PSt),
    (parseOpsLoop o fuel acc).okAt c s (fun r c' s' => Clean s s' (∃ post, r = acc ++ post ∧ GPost o c post c'))
  | 0, _, _, _ => by unfold parseOpsLoop; exact okAt_outOfFuel _ _ _
  | fuel + 1, acc, c, s => by
    unfold parseOpsLoop
    apply okAt_getCur
    apply okAt_ite
    · intro _
      refine okAt_bind _ _ _ _ _ _ (sound_parseOneOp o fuel c s) ?_
      intro ops c1 s1 hop
      refine okAt_weaken _ _ _ _ _ (sound_parseOpsLoop o fuel (acc ++ ops) c1 s1) ?_
      intro r c' s' hrec
      refine (Clean.trans hop hrec).mono ?_
      intro ⟨hO, post, hp, hG⟩
      exact ⟨ops ++ post, by simp [hp], GPost.cons c ops c1 post c' hO hG⟩
    · intro _
      apply okAt_pure
      exact Clean.refl ⟨[], by simp, GPost.nil c⟩

theorem sound_parseFieldName (c : Cur) (s : PSt) :
    parseFieldName.okAt c s (fun name c' s' => s' = s ∧ GName c name c') := by
  refine ⟨?_⟩
  intro name c' s' he
  unfold parseFieldName at he
  split at he
  · rename_i text sp digits rest hr
    split at he
    · rename_i n hn
      cases he
      exact ⟨rfl, GName.index c text sp digits rest n hr hn⟩
    · cases he
  · rename_i n sp kw rest hr
    split at he
    · cases he
    · rename_i hk
      cases he
      have : kw = false := by simpa using hk
      subst this
      exact ⟨rfl, GName.ident c n sp rest hr⟩
  · cases he

theorem sound_parseFieldOps (o : Oracle) (fuel : Nat) (c : Cur) (s : PSt) :
    (parseFieldOps o fuel).okAt c s (fun f c' s' => Clean s s' (GFieldOps o c f c')) := by
  unfold parseFieldOps
  apply okAt_getCur
  apply okAt_advance
  refine okAt_bind _ _ _ _ _ _ (sound_parseFieldName _ s) ?_
  intro name c1 s1 ⟨hs, hn⟩
  subst hs
  refine okAt_bind _ _ _ _ _ _ (sound_parseOpsLoop o fuel _ c1 s1) ?_
  intro ops c' s' hrec
  apply okAt_pure
  refine hrec.mono ?_
  intro ⟨post, hp, hG⟩
  subst hp
  exact GFieldOps.mk c name c1 post c' hn hG

theorem sound_parseCmpOp (c : Cur) (s : PSt) :
    parseCmpOp.okAt c s (fun r c' s' => s' = s ∧ GCmpOp c r.1 r.2 c') := by
  unfold parseCmpOp
  apply okAt_getCur
  apply okAt_ite
  · intro _
    refine okAt_bind _ _ _ _ _ _ (okAt_punct2 _ _ c s) ?_
    intro sp c' s' ⟨hs, hp⟩
    apply okAt_pure; exact ⟨hs, GCmpOp.le c sp c' hp⟩
  intro _
  apply okAt_ite
  · intro _
    refine okAt_bind _ _ _ _ _ _ (okAt_punct1 _ c s) ?_
    intro sp c' s' ⟨hs, hp⟩
    apply okAt_pure; exact ⟨hs, GCmpOp.lt c sp c' hp⟩
  intro _
  apply okAt_ite
  · intro _
    refine okAt_bind _ _ _ _ _ _ (okAt_punct2 _ _ c s) ?_
    intro sp c' s' ⟨hs, hp⟩
    apply okAt_pure; exact ⟨hs, GCmpOp.ge c sp c' hp⟩
  intro _
  apply okAt_ite
  · intro _
    refine okAt_bind _ _ _ _ _ _ (okAt_punct1 _ c s) ?_
    intro sp c' s' ⟨hs, hp⟩
    apply okAt_pure; exact ⟨hs, GCmpOp.gt c sp c' hp⟩
  intro _
  apply okAt_ite
  · intro _
    refine okAt_bind _ _ _ _ _ _ (okAt_punct2 _ _ c s) ?_
    intro sp c' s' ⟨hs, hp⟩
    apply okAt_pure; exact ⟨hs, GCmpOp.eq c sp c' hp⟩
  intro _
  apply okAt_ite
  · intro _
    refine okAt_bind _ _ _ _ _ _ (okAt_punct2 _ _ c s) ?_
    intro sp c' s' ⟨hs, hp⟩
    apply okAt_pure; exact ⟨hs, GCmpOp.ne c sp c' hp⟩
  intro _
  exact okAt_fail _ _ _

end AsModel
