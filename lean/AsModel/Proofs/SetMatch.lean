import AsModel.Runtime.SetMatch
/-! Helper lemmas for C10: the backtracking search of `set_backtrack` is sound
and complete for "there is an assignment of the remaining patterns to distinct
free elements", and a failed search restores `matched`. -/
namespace AsModel.Runtime

/-- σ assigns patterns `k, k+1, …, k+r-1` to distinct elements that are free in `m`. -/
structure Assign (M : Nat → Nat → Bool) (k r : Nat) (m : List Bool) (σ : List Nat) : Prop where
  len : σ.length = r
  nodup : σ.Nodup
  free : ∀ x ∈ σ, m[x]? = some false
  ok : ∀ j (h : j < σ.length), M (k + j) σ[j] = true

theorem getD_true_eq_false_iff (m : List Bool) (i : Nat) :
    (m.getD i true == false) = true ↔ m[i]? = some false := by
  simp only [List.getD_eq_getElem?_getD, beq_iff_eq]
  cases h : m[i]? with
  | none => simp
  | some b => simp

theorem set_false_of_free {m : List Bool} {i : Nat} (h : m[i]? = some false) :
    m.set i false = m := by
  have hi : i < m.length := by
    rcases Nat.lt_or_ge i m.length with h' | h'
    · exact h'
    · simp [List.getElem?_eq_none h'] at h
  have : m[i] = false := by
    have := List.getElem?_eq_getElem hi
    rw [this] at h; exact Option.some.inj h
  conv => rhs; rw [← List.set_getElem_self hi]
  rw [this]

theorem btLoop_spec (rec_ : List Bool → Bool × List Bool) (Mk : Nat → Bool)
    (Q : List Bool → Prop)
    (hQ : ∀ m', (rec_ m').1 = true ↔ Q m')
    (hF : ∀ m', (rec_ m').1 = false → (rec_ m').2 = m') :
    ∀ (is : List Nat) (m : List Bool),
      ((btLoop rec_ Mk is m).1 = true ↔
          ∃ i ∈ is, m[i]? = some false ∧ Mk i = true ∧ Q (m.set i true)) ∧
      ((btLoop rec_ Mk is m).1 = false → (btLoop rec_ Mk is m).2 = m) := by
  intro is
  induction is with
  | nil => intro m; simp [btLoop]
  | cons i is ih =>
    intro m
    unfold btLoop
    by_cases hc : ((m.getD i true == false) && Mk i) = true
    · rw [if_pos hc]
      have hc' := hc
      rw [Bool.and_eq_true, getD_true_eq_false_iff] at hc'
      obtain ⟨hfree, hMk⟩ := hc'
      by_cases hr : (rec_ (m.set i true)).1 = true
      · simp only [hr, if_true]
        refine ⟨⟨fun _ => ⟨i, List.mem_cons_self, hfree, hMk, (hQ _).1 hr⟩, fun _ => trivial⟩,
          fun h => by simp at h⟩
      · have hr : (rec_ (m.set i true)).1 = false := by simpa using hr
        simp only [hr, Bool.false_eq_true, if_false]
        have h2 : (rec_ (m.set i true)).2 = m.set i true := hF _ hr
        have hback : ((rec_ (m.set i true)).2.set i false) = m := by
          rw [h2, List.set_set, set_false_of_free hfree]
        rw [hback]
        have ihm := ih m
        refine ⟨?_, ihm.2⟩
        rw [ihm.1]
        constructor
        · rintro ⟨j, hj, h⟩; exact ⟨j, List.mem_cons_of_mem _ hj, h⟩
        · rintro ⟨j, hj, hjf, hjM, hjQ⟩
          rcases List.mem_cons.1 hj with rfl | hj'
          · have := (hQ _).2 hjQ; rw [hr] at this; exact absurd this (by simp)
          · exact ⟨j, hj', hjf, hjM, hjQ⟩
    · rw [if_neg hc]
      have ihm := ih m
      refine ⟨?_, ihm.2⟩
      rw [ihm.1]
      constructor
      · rintro ⟨j, hj, h⟩; exact ⟨j, List.mem_cons_of_mem _ hj, h⟩
      · rintro ⟨j, hj, hjf, hjM, hjQ⟩
        rcases List.mem_cons.1 hj with rfl | hj'
        · exfalso; apply hc
          rw [Bool.and_eq_true, getD_true_eq_false_iff]; exact ⟨hjf, hjM⟩
        · exact ⟨j, hj', hjf, hjM, hjQ⟩

theorem lt_length_of_getElem?_eq_some {α} {m : List α} {i : Nat} {a : α} (h : m[i]? = some a) :
    i < m.length := by
  rcases Nat.lt_or_ge i m.length with h' | h'
  · exact h'
  · simp [List.getElem?_eq_none h'] at h

/-- Soundness, completeness and the frame property of the search, for every
number of remaining patterns, every starting index and every `matched` vector. -/
theorem setBacktrack_spec (M : Nat → Nat → Bool) :
    ∀ (r k : Nat) (m : List Bool),
      ((setBacktrack M r k m).1 = true ↔ ∃ σ, Assign M k r m σ) ∧
      ((setBacktrack M r k m).1 = false → (setBacktrack M r k m).2 = m) := by
  intro r
  induction r with
  | zero =>
    intro k m
    refine ⟨⟨fun _ => ⟨[], ⟨rfl, List.nodup_nil, by simp, by simp⟩⟩, fun _ => rfl⟩, ?_⟩
    intro h; simp [setBacktrack] at h
  | succ r ih =>
    intro k m
    have hl := btLoop_spec (setBacktrack M r (k + 1)) (M k)
      (fun m' => ∃ σ, Assign M (k + 1) r m' σ)
      (fun m' => (ih (k + 1) m').1) (fun m' => (ih (k + 1) m').2)
      (List.range m.length) m
    show ((btLoop (setBacktrack M r (k + 1)) (M k) (List.range m.length) m).1 = true ↔ _) ∧ _
    refine ⟨?_, hl.2⟩
    rw [hl.1]
    constructor
    · rintro ⟨i, _, hfree, hMk, σ, hσ⟩
      have hi_notin : i ∉ σ := by
        intro hmem
        have := hσ.free i hmem
        rw [List.getElem?_set_self (lt_length_of_getElem?_eq_some hfree)] at this
        simp at this
      refine ⟨i :: σ, ⟨by simp [hσ.len], List.nodup_cons.2 ⟨hi_notin, hσ.nodup⟩, ?_, ?_⟩⟩
      · intro x hx
        rcases List.mem_cons.1 hx with rfl | hx'
        · exact hfree
        · have h1 := hσ.free x hx'
          have hne : i ≠ x := fun e => hi_notin (e ▸ hx')
          rwa [List.getElem?_set_ne hne] at h1
      · intro j hj
        cases j with
        | zero => simpa using hMk
        | succ j =>
          have hj' : j < σ.length := by simpa using hj
          have := hσ.ok j hj'
          simpa [Nat.add_assoc, Nat.add_comm 1 j] using this
    · rintro ⟨σ, hσ⟩
      cases σ with
      | nil => have := hσ.len; simp at this
      | cons i σ =>
        have hfree := hσ.free i List.mem_cons_self
        have hnd := List.nodup_cons.1 hσ.nodup
        refine ⟨i, List.mem_range.2 (lt_length_of_getElem?_eq_some hfree), hfree, ?_, σ, ?_⟩
        · have := hσ.ok 0 (by simp); simpa using this
        · refine ⟨by have := hσ.len; simpa using this, hnd.2, ?_, ?_⟩
          · intro x hx
            have hne : i ≠ x := fun e => hnd.1 (e ▸ hx)
            rw [List.getElem?_set_ne hne]
            exact hσ.free x (List.mem_cons_of_mem _ hx)
          · intro j hj
            have := hσ.ok (j + 1) (by simpa using hj)
            simpa [Nat.add_assoc, Nat.add_comm 1 j] using this

end AsModel.Runtime
