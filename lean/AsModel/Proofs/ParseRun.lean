import AsModel.Parse
/-
A forward program logic for the parser monad: `p.run c s Q E` says what holds of the result,
cursor and state when `p` succeeds from cursor `c` and state `s` (`Q`), and of the node counter
when it fails (`E`).  Used for everything that relates the state before and after a parse:
node ids (C14), consumed tokens and anchors (C04, C15).
-/
namespace AsModel

structure P.run {α} (p : P α) (c : Cur) (s : PSt) (Q : α → Cur → PSt → Prop) (E : Nat → Prop) : Prop where
  ok : ∀ a c' s', p c s = .ok a c' s' → Q a c' s'
  err : ∀ m, p c s = .err m → E m

variable {α β : Type}

theorem run_pure (a : α) (c : Cur) (s : PSt) (Q : α → Cur → PSt → Prop) (E : Nat → Prop) (h : Q a c s) :
    (pure a : P α).run c s Q E :=
  ⟨by intro a' c' s' he; simp only [pure, P.pure] at he; cases he; exact h,
   by intro m he; simp only [pure, P.pure] at he; cases he⟩

theorem run_bind (p : P α) (f : α → P β) (c : Cur) (s : PSt) (Q1 : α → Cur → PSt → Prop)
    (Q2 : β → Cur → PSt → Prop) (E : Nat → Prop)
    (hp : p.run c s Q1 E) (hf : ∀ a c' s', Q1 a c' s' → (f a).run c' s' Q2 E) : (p >>= f).run c s Q2 E := by
  refine ⟨?_, ?_⟩
  · intro b c'' s'' he
    simp only [bind, P.bind] at he
    cases hpc : p c s with
    | ok a c1 s1 => rw [hpc] at he; exact (hf a c1 s1 (hp.ok a c1 s1 hpc)).ok b c'' s'' he
    | err n => rw [hpc] at he; cases he
    | fuel => rw [hpc] at he; cases he
  · intro m he
    simp only [bind, P.bind] at he
    cases hpc : p c s with
    | ok a c1 s1 => rw [hpc] at he; exact (hf a c1 s1 (hp.ok a c1 s1 hpc)).err m he
    | err n => rw [hpc] at he; cases he; exact hp.err _ hpc
    | fuel => rw [hpc] at he; cases he

theorem run_fail (c : Cur) (s : PSt) (Q : α → Cur → PSt → Prop) (E : Nat → Prop) (h : E s.ctr) :
    (fail : P α).run c s Q E :=
  ⟨(by intro a c' s' he; cases he), (by intro m he; simp only [fail] at he; cases he; exact h)⟩

theorem run_outOfFuel (c : Cur) (s : PSt) (Q : α → Cur → PSt → Prop) (E : Nat → Prop) :
    (outOfFuel : P α).run c s Q E :=
  ⟨(by intro a c' s' he; cases he), (by intro m he; cases he)⟩

theorem run_ite (b : Prop) [Decidable b] (p q : P α) (c : Cur) (s : PSt) (Q : α → Cur → PSt → Prop) (E : Nat → Prop)
    (hp : b → p.run c s Q E) (hq : ¬b → q.run c s Q E) : (if b then p else q).run c s Q E := by
  split
  · exact hp ‹_›
  · exact hq ‹_›

theorem run_weaken (p : P α) (c : Cur) (s : PSt) (Q1 Q2 : α → Cur → PSt → Prop) (E1 E2 : Nat → Prop)
    (h : p.run c s Q1 E1) (hq : ∀ a c' s', Q1 a c' s' → Q2 a c' s') (he : ∀ m, E1 m → E2 m) : p.run c s Q2 E2 :=
  ⟨fun a c' s' h' => hq _ _ _ (h.ok a c' s' h'), fun m h' => he m (h.err m h')⟩

/-! ### The primitive actions -/

theorem run_getCur (c : Cur) (s : PSt) (E : Nat → Prop) :
    getCur.run c s (fun a c' s' => a = c ∧ c' = c ∧ s' = s) E :=
  ⟨by intro a c' s' he; simp only [getCur] at he; cases he; exact ⟨rfl, rfl, rfl⟩,
   by intro m he; cases he⟩

theorem run_nextId (c : Cur) (s : PSt) (E : Nat → Prop) :
    nextId.run c s (fun a c' s' => a = s.ctr ∧ c' = c ∧ s'.ctr = s.ctr + 1 ∧ s'.unexp = s.unexp) E :=
  ⟨by intro a c' s' he; simp only [nextId] at he; cases he; exact ⟨rfl, rfl, rfl, rfl⟩,
   by intro m he; cases he⟩

theorem run_advance (n : Nat) (c : Cur) (s : PSt) (E : Nat → Prop) :
    (advance n).run c s (fun _ c' s' => c' = c.advance n ∧ s' = s) E :=
  ⟨by intro a c' s' he; simp only [advance] at he; cases he; exact ⟨rfl, rfl⟩,
   by intro m he; cases he⟩

/-- An action that leaves the state alone and fails with the current counter. -/
structure P.stateless (p : P α) : Prop where
  ok : ∀ c s a c' s', p c s = .ok a c' s' → s' = s
  err : ∀ c s m, p c s = .err m → m = s.ctr

theorem stateless_punct1 (ch : Char) : (punct1 ch).stateless := by
  refine ⟨?_, ?_⟩
  · intro c s a c' s' he
    unfold punct1 at he
    split at he
    · split at he
      · cases he; rfl
      · cases he
    · cases he
  · intro c s m he
    unfold punct1 at he
    split at he
    · split at he
      · cases he
      · cases he; rfl
    · cases he; rfl

theorem stateless_punct2 (a b : Char) : (punct2 a b).stateless := by
  refine ⟨?_, ?_⟩
  · intro c s x c' s' he
    unfold punct2 at he
    split at he
    · split at he
      · cases he; rfl
      · cases he
    · cases he
  · intro c s m he
    unfold punct2 at he
    split at he
    · split at he
      · cases he
      · cases he; rfl
    · cases he; rfl

theorem stateless_anyIdent : anyIdent.stateless := by
  refine ⟨?_, ?_⟩
  · intro c s x c' s' he
    unfold anyIdent at he
    split at he
    · split at he
      · cases he
      · cases he; rfl
    · cases he
  · intro c s m he
    unfold anyIdent at he
    split at he
    · split at he
      · cases he; rfl
      · cases he
    · cases he; rfl

theorem stateless_parseFieldName : parseFieldName.stateless := by
  refine ⟨?_, ?_⟩
  · intro c s x c' s' he
    unfold parseFieldName at he
    split at he
    · split at he
      · cases he; rfl
      · cases he
    · split at he
      · cases he
      · cases he; rfl
    · cases he
  · intro c s m he
    unfold parseFieldName at he
    split at he
    · split at he
      · cases he
      · cases he; rfl
    · split at he
      · cases he; rfl
      · cases he
    · cases he; rfl

/-- The counter part of the state. -/
structure P.ctrOnly (p : P α) : Prop where
  ok : ∀ c s a c' s', p c s = .ok a c' s' → s'.ctr = s.ctr
  err : ∀ c s m, p c s = .err m → m = s.ctr

theorem ctrOnly_of_stateless {p : P α} (h : p.stateless) : p.ctrOnly :=
  ⟨fun c s a c' s' he => by rw [h.ok c s a c' s' he], h.err⟩

theorem ctrOnly_oracleExpr (o : Oracle) : (oracleExpr o).ctrOnly := by
  refine ⟨?_, ?_⟩
  · intro c s a c' s' he
    unfold oracleExpr at he
    split at he
    · cases he; rfl
    · cases he
  · intro c s m he
    unfold oracleExpr at he
    split at he
    · cases he
    · cases he; rfl

theorem ctrOnly_oraclePath (o : Oracle) : (oraclePath o).ctrOnly := by
  refine ⟨?_, ?_⟩
  · intro c s a c' s' he
    unfold oraclePath at he
    split at he
    · cases he; rfl
    · cases he
  · intro c s m he
    unfold oraclePath at he
    split at he
    · cases he
    · cases he; rfl

/-- Counter-only actions in the forward logic: the counter is unchanged, nothing else is said. -/
theorem run_ctrOnly {p : P α} (h : p.ctrOnly) (c : Cur) (s : PSt) :
    p.run c s (fun _ _ s' => s'.ctr = s.ctr) (fun m => m = s.ctr) :=
  ⟨fun a c' s' he => h.ok c s a c' s' he, fun m he => h.err c s m he⟩

end AsModel
