import AsModel.Sat
/-!
`frontier` and `sat` agree: the failure frontier is empty exactly when the value
satisfies the pattern (and a pair without a verdict satisfies nothing).
-/
namespace AsModel

/-- A frontier result agrees with a Boolean verdict. -/
def Agree (r : Option (List Entry)) (b : Bool) : Prop :=
  match r with
  | none => b = false
  | some es => (es = [] ↔ b = true)

theorem Agree.none_false : Agree none false := rfl
theorem Agree.nil_true : Agree (some []) true := by simp [Agree]
theorem Agree.cons_false (e : Entry) (es : List Entry) : Agree (some (e :: es)) false := by simp [Agree]

theorem Agree.ite (t : Bool) (e : Entry) : Agree (some (if t then [] else [e])) t := by
  cases t <;> simp [Agree]

theorem Agree.append {a b : Option (List Entry)} {x y : Bool} (ha : Agree a x) (hb : Agree b y) :
    Agree (appendO a b) (x && y) := by
  cases a with
  | none => simp only [Agree] at ha; cases b <;> simp [appendO, Agree, ha]
  | some as =>
    cases b with
    | none => simp only [Agree] at hb; simp [appendO, Agree, hb]
    | some bs =>
      simp only [Agree] at ha hb ⊢
      simp only [appendO, List.append_eq_nil_iff, Bool.and_eq_true]
      exact and_congr ha hb

theorem Agree.and_true_left {r : Option (List Entry)} {y : Bool} (h : Agree r y) : Agree r (true && y) := by
  simpa using h

theorem Agree.false_and (r : Option (List Entry)) (y : Bool) (h : r = none ∨ ∃ e es, r = some (e :: es)) :
    Agree r (false && y) := by
  rcases h with rfl | ⟨e, es, rfl⟩ <;> simp [Agree]

mutual
theorem frontier_agree (P : Prims) : ∀ (p : Pat) (v : Val), Agree (frontier P p v) (sat P p v)
  | .simple id e, v => by simp only [frontier, sat]; exact Agree.ite _ _
  | .string id s sp t, v => by simp only [frontier, sat]; exact Agree.ite _ _
  | .cmp id op osp e, v => by simp only [frontier, sat]; exact Agree.ite _ _
  | .range id e, v => by simp only [frontier, sat]; exact Agree.ite _ _
  | .regex id pat sp, v => by simp only [frontier, sat]; exact Agree.ite _ _
  | .like id e, v => by simp only [frontier, sat]; exact Agree.ite _ _
  | .closure id e, v => by simp only [frontier, sat]; exact Agree.ite _ _
  | .wild id, v => by simp only [frontier, sat]; exact Agree.nil_true
  | .enum id path elems, v => by
    unfold frontier sat
    by_cases h0 : elems.length = 0
    · simp only [h0, if_true]; exact Agree.ite _ _
    · simp only [h0, if_false]
      cases v with
      | adt ctor names vals =>
        simp only
        by_cases hc : P.ctor path ctor = true
        · simp only [hc, if_true, Bool.true_and]
          by_cases hl : vals.length = elems.length
          · simp only [hl, if_true, decide_true, Bool.true_and]
            exact frontierElems_agree P elems vals
          · simp [hl, Agree]
        · have hc' : P.ctor path ctor = false := by simpa using hc
          simp [hc', Agree]
      | _ => exact Agree.none_false
  | .struct id (some path) fields rest, v => by
    unfold frontier sat
    cases v with
    | adt ctor names vals =>
      simp only
      by_cases hc : P.ctor path ctor = true
      · simp only [hc, if_true, Bool.true_and]
        by_cases hr : (rest || fields.allNamesListed names) = true
        · simp only [hr, if_true, Bool.true_and]
          exact frontierFields_agree P fields _
        · have hr' : (rest || fields.allNamesListed names) = false := by simpa using hr
          simp [hr', Agree]
      · have hc' : P.ctor path ctor = false := by simpa using hc
        simp [hc', Agree]
    | _ => exact Agree.none_false
  | .struct id none fields rest, v => by
    simp only [frontier, sat]; exact frontierFields_agree P fields v
  | .tuple id sp elems, v => by
    unfold frontier sat
    by_cases hsn : elems.isSingleParen = true
    · simp only [hsn, if_true]; exact frontierHead_agree P elems v
    · simp only [hsn, Bool.false_eq_true, if_false]
      cases v with
      | tuple vs =>
        simp only
        by_cases hl : vs.length = elems.length
        · simp only [hl, if_true, decide_true, Bool.true_and]
          exact frontierElems_agree P elems vs
        · simp [hl, Agree]
      | _ => exact Agree.none_false
  | .slice id sp elems, v => by
    unfold frontier sat
    cases hv : v.autoDeref with
    | seq vs =>
      simp only
      by_cases h0 : elems.countRest = 0
      · simp only [h0, if_true, Nat.sub_zero]
        by_cases hl : vs.length = elems.length
        · simp only [hl, if_true, decide_true, Bool.true_and]
          exact frontierSlice_agree P elems vs
        · simp [hl, Agree, mkEntry]
      · simp only [h0, if_false]
        by_cases h1 : elems.countRest = 1
        · simp only [h1, if_true, decide_true, Bool.true_and]
          by_cases hl : elems.length - 1 ≤ vs.length
          · simp only [hl, if_true, decide_true, Bool.true_and]
            exact frontierSlice_agree P elems vs
          · simp [hl, Agree, mkEntry]
        · simp [h1, Agree]
    | _ => exact Agree.none_false
  | .set id sp elems rest, v => by
    unfold frontier sat
    cases hv : v.elems? with
    | none => exact Agree.none_false
    | some vs =>
      simp only [matchRows_eq P elems vs]
      simp only [Agree, List.map_eq_nil_iff, List.isEmpty_iff]
  | .map id sp entries rest, v => by
    unfold frontier sat
    cases hv : v.autoDeref with
    | map keys vals =>
      simp only
      have he := frontierEntries_agree P id entries keys vals
      by_cases hr : (rest || keys.length == entries.length) = true
      · have : (!rest && keys.length != entries.length) = false := by
          cases rest <;> simp_all
        simp only [this, Bool.false_eq_true, if_false, hr, Bool.true_and]
        have := Agree.append (Agree.nil_true) he
        simpa using this
      · have hr' : (rest || keys.length == entries.length) = false := by simpa using hr
        have : (!rest && keys.length != entries.length) = true := by
          cases rest <;> simp_all
        simp only [this, if_true, hr', Bool.false_and]
        cases hfe : frontierEntries P id entries keys vals with
        | none => simp [appendO, Agree]
        | some es => simp [appendO, Agree]
    | _ =>
      all_goals
        simp only
        by_cases hh : (rest && entries.length == 0) = true
        · simp [hh, Agree]
        · have hh' : (rest && entries.length == 0) = false := by simpa using hh
          simp [hh', Agree]

theorem frontierFields_agree (P : Prims) : ∀ (fields : Items) (v : Val),
    Agree (frontierFields P fields v) (satFields P fields v)
  | .nil, _ => by simp only [frontierFields, satFields]; exact Agree.nil_true
  | .cons ops key p tl, v => by
    simp only [frontierFields, satFields]
    refine Agree.append ?_ (frontierFields_agree P tl v)
    cases ops with
    | none => exact Agree.none_false
    | some o =>
      simp only [Option.bind_some]
      cases fieldSub P v o with
      | none => exact Agree.none_false
      | some sub => exact frontier_agree P p sub

theorem frontierHead_agree (P : Prims) : ∀ (elems : Items) (v : Val),
    Agree (frontierHead P elems v) (satHead P elems v)
  | .nil, _ => Agree.none_false
  | .cons none key p tl, v => by simp only [frontierHead, satHead]; exact frontier_agree P p v
  | .cons (some o) key p tl, v => by
    simp only [frontierHead, satHead]
    cases elemSub P v o with
    | none => exact Agree.none_false
    | some sub => exact frontier_agree P p sub

theorem frontierElems_agree (P : Prims) : ∀ (elems : Items) (vs : List Val),
    Agree (frontierElems P elems vs) (satElems P elems vs)
  | .nil, _ => by simp only [frontierElems, satElems]; exact Agree.nil_true
  | .cons ops key p tl, [] => by simp only [frontierElems, satElems]; exact Agree.none_false
  | .cons ops key p tl, vi :: vs' => by
    simp only [frontierElems, satElems]
    refine Agree.append ?_ (frontierElems_agree P tl vs')
    cases ops with
    | none => exact frontier_agree P p vi
    | some o =>
      simp only
      cases elemSub P vi o with
      | none => exact Agree.none_false
      | some sub => exact frontier_agree P p sub

theorem frontierSlice_agree (P : Prims) : ∀ (elems : Items) (vs : List Val),
    Agree (frontierSlice P elems vs) (satSlice P elems vs)
  | .nil, _ => by simp only [frontierSlice, satSlice]; exact Agree.nil_true
  | .cons ops key p tl, vs => by
    unfold frontierSlice satSlice
    by_cases hr : p.isSliceRest = true
    · simp only [hr, if_true]; exact frontierSlice_agree P tl _
    · simp only [hr, Bool.false_eq_true, if_false]
      cases vs with
      | nil => exact Agree.none_false
      | cons vi vs' => exact Agree.append (frontier_agree P p vi) (frontierSlice_agree P tl vs')

theorem matchRows_eq (P : Prims) : ∀ (elems : Items) (vs : List Val),
    matchRows P elems vs = satRows P elems vs
  | .nil, _ => rfl
  | .cons ops key p tl, vs => by
    simp only [matchRows, satRows, matchRows_eq P tl vs]
    congr 1
    apply List.map_congr_left
    intro v _
    have h := frontier_agree P p v
    cases hf : frontier P p v with
    | none => rw [hf] at h; simp only [Agree] at h; simp [h]
    | some es =>
      rw [hf] at h
      simp only [Agree] at h
      cases es with
      | nil => simp [h.1 rfl]
      | cons e es =>
        have : sat P p v = false := by
          cases hs : sat P p v with
          | false => rfl
          | true => exact absurd (h.2 hs) (by simp)
        simp [this]

theorem frontierEntries_agree (P : Prims) (id : Nat) : ∀ (entries : Items) (keys vals : List Val),
    Agree (frontierEntries P id entries keys vals) (satEntries P entries keys vals)
  | .nil, _, _ => by simp only [frontierEntries, satEntries]; exact Agree.nil_true
  | .cons ops key p tl, keys, vals => by
    simp only [frontierEntries, satEntries]
    refine Agree.append ?_ (frontierEntries_agree P id tl keys vals)
    cases key with
    | none => exact Agree.none_false
    | some k =>
      simp only
      cases mapLookup P.valEq (P.key k) keys vals with
      | none => exact Agree.cons_false _ _
      | some val => exact frontier_agree P p val
end

end AsModel
