import AsModel.Runtime.Offset
/-! Helper lemmas for C04 / C06: the run-time `(line, column) → byte offset`
conversion inverts the compile-time `character index → (line, column)` map, and
every offset it returns is a character boundary. -/
namespace AsModel.Runtime

theorem utf8Size_nl : ('\n' : Char).utf8Size = 1 := by decide

theorem utf8Len_append (a b : List Char) : utf8Len (a ++ b) = utf8Len a + utf8Len b := by
  induction a with
  | nil => simp [utf8Len]
  | cons c a ih => simp [utf8Len, ih, Nat.add_assoc]

theorem splitNl_ne_nil (s : List Char) : splitNl s ≠ [] := by
  cases s with
  | nil => simp [splitNl]
  | cons c cs =>
    unfold splitNl
    split
    · simp
    · split <;> simp

theorem posOf_line_pos (s : List Char) (i : Nat) : 1 ≤ (posOf s i).1 := by
  induction s generalizing i with
  | nil => simp [posOf]
  | cons c cs ih =>
    cases i with
    | zero => simp [posOf]
    | succ j =>
      simp only [posOf]
      split
      · exact Nat.le_add_left 1 _
      · split
        · exact Nat.le_refl 1
        · exact ih j

/-- The loop, started at the right byte position, lands on the byte position of
the `i`-th character. -/
theorem offsetLoop_posOf (total : Nat) :
    ∀ (s : List Char) (i : Nat), i ≤ s.length → ∀ start,
      offsetLoop total (splitNl s) (posOf s i).1 (posOf s i).2 start
        = start + utf8Len (s.take i) := by
  intro s
  induction s with
  | nil =>
    intro i hi start
    have : i = 0 := by simpa using hi
    subst this
    simp [splitNl, posOf, offsetLoop, utf8Len]
  | cons c cs ih =>
    intro i hi start
    cases i with
    | zero =>
      have hne := splitNl_ne_nil (c :: cs)
      cases hsp : splitNl (c :: cs) with
      | nil => exact absurd hsp hne
      | cons l ls => simp [posOf, offsetLoop, utf8Len]
    | succ j =>
      have hj : j ≤ cs.length := by simpa using hi
      have hp := posOf_line_pos cs j
      by_cases hc : c = '\n'
      · subst hc
        have hne : (posOf cs j).1 + 1 ≠ 1 := by omega
        simp only [posOf, splitNl, if_true, offsetLoop, hne, if_false, List.take_succ_cons, utf8Len,
          utf8Size_nl]
        rw [Nat.add_sub_cancel, ih j hj]
        simp [utf8Len]; omega
      · cases hsp : splitNl cs with
        | nil => exact absurd hsp (splitNl_ne_nil cs)
        | cons l ls =>
          have ih' := ih j hj
          rw [hsp] at ih'
          simp only [posOf, splitNl, hc, if_false, hsp, List.take_succ_cons, utf8Len]
          by_cases h1 : (posOf cs j).1 = 1
          · simp only [h1, if_true, offsetLoop, List.take_succ_cons, utf8Len]
            have := ih' 0
            simp only [h1, offsetLoop, if_true, Nat.zero_add] at this
            rw [this]
          · simp only [h1, if_false, offsetLoop, utf8Len]
            have := ih' (start + c.utf8Size)
            simp only [offsetLoop, h1, if_false] at this
            rw [← Nat.add_assoc start, this]; omega

/-- Every value the loop can return is a character boundary of the text. -/
theorem offsetLoop_boundary :
    ∀ (s : List Char) (line col start total : Nat), total = start + utf8Len s → 1 ≤ line →
      ∃ i, i ≤ s.length ∧ offsetLoop total (splitNl s) line col start = start + utf8Len (s.take i) := by
  intro s
  induction s with
  | nil =>
    intro line col start total ht hl
    refine ⟨0, Nat.le_refl _, ?_⟩
    simp only [splitNl, offsetLoop]
    split
    · simp [utf8Len]
    · simp [ht, utf8Len]
  | cons c cs ih =>
    intro line col start total ht hl
    by_cases hc : c = '\n'
    · subst hc
      simp only [splitNl, if_true, offsetLoop]
      by_cases h1 : line = 1
      · exact ⟨0, Nat.zero_le _, by simp [h1, utf8Len]⟩
      · simp only [h1, if_false]
        obtain ⟨i, hi, he⟩ := ih (line - 1) col (start + utf8Len [] + 1) total
          (by simp [ht, utf8Len, utf8Size_nl]; omega) (by omega)
        refine ⟨i + 1, by simpa using hi, ?_⟩
        rw [he]; simp [utf8Len, utf8Size_nl]; omega
    · cases hsp : splitNl cs with
      | nil => exact absurd hsp (splitNl_ne_nil cs)
      | cons l ls =>
        simp only [splitNl, hc, if_false, hsp, offsetLoop]
        by_cases h1 : line = 1
        · simp only [h1, if_true]
          cases col with
          | zero => exact ⟨0, Nat.zero_le _, by simp [utf8Len]⟩
          | succ k =>
            obtain ⟨i, hi, he⟩ := ih 1 k (start + c.utf8Size) total
              (by simp [ht, utf8Len]; omega) (Nat.le_refl 1)
            rw [hsp] at he
            simp only [offsetLoop, if_true] at he
            refine ⟨i + 1, by simpa using hi, ?_⟩
            simp only [List.take_succ_cons, utf8Len]
            omega
        · simp only [h1, if_false]
          obtain ⟨i, hi, he⟩ := ih line col (start + c.utf8Size) total
            (by simp [ht, utf8Len]; omega) hl
          rw [hsp] at he
          simp only [offsetLoop, h1, if_false] at he
          refine ⟨i + 1, by simpa using hi, ?_⟩
          simp only [List.take_succ_cons, utf8Len]
          rw [← Nat.add_assoc start, he]; omega

theorem byteOffsetOf_boundary (s : List Char) (line col : Nat) :
    IsBoundary s (byteOffsetOf s line col) := by
  unfold byteOffsetOf
  split
  · exact ⟨0, Nat.zero_le _, by simp [utf8Len]⟩
  · rename_i h
    obtain ⟨i, hi, he⟩ := offsetLoop_boundary s line col 0 (utf8Len s) (by simp) (by omega)
    exact ⟨i, hi, by simpa using he⟩

theorem utf8Len_take_le (s : List Char) (i : Nat) : utf8Len (s.take i) ≤ utf8Len s := by
  conv => rhs; rw [← List.take_append_drop i s]
  rw [utf8Len_append]; omega

theorem utf8Len_take_mono (s : List Char) {i j : Nat} (h : i ≤ j) :
    utf8Len (s.take i) ≤ utf8Len (s.take j) := by
  have : s.take i = (s.take j).take i := by rw [List.take_take]; congr 1; omega
  rw [this]; exact utf8Len_take_le _ _

/-- At a boundary strictly inside the text, `charAtByte` finds the character
starting there, and the next boundary is one character further. -/
theorem charAtByte_boundary :
    ∀ (s : List Char) (i : Nat) (h : i < s.length),
      charAtByte s (utf8Len (s.take i)) = some s[i] ∧
      utf8Len (s.take i) + s[i].utf8Size = utf8Len (s.take (i + 1)) := by
  intro s
  induction s with
  | nil => intro i h; simp at h
  | cons c cs ih =>
    intro i h
    cases i with
    | zero => simp [charAtByte, utf8Len]
    | succ j =>
      have hj : j < cs.length := by simpa using h
      obtain ⟨h1, h2⟩ := ih j hj
      have hpos := Char.utf8Size_pos c
      simp only [List.take_succ_cons, utf8Len, charAtByte, List.getElem_cons_succ]
      have hne : c.utf8Size + utf8Len (cs.take j) ≠ 0 := by omega
      have hnlt : ¬ (c.utf8Size + utf8Len (cs.take j) < c.utf8Size) := by omega
      simp only [hne, if_false, hnlt, Nat.add_sub_cancel_left]
      exact ⟨h1, by omega⟩

theorem charAtByte_end (s : List Char) : charAtByte s (utf8Len s) = none := by
  induction s with
  | nil => simp [charAtByte]
  | cons c cs ih =>
    have hpos := Char.utf8Size_pos c
    simp only [utf8Len, charAtByte]
    have hne : c.utf8Size + utf8Len cs ≠ 0 := by omega
    have hnlt : ¬ (c.utf8Size + utf8Len cs < c.utf8Size) := by omega
    simp only [hne, if_false, hnlt, Nat.add_sub_cancel_left]
    exact ih

end AsModel.Runtime

namespace AsModel.Runtime

theorem boundaryB_iff (s : List Char) : ∀ n, boundaryB s n = true ↔ IsBoundary s n := by
  induction s with
  | nil =>
    intro n
    simp only [boundaryB, beq_iff_eq]
    constructor
    · intro h; exact ⟨0, Nat.le_refl _, by simp [h, utf8Len]⟩
    · rintro ⟨i, _, h⟩; simpa [utf8Len] using h
  | cons c cs ih =>
    intro n
    simp only [boundaryB, Bool.or_eq_true, beq_iff_eq, Bool.and_eq_true, decide_eq_true_eq]
    constructor
    · rintro (h | ⟨h1, h2⟩)
      · exact ⟨0, Nat.zero_le _, by simp [h, utf8Len]⟩
      · obtain ⟨i, hi, he⟩ := (ih _).1 h2
        refine ⟨i + 1, by simpa using hi, ?_⟩
        simp only [List.take_succ_cons, utf8Len]; omega
    · rintro ⟨i, hi, he⟩
      cases i with
      | zero => left; simpa [utf8Len] using he
      | succ j =>
        right
        simp only [List.take_succ_cons, utf8Len] at he
        refine ⟨by omega, (ih _).2 ⟨j, by simpa using hi, by omega⟩⟩

end AsModel.Runtime
