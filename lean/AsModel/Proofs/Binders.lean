import AsModel.Proofs.Refine
/-!
What the binders of each template are bound to when the body runs.
-/
namespace AsModel

/-! ### Positional binders (`__elem_i`, `__tuple_elem_i`) -/

/-- Every non-wildcard element `j` of `items` (numbered from `i`) is bound, under its own
name, to a reference to the `j`-th component. -/
def ElemsBound (env : Env) (mk : Nat → Name) : Items → Nat → List Val → Prop
  | .nil, _, _ => True
  | .cons _ _ _ _, _, [] => True
  | .cons _ _ p tl, i, vi :: vs =>
    (p.isWild = false → env (mk i).key = some ⟨vi, 1⟩) ∧ ElemsBound env mk tl (i + 1) vs

theorem elemsBound_set (mk : Nat → Name) (k : Key) (x : RV) :
    ∀ (items : Items) (i : Nat) (vs : List Val) (env : Env),
      (∀ j, i ≤ j → (mk j).key ≠ k) → ElemsBound env mk items i vs →
      ElemsBound (env.set k x) mk items i vs
  | .nil, _, _, _, _, _ => trivial
  | .cons _ _ _ _, _, [], _, _, _ => trivial
  | .cons _ _ p tl, i, vi :: vs, env, hk, hb => by
    obtain ⟨h1, h2⟩ := hb
    refine ⟨fun hw => ?_, elemsBound_set mk k x tl (i + 1) vs env (fun j hj => hk j (by omega)) h2⟩
    rw [Env.set_other _ _ (hk i (Nat.le_refl _))]
    exact h1 hw

/-- After `match &V { Path(b0, b1, ..) => body }` the body sees every binder. -/
theorem elemsBound_bind (mk : Nat → Name) (hinj : ∀ a b, (mk a).key = (mk b).key → a = b) :
    ∀ (items : Items) (i : Nat) (vs : List Val) (env : Env),
      ElemsBound (bindElems (elemBinders items i mk) vs env) mk items i vs
  | .nil, _, _, _ => trivial
  | .cons _ _ _ _, _, [], _ => trivial
  | .cons ops key p tl, i, vi :: vs, env => by
    have ih := elemsBound_bind mk hinj tl (i + 1) vs env
    unfold elemBinders
    by_cases hw : p.isWild = true
    · simp only [hw, if_true, bindElems]
      exact ⟨fun h => by simp [hw] at h, ih⟩
    · have hw' : p.isWild = false := by simpa using hw
      simp only [hw', Bool.false_eq_true, if_false, bindElems]
      refine ⟨fun _ => Env.set_same _ _ _, ?_⟩
      exact elemsBound_set mk _ _ tl (i + 1) vs _ (fun j hj h => by
        have := hinj j i h; omega) ih

theorem elem_key_inj : ∀ a b, (Name.elem a).key = (Name.elem b).key → a = b := by
  intro a b h; simpa [Name.key] using h

theorem tupleElem_key_inj : ∀ a b, (Name.tupleElem a).key = (Name.tupleElem b).key → a = b := by
  intro a b h; simpa [Name.key] using h

theorem elemBinders_length (mk : Nat → Name) : ∀ (items : Items) (i : Nat),
    (elemBinders items i mk).length = items.length
  | .nil, _ => rfl
  | .cons _ _ _ tl, i => by simp [elemBinders, Items.length, elemBinders_length mk tl (i + 1)]

/-! ### Field binders of a named struct pattern -/

theorem field_key_eq_field (x : Val) (f g : FieldName)
    (h : (Name.field f).key = (Name.field g).key) : x.field f = x.field g := by
  cases f with
  | ident a =>
    cases g with
    | ident b =>
      have : a.name = b.name := by simpa [Name.key] using h
      unfold Val.field
      cases x.autoDeref <;> simp [this]
    | index n => simp [Name.key] at h
  | index m =>
    cases g with
    | ident b => simp [Name.key] at h
    | index n =>
      have : m = n := by simpa [Name.key] using h
      simp [this]

theorem sameName_iff_key (f g : FieldName) :
    f.sameName g = true ↔ (Name.field f).key = (Name.field g).key := by
  cases f <;> cases g <;> simp [FieldName.sameName, Name.key]

theorem sameName_toString (f g : FieldName) (h : f.sameName g = true) : f.toString = g.toString := by
  cases f <;> cases g <;> simp_all [FieldName.sameName, FieldName.toString]

/-- Every field the pattern destructures is bound to a reference to that field. -/
theorem bindFields_lookup (x : Val) :
    ∀ (fs : List FieldName) (env env' : Env), bindFields x fs env = some env' →
      ∀ f, (∃ g ∈ fs, (Name.field g).key = (Name.field f).key) →
        ∃ w, x.field f = some w ∧ env' (Name.field f).key = some ⟨w, 1⟩ := by
  intro fs
  induction fs with
  | nil => intro env env' _ f ⟨g, hg, _⟩; simp at hg
  | cons f0 fs ih =>
    intro env env' hb f hf
    simp only [bindFields] at hb
    cases hw : x.field f0 with
    | none => simp [hw] at hb
    | some w0 =>
      cases he : bindFields x fs env with
      | none => simp [hw, he] at hb
      | some env1 =>
        simp only [hw, he, Option.some.injEq] at hb
        subst hb
        by_cases hk : (Name.field f0).key = (Name.field f).key
        · refine ⟨w0, ?_, ?_⟩
          · rw [← field_key_eq_field x f0 f hk]; exact hw
          · rw [← hk]; exact Env.set_same _ _ _
        · obtain ⟨g, hg, hgk⟩ := hf
          have hg' : g ∈ fs := by
            rcases List.mem_cons.1 hg with rfl | h
            · exact absurd hgk hk
            · exact h
          obtain ⟨w, h1, h2⟩ := ih env env1 he f ⟨g, hg', hgk⟩
          refine ⟨w, h1, ?_⟩
          rw [Env.set_other _ _ (fun e => hk e.symm)]
          exact h2

/-- If a destructured field does not exist, nothing is bound (rustc: E0026). -/
theorem bindFields_none (x : Val) :
    ∀ (fs : List FieldName) (env : Env), bindFields x fs env = none → ∃ g ∈ fs, x.field g = none := by
  intro fs
  induction fs with
  | nil => intro env h; simp [bindFields] at h
  | cons f0 fs ih =>
    intro env h
    simp only [bindFields] at h
    cases hw : x.field f0 with
    | none => exact ⟨f0, List.mem_cons_self, hw⟩
    | some w0 =>
      cases he : bindFields x fs env with
      | none =>
        obtain ⟨g, hg, hgn⟩ := ih env he
        exact ⟨g, List.mem_cons_of_mem _ hg, hgn⟩
      | some env1 => simp [hw, he] at h

theorem bindFields_some_of_all (x : Val) :
    ∀ (fs : List FieldName) (env : Env), (∀ g ∈ fs, (x.field g).isSome = true) →
      (bindFields x fs env).isSome = true := by
  intro fs
  induction fs with
  | nil => intro env _; simp [bindFields]
  | cons f0 fs ih =>
    intro env h
    have h0 := h f0 List.mem_cons_self
    have h1 := ih env (fun g hg => h g (List.mem_cons_of_mem _ hg))
    cases hw : x.field f0 with
    | none => simp [hw] at h0
    | some w0 =>
      cases he : bindFields x fs env with
      | none => simp [he] at h1
      | some env1 => simp [bindFields, hw, he]

/-- `dedupNames` keeps a representative (same name) of every field, and nothing else. -/
theorem dedupNames_mem (l : List FieldName) :
    ∀ (seen : List FieldName) (f : FieldName), f ∈ l →
      (∃ g ∈ dedupNames l seen, f.sameName g = true) ∨ (∃ g ∈ seen, f.sameName g = true) := by
  induction l with
  | nil => intro seen f h; simp at h
  | cons a l ih =>
    intro seen f hf
    unfold dedupNames
    by_cases hs : seen.any (FieldName.sameName a) = true
    · simp only [hs, if_true]
      rcases List.mem_cons.1 hf with rfl | h
      · right
        obtain ⟨g, hg, hsg⟩ := List.any_eq_true.1 hs
        exact ⟨g, hg, hsg⟩
      · exact ih seen f h
    · simp only [hs, Bool.false_eq_true, if_false]
      rcases List.mem_cons.1 hf with rfl | h
      · left; exact ⟨f, List.mem_cons_self, by cases f <;> simp [FieldName.sameName]⟩
      · rcases ih (a :: seen) f h with ⟨g, hg, hsg⟩ | ⟨g, hg, hsg⟩
        · left; exact ⟨g, List.mem_cons_of_mem _ hg, hsg⟩
        · rcases List.mem_cons.1 hg with rfl | hg'
          · left; exact ⟨g, List.mem_cons_self, hsg⟩
          · right; exact ⟨g, hg', hsg⟩

theorem dedupNames_subset (l : List FieldName) :
    ∀ (seen : List FieldName) (g : FieldName), g ∈ dedupNames l seen → g ∈ l := by
  induction l with
  | nil => intro seen g h; simp [dedupNames] at h
  | cons a l ih =>
    intro seen g hg
    unfold dedupNames at hg
    split at hg
    · exact List.mem_cons_of_mem _ (ih seen g hg)
    · rcases List.mem_cons.1 hg with rfl | h
      · exact List.mem_cons_self
      · exact List.mem_cons_of_mem _ (ih _ g h)

theorem allListed_dedup (names : List String) (l : List FieldName) :
    allListed names (dedupNames l []) = names.all fun n => l.any fun f => f.toString == n := by
  unfold allListed
  congr 1
  funext n
  apply Bool.eq_iff_iff.2
  simp only [List.any_eq_true, beq_iff_eq]
  constructor
  · rintro ⟨g, hg, he⟩; exact ⟨g, dedupNames_subset l [] g hg, he⟩
  · rintro ⟨f, hf, he⟩
    rcases dedupNames_mem l [] f hf with ⟨g, hg, hsg⟩ | ⟨g, hg, _⟩
    · exact ⟨g, hg, by rw [← sameName_toString f g hsg]; exact he⟩
    · simp at hg

/-! ### Element binders of a slice pattern -/

/-- Mirrors the alignment of the specification: elements before `..` from the front,
elements after it from the back. -/
def SliceBound (env : Env) : Items → Nat → List Val → Prop
  | .nil, _, _ => True
  | .cons _ _ p tl, i, vs =>
    if p.isSliceRest then SliceBound env tl (i + 1) (vs.drop (vs.length - tl.length))
    else match vs with
      | [] => True
      | vi :: vs' =>
        (p.isWild = false → env (Key.elem i) = some ⟨vi, 1⟩) ∧ SliceBound env tl (i + 1) vs'

theorem sliceParts_length : ∀ (items : Items) (i : Nat), (sliceParts items i).length = items.length
  | .nil, _ => rfl
  | .cons _ _ _ tl, i => by simp [sliceParts, Items.length, sliceParts_length tl (i + 1)]

theorem sliceBound_set (k : Key) (x : RV) :
    ∀ (items : Items) (i : Nat) (vs : List Val) (env : Env),
      (∀ j, i ≤ j → Key.elem j ≠ k) → SliceBound env items i vs →
      SliceBound (env.set k x) items i vs
  | .nil, _, _, _, _, _ => trivial
  | .cons _ _ p tl, i, vs, env, hk, hb => by
    unfold SliceBound at hb ⊢
    by_cases hr : p.isSliceRest = true
    · simp only [hr, if_true] at hb ⊢
      exact sliceBound_set k x tl (i + 1) _ env (fun j hj => hk j (by omega)) hb
    · simp only [hr, Bool.false_eq_true, if_false] at hb ⊢
      cases vs with
      | nil => trivial
      | cons vi vs' =>
        obtain ⟨h1, h2⟩ := hb
        refine ⟨fun hw => ?_, sliceBound_set k x tl (i + 1) vs' env (fun j hj => hk j (by omega)) h2⟩
        rw [Env.set_other _ _ (hk i (Nat.le_refl _))]
        exact h1 hw

theorem sliceBound_bind : ∀ (items : Items) (i : Nat) (vs : List Val) (env : Env),
    SliceBound (bindSlice (sliceParts items i) vs env) items i vs
  | .nil, _, _, _ => trivial
  | .cons ops key p tl, i, vs, env => by
    unfold SliceBound sliceParts
    by_cases hr : p.isSliceRest = true
    · simp only [hr, if_true, bindSlice, Binder.isRest, sliceParts_length]
      exact sliceBound_bind tl (i + 1) _ env
    · have hr' : p.isSliceRest = false := by simpa using hr
      simp only [hr', Bool.false_eq_true, if_false]
      by_cases hw : p.isWild = true
      · simp only [hw, if_true, bindSlice, Binder.isRest, Bool.false_eq_true, if_false]
        cases vs with
        | nil => trivial
        | cons vi vs' => exact ⟨fun h => by simp [hw] at h, sliceBound_bind tl (i + 1) vs' env⟩
      · have hw' : p.isWild = false := by simpa using hw
        simp only [hw', Bool.false_eq_true, if_false, bindSlice, Binder.isRest]
        cases vs with
        | nil => trivial
        | cons vi vs' =>
          refine ⟨fun _ => by simp [Name.key], ?_⟩
          exact sliceBound_set _ _ tl (i + 1) vs' _ (fun j hj h => by
            have : j = i := by simpa [Name.key] using h
            omega) (sliceBound_bind tl (i + 1) vs' env)

theorem sliceParts_countRest : ∀ (items : Items) (i : Nat),
    (sliceParts items i).countP Binder.isRest = items.countRest
  | .nil, _ => rfl
  | .cons _ _ p tl, i => by
    unfold sliceParts Items.countRest
    by_cases hr : p.isSliceRest = true
    · simp only [hr, if_true]
      rw [List.countP_cons_of_pos (by rfl), sliceParts_countRest tl (i + 1), Nat.add_comm]
    · have hr' : p.isSliceRest = false := by simpa using hr
      by_cases hw : p.isWild = true <;>
        simp [hr', hw, Binder.isRest, sliceParts_countRest tl (i + 1)]

end AsModel
