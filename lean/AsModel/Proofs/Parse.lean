import AsModel.Parse
import AsModel.Theorems.C13
/-
A small Hoare logic for the parser monad `P`, and the first use of it: every field-operation
chain the parser model produces has the shape the code generator relies on.
-/
namespace AsModel

/-- Postcondition on successful results. -/
structure P.sat {α} (p : P α) (Q : α → Prop) : Prop where
  h : ∀ c s a c' s', p c s = .ok a c' s' → Q a

theorem sat_pure {α} (a : α) (Q : α → Prop) (h : Q a) : (pure a : P α).sat Q := by
  refine ⟨?_⟩
  intro c s a' c' s' he
  simp only [pure, P.pure] at he
  cases he; exact h

theorem sat_bind {α β} (p : P α) (f : α → P β) (Q1 : α → Prop) (Q2 : β → Prop)
    (hp : p.sat Q1) (hf : ∀ a, Q1 a → (f a).sat Q2) : (p >>= f).sat Q2 := by
  refine ⟨?_⟩
  intro c s b c' s' he
  simp only [bind, P.bind] at he
  cases hpc : p c s with
  | ok a c1 s1 => rw [hpc] at he; exact (hf a (hp.h c s a c1 s1 hpc)).h c1 s1 b c' s' he
  | err n => rw [hpc] at he; cases he
  | fuel => rw [hpc] at he; cases he

theorem sat_fail {α} (Q : α → Prop) : (fail : P α).sat Q := by
  refine ⟨?_⟩; intro c s a c' s' he; cases he

theorem sat_outOfFuel {α} (Q : α → Prop) : (outOfFuel : P α).sat Q := by
  refine ⟨?_⟩; intro c s a c' s' he; cases he

theorem sat_true {α} (p : P α) : p.sat (fun _ => True) := by
  refine ⟨?_⟩; intro c s a c' s' _; trivial

theorem sat_weaken {α} (p : P α) (Q1 Q2 : α → Prop) (h : p.sat Q1) (hq : ∀ a, Q1 a → Q2 a) : p.sat Q2 := by
  refine ⟨?_⟩; intro c s a c' s' he; exact hq a (h.h c s a c' s' he)

theorem sat_ite {α} (b : Bool) (p q : P α) (Q : α → Prop) (hp : p.sat Q) (hq : q.sat Q) :
    (if b then p else q).sat Q := by
  cases b <;> simp [hp, hq]

theorem sat_withGroup {α} (d : Delim) (inner : Sp → Sp → P α) (Q : α → Prop)
    (h : ∀ a b, (inner a b).sat Q) : (withGroup d inner).sat Q := by
  refine ⟨?_⟩
  intro c s a c' s' he
  unfold withGroup at he
  split at he
  · split at he
    · (try simp only at he)
      split at he
      · rename_i hin
        cases he
        exact (h _ _).h _ _ _ _ _ hin
      · cases he
      · cases he
    · cases he
  · cases he

/-- `fun c s => p c s` style lambdas over the cursor. -/
theorem sat_getCur (Q : Cur → Prop) (h : ∀ c, Q c) : getCur.sat Q := by
  refine ⟨?_⟩
  intro c s a c' s' he
  simp only [getCur] at he
  cases he; exact h _

end AsModel

namespace AsModel

theorem sat_ite' {α} (c : Prop) [Decidable c] (p q : P α) (Q : α → Prop) (hp : p.sat Q) (hq : q.sat Q) :
    (if c then p else q).sat Q := by
  split <;> assumption

/-- `bind` when nothing is needed from the first action. -/
theorem sat_bind' {α β} (p : P α) (f : α → P β) (Q : β → Prop) (hf : ∀ a, (f a).sat Q) : (p >>= f).sat Q :=
  sat_bind p f (fun _ => True) Q (sat_true p) (fun a _ => hf a)

theorem tupleIndex_lt {d : String} {n : Nat} (h : tupleIndex? d = some n) : n < 4294967295 := by
  unfold tupleIndex? at h
  split at h
  · split at h
    · cases h; assumption
    · cases h
  · cases h

def opsOk (l : List FieldOp) : Prop := ∀ x ∈ l, x.indexTooLarge = false

theorem unnamed_ok {n : Nat} (sp : Sp) (h : n < 4294967295) : (FieldOp.unnamed n sp).indexTooLarge = false := by
  simp [FieldOp.indexTooLarge]; omega

theorem parseOneOp_sat (o : Oracle) (fuel : Nat) : (parseOneOp o fuel).sat opsOk := by
  unfold parseOneOp
  apply sat_bind'; intro c
  apply sat_ite'
  · apply sat_bind'; intro dotSp
    apply sat_bind'; intro c1
    split
    · apply sat_bind'; intro _
      apply sat_pure; intro x hx; simp at hx; subst hx; rfl
    · split
      · rename_i n hn
        apply sat_bind'; intro _
        apply sat_pure; intro x hx; simp at hx; subst hx; exact unnamed_ok _ (tupleIndex_lt hn)
      · exact sat_fail _
    · split
      · split
        · rename_i x y hx hy
          apply sat_ite'
          · apply sat_bind'; intro _
            apply sat_pure; intro z hz; simp at hz
            rcases hz with hz | hz
            · subst hz; exact unnamed_ok _ (tupleIndex_lt hx)
            · subst hz; exact unnamed_ok _ (tupleIndex_lt hy)
          · exact sat_fail _
        · exact sat_fail _
      · exact sat_fail _
    · apply sat_bind'; intro name
      apply sat_bind'; intro c2
      apply sat_ite'
      · apply sat_bind'; intro args
        apply sat_pure; intro z hz; simp at hz; subst hz; rfl
      · apply sat_pure; intro z hz; simp at hz; subst hz; rfl
  · apply sat_ite'
    · apply sat_withGroup; intro so sc
      apply sat_bind'; intro e
      apply sat_pure; intro z hz; simp at hz; subst hz; rfl
    · exact sat_fail _

/-- The shape test of `FieldOps.parserShaped`, on the operation list. -/
def shapedList (l : List FieldOp) : Prop :=
  (match l with
    | .deref _ _ :: op :: _ => op.isField
    | op :: _ => op.isField
    | [] => false) = true ∧ opsOk l

theorem shapedList_append {l m : List FieldOp} (hl : shapedList l) (hm : opsOk m) : shapedList (l ++ m) := by
  obtain ⟨h1, h2⟩ := hl
  refine ⟨?_, ?_⟩
  · match l, h1 with
    | .deref _ _ :: op :: rest, h1 => simpa using h1
    | [.deref _ _], h1 => simp [FieldOp.isField] at h1
    | .named .. :: rest, h1 => simp [FieldOp.isField]
    | .unnamed .. :: rest, h1 => simp [FieldOp.isField]
    | .method .. :: rest, h1 => simp [FieldOp.isField] at h1
    | .await .. :: rest, h1 => simp [FieldOp.isField] at h1
    | .index .. :: rest, h1 => simp [FieldOp.isField] at h1
  · intro x hx
    rcases List.mem_append.mp hx with h | h
    · exact h2 x h
    · exact hm x h

theorem parseOpsLoop_sat (o : Oracle) : ∀ (fuel : Nat) (acc : List FieldOp), shapedList acc →
    (parseOpsLoop o fuel acc).sat shapedList
  | 0, _, _ => by unfold parseOpsLoop; exact sat_outOfFuel _
  | fuel + 1, acc, hacc => by
    unfold parseOpsLoop
    apply sat_bind'; intro c
    apply sat_ite'
    · refine sat_bind _ _ opsOk _ (parseOneOp_sat o fuel) ?_
      intro ops hops
      exact parseOpsLoop_sat o fuel (acc ++ ops) (shapedList_append hacc hops)
    · exact sat_pure _ _ hacc

theorem parseFieldName_sat : parseFieldName.sat (fun n => match n with | .index i => i < 4294967295 | .ident _ => True) := by
  refine ⟨?_⟩
  intro c s a c' s' he
  unfold parseFieldName at he
  split at he
  · split at he
    · rename_i n hn
      cases he; exact tupleIndex_lt hn
    · cases he
  · split at he
    · cases he
    · cases he; trivial
  · cases he

theorem shaped_of_list (f : FieldOps) (h : shapedList f.ops) : f.parserShaped = true := by
  obtain ⟨h1, h2⟩ := h
  unfold FieldOps.parserShaped
  rw [Bool.and_eq_true]
  refine ⟨h1, ?_⟩
  simp only [Bool.not_eq_eq_eq_not, Bool.not_true, List.any_eq_false]
  intro x hx; simp [h2 x hx]

/-- **Every field-operation chain the parser produces has the shape the code generator relies on.** -/
theorem parseFieldOps_sat (o : Oracle) (fuel : Nat) : (parseFieldOps o fuel).sat (fun f => f.parserShaped = true) := by
  unfold parseFieldOps
  apply sat_bind'; intro c
  apply sat_bind'; intro _
  refine sat_bind _ _ _ _ parseFieldName_sat ?_
  intro name hname
  refine sat_bind _ _ shapedList _ ?_ ?_
  · apply parseOpsLoop_sat
    refine ⟨?_, ?_⟩
    · cases name <;> by_cases hs : countStars c.rest > 0 <;> simp [hs, FieldOp.isField]
    · intro x hx
      have hfield : (match name with | .ident i => FieldOp.named i c.span | .index n => FieldOp.unnamed n c.span).indexTooLarge = false := by
        cases name with
        | ident i => rfl
        | index n => exact unnamed_ok _ hname
      rcases List.mem_append.mp hx with h | h
      · by_cases hs : countStars c.rest > 0
        · simp [hs] at h; subst h; rfl
        · simp [hs] at h
      · simp at h; subst h; exact hfield
  · intro ops hops
    apply sat_pure
    exact shaped_of_list ⟨ops, _⟩ hops

end AsModel
