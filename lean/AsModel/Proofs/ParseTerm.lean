import AsModel.ParseIO
/-
Termination of the parser model: with a recursion budget of twice the number of tokens (groups
counted with their content) plus a constant, no parser runs out of fuel — for every oracle, also
one that claims expressions of zero tokens.  Loops advance by at least one token per iteration
(a `,`, `:`, `.` or bracket they insist on), nested parsers work on the content of a group.
-/
namespace AsModel

variable {α β : Type}

/-- Number of tokens, groups counted with their content. -/
local notation "mu" => ttCount

theorem mu_cons (t : TT) (ts : List TT) : mu (t :: ts) = ttCount1 t + mu ts := by
  simp [ttCount]

theorem mu1_pos (t : TT) : 1 ≤ ttCount1 t := by
  cases t <;> simp [ttCount1]

theorem mu_drop_le : ∀ (k : Nat) (l : List TT), mu (l.drop k) ≤ mu l
  | 0, l => by simp
  | k + 1, [] => by simp
  | k + 1, t :: ts => by
    simp only [List.drop_succ_cons, mu_cons]
    have := mu_drop_le k ts
    omega

theorem mu_advance_le (c : Cur) (k : Nat) : mu (c.advance k).rest ≤ mu c.rest := mu_drop_le k c.rest

/-- `p` does not run out of fuel from `(c, s)`, and `Q` holds of what it returns. -/
structure P.term (p : P α) (c : Cur) (s : PSt) (Q : α → Cur → PSt → Prop) : Prop where
  live : p c s ≠ .fuel
  ok : ∀ a c' s', p c s = .ok a c' s' → Q a c' s'

theorem term_pure (a : α) (c : Cur) (s : PSt) (Q : α → Cur → PSt → Prop) (h : Q a c s) : (pure a : P α).term c s Q :=
  ⟨(by simp [pure, P.pure]), (by intro a' c' s' he; simp only [pure, P.pure] at he; cases he; exact h)⟩

theorem term_bind (p : P α) (f : α → P β) (c : Cur) (s : PSt) (Q1 : α → Cur → PSt → Prop) (Q2 : β → Cur → PSt → Prop)
    (hp : p.term c s Q1) (hf : ∀ a c' s', Q1 a c' s' → (f a).term c' s' Q2) : (p >>= f).term c s Q2 := by
  refine ⟨?_, ?_⟩
  · simp only [bind, P.bind]
    cases hpc : p c s with
    | ok a c1 s1 => exact (hf a c1 s1 (hp.ok a c1 s1 hpc)).live
    | err n => simp
    | fuel => exact absurd hpc hp.live
  · intro b c'' s'' he
    simp only [bind, P.bind] at he
    cases hpc : p c s with
    | ok a c1 s1 => rw [hpc] at he; exact (hf a c1 s1 (hp.ok a c1 s1 hpc)).ok b c'' s'' he
    | err n => rw [hpc] at he; cases he
    | fuel => rw [hpc] at he; cases he

theorem term_fail (c : Cur) (s : PSt) (Q : α → Cur → PSt → Prop) : (fail : P α).term c s Q :=
  ⟨(by simp [fail]), (by intro a c' s' he; cases he)⟩

theorem term_ite (b : Prop) [Decidable b] (p q : P α) (c : Cur) (s : PSt) (Q : α → Cur → PSt → Prop)
    (hp : b → p.term c s Q) (hq : ¬b → q.term c s Q) : (if b then p else q).term c s Q := by
  split
  · exact hp ‹_›
  · exact hq ‹_›

theorem term_weaken (p : P α) (c : Cur) (s : PSt) (Q1 Q2 : α → Cur → PSt → Prop)
    (h : p.term c s Q1) (hq : ∀ a c' s', Q1 a c' s' → Q2 a c' s') : p.term c s Q2 :=
  ⟨h.live, fun a c' s' h' => hq _ _ _ (h.ok a c' s' h')⟩

theorem term_getCur (f : Cur → P β) (c : Cur) (s : PSt) (Q : β → Cur → PSt → Prop) (h : (f c).term c s Q) :
    (getCur >>= f).term c s Q :=
  term_bind _ _ _ _ (fun a c' s' => a = c ∧ c' = c ∧ s' = s) _
    ⟨(by simp [getCur]), (by intro a c' s' he; simp only [getCur] at he; cases he; exact ⟨rfl, rfl, rfl⟩)⟩
    (by intro a c' s' ⟨h1, h2, h3⟩; subst h1 h2 h3; exact h)

theorem term_advance (n : Nat) (f : Unit → P β) (c : Cur) (s : PSt) (Q : β → Cur → PSt → Prop)
    (h : (f ()).term (c.advance n) s Q) : (advance n >>= f).term c s Q :=
  term_bind _ _ _ _ (fun _ c' s' => c' = c.advance n ∧ s' = s) _
    ⟨(by simp [advance]), (by intro a c' s' he; simp only [advance] at he; cases he; exact ⟨rfl, rfl⟩)⟩
    (by intro a c' s' ⟨h2, h3⟩; subst h2 h3; exact h)

theorem term_nextId (f : Nat → P β) (c : Cur) (s : PSt) (Q : β → Cur → PSt → Prop)
    (h : ∀ s', (f s.ctr).term c s' Q) : (nextId >>= f).term c s Q :=
  term_bind _ _ _ _ (fun a c' _ => a = s.ctr ∧ c' = c) _
    ⟨(by simp [nextId]), (by intro a c' s' he; simp only [nextId] at he; cases he; exact ⟨rfl, rfl⟩)⟩
    (by intro a c' s' ⟨h1, h2⟩; subst h1 h2; exact h s')

/-- Consuming one punctuation character: strictly fewer tokens remain. -/
theorem term_punct1 (ch : Char) (c : Cur) (s : PSt) :
    (punct1 ch).term c s (fun _ c' _ => mu c'.rest + 1 ≤ mu c.rest) := by
  refine ⟨?_, ?_⟩
  · unfold punct1; split
    · split <;> simp
    · simp
  · intro sp c' s' he
    unfold punct1 at he
    split at he
    · rename_i hr
      split at he
      · cases he
        simp only [Cur.advance, hr, List.drop_succ_cons, List.drop_zero, mu_cons, ttCount1]
        omega
      · cases he
    · cases he

theorem term_punct2 (a b : Char) (c : Cur) (s : PSt) :
    (punct2 a b).term c s (fun _ c' _ => mu c'.rest + 1 ≤ mu c.rest) := by
  refine ⟨?_, ?_⟩
  · unfold punct2; split
    · split <;> simp
    · simp
  · intro sp c' s' he
    unfold punct2 at he
    split at he
    · rename_i hr
      split at he
      · cases he
        simp only [Cur.advance, hr, List.drop_succ_cons, List.drop_zero, mu_cons, ttCount1]
        omega
      · cases he
    · cases he

theorem term_oracleExpr (o : Oracle) (c : Cur) (s : PSt) :
    (oracleExpr o).term c s (fun _ c' _ => mu c'.rest ≤ mu c.rest) := by
  refine ⟨?_, ?_⟩
  · unfold oracleExpr; split <;> simp
  · intro e c' s' he
    unfold oracleExpr at he
    split at he
    · cases he; exact mu_advance_le c _
    · cases he

theorem term_oraclePath (o : Oracle) (c : Cur) (s : PSt) :
    (oraclePath o).term c s (fun _ c' _ => mu c'.rest ≤ mu c.rest) := by
  refine ⟨?_, ?_⟩
  · unfold oraclePath; split <;> simp
  · intro e c' s' he
    unfold oraclePath at he
    split at he
    · cases he; exact mu_advance_le c _
    · cases he

theorem term_anyIdent (c : Cur) (s : PSt) : anyIdent.term c s (fun _ c' _ => mu c'.rest ≤ mu c.rest) := by
  refine ⟨?_, ?_⟩
  · unfold anyIdent; split
    · split <;> simp
    · simp
  · intro e c' s' he
    unfold anyIdent at he
    split at he
    · split at he
      · cases he
      · cases he; exact mu_advance_le c _
    · cases he

theorem term_parseFieldName (c : Cur) (s : PSt) : parseFieldName.term c s (fun _ c' _ => mu c'.rest ≤ mu c.rest) := by
  refine ⟨?_, ?_⟩
  · unfold parseFieldName; split
    · split <;> simp
    · split <;> simp
    · simp
  · intro e c' s' he
    unfold parseFieldName at he
    split at he
    · split at he
      · cases he; exact mu_advance_le c _
      · cases he
    · split at he
      · cases he
      · cases he; exact mu_advance_le c _
    · cases he

/-- Entering a group: the content is smaller than what remains here, and one token is consumed. -/
theorem term_withGroup (d : Delim) (inner : Sp → Sp → P α) (c : Cur) (s : PSt)
    (h : ∀ so sc ic, mu ic.rest + 1 ≤ mu c.rest → (inner so sc).term ic s (fun _ _ _ => True)) :
    (withGroup d inner).term c s (fun _ c' _ => mu c'.rest + 1 ≤ mu c.rest) := by
  have key : ∀ d' sp so sc ts rest, c.rest = .group d' sp so sc ts :: rest → mu (c.inner ts sc).rest + 1 ≤ mu c.rest := by
    intro d' sp so sc ts rest hr
    simp only [Cur.inner, hr, mu_cons, ttCount1]
    omega
  refine ⟨?_, ?_⟩
  · unfold withGroup
    split
    · rename_i d' sp so sc ts rest hr
      split
      · have hl := (h so sc (c.inner ts sc) (key d' sp so sc ts rest hr)).live
        cases hin : inner so sc (c.inner ts sc) s with
        | ok a c1 s1 => simp
        | err n => simp
        | fuel => exact absurd hin hl
      · simp
    · simp
  · intro a c' s' he
    unfold withGroup at he
    split at he
    · rename_i d' sp so sc ts rest hr
      split at he
      · split at he
        · cases he
          simp only [Cur.advance, hr, List.drop_succ_cons, List.drop_zero, mu_cons]
          have := mu1_pos (.group d' sp so sc ts)
          omega
        · cases he
        · cases he
      · cases he
    · cases he

theorem term_fork (p : P α) (c : Cur) (s : PSt) (h : p.term c s (fun _ _ _ => True)) :
    (fork p).term c s (fun _ c' _ => c' = c) := by
  refine ⟨?_, ?_⟩
  · unfold fork
    cases hp : p c s with
    | ok a c1 s1 => simp
    | err n => simp
    | fuel => exact absurd hp h.live
  · intro a c' s' he
    unfold fork at he
    split at he
    · cases he; rfl
    · cases he; rfl
    · cases he

end AsModel
